/-
  C15 — Protection password hashes verify per ECMA-376; no clear-text password.

  Property theorems only (helper lemmas: `Umya/Lemmas/PwHash.lean`).  Everything is relative to
  the abstract primitives `P : Prims` (SHA-512, base64): they are NOT proved; the laws used are
  explicit hypotheses (`P.unb64 (P.b64 x) = some x`, base64 text is XML-safe).

  Model: `Umya/Model/PwHash.lean` (the code of crypt.rs / sheet_protection.rs /
  workbook_protection.rs as it stands; the random salt is a parameter).
  Spec:  `Umya/Spec/PwHash.lean` (ECMA-376 Part 1 §18.2.29 / §18.3.1.85, written from the standard).

  Not provable here and explored by the harness only (labelled partial): freshness of the salt
  (`getrandom`), and textual absence of the clear password from the saved zip.
-/
import Umya.Lemmas.PwHash
namespace Umya.Thm.C15
open Umya.Crypto Umya.PwHash Umya.Dec

/-- the three protection kinds and the state they live in -/
inductive Kind | sheet | workbook | revisions
  deriving DecidableEq, Repr

structure Book where
  sheet : SheetProtection
  wb : WorkbookProtection

def setPassword (P : Prims) (k : Kind) (pw : List Char) (salt : Bytes) (b : Book) : Book :=
  match k with
  | .sheet => { b with sheet := setSheetPassword P pw salt b.sheet }
  | .workbook => { b with wb := setWorkbookPassword P pw salt b.wb }
  | .revisions => { b with wb := setRevisionsPassword P pw salt b.wb }

def fieldsOf (k : Kind) (b : Book) : PwFields :=
  match k with
  | .sheet => b.sheet.pw
  | .workbook => b.wb.workbook
  | .revisions => b.wb.revisions

def namesOf : Kind → Names
  | .sheet => sheetNames
  | .workbook => workbookNames
  | .revisions => revisionsNames

/-- attributes of the XML element that carries kind `k` (`sheetProtection` / `workbookProtection`) -/
def elementOf (k : Kind) (b : Book) : List Attr :=
  match k with
  | .sheet => writeSheet b.sheet
  | _ => writeWorkbook b.wb

def writeBook (b : Book) : List Attr × List Attr := (writeSheet b.sheet, writeWorkbook b.wb)

def readBook (x : List Attr × List Attr) : Option Book :=
  match readSheet x.1, readWorkbook x.2 with
  | some s, some w => some ⟨s, w⟩
  | _, _ => none

/-- what an ECMA-376 consumer reads from the four attributes of one kind -/
def storedOf (f : PwFields) : Option Umya.Spec.PwHash.Stored :=
  match f.algorithmName, f.saltValue, f.spinCount, f.hashValue with
  | some a, some s, some n, some h => some ⟨a, s, n, h⟩
  | _, _, _, _ => none

/-- base64 text needs no XML escaping (law of the real base64 alphabet; hypothesis on `P`) -/
def B64Safe (P : Prims) : Prop := ∀ x, (P.b64 x).all xmlSafe = true

theorem fieldsOf_set (P : Prims) (k : Kind) (pw : List Char) (salt : Bytes) (b : Book) :
    fieldsOf k (setPassword P k pw salt b) = setPasswordFields P pw salt (fieldsOf k b) := by
  cases k <;> rfl

/-- **The stored hash is the ECMA-376 hash**: for every password, salt and spin count, the bytes
    `convert_password_to_hash` returns are `H_spin` of the standard's iteration
    (`H₀ = H(salt ‖ UTF-16LE pw)`, `Hₙ = H(Hₙ₋₁ ‖ LE32(n-1))`).  Induction on the spin count
    (inside `spinLoop_eq_spinUp` / `spinUp_eq_foldl`). -/
theorem C15_hash (P : Prims) (pw : List Char) (salt : Bytes) (spin : Nat) :
    convertPasswordToHash P pw salt spin = Umya.Spec.PwHash.pwHash P.sha512 salt pw spin := by
  unfold convertPasswordToHash Umya.Spec.PwHash.pwHash
  rw [spinLoop_eq_spinUp, spinUp_eq_foldl, utf16le_eq]
  congr 1
  funext h i
  rw [le32_eq_leBytes]

/-- non-vacuity / the orders differ: with a toy hash that exposes its input, hashing
    `key ‖ counter` (protection hash) and `counter ‖ key` (file-encryption KDF) are different -/
example : convertPasswordToHash ⟨id, fun _ _ m => m, fun _ _ m => m, fun _ m => m, fun _ => [], fun _ => none⟩
    ['a'] [7] 2 = [7, 97, 0, 0, 0, 0, 0, 1, 0, 0, 0] := by decide

/-- **After any of the three setters, the stored attributes verify under the standard's algorithm
    with the same password** (all passwords, salts, prior states, all three kinds). -/
theorem C15_verifies (P : Prims) (hP : ∀ x, P.unb64 (P.b64 x) = some x)
    (k : Kind) (pw : List Char) (salt : Bytes) (b : Book) :
    ∃ st, storedOf (fieldsOf k (setPassword P k pw salt b)) = some st ∧
      st.algorithmName = ['S', 'H', 'A', '-', '5', '1', '2'] ∧ st.spinCount = 100000 ∧ st.saltValue = P.b64 salt ∧
      Umya.Spec.PwHash.verifies P.sha512 P.b64 P.unb64 st pw = true := by
  rw [fieldsOf_set]
  refine ⟨⟨algName, P.b64 salt, 100000, P.b64 (convertPasswordToHash P pw salt 100000)⟩, rfl, rfl, rfl, rfl, ?_⟩
  simp [Umya.Spec.PwHash.verifies, hP, C15_hash, algName]

/-- **Any other password fails**, under the explicit hypothesis that its iterated digest differs
    (collision-freedom of SHA-512 is not provable; it is this hypothesis). -/
theorem C15_other_fails (P : Prims) (hP : ∀ x, P.unb64 (P.b64 x) = some x)
    (k : Kind) (pw pw' : List Char) (salt : Bytes) (b : Book)
    (h : Umya.Spec.PwHash.pwHash P.sha512 salt pw' 100000 ≠ Umya.Spec.PwHash.pwHash P.sha512 salt pw 100000) :
    ∀ st, storedOf (fieldsOf k (setPassword P k pw salt b)) = some st →
      Umya.Spec.PwHash.verifies P.sha512 P.b64 P.unb64 st pw' = false := by
  intro st hst
  rw [fieldsOf_set] at hst
  have : st = ⟨algName, P.b64 salt, 100000, P.b64 (convertPasswordToHash P pw salt 100000)⟩ := by
    simp only [storedOf, setPasswordFields, spinCountConst] at hst
    injection hst with hst
    exact hst.symm
  subst this
  have hinj : P.b64 (Umya.Spec.PwHash.pwHash P.sha512 salt pw' 100000) ≠
      P.b64 (Umya.Spec.PwHash.pwHash P.sha512 salt pw 100000) := by
    intro he
    have := congrArg P.unb64 he
    rw [hP, hP] at this
    exact h (Option.some.inj this)
  simp [Umya.Spec.PwHash.verifies, hP, C15_hash, hinj]

/-- hypotheses of `C15_other_fails` are satisfiable: a toy injective "hash" and identity-like base64 -/
example : ∃ (P : Prims), (∀ x, P.unb64 (P.b64 x) = some x) ∧
    Umya.Spec.PwHash.pwHash P.sha512 [1] ['b'] 3 ≠ Umya.Spec.PwHash.pwHash P.sha512 [1] ['a'] 3 := by
  refine ⟨⟨id, fun _ _ m => m, fun _ _ m => m, fun _ m => m,
    fun x => x.map (fun b => Char.ofNat b.toNat), fun s => some (s.map (fun c => UInt8.ofNat c.toNat))⟩, ?_, ?_⟩
  rotate_left
  · have h1 : Umya.Spec.PwHash.pwHash id [1] ['b'] 3 = [1, 98, 0, 0, 0, 0, 0, 1, 0, 0, 0, 2, 0, 0, 0] := by
      simp [Umya.Spec.PwHash.pwHash, Umya.Spec.PwHash.utf16le, Umya.Spec.PwHash.leBytes, List.range, List.range.loop]
    have h2 : Umya.Spec.PwHash.pwHash id [1] ['a'] 3 = [1, 97, 0, 0, 0, 0, 0, 1, 0, 0, 0, 2, 0, 0, 0] := by
      simp [Umya.Spec.PwHash.pwHash, Umya.Spec.PwHash.utf16le, Umya.Spec.PwHash.leBytes, List.range, List.range.loop]
    show Umya.Spec.PwHash.pwHash id [1] ['b'] 3 ≠ Umya.Spec.PwHash.pwHash id [1] ['a'] 3
    rw [h1, h2]; decide
  intro x
  simp only [List.map_map, Option.some.injEq]
  conv => rhs; rw [← List.map_id x]
  apply List.map_congr_left
  intro b _
  have : ∀ b : Fin 256, UInt8.ofNat (Char.ofNat b.val).toNat = UInt8.ofNat b.val := by decide +kernel
  have h2 := this ⟨b.toNat, b.toNat_lt⟩
  simp only [Function.comp, id] at h2 ⊢
  rw [h2]
  exact UInt8.ofNat_toNat

/-- **No clear password, no legacy attribute**: after a setter
    (1) the legacy 16-bit hash field of that kind is empty (whatever it was before),
    (2) the element written for that kind has no `password` / `workbookPassword` / `revisionsPassword`
        attribute,
    (3) the whole resulting state depends on the password only through the iterated digest
        (non-interference: two passwords with the same digest give the same state — nothing but the
        digest is kept). -/
theorem C15_no_clear (P : Prims) (k : Kind) (pw : List Char) (salt : Bytes) (b : Book) :
    (fieldsOf k (setPassword P k pw salt b)).password = none ∧
    (∀ a ∈ elementOf k (setPassword P k pw salt b), a.1 ≠ (namesOf k).password) ∧
    (∀ pw', convertPasswordToHash P pw' salt 100000 = convertPasswordToHash P pw salt 100000 →
      setPassword P k pw' salt b = setPassword P k pw salt b) := by
  refine ⟨by rw [fieldsOf_set]; rfl, ?_, ?_⟩
  · intro a ha
    cases k with
    | sheet =>
      have := writeFields_names _ _ a ha
      simp only [setPassword, setSheetPassword, setPasswordFields] at this
      intro hc
      simp [namesOf, hc] at this
    | workbook =>
      simp only [elementOf, writeWorkbook, List.mem_append] at ha
      intro hc
      rcases ha with ha | ha
      · have := writeFields_names _ _ a ha
        simp only [setPassword, setWorkbookPassword, setPasswordFields] at this
        simp [namesOf, hc] at this
      · have := writeFields_names _ _ a ha
        simp [namesOf, hc] at this
    | revisions =>
      simp only [elementOf, writeWorkbook, List.mem_append] at ha
      intro hc
      rcases ha with ha | ha
      · have := writeFields_names _ _ a ha
        simp [namesOf, hc] at this
      · have := writeFields_names _ _ a ha
        simp only [setPassword, setRevisionsPassword, setPasswordFields] at this
        simp [namesOf, hc] at this
  · intro pw' h
    cases k <;>
      simp [setPassword, setSheetPassword, setWorkbookPassword, setRevisionsPassword, setPasswordFields,
        spinCountConst, h]

/-- the legacy attribute really was there before in this instance, and is gone afterwards -/
example : let b : Book := ⟨⟨⟨none, none, none, none, some "CC1A".toList⟩⟩, ⟨PwFields.empty, PwFields.empty⟩⟩
    (fieldsOf .sheet b).password = some "CC1A".toList ∧
    (writeSheet b.sheet).any (fun a => a.1 == "password".toList) = true := by decide

theorem setFields_safe (P : Prims) (hs : B64Safe P) (pw : List Char) (salt : Bytes) (old : PwFields) :
    (setPasswordFields P pw salt old).safe = true := by
  have h1 := hs salt
  have h2 := hs (convertPasswordToHash P pw salt 100000)
  have h3 : algName.all xmlSafe = true := by decide
  simp only [PwFields.safe, setPasswordFields, safeOpt, h1, h2, h3, Bool.and_true, Bool.true_and, spinCountConst]
  decide

/-- **Save/reload**: writing the attributes and reading them back (`write_to` → `set_attributes`,
    including quick-xml's attribute escaping on write and the reader's missing un-escaping) returns
    exactly the state the setter produced — algorithm, salt, spin count, hash, and no legacy value —
    for all three kinds.  The kinds *not* being set must hold XML-safe text (the reader does not
    un-escape, design §4 row 9); the kind being set needs no hypothesis. -/
theorem C15_roundtrip (P : Prims) (hs : B64Safe P) (k : Kind) (pw : List Char) (salt : Bytes) (b : Book)
    (hother : ∀ k', k' ≠ k → (fieldsOf k' b).safe = true) :
    readBook (writeBook (setPassword P k pw salt b)) = some (setPassword P k pw salt b) := by
  have hset := setFields_safe P hs pw salt
  cases k with
  | sheet =>
    have h1 := hother .workbook (by decide)
    have h2 := hother .revisions (by decide)
    simp only [fieldsOf] at h1 h2
    simp [readBook, writeBook, setPassword, setSheetPassword, readSheet, writeSheet, readWorkbook, writeWorkbook,
      readFields_sheet _ (hset _), readFields_workbook _ _ h1, readFields_revisions _ _ h2]
  | workbook =>
    have h1 := hother .sheet (by decide)
    have h2 := hother .revisions (by decide)
    simp only [fieldsOf] at h1 h2
    simp [readBook, writeBook, setPassword, setWorkbookPassword, readSheet, writeSheet, readWorkbook, writeWorkbook,
      readFields_sheet _ h1, readFields_workbook _ _ (hset _), readFields_revisions _ _ h2]
  | revisions =>
    have h1 := hother .sheet (by decide)
    have h2 := hother .workbook (by decide)
    simp only [fieldsOf] at h1 h2
    simp [readBook, writeBook, setPassword, setRevisionsPassword, readSheet, writeSheet, readWorkbook, writeWorkbook,
      readFields_sheet _ h1, readFields_workbook _ _ h2, readFields_revisions _ _ (hset _)]

/-- non-vacuity of `C15_roundtrip`: a fresh book satisfies `hother` -/
example : ∀ k k' : Kind, k' ≠ k →
    (fieldsOf k' ⟨⟨PwFields.empty⟩, ⟨PwFields.empty, PwFields.empty⟩⟩).safe = true := by
  intro _ k' _; cases k' <;> decide

/-- the safety hypothesis is needed: an `&` in an untouched kind does not survive (the reader does
    not un-escape) -/
example : readSheet (writeSheet ⟨⟨some ['&'], none, none, none, none⟩⟩) ≠
    some ⟨⟨some ['&'], none, none, none, none⟩⟩ := by decide

end Umya.Thm.C15
