/-
  C02, sheet level — the worksheet part and its relationships part, as trees.

  `Umya/Model/SheetNode.lean` renders what `writer/xlsx/worksheet.rs` and `worksheet_rels.rs` write — the
  `<row>` wrappers of the row loop around the `<c>` elements of `CellNode`, `<mergeCells>`, `<hyperlinks>`
  with the `r:id` counter, the children of `<worksheet>` in the order written, and `<Relationships>` with
  its own counter over the same link list — as the element trees an XML 1.0 reader delivers.  The theorems
  below say what the INDEPENDENT decoder `Umya.Spec.Sml.decodeSheet` (with `relsOf`, `decodeCell`) returns
  on a package that holds these trees: for every well-formed sheet (any number of rows, cells, merged
  ranges, links), exactly the sheet's non-blank cells in order (through `C02_cell_decodes`), its merged
  ranges, every hyperlink on its own cell with its own target and tooltip, the row table, and NO diagnostic
  (rows / cells strictly ascending and in range, style and shared-string indexes inside their tables,
  children in CT_Worksheet order, every `r:id` resolving).

  Scope.  The statements are about TREES (`Umya.Spec.Xml.Node`): `Package` parts carry the parsed tree, and
  `parse (bytes written) = tree` is the separate serialisation result.  Children of `<worksheet>` this model
  does not render (sheetPr, dimension, sheetViews, sheetFormatPr, cols, sheetProtection, autoFilter,
  conditionalFormatting, dataValidations, printOptions … extLst) and the relationships after the hyperlink
  ones are opaque parameters (`Frame`, `rest`) constrained by explicit Boolean hypotheses (`Frame.ok`,
  `colsOk`, `dxfOk`, `ridsOk`) that the tie evaluates on every real part.  A sheet with `tableParts` is
  outside (`Frame.ok` excludes it).  The part names enter only through the two look-ups `p.part? path` and
  `p.part? (relsNameOf path)`.
  Tie to the code: request `c02 sheetbridge` (`Driver/C02Sheet.lean`): the rendering of the in-memory sheet
  is compared, tree-equal, with what the independent XML reader parsed from the real parts.
-/
import Umya.Lemmas.SheetNodeDecode
import Umya.Lemmas.Observers
namespace Umya.Thm.C02
open Umya.CellXml Umya.CellNode Umya.SheetNode Umya.Num
open Umya.Spec.Sml (decodeSheet relsOf relsNameOf Package)
open Umya.Spec.Xml (Node Attr)

/-! ### the sheet -/

/-- THE SHEET.  For every well-formed sheet `s` (`SheetW.WF`: what `Coherent` + the grid limits give, see
    `C02_sheet_of_coherent`), if the model of worksheet.rs writes it (`renderSheet`, total by
    `C02_sheet_written`), then in every package `p` whose part `path` is that `<worksheet>` tree and whose part
    `relsNameOf path` is what the model of worksheet_rels.rs writes for the same links (absent when there is no
    relationship), and for every later state `sst` of the shared-string table (`Extends`), the independent
    decoder returns exactly: the views (`fileView`: reference, kind, value text, formula, style) of the cells
    that are not blank-and-unstyled, in ascending order; the merged ranges; the hyperlinks, each with its own
    reference, target (through the relationships part for external ones, `location` for internal ones) and
    tooltip; the row table; `noR = false` (every row and cell carries `r`); no table — and an EMPTY list of
    diagnostics.  Hypotheses on what is not modelled: style indexes below `nXf` (`hn`, `hxf`), the opaque
    children (`hfr`, `hcols`, `hdxf`) and their `r:id`s (`hrid`). -/
theorem C02_sheet_decodes (F : NumFmt) (xf : List Char → Nat) (fr : Frame) (tbl : Table) (s : SheetW F.Num) (hwf : s.WF)
    (tbl' : Table) (root : Node) (h : renderSheet F xf fr tbl s = some (tbl', root))
    (nXf nDxf : Nat) (hn : 0 < nXf) (hxf : ∀ ref, xf ref < nXf) (rest : List Node)
    (hfr : fr.ok = true) (hcols : fr.colsOk nXf = true) (hdxf : fr.dxfOk nDxf = true)
    (hrid : fr.ridsOk (relIds (relWalk 1 s.links ++ rest)) = true)
    (p : Package) (path : String)
    (hp : (p.part? path).bind (·.xml) = some root)
    (hr : (p.part? (relsNameOf path)).bind (·.xml) = relsRoot s.links rest) :
    ∀ sst : Table, Extends sst tbl' →
      decodeSheet p path (sst.map itemText) nXf nDxf =
        ({ cells := cellViews F xf s.cells, merges := s.merges, links := s.links.map linkView,
           cols := colVsOf fr.colNodes, rows := s.rows.map rowView, tables := [], noR := false }, []) :=
  fun sst hx => renderSheet_decodes F xf fr tbl s hwf tbl' root h nXf nDxf hn hxf rest hfr hcols hdxf hrid p path hp hr sst hx

/-- … against the shared strings the independent reader takes from the part written for that table state -/
theorem C02_sheet_decodes_sst (F : NumFmt) (xf : List Char → Nat) (fr : Frame) (tbl : Table) (s : SheetW F.Num) (hwf : s.WF)
    (tbl' : Table) (root : Node) (h : renderSheet F xf fr tbl s = some (tbl', root))
    (nXf nDxf : Nat) (hn : 0 < nXf) (hxf : ∀ ref, xf ref < nXf) (rest : List Node)
    (hfr : fr.ok = true) (hcols : fr.colsOk nXf = true) (hdxf : fr.dxfOk nDxf = true)
    (hrid : fr.ridsOk (relIds (relWalk 1 s.links ++ rest)) = true)
    (p : Package) (path : String)
    (hp : (p.part? path).bind (·.xml) = some root)
    (hr : (p.part? (relsNameOf path)).bind (·.xml) = relsRoot s.links rest)
    (tbl'' : Table) (hx : Extends tbl'' tbl') :
    ∃ pkg, sstParts (tbl''.map siOf) = some pkg ∧
      decodeSheet p path (Umya.Spec.Sml.sharedStrings pkg sstPath) nXf nDxf =
        ({ cells := cellViews F xf s.cells, merges := s.merges, links := s.links.map linkView,
           cols := colVsOf fr.colNodes, rows := s.rows.map rowView, tables := [], noR := false }, []) := by
  obtain ⟨pkg, hpk, hs⟩ := sharedStrings_written tbl''
  exact ⟨pkg, hpk, by rw [hs]; exact C02_sheet_decodes F xf fr tbl s hwf tbl' root h nXf nDxf hn hxf rest hfr hcols hdxf hrid p path hp hr tbl'' hx⟩

/-- MERGED RANGES: the decoder's merged ranges are the sheet's, in order (any number, none included) -/
theorem C02_merges_decode (F : NumFmt) (xf : List Char → Nat) (fr : Frame) (tbl : Table) (s : SheetW F.Num) (hwf : s.WF)
    (tbl' : Table) (root : Node) (h : renderSheet F xf fr tbl s = some (tbl', root))
    (nXf nDxf : Nat) (hn : 0 < nXf) (hxf : ∀ ref, xf ref < nXf) (rest : List Node)
    (hfr : fr.ok = true) (hcols : fr.colsOk nXf = true) (hdxf : fr.dxfOk nDxf = true)
    (hrid : fr.ridsOk (relIds (relWalk 1 s.links ++ rest)) = true)
    (p : Package) (path : String)
    (hp : (p.part? path).bind (·.xml) = some root)
    (hr : (p.part? (relsNameOf path)).bind (·.xml) = relsRoot s.links rest) (sst : Table) (hx : Extends sst tbl') :
    (decodeSheet p path (sst.map itemText) nXf nDxf).1.merges = s.merges := by
  rw [C02_sheet_decodes F xf fr tbl s hwf tbl' root h nXf nDxf hn hxf rest hfr hcols hdxf hrid p path hp hr sst hx]

/-- HYPERLINKS: the `i`-th hyperlink the decoder returns is the `i`-th link of the sheet: on its own cell,
    external iff it is not a location link, with its own target — resolved through the relationships part for
    an external link, taken from `location` for an internal one — and its own tooltip (none when empty).  Any
    number of links, any mixture of internal and external ones, the same URL on several cells included; no
    hypothesis on the links at all.  This is a statement about what `decodeSheet` and `relsOf` return on the
    two trees, not about an abstract walk. -/
theorem C02_hyperlinks_decode (F : NumFmt) (xf : List Char → Nat) (fr : Frame) (tbl : Table) (s : SheetW F.Num) (hwf : s.WF)
    (tbl' : Table) (root : Node) (h : renderSheet F xf fr tbl s = some (tbl', root))
    (nXf nDxf : Nat) (hn : 0 < nXf) (hxf : ∀ ref, xf ref < nXf) (rest : List Node)
    (hfr : fr.ok = true) (hcols : fr.colsOk nXf = true) (hdxf : fr.dxfOk nDxf = true)
    (hrid : fr.ridsOk (relIds (relWalk 1 s.links ++ rest)) = true)
    (p : Package) (path : String)
    (hp : (p.part? path).bind (·.xml) = some root)
    (hr : (p.part? (relsNameOf path)).bind (·.xml) = relsRoot s.links rest) (sst : Table) (hx : Extends sst tbl') :
    (decodeSheet p path (sst.map itemText) nXf nDxf).1.links.length = s.links.length ∧
    ∀ (i : Nat) (l : LinkW), s.links[i]? = some l →
      ∃ v, (decodeSheet p path (sst.map itemText) nXf nDxf).1.links[i]? = some v ∧
        v.ref = l.ref ∧ v.external = !l.location ∧ v.target = l.url ∧
        v.tooltip = (if l.tooltip = [] then none else some l.tooltip) := by
  rw [C02_sheet_decodes F xf fr tbl s hwf tbl' root h nXf nDxf hn hxf rest hfr hcols hdxf hrid p path hp hr sst hx]
  refine ⟨by simp, fun i l hl => ⟨linkView l, by simp [hl], rfl, rfl, rfl, rfl⟩⟩

/-- the pairing itself, for any start of the counter and any relationships before (with smaller ids) and
    after: the sheet part's walk decoded against the relationship part's walk over the same links -/
theorem C02_hyperlink_walk_decodes (path : String) (R : List Umya.Spec.Sml.Rel) (ls : List LinkW) (k : Nat) (A : List Umya.Spec.Sml.Rel)
    (hA : ∀ r ∈ A, ∃ i, i < k ∧ r.id = Umya.Spec.Sml.str (rIdText i)) :
    (hlWalk k ls).map (linkOf path (A ++ relRecs k ls ++ R)) = ls.map (fun l => (linkView l, [])) :=
  links_decode path R ls k A hA

/-- what the decoder reads from the relationships part the model writes (and from its absence) -/
theorem C02_sheet_rels_decode (p : Package) (path : String) (links : List LinkW) (rest : List Node)
    (h : (p.part? (relsNameOf path)).bind (·.xml) = relsRoot links rest) :
    relsOf p path = relRecs 1 links ++ (rest.filter (isKid nRelationship)).map relOf := by
  rw [relsOf_rendered p path links rest h, relsView_eq]

theorem rIdText_1 : rIdText 1 = ['r', 'I', 'd', '1'] := by rw [rIdText, Umya.Dec.decDigits]; rfl
theorem rIdText_2 : rIdText 2 = ['r', 'I', 'd', '2'] := by rw [rIdText, Umya.Dec.decDigits]; rfl
theorem rIdText_3 : rIdText 3 = ['r', 'I', 'd', '3'] := by rw [rIdText, Umya.Dec.decDigits]; rfl
theorem rIdText_4 : rIdText 4 = ['r', 'I', 'd', '4'] := by rw [rIdText, Umya.Dec.decDigits]; rfl

/-- The defect that was repaired (fix "ordered hyperlink map"), on the decoder's functions: when the
    relationships part walks the two external links in the other order, the decoder pairs the first cell with
    the second cell's target. -/
theorem C02_unordered_rels_fails :
    let a : LinkW := { ref := ['A', '1'], url := ['u', '1'] }
    let b : LinkW := { ref := ['B', '1'], url := ['u', '2'] }
    ((hlWalk 1 [a, b]).map (linkOf "p" (relRecs 1 [b, a]))).map (fun x => x.1.target) = [['u', '2'], ['u', '1']] := by
  simp [hlWalk, relRecs, linkOf, tooltipAttr, Node.attr?, Node.attrs, rIdText_1, rIdText_2, Umya.Spec.Sml.str]

/-! ### the writer is total, and coherent stores give well-formed sheets -/

theorem writeRows_total (F : NumFmt) (gs : List (RowW × List (Cell F.Num))) (hc : ∀ g ∈ gs, ∀ c ∈ g.2, 1 ≤ c.col) :
    ∀ tbl : Table, ∃ tbl' ws, writeRows F tbl gs = some (tbl', ws) := by
  induction gs with
  | nil => intro tbl; exact ⟨tbl, [], rfl⟩
  | cons g gs ih =>
    intro tbl
    obtain ⟨r, cs⟩ := g
    obtain ⟨t1, xs, hw⟩ := writeCells_total F cs (hc (r, cs) (by simp)) tbl
    obtain ⟨t2, ys, hws⟩ := ih (fun g' hg' => hc g' (by simp [hg'])) t1
    exact ⟨t2, ⟨r, cs, xs⟩ :: ys, by simp [writeRows, hw, hws]⟩

/-- the model of worksheet.rs does not panic on cells with a column ≥ 1 -/
theorem C02_sheet_written (F : NumFmt) (xf : List Char → Nat) (fr : Frame) (tbl : Table) (s : SheetW F.Num)
    (hc : ∀ c ∈ s.cells, 1 ≤ c.col) : ∃ tbl' root, renderSheet F xf fr tbl s = some (tbl', root) := by
  have hg : ∀ g ∈ rowGroups s.rows s.cells, ∀ c ∈ g.2, 1 ≤ c.col :=
    fun g hg c hcm => hc c ((rowGroups_sublist s.rows s.cells g hg).subset hcm)
  obtain ⟨t1, ws, hw⟩ := writeRows_total F _ hg tbl
  obtain ⟨_, rowNodes, hrn, _⟩ := writeRows_decodes F xf _ tbl t1 ws hw
  exact ⟨t1, worksheetNode fr (Node.elem nSheetData [] rowNodes) s.merges s.links, by simp [renderSheet, hw, sheetDataNode, hrn]⟩

open Umya.Sheet in
/-- Every reachable cell store (C10's `Coherent`) gives a well-formed sheet: the row table sorted by number
    (`sortedRows`) and the cells in `get_collection_sorted` order (`sortedCells`), each cell carrying any
    content `val` and each row any attributes `rw` that keep the coordinates, satisfy `SheetW.WF` as soon as
    the coordinates are inside the grid. -/
theorem C02_sheet_of_coherent {N : Type} (st : Sheet) (hco : Coherent st)
    (val : CellM → Cell N) (hval : ∀ c, (val c).col = c.col ∧ (val c).row = c.row)
    (rw : RowM → RowW) (hrw : ∀ r, (rw r).num = r.num)
    (hgrid : ∀ c ∈ sortedCells st, 1 ≤ c.col ∧ c.col ≤ 16384) (hrows : ∀ r ∈ sortedRows st, 1 ≤ r.num ∧ r.num ≤ 1048576)
    (merges : List (List Char)) (links : List LinkW) :
    ({ rows := (sortedRows st).map rw, cells := (sortedCells st).map val, merges := merges, links := links } : SheetW N).WF := by
  obtain ⟨r1, r2⟩ := sortedRows_spec st hco
  have hcoords := sortedCells_coords st hco
  refine ⟨?_, ?_, ?_, ?_, ?_⟩
  · simp only [List.pairwise_map, hrw]; exact r1
  · intro r hr
    simp only [List.mem_map] at hr
    obtain ⟨r0, hr0, rfl⟩ := hr
    rw [hrw]; exact hrows r0 hr0
  · have : ((sortedCells st).map (fun c => (c.row, c.col))).Pairwise (fun a b => keyLt a b = true) := by
      rw [hcoords]; exact hco.rsorted
    rw [List.pairwise_map] at this
    simp only [List.pairwise_map, (hval _).1, (hval _).2]
    refine this.imp ?_
    intro a b hab
    rw [keyLt_iff] at hab
    exact hab
  · intro c hc
    simp only [List.mem_map] at hc
    obtain ⟨c0, hc0, rfl⟩ := hc
    rw [(hval c0).1]; exact hgrid c0 hc0
  · intro c hc
    simp only [List.mem_map] at hc
    obtain ⟨c0, hc0, rfl⟩ := hc
    rw [(hval c0).2]
    have hmem : (c0.row, c0.col) ∈ st.rowIdx := by
      rw [← hcoords]; exact List.mem_map.2 ⟨c0, hc0, rfl⟩
    have hk := hco.rowKnown _ ((hco.rmem _).1 hmem)
    have := (r2 c0.row).2 hk
    simp only [List.map_map]
    obtain ⟨r0, hr0, he⟩ := List.mem_map.1 this
    exact List.mem_map.2 ⟨r0, hr0, by simp [hrw, he]⟩

/-! ### non-vacuity -/

/-- the driver's number format: a number token is Rust's shortest decimal text -/
def demoFS : NumFmt := textFmt []

/-- three rows — one with a padded text and a number under a formula, one carrying only a style (hidden,
    with a height) and a styled blank cell plus a blank unstyled cell (not written), one far down —, two merged
    ranges, and four links: external, internal with a tooltip, the SAME external URL again, external with an
    empty target and only a tooltip -/
def demoSheet : SheetW demoFS.Num :=
  { rows := [{ num := 1 }, { num := 2, ht := some ['1', '8'], hidden := true, xf := 2 }, { num := 1048576 }],
    cells := [{ col := 1, row := 1, raw := .str [' ', '&', '<', ' '] },
              { col := 3, row := 1, raw := .num ['4', '2'], formula := some ['A', '1', '<', '2'] },
              { col := 2, row := 2, styled := true }, { col := 4, row := 2 },
              { col := 16384, row := 1048576, raw := .bool true }],
    merges := [['A', '7', ':', 'B', '8'], ['C', '7', ':', 'D', '7']],
    links := [{ ref := ['A', '1'], url := ['h', ':', '/', '/', 'x', '?', 'a', '&', 'b'] },
              { ref := ['B', '2'], url := ['\'', 'S', ' ', '1', '\'', '!', 'A', '1'], location := true, tooltip := ['t', '<'] },
              { ref := ['C', '1'], url := ['h', ':', '/', '/', 'x', '?', 'a', '&', 'b'] },
              { ref := ['X', 'F', 'D', '1', '0', '4', '8', '5', '7', '6'], url := [], tooltip := ['o', 'n', 'l', 'y'] }] }

/-- an opaque frame with `dimension`, `cols`, an `autoFilter`, a conditional format, `pageMargins` and a
    `legacyDrawing` whose `r:id` is the relationship after the three hyperlink ones -/
def demoFrame : Frame :=
  { pre := [.elem ['d', 'i', 'm', 'e', 'n', 's', 'i', 'o', 'n'] [⟨['r', 'e', 'f'], ['A', '1']⟩] [],
            .elem ['c', 'o', 'l', 's'] [] [.elem ['c', 'o', 'l'] [⟨['m', 'i', 'n'], ['1']⟩, ⟨['m', 'a', 'x'], ['3']⟩, ⟨['s', 't', 'y', 'l', 'e'], ['2']⟩] []]],
    mid1 := [.elem ['a', 'u', 't', 'o', 'F', 'i', 'l', 't', 'e', 'r'] [] []],
    mid2 := [.elem ['c', 'o', 'n', 'd', 'i', 't', 'i', 'o', 'n', 'a', 'l', 'F', 'o', 'r', 'm', 'a', 't', 't', 'i', 'n', 'g'] [] [.elem ['c', 'f', 'R', 'u', 'l', 'e'] [⟨['d', 'x', 'f', 'I', 'd'], ['0']⟩] []]],
    post := [.elem ['p', 'a', 'g', 'e', 'M', 'a', 'r', 'g', 'i', 'n', 's'] [] [], .elem ['l', 'e', 'g', 'a', 'c', 'y', 'D', 'r', 'a', 'w', 'i', 'n', 'g'] [⟨['r', ':', 'i', 'd'], ['r', 'I', 'd', '4']⟩] []] }

def demoRest : List Node := [.elem nRelationship [⟨['I', 'd'], ['r', 'I', 'd', '4']⟩] []]

example : demoSheet.WF := ⟨by decide, by decide, by decide, by decide, by decide⟩
example : demoFrame.ok = true ∧ demoFrame.colsOk 3 = true ∧ demoFrame.dxfOk 1 = true := by decide
example : demoFrame.ridsOk (relIds (relWalk 1 demoSheet.links ++ demoRest)) = true := by
  rw [relIds_append]
  exact ridsOk_append_right _ _ _ (by decide)
example : ∃ tbl' root, renderSheet demoFS (fun _ => 2) demoFrame [] demoSheet = some (tbl', root) :=
  C02_sheet_written demoFS _ demoFrame [] demoSheet (by decide)

/-- what the decoder must find on it is not trivial: four cells (the blank unstyled one is gone), the targets -/
example : (cellViews demoFS (fun _ => 2) demoSheet.cells).map (fun v => (v.kind, String.ofList v.value, v.style))
    = [("s", " &< ", 0), ("n", "42", 0), ("", "", 2), ("b", "TRUE", 0)] := by decide

example : (demoSheet.links.map linkView).map (fun v => (String.ofList v.ref, v.external, String.ofList v.target))
    = [("A1", true, "h://x?a&b"), ("B2", false, "'S 1'!A1"), ("C1", true, "h://x?a&b"), ("XFD1048576", true, "")] := by decide

/-- the two walks on the demo links: `rId1`, none, `rId2`, `rId3` in the sheet part; three relationships -/
example : (hlWalk 1 demoSheet.links).map (fun n => n.attr? ['r', ':', 'i', 'd']) = [some (rIdText 1), none, some (rIdText 2), some (rIdText 3)] ∧
    (relRecs 1 demoSheet.links).map (fun r => (r.id, r.target)) =
      [(Umya.Spec.Sml.str (rIdText 1), "h://x?a&b"), (Umya.Spec.Sml.str (rIdText 2), "h://x?a&b"), (Umya.Spec.Sml.str (rIdText 3), "")] := by
  refine ⟨rfl, ?_⟩
  simp [relRecs, demoSheet, Umya.Spec.Sml.str]

/-- `C02_sheet_of_coherent`: a reachable store -/
example : Umya.Sheet.Coherent (Umya.Sheet.setVal (Umya.Sheet.setVal {} 2 3 7) 1 3 5) :=
  Umya.Sheet.setVal_coherent _ _ _ _ (Umya.Sheet.setVal_coherent _ _ _ _ Umya.Sheet.coherent_empty)

end Umya.Thm.C02
