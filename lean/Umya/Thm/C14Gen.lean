/-
  C14 — tie to the source (T), part 3: the constants of src/helper/crypt.rs read from the CURRENT source on every run
  are the ones the hand model uses (`Umya/Model/Crypt.lean`).  Constants only.
-/
import Umya.Lemmas.FnsGenCrypt
namespace Umya.Thm.C14
open Umya.Crypt Umya.Crypto Umya.Gen

/-- **Tie to the source (T).**  The five block keys, `ENCRYPTION_INFO_PREFIX`, `PACKAGE_ENCRYPTION_CHUNK_SIZE`,
    `PACKAGE_OFFSET` (all bytes < 256), the literal sizes / spin count / key bits / algorithm names of `encrypt_parts`,
    and: the model's `encrypt` is `encryptWith` at the spin count found in the source. -/
theorem C14_constants_match_source :
    (crypt_block_keys_data_integrity_hmac_key.map UInt8.ofNat = blkHmacKey ∧
     crypt_block_keys_data_integrity_hmac_value.map UInt8.ofNat = blkHmacValue ∧
     crypt_block_keys_key.map UInt8.ofNat = blkKey ∧
     crypt_block_verifier_hash_input.map UInt8.ofNat = blkVerifierInput ∧
     crypt_block_verifier_hash_value.map UInt8.ofNat = blkVerifierValue ∧
     crypt_encryption_info_prefix.map UInt8.ofNat = encryptionInfoPrefix ∧
     crypt_package_encryption_chunk_size = chunkSize ∧
     crypt_package_offset = 8 ∧ crypt_package_offset = (le32 0 ++ [0, 0, 0, 0]).length ∧
     (crypt_block_keys_data_integrity_hmac_key ++ crypt_block_keys_data_integrity_hmac_value ++ crypt_block_keys_key ++
       crypt_block_verifier_hash_input ++ crypt_block_verifier_hash_value ++ crypt_encryption_info_prefix).all (· < 256) = true) ∧
    (litOf crypt_encrypt_literals_ints "encrypt_parts.package_hash_size" = some 64 ∧
     litOf crypt_encrypt_literals_ints "encrypt_parts.package_block_size" = some 16 ∧
     litOf crypt_encrypt_literals_ints "encrypt_parts.key_hash_size" = some 64 ∧
     litOf crypt_encrypt_literals_ints "encrypt_parts.key_block_size" = some 16 ∧
     litOf crypt_encrypt_literals_ints "encrypt_parts.key_spin_count" = some 100000 ∧
     litOf crypt_encrypt_literals_ints "encrypt_parts.key_key_bits" = some 256 ∧
     (litOf crypt_encrypt_literals_strs "encrypt_parts.package_hash_algorithm").map String.toList = some sha512Name ∧
     (litOf crypt_encrypt_literals_strs "encrypt_parts.key_hash_algorithm").map String.toList = some sha512Name ∧
     (litOf crypt_encrypt_literals_strs "encrypt_parts.package_cipher_algorithm").map String.toList = some aes ∧
     (litOf crypt_encrypt_literals_strs "encrypt_parts.key_cipher_algorithm").map String.toList = some aes ∧
     (litOf crypt_encrypt_literals_strs "encrypt_parts.package_cipher_chaining").map String.toList = some cbc ∧
     (litOf crypt_encrypt_literals_strs "encrypt_parts.key_cipher_chaining").map String.toList = some cbc) ∧
    (∀ (P : Prims) (data : Bytes) (pw : List Char) (ρ : Randoms) (n : Nat),
      litOf crypt_encrypt_literals_ints "encrypt_parts.key_spin_count" = some n →
      encrypt P data pw ρ = encryptWith P n data pw ρ) :=
  ⟨gen_crypt_consts, gen_crypt_encrypt_literals, gen_crypt_encrypt_spin⟩

/-- the hypothesis of the last clause is satisfiable -/
example : litOf crypt_encrypt_literals_ints "encrypt_parts.key_spin_count" = some 100000 := by decide

end Umya.Thm.C14
