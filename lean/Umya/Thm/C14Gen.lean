/-
  C14 — tie to the source (T), part 3: the constants of src/helper/crypt.rs read from the CURRENT source on every run
  are the ones the hand model uses (`Umya/Model/Crypt.lean`), and the functions `convert_password_to_key`, `create_iv`,
  `crypt_package` (encrypt direction) and `encrypt_parts`, compiled from the CURRENT source on every run
  (`Umya/Model/Gen/Fns.lean`), are the hand model's for all arguments.
-/
import Umya.Lemmas.FnsGenCrypt
import Umya.Lemmas.FnsGenCryptPkg
namespace Umya.Thm.C14
open Umya.Crypt Umya.Crypto Umya.Gen

/-- **Tie to the source (T).**  The five block keys, `ENCRYPTION_INFO_PREFIX`, `PACKAGE_ENCRYPTION_CHUNK_SIZE`,
    `PACKAGE_OFFSET` (all bytes < 256), the literal sizes / spin count / key bits / algorithm names of `encrypt_parts`,
    and: the model's `encrypt` is `encryptWith` at the spin count found in the source. -/
theorem C14_constants_match_source :
    (crypt_block_keys_data_integrity_hmac_key.map UInt8.ofNat = blkHmacKey ∧
     crypt_block_keys_data_integrity_hmac_value.map UInt8.ofNat = blkHmacValue ∧
     crypt_block_keys_key.map UInt8.ofNat = blkKey ∧
     crypt_block_verifier_hash_input.map UInt8.ofNat = blkVerifierInput ∧
     crypt_block_verifier_hash_value.map UInt8.ofNat = blkVerifierValue ∧
     crypt_encryption_info_prefix.map UInt8.ofNat = encryptionInfoPrefix ∧
     crypt_package_encryption_chunk_size = chunkSize ∧
     crypt_package_offset = 8 ∧ crypt_package_offset = (le32 0 ++ [0, 0, 0, 0]).length ∧
     (crypt_block_keys_data_integrity_hmac_key ++ crypt_block_keys_data_integrity_hmac_value ++ crypt_block_keys_key ++
       crypt_block_verifier_hash_input ++ crypt_block_verifier_hash_value ++ crypt_encryption_info_prefix).all (· < 256) = true) ∧
    (litOf crypt_encrypt_literals_ints "encrypt_parts.package_hash_size" = some 64 ∧
     litOf crypt_encrypt_literals_ints "encrypt_parts.package_block_size" = some 16 ∧
     litOf crypt_encrypt_literals_ints "encrypt_parts.key_hash_size" = some 64 ∧
     litOf crypt_encrypt_literals_ints "encrypt_parts.key_block_size" = some 16 ∧
     litOf crypt_encrypt_literals_ints "encrypt_parts.key_spin_count" = some 100000 ∧
     litOf crypt_encrypt_literals_ints "encrypt_parts.key_key_bits" = some 256 ∧
     (litOf crypt_encrypt_literals_strs "encrypt_parts.package_hash_algorithm").map String.toList = some sha512Name ∧
     (litOf crypt_encrypt_literals_strs "encrypt_parts.key_hash_algorithm").map String.toList = some sha512Name ∧
     (litOf crypt_encrypt_literals_strs "encrypt_parts.package_cipher_algorithm").map String.toList = some aes ∧
     (litOf crypt_encrypt_literals_strs "encrypt_parts.key_cipher_algorithm").map String.toList = some aes ∧
     (litOf crypt_encrypt_literals_strs "encrypt_parts.package_cipher_chaining").map String.toList = some cbc ∧
     (litOf crypt_encrypt_literals_strs "encrypt_parts.key_cipher_chaining").map String.toList = some cbc) ∧
    (∀ (P : Prims) (data : Bytes) (pw : List Char) (ρ : Randoms) (n : Nat),
      litOf crypt_encrypt_literals_ints "encrypt_parts.key_spin_count" = some n →
      encrypt P data pw ρ = encryptWith P n data pw ρ) :=
  ⟨gen_crypt_consts, gen_crypt_encrypt_literals, gen_crypt_encrypt_spin⟩

/-- the hypothesis of the last clause is satisfiable -/
example : litOf crypt_encrypt_literals_ints "encrypt_parts.key_spin_count" = some 100000 := by decide

/-- **Tie to the source (T), `hash`.**  `hash(algorithm, buffers)` as compiled from the source (the `match` on the algorithm name,
    `Sha512::new()`, one `update` with `buffer_concat(buffers)`, `finalize().to_vec()`; the hasher state is the bytes fed so far, `update`
    appends, `finalize` is `P.sha512`) is SHA-512 of the concatenation for the names `"SHA512"` / `"SHA-512"` and `Err` for any other —
    `hashOf P`, which the theorems below are stated with. -/
theorem C14_hash_matches_source (P : Prims) (alg : List Char) (bufs : List Bytes) :
    crypt_hash P.sha512 [] shaUpd alg bufs = if algOk alg then some (P.sha512 bufs.flatten) else none :=
  gen_hash P alg bufs

/-- **Tie to the source (T), the key derivation.**  `convert_password_to_key(password, algorithm, salt, spin_count, key_bits, block_key)`
    as compiled from the source, calling the compiled `hash` (UTF-16LE of the password; `H(salt ‖ pw)`; `spin_count` rounds `H(LE32 i ‖ h)` with `i as u32`;
    `H(h ‖ block_key)`; then `match len.cmp(key_bits / 8)`: shorter = copied over a buffer of 0x36, longer = cut, equal = as is)
    equals the model's `convertPasswordToKey` for ALL arguments; an algorithm name `hash` does not accept is a panic. -/
theorem C14_kdf_matches_source (P : Prims) (pw alg : List Char) (salt : Bytes) (spin keyBits : Nat) (blockKey : Bytes) :
    crypt_convert_password_to_key P.sha512 [] shaUpd pw alg salt spin keyBits blockKey =
      if algOk alg then some (convertPasswordToKey P pw salt spin keyBits blockKey) else none :=
  gen_convert_password_to_key P pw alg salt spin keyBits blockKey

/-- **Tie to the source (T), the IV.**  `create_iv(algorithm, salt, block_size, block_key)` as compiled from the source equals the
    model's `createIv` for ALL arguments (all block sizes: padded with 0x36, cut, or unchanged). -/
theorem C14_iv_matches_source (P : Prims) (alg : List Char) (salt : Bytes) (blockSize : Nat) (blockKey : Bytes) :
    crypt_create_iv P.sha512 [] shaUpd alg salt blockSize blockKey =
      if algOk alg then some (createIv P salt blockSize blockKey) else none :=
  gen_create_iv P alg salt blockSize blockKey

/-- both branches of the algorithm test occur -/
example : algOk sha512Name ∧ ¬ algOk aes := by decide

/-- **Tie to the source (T), the package.**  `crypt_package(&true, cipher, chaining, algorithm, &16, salt, key, input)` as compiled from
    the source — the `while` loop over 4096-byte chunks (run on fuel `input.len() + 1`, which the loop lemma `whileM_chunks` shows to
    suffice), zero padding to 16, IV = `create_iv(.., LE32 (i as u32))`, `crypt(..)` per chunk with its `unwrap`, the 8-byte prefix
    `LE32 (len as u32) ‖ 0 0 0 0` — equals the model's `cryptPackage` for ALL salts, keys and inputs (`none` = panic on both sides:
    key not 32 bytes).  `crypt` is the extern `cryptOf P` = the model's `Crypt.crypt`. -/
theorem C14_package_matches_source (P : Prims) (cipher chain alg : List Char) (salt key input : Bytes) (h : algOk alg) :
    crypt_crypt_package (cryptOf P) P.sha512 [] shaUpd true cipher chain alg 16 salt key input = cryptPackage P salt key input :=
  gen_crypt_package P cipher chain alg salt key input h

/-- the hypothesis is satisfiable by the name `encrypt_parts` passes -/
example : algOk sha512Name := by decide

/-- **Tie to the source (T), `build_encryption_info`.**  As compiled from the source — the XML declaration, the start tags `encryption`,
    `keyData`, `dataIntegrity`, `keyEncryptors`, `keyEncryptor`, `p:encryptedKey` with their attribute ↔ value tables (which of the twenty
    arguments goes to which attribute, as `len().to_string()`, `to_string()`, base64 or itself; the namespace constants of
    `helper/const_str.rs`), the end tags, the prefix `ENCRYPTION_INFO_PREFIX` — it is the model's `buildEncryptionInfo` of the descriptor
    record `infoOf` fills from the arguments, for ALL arguments.  The quick-xml writer is the text written so far; `write_start_tag` /
    `write_end_tag` / `write_new_line` of `writer/driver.rs` are the model's `startTag` / `endTag` / CR LF (attribute escaping is the
    identity on the values that occur: an assumption of the model, exercised by the correspondence check). -/
theorem C14_info_matches_source (P : Prims) (packageSalt : Bytes) (packageBlockSize packageKeyBits packageHashSize : Nat)
    (packageCipher packageChaining packageHash : List Char) (encHmacKey encHmacValue : Bytes) (spin : Nat) (keySalt : Bytes)
    (keyBlockSize keyKeyBits keyHashSize : Nat) (keyCipher keyChaining keyHash : List Char)
    (encVerifierInput encVerifierValue encKeyValue : Bytes) :
    crypt_build_encryption_info (List Char) P.b64 xmlBytes xmlDecl xmlEndTag [] xmlNewLine xmlStartTag
        packageSalt packageBlockSize packageKeyBits packageHashSize packageCipher packageChaining packageHash encHmacKey encHmacValue
        spin keySalt keyBlockSize keyKeyBits keyHashSize keyCipher keyChaining keyHash encVerifierInput encVerifierValue encKeyValue =
      buildEncryptionInfo
        { keyData := { saltSize := packageSalt.length, blockSize := packageBlockSize, keyBits := packageKeyBits, hashSize := packageHashSize,
                       cipherAlgorithm := packageCipher, cipherChaining := packageChaining, hashAlgorithm := packageHash,
                       saltValue := P.b64 packageSalt }
          encryptedHmacKey := P.b64 encHmacKey
          encryptedHmacValue := P.b64 encHmacValue
          spinCount := spin
          key := { saltSize := keySalt.length, blockSize := keyBlockSize, keyBits := keyKeyBits, hashSize := keyHashSize,
                   cipherAlgorithm := keyCipher, cipherChaining := keyChaining, hashAlgorithm := keyHash, saltValue := P.b64 keySalt }
          encryptedVerifierHashInput := P.b64 encVerifierInput
          encryptedVerifierHashValue := P.b64 encVerifierValue
          encryptedKeyValue := P.b64 encKeyValue } :=
  gen_build_encryption_info P packageSalt packageBlockSize packageKeyBits packageHashSize packageCipher packageChaining packageHash
    encHmacKey encHmacValue spin keySalt keyBlockSize keyKeyBits keyHashSize keyCipher keyChaining keyHash encVerifierInput
    encVerifierValue encKeyValue

/-- **Tie to the source (T), `encrypt_parts`.**  As compiled from the source — the order of the random draws (`gen_random_32`, three
    `gen_random_16` = package salt, key salt, verifier input, `gen_random_64`), which key / IV encrypts what, the HMAC over the encrypted
    package, the three derived keys, the twenty arguments handed to the compiled `build_encryption_info` — it returns the model's
    `encrypt` (descriptor rendered by `buildEncryptionInfo`, `EncryptedPackage` stream) for ALL packages, passwords and random material.
    Externs: `crypt` = `cryptOf P` (the model's `crypt`), `hmac` = `hmacOf P`, base64 = `P.b64`, the SHA-512 hasher and the XML writer as in
    `C14_hash_matches_source` / `C14_info_matches_source`. -/
theorem C14_encrypt_parts_matches_source (P : Prims) (data : Bytes) (pw : List Char) (ρ : Randoms) :
    crypt_encrypt_parts (List Char) P.b64 (cryptOf P) (draws16 ρ) (fun _ => ρ.packageKey) (fun _ => ρ.hmacKey) (hmacOf P)
        P.sha512 [] shaUpd xmlBytes xmlDecl xmlEndTag [] xmlNewLine xmlStartTag data pw =
      (encrypt P data pw ρ).map (fun r => (buildEncryptionInfo r.1, r.2)) :=
  gen_encrypt_parts P data pw ρ

end Umya.Thm.C14
