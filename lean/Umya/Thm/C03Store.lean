/-
  C03, the cell store and the whole workbook in any spelling of the names — property theorems only
  (namespace `Umya.Thm.C03`).

    * C03_store_last_wins   the store the reader fills (`Cells::set_fast` = `HashMap::insert` per cell in document
                             order; model `Umya/Model/CellStore.lean`) answers a look-up at (row, column) with the LAST
                             cell of the document at that position; for every list of cells, any key function
    * C03_store_is_map      … and holds at most one entry per position
    * C03_sheet_store       for every valid `<sheetData>` (duplicated positions allowed) and every translator: the store
                             the reader model fills and the store filled from the decoder's cell list show the same cell
                             at EVERY position: equal as maps
    * C03_book_any          `C03_book` with the hypothesis on defined names widened to `nameTextAnyB`
    * C03_book_store        … and per sheet the two stores equal as maps
-/
import Umya.Model.CellStore
import Umya.Thm.C03Names
namespace Umya.Thm.C03
open Umya.Spec.Xml Umya.Spec.Sml Umya.Reader Umya.Reader.Lemmas Umya.Coord
open Umya.Annot (canonText nameTextAnyB)

section Store

private theorem get?_insert {α : Type} (s : Store α) (k k' : Pos) (v : α) :
    (s.insert k v).get? k' = if k == k' then some v else s.get? k' := by
  unfold Store.insert Store.get?
  by_cases h : k = k'
  · subst h; simp
  · have hb : (k == k') = false := by simpa using h
    simp only [List.find?_cons, hb]
    congr 1
    induction s with
    | nil => rfl
    | cons e rest ih =>
      by_cases he : e.1 = k
      · have h1 : (e.1 != k) = false := by simp [he]
        have h2 : (e.1 == k') = false := by rw [he]; exact hb
        simp only [List.filter_cons, h1, List.find?_cons, h2]
        exact ih
      · have h1 : (e.1 != k) = true := by simpa using he
        simp only [List.filter_cons, h1, if_true, List.find?_cons]
        cases e.1 == k' with
        | true => rfl
        | false => exact ih

private theorem fold_get? {α : Type} (key : α → Pos) (k : Pos) : ∀ (cells : List α) (s0 : Store α),
    (cells.foldl (fun s c => s.insert (key c) c) s0).get? k =
      match lastAt key cells k with
      | some x => some x
      | none => s0.get? k := by
  intro cells
  induction cells with
  | nil => intro s0; rfl
  | cons c rest ih =>
    intro s0
    simp only [List.foldl_cons, ih, lastAt]
    cases lastAt key rest k with
    | some x => rfl
    | none =>
      simp only [get?_insert]
      cases key c == k <;> rfl

/-- **Last write wins.**  For every list of cells (any length, positions repeated or not) the store that
    `cells.set_fast(cell)` fills cell by cell answers `get((row, col))` with the LAST cell of the list at that position,
    and with nothing when there is none. -/
theorem C03_store_last_wins {α : Type} (key : α → Pos) (cells : List α) (k : Pos) :
    (fillStore key cells).get? k = lastAt key cells k := by
  unfold fillStore
  rw [fold_get? key k cells []]
  cases lastAt key cells k <;> rfl

/-- `lastAt` is what its name says: the last element of the sub-list of cells at position `k` -/
theorem C03_last_at_meaning {α : Type} (key : α → Pos) (cells : List α) (k : Pos) :
    lastAt key cells k = (cells.filter (fun c => key c == k)).getLast? := by
  induction cells with
  | nil => rfl
  | cons c rest ih =>
    simp only [lastAt, ih, List.filter_cons]
    cases hk : key c == k with
    | true =>
      simp only [if_true, List.getLast?_cons]
      cases (rest.filter (fun c => key c == k)).getLast? <;> rfl
    | false =>
      simp only [Bool.false_eq_true, if_false]
      cases (rest.filter (fun c => key c == k)).getLast? <;> rfl

private theorem insert_keys {α : Type} (s : Store α) (k : Pos) (v : α)
    (h : (s.map (·.1)).Nodup) : (((s.insert k v)).map (·.1)).Nodup := by
  unfold Store.insert
  simp only [List.map_cons, List.nodup_cons]
  refine ⟨?_, ?_⟩
  · intro hm
    obtain ⟨e, he, hek⟩ := List.mem_map.mp hm
    have := (List.mem_filter.mp he).2
    simp [hek] at this
  · exact (List.filter_sublist.map _).nodup h

/-- **The store is a map**: whatever the cells, no position occurs twice among its entries -/
theorem C03_store_is_map {α : Type} (key : α → Pos) (cells : List α) :
    ((fillStore key cells).map (·.1)).Nodup := by
  unfold fillStore
  suffices ∀ (s0 : Store α), (s0.map (·.1)).Nodup → ((cells.foldl (fun s c => s.insert (key c) c) s0).map (·.1)).Nodup from
    this [] List.nodup_nil
  induction cells with
  | nil => intro s0 h; exact h
  | cons c rest ih => intro s0 h; exact ih _ (insert_keys s0 (key c) c h)

/-- the position of a compared cell (`View`) -/
def viewKey (v : View) : Pos := (v.row, v.col)

/-- the position the decoder gives a cell: row and column of its reference -/
def specKey (v : CellV) : Pos := (rowOf v.ref, colOf v.ref)

private theorem lastAt_map {α β : Type} (f : α → β) (kv : β → Pos) (k : Pos) : ∀ (l : List α),
    (lastAt (fun a => kv (f a)) l k).map f = lastAt kv (l.map f) k := by
  intro l
  induction l with
  | nil => rfl
  | cons c rest ih =>
    simp only [lastAt, List.map_cons, ← ih]
    cases lastAt (fun a => kv (f a)) rest k with
    | some x => rfl
    | none =>
      simp only [Option.map_none]
      cases kv (f c) == k <;> rfl

/-- two cell lists that show the same views in document order fill stores that show the same view at every position -/
private theorem store_views_agree (outs : List CellOut) (cs : List CellV) (h : outs.map outView = cs.map specView) (k : Pos) :
    ((fillStore outKey outs).get? k).map outView = ((fillStore specKey cs).get? k).map specView := by
  rw [C03_store_last_wins, C03_store_last_wins]
  have h1 := lastAt_map outView viewKey k outs
  have h2 := lastAt_map specView viewKey k cs
  rw [h] at h1
  exact h1.trans h2.symm

/-- **The sheet as a MAP, every translator.**  For every shared-string table, every list of `<row>` elements with
    `validSheetData` and every shared-formula translator `T`, and for EVERY position `k = (row, column)`:
    the store the reader model fills (`readRows`, then `cells.set_fast` for each cell in document order) and the store
    filled the same way from the decoder's cell list both answer a look-up at `k` with the LAST cell of the document at
    `k` (`C03_store_last_wins`), and the two answers show the same (column, row, kind, value text, formula text, style
    index) — or both stores have nothing there; both sides panic together (only inside `T`).
    `validSheetData` ALLOWS a position to occur more than once (`validPositions` asks each `r` to be well formed and
    inside the grid, nothing about order or repetition; the example below has A1 three times): the earlier cells at a
    position are overwritten on both sides.  ECMA-376 does not say which of two `<c>` with the same `r` counts (the
    schema does not exclude them): "the last" is the library's rule, applied here to the decoder's document-order list
    as well.  Tie: `c03 model` prints the model's sheets through THIS store (`Store.sorted ∘ fillStore`, sheets up to
    4000 cells; larger ones through the driver's sort-and-keep-last) against `get_cell_collection_sorted()` of the
    library. -/
theorem C03_sheet_store (T : Tr) (sis rows : List Node) (h : validSheetData sis rows = true) (k : Pos) :
    (readRows T (sis.map (stringItem false)) 0 [] rows).map (fun outs => ((fillStore outKey outs).get? k).map outView) =
      (expandSharedT T [] (specFilled (sis.map rstText) 0 rows)).map
        (fun cs => ((fillStore specKey cs).get? k).map specView) ∧
    (∀ outs, readRows T (sis.map (stringItem false)) 0 [] rows = some outs →
      (fillStore outKey outs).get? k = lastAt outKey outs k) := by
  refine ⟨?_, fun outs _ => C03_store_last_wins outKey outs k⟩
  have := C03_sheet T sis rows h
  cases hx : readRows T (sis.map (stringItem false)) 0 [] rows with
  | none =>
    rw [hx] at this
    cases hy : expandSharedT T [] (specFilled (sis.map rstText) 0 rows) with
    | none => rfl
    | some cs => rw [hy] at this; simp at this
  | some outs =>
    rw [hx] at this
    cases hy : expandSharedT T [] (specFilled (sis.map rstText) 0 rows) with
    | none => rw [hy] at this; simp at this
    | some cs =>
      rw [hy] at this
      simp only [Option.map_some, Option.some.injEq] at this ⊢
      exact store_views_agree outs cs this k

/-- … against the decoder (the spec's translator): no panic, and at every position the store shows the last of the
    decoder's cells (`specSheetCells` = the cells of `Spec.Sml.decodeSheet`) at that position -/
theorem C03_sheet_store_decoder (sis rows : List Node) (h : validSheetData sis rows = true) (k : Pos) :
    ∃ outs, readRows specTr (sis.map (stringItem false)) 0 [] rows = some outs ∧
      ((fillStore outKey outs).get? k).map outView =
        (lastAt specKey (specSheetCells (sis.map rstText) rows) k).map specView := by
  obtain ⟨outs, h1, h2⟩ := C03_sheet_decoder sis rows h
  refine ⟨outs, h1, ?_⟩
  rw [store_views_agree outs _ h2 k, C03_store_last_wins]

/-- non-vacuity: a valid `<sheetData>` with A1 THREE times (twice in row 1, once more in a second `<row r="1">`) and B1
    once; the store keeps two entries, A1 shows the last value written -/
def dupRows : List Node :=
  [rowE [("r", "1")] [cE [("r", "A1")] [vE "1"], cE [("r", "B1")] [vE "2"], cE [("r", "A1")] [vE "3"]],
   rowE [("r", "1")] [cE [("r", "A1"), ("t", "str")] [vE "last"]]]

def dupShow (f : List CellOut → Option CellOut) : Option (Option String) :=
  (readRows specTr (sheetSis.map (stringItem false)) 0 [] dupRows).map fun outs => (f outs).map fun o => String.ofList o.cell.raw.text

example :
    validSheetData sheetSis dupRows = true ∧
    ((readRows specTr (sheetSis.map (stringItem false)) 0 [] dupRows).map fun outs => (outs.length, (fillStore outKey outs).length)) =
      some (4, 2) ∧
    dupShow (fun outs => (fillStore outKey outs).get? (1, 1)) = some (some "last") ∧
    dupShow (fun outs => (fillStore outKey outs).get? (1, 2)) = some (some "2") ∧
    dupShow (fun outs => (fillStore outKey outs).get? (2, 1)) = some none := by
  refine ⟨by decide +kernel, by decide +kernel, by decide +kernel, by decide +kernel, by decide +kernel⟩

end Store

/-! ## the whole workbook -/
section Whole

private theorem relsName_workbook' : relsNameOf "xl/workbook.xml" = "xl/_rels/workbook.xml.rels" := by decide

private theorem mapM_map_view' {α α' β γ : Type} (g : α → α') (f : α' → Option β) (v : β → γ) (w : α → γ) : ∀ (l : List α),
    (∀ x ∈ l, ∃ y, f (g x) = some y ∧ v y = w x) → ∃ ys, (l.map g).mapM f = some ys ∧ ys.map v = l.map w := by
  intro l
  induction l with
  | nil => intro _; exact ⟨[], rfl, rfl⟩
  | cons a t ih =>
    intro h
    obtain ⟨y, hy, hv⟩ := h a List.mem_cons_self
    obtain ⟨ys, hys, hvs⟩ := ih (fun x hx => h x (List.mem_cons_of_mem _ hx))
    refine ⟨y :: ys, ?_, by simp [hv, hvs]⟩
    simp only [List.map_cons, List.mapM_cons, hy, hys]
    rfl

/-- **The whole workbook, defined names in any spelling.**  `C03_book` with the hypothesis on the text of the defined
    names widened from `NameTextOk` (the library's own spelling of an area list) to the decidable `nameTextAnyB`
    (`Model/CoordCanon.lean`: anything that is not a plain area list, or a list of `qualifier!cell` / `qualifier!cell:cell`
    with the qualifier unquoted — `Sheet1!$A$1`, as Excel writes it — or in apostrophes).  Same hypotheses otherwise, same
    conclusion for sheets, cells, style facts, merges, links and homes; for the names: the reader model shows the
    decoder's name and scope, and the decoder's text RE-QUOTED by the library's rule (`canonNameV` = `canonText` on the
    text; same areas, idempotent: `C03_canon_text_meaning`; the identity on `NameTextOk` texts:
    `C03_canon_text_library_spelling`, so `C03_book` is the special case). -/
theorem C03_book_any (cf : Umya.StyleCodec.Tok → Umya.StyleCodec.Tok) (p : Package) (mr : Rel) (wb wr sstRoot sroot : Node)
    (h1 : (relsOf p "").find? (fun r => r.type.endsWith "/officeDocument") = some mr)
    (hwbp : resolveTarget "" mr.target = "xl/workbook.xml")
    (hwb : lookupOf p "xl/workbook.xml".toList = some wb)
    (hwr : lookupOf p "xl/_rels/workbook.xml.rels".toList = some wr)
    (hss : lookupOf p "xl/sharedStrings.xml".toList = some sstRoot)
    (hsst : specSst p "xl/workbook.xml" = (sstRoot.kids "si").map rstText)
    (hsr : lookupOf p "xl/styles.xml".toList = some sroot)
    (hsty : specStylesRoot p "xl/workbook.xml" = some sroot)
    (hvr : validRels wr = true) (hvs : validStyles sroot = true)
    (hvl : validSheetList (((wb.kid? "sheets").map (·.kids "sheet")).getD []) = true)
    (hsheets : ∀ wrs, readRels wr = some wrs → ∀ se ∈ ((wb.kid? "sheets").map (·.kids "sheet")).getD [],
      SheetValid p (sstRoot.kids "si") sroot wrs se)
    (hvn : (((wb.kid? "definedNames").map (·.kids "definedName")).getD []).all validDefinedName = true)
    (hnt : ∀ d ∈ ((wb.kid? "definedNames").map (·.kids "definedName")).getD [], nameTextAnyB d.ownText = true)
    (hns : ∀ d ∈ ((wb.kid? "definedNames").map (·.kids "definedName")).getD [], ∀ i, (specName d).scope = some i →
      i < (((wb.kid? "sheets").map (·.kids "sheet")).getD []).length) :
    ∃ b bv, readBook specTr cf (lookupOf p) = some b ∧ (decode p).1 = some bv ∧
      bv.sheets = (((wb.kid? "sheets").map (·.kids "sheet")).getD []).map (specSheetOf p "xl/workbook.xml") ∧
      b.sheets.map viewR = (((wb.kid? "sheets").map (·.kids "sheet")).getD []).map (fun se =>
        viewS (specSheetOf p "xl/workbook.xml" se)
          (specSheetFacts cf p "xl/workbook.xml" bv.xfs (specSst p "xl/workbook.xml") se)) ∧
      b.names.map (fun q => nameViewB q.1) = bv.names.map canonNameV ∧
      (∀ q ∈ b.names, ∀ i, q.1.localSheetId = some i → q.2 = .sheet i) := by
  have hwb' : (p.part? (resolveTarget "" mr.target)).bind (·.xml) = some wb := by rw [hwbp]; exact hwb
  obtain ⟨bv, hdec, hsh, hnm, hxf⟩ := decode_book p mr wb h1 hwb'
  rw [hwbp] at hsh hxf
  rw [hsty] at hxf
  simp only [Option.map_some, Option.getD_some] at hxf
  -- workbook relationships
  obtain ⟨wrs, hwrs, hag0⟩ := C03_rels wr hvr
  have hag : RelsAgree wrs (relsOf p "xl/workbook.xml") := by
    rw [relsOf_eq p "xl/workbook.xml" wr (by rw [relsName_workbook']; exact hwr)]
    exact hag0
  -- sheet list
  have hsl : readSheetList (((wb.kid? "sheets").map (·.kids "sheet")).getD []) =
      some ((((wb.kid? "sheets").map (·.kids "sheet")).getD []).map toSheetR) := by
    unfold readSheetList
    apply mapM_some
    intro s hs
    have := List.all_eq_true.mp hvl s hs
    simp only [Bool.and_eq_true, Option.isSome_iff_exists] at this
    obtain ⟨⟨⟨n, hn⟩, ⟨i, hi⟩⟩, ⟨r, hr⟩⟩ := this
    simp only [toSheetR, hn, hi, hr, Option.getD_some]
  -- styles
  obtain ⟨made, hmade, _, _⟩ := C03_style_resolution cf sroot hvs
  -- names
  obtain ⟨nl, hnl, hnv⟩ := C03_defined_names_any_spelling _ hvn hnt
  have hscope : ∀ n ∈ nl, ∀ i, n.localSheetId = some i →
      i < ((((wb.kid? "sheets").map (·.kids "sheet")).getD []).map toSheetR).length := by
    intro n hn i hi
    have hmem : nameViewB n ∈ nl.map nameViewB := List.mem_map_of_mem hn
    rw [hnv] at hmem
    obtain ⟨d, hd, hde⟩ := List.mem_map.mp hmem
    have : (specName d).scope = some i := by
      have e : (canonNameV (specName d)).scope = (nameViewB n).scope := by rw [hde]
      exact e.trans hi
    simpa using hns d hd i this
  obtain ⟨homed, hhome, hhn, hhs, _, _⟩ := C03_names_home _ nl hscope
  -- sheets
  obtain ⟨sbs, hsbs, hsv⟩ := mapM_map_view' toSheetR
    (readSheetB specTr (lookupOf p) made ((sstRoot.kids "si").map (stringItem false)) wrs) viewR
    (fun se => viewS (specSheetOf p "xl/workbook.xml" se)
      (specSheetFacts cf p "xl/workbook.xml" (styleTable sroot) ((sstRoot.kids "si").map rstText) se))
    (((wb.kid? "sheets").map (·.kids "sheet")).getD [])
    (fun se hse => by
      have := List.all_eq_true.mp hvl se hse
      simp only [Bool.and_eq_true, Option.isSome_iff_exists] at this
      obtain ⟨⟨⟨n, hn⟩, ⟨i, hi⟩⟩, ⟨r, hr⟩⟩ := this
      have := C03_book_sheet cf p (sstRoot.kids "si") sroot hvs made hmade wrs hag hsst se n i r hn hr (hsheets wrs hwrs se hse)
      simpa only [toSheetR, hn, hi, hr, Option.getD_some] using this)
  refine ⟨⟨sbs, homed, made⟩, bv, ?_, hdec, hsh, ?_, ?_, ?_⟩
  · unfold readBook
    simp only [hwb, hwr, hss, hwrs, hsl, hnl, hhome, hsr, hmade, readSst, hsbs, Option.map_some]
  · rw [hxf, hsst]; exact hsv
  · have e : bv.names.map canonNameV = nl.map nameViewB := by
      rw [hnm, List.map_map, hnv]; rfl
    rw [e, ← hhn]
    simp only [List.map_map]
    rfl
  · exact hhs

/-- a package view of two sheets as maps: same length and, sheet by sheet, the same view at every position -/
private theorem sheet_store_of_view (sb : SheetB) (sv : SheetV) (facts : List StyleFacts) (h : viewR sb = viewS sv facts) (k : Pos) :
    ((fillStore outKey sb.cells).get? k).map outView = ((fillStore specKey sv.cells).get? k).map specView :=
  store_views_agree sb.cells sv.cells (congrArg SheetView.cells h) k

/-- **The whole workbook, every sheet as a MAP.**  Under the hypotheses of `C03_book_any`: the reader model delivers a
    workbook, the decoder a `BookV`, with the same number of sheets, and for EVERY sheet index `i` and EVERY position
    `k = (row, column)` the cell store the library fills for sheet `i` (`cells.set_fast` per cell in document order: last
    write wins, `C03_store_last_wins`) and the store filled from the decoder's cells of sheet `i` show the same cell at
    `k` — the LAST `<c>` of the part at that position — or both nothing. -/
theorem C03_book_store (cf : Umya.StyleCodec.Tok → Umya.StyleCodec.Tok) (p : Package) (mr : Rel) (wb wr sstRoot sroot : Node)
    (h1 : (relsOf p "").find? (fun r => r.type.endsWith "/officeDocument") = some mr)
    (hwbp : resolveTarget "" mr.target = "xl/workbook.xml")
    (hwb : lookupOf p "xl/workbook.xml".toList = some wb)
    (hwr : lookupOf p "xl/_rels/workbook.xml.rels".toList = some wr)
    (hss : lookupOf p "xl/sharedStrings.xml".toList = some sstRoot)
    (hsst : specSst p "xl/workbook.xml" = (sstRoot.kids "si").map rstText)
    (hsr : lookupOf p "xl/styles.xml".toList = some sroot)
    (hsty : specStylesRoot p "xl/workbook.xml" = some sroot)
    (hvr : validRels wr = true) (hvs : validStyles sroot = true)
    (hvl : validSheetList (((wb.kid? "sheets").map (·.kids "sheet")).getD []) = true)
    (hsheets : ∀ wrs, readRels wr = some wrs → ∀ se ∈ ((wb.kid? "sheets").map (·.kids "sheet")).getD [],
      SheetValid p (sstRoot.kids "si") sroot wrs se)
    (hvn : (((wb.kid? "definedNames").map (·.kids "definedName")).getD []).all validDefinedName = true)
    (hnt : ∀ d ∈ ((wb.kid? "definedNames").map (·.kids "definedName")).getD [], nameTextAnyB d.ownText = true)
    (hns : ∀ d ∈ ((wb.kid? "definedNames").map (·.kids "definedName")).getD [], ∀ i, (specName d).scope = some i →
      i < (((wb.kid? "sheets").map (·.kids "sheet")).getD []).length) :
    ∃ b bv, readBook specTr cf (lookupOf p) = some b ∧ (decode p).1 = some bv ∧ b.sheets.length = bv.sheets.length ∧
      ∀ (i : Nat) (h1 : i < b.sheets.length) (h2 : i < bv.sheets.length) (k : Pos),
        ((fillStore outKey (b.sheets[i]).cells).get? k).map outView =
          ((fillStore specKey (bv.sheets[i]).cells).get? k).map specView ∧
        (fillStore outKey (b.sheets[i]).cells).get? k = lastAt outKey (b.sheets[i]).cells k := by
  obtain ⟨b, bv, hb, hd, hsh, hv, _, _⟩ := C03_book_any cf p mr wb wr sstRoot sroot h1 hwbp hwb hwr hss hsst hsr hsty hvr hvs hvl hsheets hvn hnt hns
  have hlen : b.sheets.length = bv.sheets.length := by
    have := congrArg List.length hv
    simp only [List.length_map] at this
    rw [hsh, List.length_map]; exact this
  refine ⟨b, bv, hb, hd, hlen, ?_⟩
  intro i hi1 hi2 k
  refine ⟨?_, C03_store_last_wins _ _ _⟩
  have hi : i < (b.sheets.map viewR).length := by rw [List.length_map]; exact hi1
  have e1 : (b.sheets.map viewR)[i] = viewR (b.sheets[i]) := by simp
  have hv' := hv
  have e2 : ∀ (hh : i < ((((wb.kid? "sheets").map (·.kids "sheet")).getD []).map (fun se =>
        viewS (specSheetOf p "xl/workbook.xml" se)
          (specSheetFacts cf p "xl/workbook.xml" bv.xfs (specSst p "xl/workbook.xml") se))).length),
      viewR (b.sheets[i]) = ((((wb.kid? "sheets").map (·.kids "sheet")).getD []).map (fun se =>
        viewS (specSheetOf p "xl/workbook.xml" se)
          (specSheetFacts cf p "xl/workbook.xml" bv.xfs (specSst p "xl/workbook.xml") se)))[i] := by
    intro hh
    rw [← e1]
    exact List.getElem_of_eq hv' hi
  have hlen2 : i < (((wb.kid? "sheets").map (·.kids "sheet")).getD []).length := by
    have := congrArg List.length hsh
    simp only [List.length_map] at this
    omega
  have e3 := e2 (by rw [List.length_map]; exact hlen2)
  simp only [List.getElem_map] at e3
  have e4 : bv.sheets[i] = specSheetOf p "xl/workbook.xml" ((((wb.kid? "sheets").map (·.kids "sheet")).getD [])[i]) := by
    simp only [hsh, List.getElem_map]
  rw [e4]
  exact sheet_store_of_view _ _ _ e3 k

end Whole

end Umya.Thm.C03
