/-
  C06 (defined names: where they live) — the workbook writer's <definedNames> list, the reader's
  re-homing loop and Spreadsheet::remove_sheet.

  Model: `Umya/Model/AnnotNames.lean`.  A book = workbook-level list of names + sheets (title, list of
  names); a name = (name, localSheetId, address text, sheet name of its first area).  `write` is the
  list `writer/xlsx/workbook.rs` emits (every name with the localSheetId it holds), `read titles` the
  loop at the end of `reader/xlsx/workbook.rs` (`none` = its `.unwrap()` panics), `removeSheet` is
  Spreadsheet::remove_sheet AFTER fix 39e32f7 (the localSheetIds of the remaining
  names follow their sheets), `removeSheetUnfixed` the function before that fix.
  The address text is opaque: its own codec is C06_defined_name_roundtrip / _text_kept (Thm/C06.lean),
  the attribute codec C06_defined_name_attrs (Thm/C06View.lean).

  Tie on every run: `c06 nm` lines (harness/src/c06names.rs, Umya/Driver/C06Names.lean).
-/
import Umya.Lemmas.AnnotNamesHome
namespace Umya.Thm.C06
open Umya.AnnotNames

/-- What the reader does with ANY written list whose localSheetIds are below the number of sheets:
    no name is lost, duplicated or changed; each goes to the list `target` says (its localSheetId,
    else the first sheet called like the sheet of its first area, else the workbook), and every
    list keeps the order of the written list. -/
theorem C06_defined_names_read_is_rehome (titles : List Text) (ds : List DN)
    (h : ∀ d ∈ ds, ∀ k, d.lsid = some k → k < titles.length) :
    read titles ds = some (rehome titles ds) := by
  unfold Umya.AnnotNames.read
  rw [emptyBook_eq, readFrom_rehome titles ds [] h]
  simp

/-- the reader panics exactly on a localSheetId that is not below the number of sheets
    (first such name: a foreign file, or a name given such an id through the API). -/
theorem C06_defined_names_read_out_of_range (titles : List Text) (pre post : List DN) (d : DN) (k : Nat)
    (hpre : ∀ x ∈ pre, ∀ j, x.lsid = some j → j < titles.length)
    (hd : d.lsid = some k) (hk : titles.length ≤ k) :
    read titles (pre ++ d :: post) = none := by
  have hlen : (rehome titles (([] : List DN) ++ pre)).sheets.length = titles.length := by simp [rehome, homes_length]
  have key : ∀ (r : List DN) (b : Book), readFrom titles b (r ++ d :: post) =
      match readFrom titles b r with | some b' => readFrom titles b' (d :: post) | none => none := by
    intro r; induction r with
    | nil => intro b; simp [readFrom]
    | cons x r ih =>
      intro b; simp only [List.cons_append, readFrom]
      cases place titles b x with
      | none => rfl
      | some b' => exact ih b'
  unfold Umya.AnnotNames.read
  rw [key, emptyBook_eq, readFrom_rehome titles pre [] hpre]
  simp only [readFrom, place, hd, hlen]
  have : ¬ k < titles.length := by omega
  simp [this]

/-- C06 (defined names, scope): save + reload of a book in which every name is stored where the
    reader puts it (`Stable`: a name on sheet k has localSheetId k, or none and a first area on sheet
    k; a workbook-level name has no localSheetId and a first area that names no sheet) returns THE
    SAME BOOK: the same lists in the same order on the same sheets / the workbook level, each name
    with the same name, localSheetId, address text and first area.
    NOT preserved in general (see C06_defined_names_unstable_moves): the list a name is stored in when
    that is not the list the reader chooses; then name, address and count survive
    (C06_defined_names_read_is_rehome) but the name moves. -/
theorem C06_defined_names_rehome_roundtrip (b : Book) (h : Stable b) :
    read b.titles (write b) = some b := by
  have hr : ∀ d ∈ write b, ∀ k, d.lsid = some k → k < b.titles.length := by
    intro d hd k hk
    rcases List.mem_append.mp hd with hd | hd
    · rw [(h.1 d hd).1] at hk; cases hk
    · obtain ⟨m, hm, hlt⟩ := flat_target_lt (target b.titles) b.sheets 0 h.2 d hd
      have hkm : target b.titles d = some k := by simp [target, hk]
      rw [hkm] at hm; injection hm with hm; subst hm
      simpa [Book.titles] using hlt
  rw [C06_defined_names_read_is_rehome b.titles (write b) hr]
  have hwb : (write b).filter (fun d => decide (target b.titles d = none)) = b.wb := by
    unfold write
    rw [List.filter_append, filter_all_true _ b.wb (fun d hd => by simp [target, (h.1 d hd).1, (h.1 d hd).2]),
        filter_all_false _ (flat b.sheets) (fun d hd => by
          obtain ⟨m, hm, _⟩ := flat_target_ge (target b.titles) b.sheets 0 h.2 d hd
          simp [hm])]
    simp
  have hs := homes_flat (target b.titles) b.sheets 0 b.wb (fun d hd m hm => by
    simp [target, (h.1 d hd).1, (h.1 d hd).2] at hm) h.2
  simp only [rehome, hwb]
  unfold write
  rw [show b.titles = b.sheets.map (·.title) from rfl] at hs ⊢
  rw [hs]

/-- non-vacuity: three sheets; a workbook-level constant, a workbook-level name whose first area
    names no sheet of the book, scoped names, a name homed by its first area. -/
def exBook : Book :=
  ⟨[⟨"Rate".toList, none, "0.5".toList, none⟩, ⟨"Gone".toList, none, "Old!$A$1".toList, some "Old".toList⟩],
   [⟨"S1".toList, [⟨"A".toList, some 0, "S1!$A$1".toList, some "S1".toList⟩]⟩,
    ⟨"S2".toList, [⟨"A".toList, some 1, "S1!$A$2".toList, some "S1".toList⟩, ⟨"B".toList, none, "S2!$B$1,S1!$B$2".toList, some "S2".toList⟩]⟩,
    ⟨"S3".toList, [⟨"A".toList, some 2, "S3!$A$1".toList, some "S3".toList⟩, ⟨"C".toList, some 2, "1.5".toList, none⟩]⟩]⟩

theorem exBook_stable : Stable exBook := by
  refine ⟨?_, ?_⟩
  · intro d hd; revert d; decide
  · refine ⟨?_, ?_, ?_, trivial⟩ <;> (intro d hd; revert d; decide)
example : read exBook.titles (write exBook) = some exBook := by decide

/-- what is not preserved: a name WITHOUT localSheetId stored on another sheet than the one its
    first area names moves to that sheet on reload; a workbook-level name whose first area names a
    sheet moves onto that sheet; a name stored on one sheet with the localSheetId of another moves
    there.  Name, address and count are kept. -/
theorem C06_defined_names_unstable_moves :
    let d : DN := ⟨"N".toList, none, "S2!$A$1".toList, some "S2".toList⟩
    let e : DN := ⟨"E".toList, some 1, "1+1".toList, none⟩
    let b : Book := ⟨[d], [⟨"S1".toList, [{ d with name := "M".toList }, e]⟩, ⟨"S2".toList, []⟩]⟩
    read b.titles (write b) = some ⟨[], [⟨"S1".toList, []⟩, ⟨"S2".toList, [d, { d with name := "M".toList }, e]⟩]⟩ := by
  decide

/-- `Stable` survives Spreadsheet::remove_sheet(i) for any i (titles need not even be distinct): the
    names of the removed sheet go with it, no other name is dropped, and every other name is still
    stored where the reader will put it — scoped names of later sheets carry the new position. -/
theorem C06_defined_names_remove_sheet_stable (b : Book) (i : Nat) (h : Stable b) : Stable (removeSheet i b) := by
  unfold removeSheet
  split
  · rename_i hi
    have ht : (⟨fixIds i b.wb, (b.sheets.eraseIdx i).map (fixSheet i)⟩ : Book).titles = b.titles.eraseIdx i := by
      simp [Book.titles, fixSheet, ← map_title_eraseIdx, Function.comp_def]
    refine ⟨?_, ?_⟩
    · intro x hx
      obtain ⟨d, hd, _, rfl⟩ := mem_fixIds i b.wb x hx
      have hl := (h.1 d hd).1
      have hfx : fixOne i d = d := by simp [fixOne, hl]
      rw [hfx, ht]
      refine ⟨hl, ?_⟩
      have := (h.1 d hd).2
      unfold byName at this ⊢
      cases hf : d.first with
      | none => rfl
      | some t => rw [hf] at this; exact indexOf_eraseIdx_none t _ i this
    · rw [ht]
      exact stableFrom_erase b.titles i b.sheets 0 i (by omega) h.2
  · exact h

/-- what remove_sheet(i) keeps: the sheets other than i, each with all its names in order (only
    localSheetIds change), for a stable book. -/
theorem C06_defined_names_remove_sheet_keeps (b : Book) (i : Nat) (h : Stable b) (hi : i < b.sheets.length) :
    ((removeSheet i b).sheets.map (fun s => (s.title, s.names.map (fun d => (d.name, d.addr, d.first)))))
      = ((b.sheets.eraseIdx i).map (fun s => (s.title, s.names.map (fun d => (d.name, d.addr, d.first))))) := by
  have key : ∀ (ss : List Sheet) (k j : Nat), i = k + j → StableFrom (target b.titles) k ss →
      ((ss.eraseIdx j).map (fixSheet i)).map (fun s => (s.title, s.names.map (fun d => (d.name, d.addr, d.first))))
        = (ss.eraseIdx j).map (fun s => (s.title, s.names.map (fun d => (d.name, d.addr, d.first)))) := by
    have one : ∀ (s : Sheet) (k : Nat), k ≠ i → (∀ d ∈ s.names, target b.titles d = some k) →
        (fixSheet i s).names.map (fun d => (d.name, d.addr, d.first)) = s.names.map (fun d => (d.name, d.addr, d.first)) := by
      intro s k hk hs
      have hf : s.names.filter (fun d => decide (d.lsid ≠ some i)) = s.names :=
        filter_all_true _ _ (fun d hd => by simpa using keep_of_target b.titles i k d (hs d hd) hk)
      simp only [fixSheet, fixIds, hf, List.map_map]
      apply List.map_congr_left
      intro d _
      simp only [Function.comp, fixOne]
      cases d.lsid with
      | none => rfl
      | some j => by_cases hij : i < j <;> simp [hij]
    have shift : ∀ (ss : List Sheet) (k : Nat), i < k → StableFrom (target b.titles) k ss →
        (ss.map (fixSheet i)).map (fun s => (s.title, s.names.map (fun d => (d.name, d.addr, d.first))))
          = ss.map (fun s => (s.title, s.names.map (fun d => (d.name, d.addr, d.first)))) := by
      intro ss; induction ss with
      | nil => intro k _ _; rfl
      | cons s r ih =>
        intro k hk hs
        simp only [List.map_cons, one s k (by omega) hs.1, ih (k + 1) (by omega) hs.2]
        rfl
    intro ss; induction ss with
    | nil => intro k j _ _; rfl
    | cons s r ih =>
      intro k j e hs
      cases j with
      | zero => simp only [List.eraseIdx_cons_zero]; exact shift r (k + 1) (by omega) hs.2
      | succ j =>
        simp only [List.eraseIdx_cons_succ, List.map_cons, one s k (by omega) hs.1, ih (k + 1) j (by omega) hs.2]
        rfl
  simp only [removeSheet, hi, if_true]
  exact key b.sheets 0 i (by omega) h.2

/-- C06 (defined names after remove_sheet): after Spreadsheet::remove_sheet(i) on a stable book
    save + reload returns the book as it stands: every remaining name on its own sheet / the workbook
    level, in order, with the localSheetId it was written with. -/
theorem C06_defined_names_after_remove_sheet (b : Book) (i : Nat) (h : Stable b) :
    read (removeSheet i b).titles (write (removeSheet i b)) = some (removeSheet i b) :=
  C06_defined_names_rehome_roundtrip _ (C06_defined_names_remove_sheet_stable b i h)

example : read (removeSheet 0 exBook).titles (write (removeSheet 0 exBook)) = some (removeSheet 0 exBook)
    ∧ (removeSheet 0 exBook).sheets.length = 2 ∧ removeSheet 0 exBook ≠ removeSheetUnfixed 0 exBook := by decide

/-- the same after any history of removals -/
theorem C06_defined_names_after_removals (b : Book) (is : List Nat) (h : Stable b) :
    let b' := is.foldl (fun acc i => removeSheet i acc) b
    read b'.titles (write b') = some b' := by
  intro b'
  refine C06_defined_names_rehome_roundtrip _ ?_
  have : ∀ (is : List Nat) (b : Book), Stable b → Stable (is.foldl (fun acc i => removeSheet i acc) b) := by
    intro is; induction is with
    | nil => intro b h; exact h
    | cons i r ih => intro b h; exact ih _ (C06_defined_names_remove_sheet_stable b i h)
  exact this is b h

example : (let b' := [1, 0].foldl (fun acc i => removeSheet i acc) exBook
           read b'.titles (write b') = some b' ∧ b'.sheets.length = 1) := by decide

/-- remove_sheet BEFORE fix 39e32f7 left the stored ids alone: after removing the
    first of three sheets the name of the (old) second sheet comes back on the wrong sheet ... -/
theorem C06_defined_names_after_remove_sheet_unfixed_fails :
    ¬ ∀ (b : Book) (i : Nat), Stable b →
        read (removeSheetUnfixed i b).titles (write (removeSheetUnfixed i b)) = some (removeSheetUnfixed i b) := by
  intro h
  have := h ⟨[], [⟨"S1".toList, []⟩, ⟨"S2".toList, [⟨"A".toList, some 1, "$A$1".toList, some []⟩]⟩, ⟨"S3".toList, []⟩]⟩ 0
    (by refine ⟨?_, ?_⟩
        · intro d hd; simp at hd
        · refine ⟨?_, ?_, ?_, trivial⟩ <;> (intro d hd; revert d; decide))
  revert this; decide

/-- ... and with two sheets the reload panics (the stale id indexes no sheet). -/
theorem C06_defined_names_after_remove_sheet_unfixed_panics :
    let b : Book := ⟨[], [⟨"S1".toList, []⟩, ⟨"S2".toList, [⟨"A".toList, some 1, "$A$1".toList, some []⟩]⟩]⟩
    read (removeSheetUnfixed 0 b).titles (write (removeSheetUnfixed 0 b)) = none := by
  decide

/-- sheets put in front of scoped names through get_sheet_collection_mut() are NOT followed by the
    ids (no API of the crate inserts; `new_sheet` / `add_sheet` append, which keeps a stable book
    stable): the scoped name of the old first sheet comes back on the inserted sheet. -/
theorem C06_defined_names_insert_front_fails :
    let b : Book := ⟨[], [⟨"S1".toList, [⟨"A".toList, some 0, "$A$1".toList, some []⟩]⟩]⟩
    Stable b ∧ read (insertSheet 0 ⟨"New".toList, []⟩ b).titles (write (insertSheet 0 ⟨"New".toList, []⟩ b))
      = some ⟨[], [⟨"New".toList, [⟨"A".toList, some 0, "$A$1".toList, some []⟩]⟩, ⟨"S1".toList, []⟩]⟩ := by
  refine ⟨⟨?_, ?_⟩, by decide⟩
  · intro d hd; simp at hd
  · refine ⟨?_, trivial⟩; intro d hd; revert d; decide

end Umya.Thm.C06
