/-
  C02, package level — the whole package of a workbook of n plain sheets, and `decode` on it.

  `Umya/Model/PackageNode.lean` is the part list `make_buffer` assembles (names, content types, package-level and
  workbook-level relationships exactly as `rels.rs`, `workbook_rels.rs`, `content_types.rs` and
  `WriterManager::make_context_type_override` write them), with the worksheet / workbook / shared-string trees of
  the sheet-level and workbook-level models and OPAQUE bodies for docProps, theme and styles.  The theorems say
  what the independent OPC/SpreadsheetML reader `Umya.Spec.Sml.decode` reports on it, for every number of sheets:

    C02_content_types_cover      every part has a content type (and which one)
    C02_package_rels_resolve     every internal relationship target of every `.rels` part is a part of the package
    C02_rel_ids_unique           relationship ids are unique within every `.rels` part
    C02_sheet_ids_unique         sheetIds are present and unique
    C02_active_tab_in_range      no activeTab diagnostic when the view's index is inside the sheet list
    C02_package_no_diagnostics   (decode pkg).2 = []
    C02_book_decodes             decode pkg = (some book, []) with the sheet list (name, visibility, body of every
                                 sheet), the defined names and the active tab of the workbook

  The OPC path rules are evaluated on the concrete names (`resolveTarget`, `relsNameOf`, … of the decoder, on
  `xl/worksheets/sheetK.xml` for symbolic K: `Lemmas/PackagePath.lean`); no path hypothesis is left.
  Hypotheses (`BookP.WF`, all decidable per workbook): every sheet well-formed (`SheetW.WF`, from C10's
  `Coherent`) with columns ≥ 1; the opaque frames satisfy the conditions of `C02_sheet_decodes`; style indexes
  below the `cellXfs` count of the styles part; sheet titles distinct ignoring case (what `new_sheet` enforces;
  `set_name` does not: known finding); defined-name scopes inside the sheet list; the active tab inside the
  sheet list (`remove_sheet` clamps it since fix 649e69a; `set_active_sheet` accepts any index, and the writer
  writes what is stored — so this stays a hypothesis on the workbook).
  Outside the model (validated per file only): custom properties, macros / vbaProject.bin, ribbon, pivot caches,
  raw (not deserialized) sheets, and sheets with drawings, charts, images, comments / VML, OLE objects, printer
  settings or tables — each adds parts, Default extensions and relationships.
-/
import Umya.Lemmas.PackageNodeDecode
import Umya.Thm.C02Book
namespace Umya.Thm.C02
open Umya.CellXml Umya.CellNode Umya.SheetNode Umya.WorkbookNode Umya.PackageNode Umya.Num
open Umya.Spec.Sml
open Umya.Spec.Xml (Node Attr)

/-- `writePackage` succeeded: the pieces -/
theorem writePackage_anatomy (F : NumFmt) (b : BookP F.Num) (pkg : Package) (h : writePackage F b = some pkg) :
    ∃ tbl roots sst, renderSheetsP F [] b.sheets = some (tbl, roots) ∧ SstShape tbl sst ∧
      pkg = assemble F b (!tbl.isEmpty) roots sst := by
  unfold writePackage at h
  cases hr : renderSheetsP F [] b.sheets with
  | none => rw [hr] at h; cases h
  | some q =>
    obtain ⟨tbl, roots⟩ := q
    rw [hr] at h
    simp only [Option.map_eq_some_iff] at h
    obtain ⟨sst, hs, rfl⟩ := h
    exact ⟨tbl, roots, sst, rfl, sstPartsP_shape tbl sst hs, rfl⟩

/-- the content type the decoder finds for a part of the model package, by kind of part -/
theorem contentType_of_part (F : NumFmt) (b : BookP F.Num) (hs : Bool) (roots : List Node) (tbl : Table) (sst : List Part)
    (hsst : SstShape tbl sst) (hhs : hs = !tbl.isEmpty) (hlen : roots.length = b.sheets.length)
    (part : Part) (hp : part ∈ assemble F b hs roots sst) (hne : part.name ≠ "[Content_Types].xml") :
    ∃ ct, contentTypeOf (assemble F b hs roots sst) part.name = some ct := by
  rcases parts_classified F b hs roots tbl sst hsst part hp with ⟨nm, r, rfl, hnm⟩ | ⟨j, r, h1, h2, rfl⟩ | ⟨j, s, rr, h1, _, _, rfl⟩
  · simp only [List.mem_cons, List.not_mem_nil, or_false] at hnm
    rcases hnm with rfl | rfl | rfl | rfl | rfl | rfl | rfl | rfl | rfl
    · exact ⟨_, ct_override_hit F b hs roots tbl sst hsst nApp ctApp (ov_app _ _)⟩
    · exact ⟨_, ct_override_hit F b hs roots tbl sst hsst nCore ctCore (ov_core _ _)⟩
    · exact ⟨_, ct_default_rels F b hs roots tbl sst hsst nRootRels
        (ov_none _ _ _ (by decide) (by decide) (by decide) (by decide) (by decide) (by decide) (by intro i; simp [sheetPartL, nRootRels])) (by decide)⟩
    · exact ⟨_, ct_override_hit F b hs roots tbl sst hsst nTheme ctTheme (ov_theme _ _)⟩
    · -- the shared-string part is in the package only when the table is not empty, and then its Override is written
      have : hs = true := by
        cases hsst with
        | absent ht =>
          exfalso
          have hclosed : ∀ (nm : List Char) (r' : Node), nm ≠ nSst → xmlPart nSst r ≠ xmlPart nm r' :=
            fun nm r' hn e => hn (String.ofList_injective (congrArg Part.name e)).symm
          simp only [assemble, List.mem_append] at hp
          rcases hp with (((hp | hp) | hp) | hp) | hp
          · simp only [List.mem_cons, List.not_mem_nil, or_false] at hp
            rcases hp with hp | hp | hp | hp
            · exact hclosed _ _ (by decide) hp
            · exact hclosed _ _ (by decide) hp
            · exact hclosed _ _ (by decide) hp
            · exact hclosed _ _ (by decide) hp
          · obtain ⟨j, r', _, _, e⟩ := sheetParts_names roots 1 _ hp
            have := String.ofList_injective (congrArg Part.name e)
            simp [sheetPartL, nSst] at this
          · obtain ⟨j, s, rr, _, _, _, e⟩ := sheetRelsParts_names F b.sheets 1 _ hp
            have := String.ofList_injective (congrArg Part.name e)
            simp [sheetRelsL, nSst] at this
          · simp at hp
          · simp only [List.mem_cons, List.not_mem_nil, or_false] at hp
            rcases hp with hp | hp | hp | hp
            · exact hclosed _ _ (by decide) hp
            · exact hclosed _ _ (by decide) hp
            · exact hclosed _ _ (by decide) hp
            · exact hclosed _ _ (by decide) hp
        | present root hne' _ => rw [hhs]; cases tbl with | nil => exact absurd rfl hne' | cons _ _ => rfl
      subst this
      exact ⟨_, ct_override_hit F b true roots tbl sst hsst nSst ctSst (ov_sst _)⟩
    · exact ⟨_, ct_override_hit F b hs roots tbl sst hsst nStyles ctStyles (ov_styles _ _)⟩
    · exact ⟨_, ct_override_hit F b hs roots tbl sst hsst nWorkbookPart ctWorkbook (ov_workbook _ _)⟩
    · exact ⟨_, ct_default_rels F b hs roots tbl sst hsst nWorkbookRels
        (ov_none _ _ _ (by decide) (by decide) (by decide) (by decide) (by decide) (by decide) (by intro i; simp [sheetPartL, nWorkbookRels])) (by decide)⟩
    · exact absurd rfl hne
  · exact ⟨_, ct_override_hit F b hs roots tbl sst hsst (sheetPartL j) sheetContentType (ov_sheet _ _ j h1 (by omega))⟩
  · exact ⟨_, ct_default_rels F b hs roots tbl sst hsst (sheetRelsL j)
      (ov_none _ _ _ (by simp [sheetRelsL, nApp]) (by simp [sheetRelsL, nCore]) (by simp [sheetRelsL, nSst]) (by simp [sheetRelsL, nStyles])
        (by simp [sheetRelsL, nTheme]) (by simp [sheetRelsL, nWorkbookPart]) (fun i => sheetPart_ne_sheetRels i j)) (ext_sheetRels j)⟩

/-- **CONTENT TYPES.**  Every part of the package the model writes — for any number of sheets, with or without
    a shared-string part, with or without sheet relationship parts — has a content type under the decoder's
    look-up (`Override` by part name, else `Default` by extension). -/
theorem C02_content_types_cover (F : NumFmt) (b : BookP F.Num) (pkg : Package) (h : writePackage F b = some pkg) :
    ∀ part ∈ pkg, part.name ≠ "[Content_Types].xml" → (contentTypeOf pkg part.name).isSome = true := by
  obtain ⟨tbl, roots, sst, hr, hsst, rfl⟩ := writePackage_anatomy F b pkg h
  intro part hp hne
  obtain ⟨ct, hct⟩ := contentType_of_part F b _ roots tbl sst hsst rfl (renderSheetsP_nth F b.sheets [] tbl roots hr).1 part hp hne
  rw [hct]; rfl

/-- … and which: the worksheet type for every `sheetK.xml`, the relationships type for every sheet relationships part -/
theorem C02_content_types_sheets (F : NumFmt) (b : BookP F.Num) (pkg : Package) (h : writePackage F b = some pkg) (k : Nat) (h1 : 1 ≤ k) (h2 : k ≤ b.sheets.length) :
    contentTypeOf pkg (String.ofList (sheetPartL k)) = some (str sheetContentType) ∧
    contentTypeOf pkg (String.ofList (sheetRelsL k)) = some (str ctRels) ∧
    contentTypeOf pkg (String.ofList nWorkbookPart) = some (str ctWorkbook) := by
  obtain ⟨tbl, roots, sst, hr, hsst, rfl⟩ := writePackage_anatomy F b pkg h
  exact ⟨ct_override_hit F b _ roots tbl sst hsst (sheetPartL k) sheetContentType (ov_sheet _ _ k h1 (by omega)),
    ct_default_rels F b _ roots tbl sst hsst (sheetRelsL k)
      (ov_none _ _ _ (by simp [sheetRelsL, nApp]) (by simp [sheetRelsL, nCore]) (by simp [sheetRelsL, nSst]) (by simp [sheetRelsL, nStyles])
        (by simp [sheetRelsL, nTheme]) (by simp [sheetRelsL, nWorkbookPart]) (fun i => sheetPart_ne_sheetRels i k)) (ext_sheetRels k),
    ct_override_hit F b _ roots tbl sst hsst nWorkbookPart ctWorkbook (ov_workbook _ _)⟩

/-! ### relationships -/

/-- the diagnostics `decode` produces for one part under "relationship parts: unique ids, internal targets exist" -/
def relsDiag (p : Package) (part : Part) : List String :=
  if isRelsNameL part.name.toList then
    (if ((relsOf p (String.ofList (relsSourceL part.name.toList))).map (·.id)).eraseDups.length =
        ((relsOf p (String.ofList (relsSourceL part.name.toList))).map (·.id)).length then []
     else [s!"{part.name}: duplicate relationship ids"]) ++
    (relsOf p (String.ofList (relsSourceL part.name.toList))).filterMap fun r =>
      if r.external then none
      else
        if (p.part? (resolveTarget (String.ofList (relsSourceL part.name.toList)) r.target)).isSome then none
        else some s!"{part.name}: relationship {r.id} targets {resolveTarget (String.ofList (relsSourceL part.name.toList)) r.target} which is not in the package"
  else []

theorem relsDiag_nil_of (p : Package) (part : Part) (src : String) (hsrc : String.ofList (relsSourceL part.name.toList) = src)
    (hids : ((relsOf p src).map (·.id)).eraseDups.length = ((relsOf p src).map (·.id)).length)
    (htg : ∀ r ∈ relsOf p src, r.external = false → (p.part? (resolveTarget src r.target)).isSome = true) : relsDiag p part = [] := by
  unfold relsDiag
  split
  · subst hsrc
    rw [if_pos hids, List.nil_append]
    apply List.filterMap_eq_nil_iff.2
    intro r hr
    cases he : r.external with
    | true => simp
    | false => simp [htg r hr he]
  · rfl

theorem wsRecs_mem (n : Nat) : ∀ k (r : Rel), r ∈ wsRecs k n → ∃ j, k ≤ j ∧ j < k + n ∧ r = { id := str (rIdText j), type := str worksheetType, target := str (sheetTarget j), external := false } := by
  induction n with
  | zero => intro k r h; simp [wsRecs] at h
  | succ n ih =>
    intro k r h
    rw [wsRecs] at h
    rcases List.mem_cons.1 h with rfl | h
    · exact ⟨k, by omega, by omega, rfl⟩
    · obtain ⟨j, h1, h2, h3⟩ := ih (k + 1) r h
      exact ⟨j, by omega, by omega, h3⟩

theorem relsDiag_pkg (F : NumFmt) (b : BookP F.Num) (roots : List Node) (tbl : Table) (sst : List Part)
    (hsst : SstShape tbl sst) (hlen : roots.length = b.sheets.length)
    (part : Part) (hp : part ∈ assemble F b (!tbl.isEmpty) roots sst) :
    relsDiag (assemble F b (!tbl.isEmpty) roots sst) part = [] := by
  have hnot : ∀ (nm : List Char) (r : Node), isRelsNameL nm = false → relsDiag (assemble F b (!tbl.isEmpty) roots sst) (xmlPart nm r) = [] := by
    intro nm r h
    unfold relsDiag
    simp only [xmlPart, String.toList_ofList, h, Bool.false_eq_true, if_false]
  rcases parts_classified F b _ roots tbl sst hsst part hp with ⟨nm, r, rfl, hnm⟩ | ⟨j, r, h1, h2, rfl⟩ | ⟨j, s, rr, h1, hs, hrr, rfl⟩
  · simp only [List.mem_cons, List.not_mem_nil, or_false] at hnm
    rcases hnm with rfl | rfl | rfl | rfl | rfl | rfl | rfl | rfl | rfl
    · exact hnot _ _ (by decide)
    · exact hnot _ _ (by decide)
    · -- _rels/.rels
      apply relsDiag_nil_of _ _ "" (by simp only [xmlPart, String.toList_ofList]; exact congrArg String.ofList (show relsSourceL nRootRels = [] by decide))
      · rw [relsOf_root F b _ roots tbl sst hsst]
        apply eraseDups_len_of_nodup
        simp only [List.map_cons, List.map_nil, relRec, List.nodup_cons, List.mem_cons, List.not_mem_nil, or_false, not_or, List.nodup_nil, and_true]
        exact ⟨⟨rid_ne 3 2 (by omega), rid_ne 3 1 (by omega)⟩, rid_ne 2 1 (by omega), not_false⟩
      · rw [relsOf_root F b _ roots tbl sst hsst]
        intro r hr _
        simp only [List.mem_cons, List.not_mem_nil, or_false] at hr
        rcases hr with rfl | rfl | rfl
        · simp only [relRec]; rw [resolve_root nApp nApp (by decide), part_app F b _ roots tbl sst hsst]; rfl
        · simp only [relRec]; rw [resolve_root nCore nCore (by decide), part_core F b _ roots tbl sst hsst]; rfl
        · simp only [relRec]; rw [resolve_root nWorkbookPart nWorkbookPart (by decide), part_workbook F b _ roots tbl sst hsst]; rfl
    · exact hnot _ _ (by decide)
    · exact hnot _ _ (by decide)
    · exact hnot _ _ (by decide)
    · exact hnot _ _ (by decide)
    · -- xl/_rels/workbook.xml.rels
      apply relsDiag_nil_of _ _ (String.ofList nWorkbookPart) (by simp only [xmlPart, String.toList_ofList]; exact congrArg String.ofList (show relsSourceL nWorkbookRels = nWorkbookPart by decide))
      · rw [relsOf_wb F b _ roots tbl sst hsst]
        obtain ⟨m, hm⟩ := wb_ids b.sheets.length (!tbl.isEmpty)
        exact rids_unique 1 m _ hm
      · rw [relsOf_wb F b _ roots tbl sst hsst]
        intro r hr _
        rcases List.mem_append.1 hr with hr | hr
        · obtain ⟨j, j1, j2, rfl⟩ := wsRecs_mem _ 1 r hr
          have : ∃ root, roots[j - 1]? = some root := by
            have : j - 1 < roots.length := by omega
            exact ⟨roots[j - 1], List.getElem?_eq_getElem this⟩
          obtain ⟨root, hroot⟩ := this
          simp only
          rw [resolve_wb (sheetTarget j) (sheetPartL j) (resolve_sheetTarget j), part_sheet F b _ roots tbl sst hsst j j1 root hroot]; rfl
        · cases hsst with
          | absent ht =>
            subst ht
            simp only [wbRestRecs, List.isEmpty_nil, Bool.not_true, Bool.false_eq_true, if_false, List.append_nil, List.mem_cons, List.not_mem_nil, or_false] at hr
            rcases hr with rfl | rfl
            · simp only [relRec]; rw [resolve_wb tStylesTarget nStyles (by decide), part_styles F b _ roots [] [] (.absent rfl)]; rfl
            · simp only [relRec]; rw [resolve_wb tThemeTarget nTheme (by decide), part_theme F b _ roots [] [] (.absent rfl)]; rfl
          | present root hne hroot =>
            have he : (!tbl.isEmpty) = true := by cases tbl with | nil => exact absurd rfl hne | cons _ _ => rfl
            rw [he] at hr ⊢
            simp only [wbRestRecs, if_true, List.cons_append, List.nil_append, List.mem_cons, List.not_mem_nil, or_false] at hr
            rcases hr with rfl | rfl | rfl
            · simp only [relRec]; rw [resolve_wb tStylesTarget nStyles (by decide), part_styles F b _ roots tbl _ (.present root hne hroot)]; rfl
            · simp only [relRec]; rw [resolve_wb tThemeTarget nTheme (by decide), part_theme F b _ roots tbl _ (.present root hne hroot)]; rfl
            · simp only [relRec]; rw [resolve_wb tSstTarget nSst (by decide), part_sst F b _ roots tbl _ (.present root hne hroot)]; rfl
    · exact hnot _ _ (by decide)
  · exact hnot _ _ (isRels_sheetPart j)
  · -- a sheet relationships part: hyperlink relationships only, all external
    obtain ⟨_, hrel⟩ := relsOf_sheet F b _ roots tbl sst hsst j h1 s hs
    apply relsDiag_nil_of _ _ (String.ofList (sheetPartL j)) (by simp only [xmlPart, String.toList_ofList, relsSource_sheetRels])
    · rw [hrel]
      obtain ⟨m, hm⟩ := relRecs_ids s.sheet.links 1
      exact rids_unique 1 m _ hm
    · rw [hrel]
      intro r hr he
      rw [relRecs_external s.sheet.links 1 r hr] at he
      cases he

/-- **RELATIONSHIP TARGETS.**  Every internal relationship of every relationships part of the model package
    (`_rels/.rels`, `xl/_rels/workbook.xml.rels`, every `xl/worksheets/_rels/sheetK.xml.rels`) resolves — by the
    decoder's `resolveTarget` on the concrete names, relative to the source part — to a part that is in the package. -/
theorem C02_package_rels_resolve (F : NumFmt) (b : BookP F.Num) (pkg : Package) (h : writePackage F b = some pkg) :
    ∀ part ∈ pkg, isRelsNameL part.name.toList = true →
      ∀ r ∈ relsOf pkg (String.ofList (relsSourceL part.name.toList)), r.external = false →
        (pkg.part? (resolveTarget (String.ofList (relsSourceL part.name.toList)) r.target)).isSome = true := by
  obtain ⟨tbl, roots, sst, hr, hsst, rfl⟩ := writePackage_anatomy F b pkg h
  intro part hp hrels r hrr hext
  have hd := relsDiag_pkg F b roots tbl sst hsst (renderSheetsP_nth F b.sheets [] tbl roots hr).1 part hp
  unfold relsDiag at hd
  rw [if_pos hrels] at hd
  have h2 := (List.append_eq_nil_iff.1 hd).2
  have := List.filterMap_eq_nil_iff.1 h2 r hrr
  simp only [hext, Bool.false_eq_true, if_false] at this
  by_cases hs : (Package.part? (assemble F b (!tbl.isEmpty) roots sst) (resolveTarget (String.ofList (relsSourceL part.name.toList)) r.target)).isSome = true
  · exact hs
  · simp [hs] at this

/-- **RELATIONSHIP IDS.**  Within every relationships part of the model package the ids are pairwise different. -/
theorem C02_rel_ids_unique (F : NumFmt) (b : BookP F.Num) (pkg : Package) (h : writePackage F b = some pkg) :
    ∀ part ∈ pkg, isRelsNameL part.name.toList = true →
      ((relsOf pkg (String.ofList (relsSourceL part.name.toList))).map (·.id)).eraseDups.length =
        ((relsOf pkg (String.ofList (relsSourceL part.name.toList))).map (·.id)).length := by
  obtain ⟨tbl, roots, sst, hr, hsst, rfl⟩ := writePackage_anatomy F b pkg h
  intro part hp hrels
  have hd := relsDiag_pkg F b roots tbl sst hsst (renderSheetsP_nth F b.sheets [] tbl roots hr).1 part hp
  unfold relsDiag at hd
  rw [if_pos hrels] at hd
  have h1 := (List.append_eq_nil_iff.1 hd).1
  by_cases hq : ((relsOf (assemble F b (!tbl.isEmpty) roots sst) (String.ofList (relsSourceL part.name.toList))).map (·.id)).eraseDups.length =
        ((relsOf (assemble F b (!tbl.isEmpty) roots sst) (String.ofList (relsSourceL part.name.toList))).map (·.id)).length
  · exact hq
  · rw [if_neg hq] at h1; cases h1

/-! ### sheet ids, active tab -/

/-- **SHEET IDS.**  `sheetId`s are present on every `<sheet>` and pairwise different, for any sheet list (the
    writer numbers the sheets by position, so a removed and re-added sheet cannot collide). -/
theorem C02_sheet_ids_unique (fr : WbFrame) (ss : List SheetE) (ds : List NameE) (hfr : fr.ok = true) :
    dE2 (workbookNode fr ss ds) = [] := by
  unfold dE2
  rw [dSheetEls_rendered fr ss ds hfr, sheetEls_ids, sheetEls_length, eraseDups_nodup _ (ids_nodup _ _)]
  simp

/-- **ACTIVE TAB.**  The decoder reads `activeTab` from the `bookViews` child (one of the opaque children of
    `<workbook>`: `WbFrame.active`); it reports nothing exactly when that index is inside the sheet list (or there
    is no sheet).  `Spreadsheet::remove_sheet` / `remove_sheet_by_name` clamp the stored index (fix 649e69a);
    `set_active_sheet` stores any index and `WorkbookView::write_to` writes what is stored. -/
theorem C02_active_tab_in_range (fr : WbFrame) (ss : List SheetE) (ds : List NameE) (hfr : fr.ok = true)
    (h : ss = [] ∨ fr.active < ss.length) : dE3 (workbookNode fr ss ds) = [] := by
  unfold dE3
  rw [dSheetEls_rendered fr ss ds hfr, dActive_workbook, sheetEls_length]
  rcases h with rfl | h
  · simp [sheetEls]
  · rw [if_pos (Or.inr h)]

/-! ### the whole package -/

/-- the workbooks the package theorems are about (all conditions decidable for a given workbook) -/
structure _root_.Umya.PackageNode.BookP.WF {F : NumFmt} (b : BookP F.Num) : Prop where
  sheetsWF : ∀ s ∈ b.sheets, s.sheet.WF
  frames : ∀ s ∈ b.sheets, s.frame.ok = true ∧ s.frame.colsOk (nXfOf b.styles) = true ∧ s.frame.dxfOk (nDxfOf b.styles) = true ∧
    s.frame.ridsOk (relIds (relWalk 1 s.sheet.links ++ [])) = true
  xfs : 0 < nXfOf b.styles ∧ ∀ s ∈ b.sheets, ∀ ref, s.xf ref < nXfOf b.styles
  wbFrame : b.wbFrame.ok = true
  names : namesDistinct (b.sheets.map (·.entry)) = true
  scopes : ∀ d ∈ b.names, ∀ i, d.localSheetId = some i → i < b.sheets.length
  active : b.sheets = [] ∨ b.wbFrame.active < b.sheets.length

/-- what the K-th sheet (1-based) means: the view of its cells, merged ranges, hyperlinks, columns, rows -/
def bodyOf {F : NumFmt} (b : BookP F.Num) (k : Nat) : SheetBody :=
  match b.sheets[k - 1]? with
  | some s => { cells := cellViews F s.xf s.sheet.cells, merges := s.sheet.merges, links := s.sheet.links.map linkView,
                cols := colVsOf s.frame.colNodes, rows := s.sheet.rows.map rowView, tables := [], noR := false }
  | none => {}

theorem dEPkg_eq (p : Package) :
    dEPkg p =
      (p.filterMap fun part =>
        if part.name = "[Content_Types].xml" then none
        else if (contentTypeOf p part.name).isNone then some s!"part {part.name} has no content type" else none) ++
      (p.filterMap fun part => if part.isXml ∧ part.xml.isNone then some s!"part {part.name} is not well-formed XML" else none) ++
      p.flatMap (relsDiag p) := rfl

theorem pkg_decode_core (F : NumFmt) (b : BookP F.Num) (hwf : b.WF) (pkg : Package) (h : writePackage F b = some pkg) :
    ∃ bk : BookV, decode pkg = (some bk, []) ∧
      bk.sheets = sheetVs (bodyOf b) 1 (b.sheets.map (·.entry)) ∧ bk.names = b.names.map nameView ∧ bk.active = b.wbFrame.active := by
  obtain ⟨tbl, roots, sst, hr, hsst, rfl⟩ := writePackage_anatomy F b pkg h
  obtain ⟨hlen, _, hnth⟩ := renderSheetsP_nth F b.sheets [] tbl roots hr
  -- the main relationship, the workbook part, its relationships part
  have h1 := mainRel F b (!tbl.isEmpty) roots tbl sst hsst
  have hwbp : resolveTarget "" (relRec 1 tOfficeDoc nWorkbookPart).target = String.ofList nWorkbookPart := resolve_root_workbook
  have h2 : ((assemble F b (!tbl.isEmpty) roots sst).part? (resolveTarget "" (relRec 1 tOfficeDoc nWorkbookPart).target)).bind (·.xml) =
      some (workbookNode b.wbFrame (b.sheets.map (·.entry)) b.names) := by
    rw [hwbp, part_workbook F b _ roots tbl sst hsst]; rfl
  have h3 : ((assemble F b (!tbl.isEmpty) roots sst).part? (relsNameOf (resolveTarget "" (relRec 1 tOfficeDoc nWorkbookPart).target))).bind (·.xml) =
      some (workbookRelsNode (b.sheets.map (·.entry)).length (wbRelsRest b.sheets.length (!tbl.isEmpty))) := by
    rw [hwbp, relsName_workbook, part_workbookRels F b _ roots tbl sst hsst, List.length_map]; rfl
  have hpath : ∀ k, 1 ≤ k → k ≤ (b.sheets.map (·.entry)).length →
      resolveTarget (resolveTarget "" (relRec 1 tOfficeDoc nWorkbookPart).target) (str (sheetTarget k)) = String.ofList (sheetPartL k) := by
    intro k _ _
    rw [hwbp]; exact resolve_wb _ _ (resolve_sheetTarget k)
  have hsheet : ∀ k, 1 ≤ k → k ≤ (b.sheets.map (·.entry)).length →
      decodeSheet (assemble F b (!tbl.isEmpty) roots sst) (String.ofList (sheetPartL k))
        (dSst (assemble F b (!tbl.isEmpty) roots sst) (resolveTarget "" (relRec 1 tOfficeDoc nWorkbookPart).target))
        (dNXf (assemble F b (!tbl.isEmpty) roots sst) (resolveTarget "" (relRec 1 tOfficeDoc nWorkbookPart).target))
        (dNDxf (assemble F b (!tbl.isEmpty) roots sst) (resolveTarget "" (relRec 1 tOfficeDoc nWorkbookPart).target)) = (bodyOf b k, []) := by
    intro k k1 k2
    rw [List.length_map] at k2
    rw [hwbp, dSst_pkg F b roots tbl sst hsst, (dNXf_pkg F b _ roots tbl sst hsst).1, (dNXf_pkg F b _ roots tbl sst hsst).2]
    have hk : k - 1 < b.sheets.length := by omega
    have hs : b.sheets[k - 1]? = some b.sheets[k - 1] := List.getElem?_eq_getElem hk
    obtain ⟨t0, t1, root, hroot, hrend, ext, hext⟩ := hnth (k - 1) _ hs
    have hmem : b.sheets[k - 1] ∈ b.sheets := List.getElem_mem hk
    obtain ⟨f1, f2, f3, f4⟩ := hwf.frames _ hmem
    have hp := part_sheet F b (!tbl.isEmpty) roots tbl sst hsst k k1 root hroot
    obtain ⟨hr', _⟩ := relsOf_sheet F b (!tbl.isEmpty) roots tbl sst hsst k k1 _ hs
    have := C02_sheet_decodes F _ _ t0 _ (hwf.sheetsWF _ hmem) t1 root hrend (nXfOf b.styles) (nDxfOf b.styles) hwf.xfs.1 (hwf.xfs.2 _ hmem) []
      f1 f2 f3 f4 (assemble F b (!tbl.isEmpty) roots sst) (String.ofList (sheetPartL k)) (by rw [hp]; rfl) hr' tbl
      (by rw [hext]; exact fun _ _ hi => Umya.InternC01.getElem?_append_left' hi)
    rw [this]
    simp only [bodyOf, hs]
  obtain ⟨bk, hdec, hsh, hnm⟩ := C02_book_decodes_partial _ _ b.wbFrame (b.sheets.map (·.entry)) b.names _ h1 h2 h3 hwf.wbFrame hwf.names
    (by intro d hd i hi; rw [List.length_map]; exact hwf.scopes d hd i hi) (fun k => String.ofList (sheetPartL k)) (bodyOf b) hpath hsheet
  obtain ⟨bk', hdec', _, _, hact⟩ := decode_anatomy _ _ _ h1 h2
  have hbk : bk' = bk := by
    have := hdec.symm.trans hdec'
    exact (Option.some.inj (Prod.mk.inj this).1).symm
  subst hbk
  refine ⟨bk', ?_, hsh, hnm, by rw [hact, dActive_workbook]⟩
  rw [hdec, C02_active_tab_in_range b.wbFrame _ b.names hwf.wbFrame (by
    rcases hwf.active with h | h
    · left; rw [h]; rfl
    · right; rw [List.length_map]; exact h), List.append_nil, dEPkg_eq]
  have e1 : ∀ part ∈ assemble F b (!tbl.isEmpty) roots sst, part.isXml = true ∧ part.xml.isSome = true := by
    intro part hp
    rcases parts_classified F b _ roots tbl sst hsst part hp with ⟨nm, r, rfl, _⟩ | ⟨j, r, _, _, rfl⟩ | ⟨j, s, rr, _, _, _, rfl⟩ <;> exact ⟨rfl, rfl⟩
  have a1 : (assemble F b (!tbl.isEmpty) roots sst).filterMap (fun part =>
        if part.name = "[Content_Types].xml" then none
        else if (contentTypeOf (assemble F b (!tbl.isEmpty) roots sst) part.name).isNone then some s!"part {part.name} has no content type" else none) = [] := by
    apply List.filterMap_eq_nil_iff.2
    intro part hp
    by_cases hn : part.name = "[Content_Types].xml"
    · rw [if_pos hn]
    · rw [if_neg hn]
      obtain ⟨ct, hct⟩ := contentType_of_part F b _ roots tbl sst hsst rfl hlen part hp hn
      rw [hct]; rfl
  have a2 : (assemble F b (!tbl.isEmpty) roots sst).filterMap (fun part =>
      if part.isXml ∧ part.xml.isNone then some s!"part {part.name} is not well-formed XML" else none) = [] := by
    apply List.filterMap_eq_nil_iff.2
    intro part hp
    have := (e1 part hp).2
    rw [if_neg (by intro hh; rw [Option.isNone_iff_eq_none] at hh; rw [hh.2] at this; cases this)]
  have a3 : (assemble F b (!tbl.isEmpty) roots sst).flatMap (relsDiag (assemble F b (!tbl.isEmpty) roots sst)) = [] := by
    apply List.flatMap_eq_nil_iff.2
    intro part hp
    exact relsDiag_pkg F b roots tbl sst hsst hlen part hp
  rw [a1, a2, a3]; rfl

/-- **NO DIAGNOSTICS.**  On the package the model writes for a well-formed workbook (`BookP.WF`) — any number of
    sheets, cells, merged ranges, hyperlinks, defined names; any opaque docProps / theme / styles bodies — the
    independent reader reports NOTHING: every part has a content type, every part is a parsed tree, relationship
    ids are unique, every relationship target exists, sheet names and sheetIds are unique, every sheet's `r:id`
    resolves, every sheet body is in order and in range with all indexes inside their tables, activeTab and the
    defined-name scopes are inside the sheet list. -/
theorem C02_package_no_diagnostics (F : NumFmt) (b : BookP F.Num) (hwf : b.WF) (pkg : Package) (h : writePackage F b = some pkg) :
    (decode pkg).2 = [] := by
  obtain ⟨bk, hd, _⟩ := pkg_decode_core F b hwf pkg h
  rw [hd]

/-- **THE WORKBOOK, FULL.**  … and what it returns is the workbook: the sheet list in order — name, visibility
    (`visible` when none is written), and for the K-th sheet exactly its non-blank cells (reference, kind, value
    text, formula, style index), merged ranges, hyperlinks (cell, target, tooltip), row table —, the defined
    names (name, scope, address) in order, and the active tab.  (The fourth field of the decoder's result, the
    style table `xfs`, is whatever the opaque styles part means; it is not characterised here.) -/
theorem C02_book_decodes (F : NumFmt) (b : BookP F.Num) (hwf : b.WF) (pkg : Package) (h : writePackage F b = some pkg) :
    ∃ bk : BookV, decode pkg = (some bk, []) ∧
      bk.sheets = sheetVs (bodyOf b) 1 (b.sheets.map (·.entry)) ∧ bk.names = b.names.map nameView ∧ bk.active = b.wbFrame.active :=
  pkg_decode_core F b hwf pkg h

/-- the model of `make_buffer` does not panic on cells with a column ≥ 1 -/
theorem C02_package_written (F : NumFmt) (b : BookP F.Num) (hc : ∀ s ∈ b.sheets, ∀ c ∈ s.sheet.cells, 1 ≤ c.col) :
    ∃ pkg, writePackage F b = some pkg := by
  have hall : ∀ (ss : List (SheetP F.Num)), (∀ s ∈ ss, ∀ c ∈ s.sheet.cells, 1 ≤ c.col) → ∀ tbl, ∃ t roots, renderSheetsP F tbl ss = some (t, roots) := by
    intro ss
    induction ss with
    | nil => intro _ tbl; exact ⟨tbl, [], rfl⟩
    | cons s ss ih =>
      intro hss tbl
      obtain ⟨t1, root, h1⟩ := C02_sheet_written F s.xf s.frame tbl s.sheet (hss s (by simp))
      obtain ⟨t2, roots, h2⟩ := ih (fun s' hs' => hss s' (by simp [hs'])) t1
      exact ⟨t2, root :: roots, by simp [renderSheetsP, h1, h2]⟩
  obtain ⟨t, roots, hr⟩ := hall b.sheets hc []
  obtain ⟨root, hroot, _⟩ := sstNode_texts t
  unfold writePackage
  rw [hr]
  by_cases ht : t = []
  · exact ⟨assemble F b (!t.isEmpty) roots [], by simp [sstPartsP, ht]⟩
  · exact ⟨assemble F b (!t.isEmpty) roots [xmlPart nSst root], by simp [sstPartsP, ht, hroot]⟩

/-! ### non-vacuity: three sheets — the demo sheet of Thm/C02Sheet.lean (cells of every kind, two merged ranges, four
    links of which three are external: its relationships part is written), a hidden empty sheet, a sheet with
    one shared string and no link (no relationships part) —, two defined names (one scoped to the hidden sheet),
    `activeTab="2"`, a styles part with three cell formats -/

def demoPkgStyles : Node :=
  .elem ['s', 't', 'y', 'l', 'e', 'S', 'h', 'e', 'e', 't'] [] [.elem ['c', 'e', 'l', 'l', 'X', 'f', 's'] [] [.elem ['x', 'f'] [] [], .elem ['x', 'f'] [] [], .elem ['x', 'f'] [] []]]

def demoPkgWbFrame : WbFrame :=
  { pre := [.elem ['b', 'o', 'o', 'k', 'V', 'i', 'e', 'w', 's'] [] [.elem ['w', 'o', 'r', 'k', 'b', 'o', 'o', 'k', 'V', 'i', 'e', 'w'] [⟨['a', 'c', 't', 'i', 'v', 'e', 'T', 'a', 'b'], ['2']⟩] []]],
    post := [.elem ['c', 'a', 'l', 'c', 'P', 'r'] [] []] }

def demoPkgBook : BookP demoFS.Num :=
  { sheets := [{ entry := { name := ['R', '&', 'D'] }, sheet := demoSheet, xf := fun _ => 2 },
               { entry := { name := ['I', 't', '\'', 's'], state := some ['h', 'i', 'd', 'd', 'e', 'n'] }, sheet := {} },
               { entry := { name := ['A', '1'], state := some ['v', 'i', 's', 'i', 'b', 'l', 'e'] },
                 sheet := { rows := [{ num := 3 }], cells := [{ col := 2, row := 3, raw := .str ['x'] }] } }],
    names := demoNames, wbFrame := demoPkgWbFrame,
    app := .elem ['P', 'r', 'o', 'p', 'e', 'r', 't', 'i', 'e', 's'] [] [], core := .elem ['c', 'p', ':', 'c', 'o', 'r', 'e'] [] [],
    theme := .elem ['a', ':', 't', 'h', 'e', 'm', 'e'] [] [], styles := demoPkgStyles }

theorem demoPkgBook_nXf : nXfOf demoPkgBook.styles = 3 ∧ nDxfOf demoPkgBook.styles = 0 := by decide

theorem demoPkgBook_wf : demoPkgBook.WF where
  sheetsWF := by
    intro s hs
    simp only [demoPkgBook, List.mem_cons, List.not_mem_nil, or_false] at hs
    rcases hs with rfl | rfl | rfl <;> exact ⟨by decide, by decide, by decide, by decide, by decide⟩
  frames := by
    intro s hs
    simp only [demoPkgBook, List.mem_cons, List.not_mem_nil, or_false] at hs
    rcases hs with rfl | rfl | rfl <;> exact ⟨by decide, by decide, by decide, by decide⟩
  xfs := by
    rw [demoPkgBook_nXf.1]
    refine ⟨by omega, ?_⟩
    intro s hs
    simp only [demoPkgBook, List.mem_cons, List.not_mem_nil, or_false] at hs
    rcases hs with rfl | rfl | rfl <;> intro ref <;> simp
  wbFrame := by decide
  names := namesDistinct_of_nodup _ (by decide)
  scopes := by decide
  active := Or.inr (by decide)

example : ∃ pkg, writePackage demoFS demoPkgBook = some pkg ∧ (decode pkg).2 = [] := by
  obtain ⟨pkg, h⟩ := C02_package_written demoFS demoPkgBook (by decide)
  exact ⟨pkg, h, C02_package_no_diagnostics demoFS demoPkgBook demoPkgBook_wf pkg h⟩

/-- what the decoder must return on it is not trivial -/
example : (sheetVs (bodyOf demoPkgBook) 1 (demoPkgBook.sheets.map (·.entry))).map (fun v => (String.ofList v.name, v.state, v.cells.length, v.merges.length, v.links.length)) =
    [("R&D", "visible", 4, 2, 4), ("It's", "hidden", 0, 0, 0), ("A1", "visible", 1, 0, 0)] ∧ demoPkgBook.wbFrame.active = 2 := by
  decide

/-- the skeleton of the model package for these sheets: 13 parts (one sheet relationships part, a shared-string part) -/
example : (skeleton (demoPkgBook.sheets.map (·.sheet.links)) true).length = 13 := by
  simp [skeleton, demoPkgBook, demoSheet, sheetSkel, sheetRelsSkel, linkRelTs]

end Umya.Thm.C02
