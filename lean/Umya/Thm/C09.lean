/-
  C09 — Formula text survives the tokenizer; translation shifts only relative refs.

  Property theorems only (namespace `Umya.Thm.C09`); helper lemmas in `Umya/Lemmas/Formula.lean`.
-/
import Umya.Lemmas.Formula
import Umya.Lemmas.Passes
import Umya.Lemmas.CleanAst
import Umya.Lemmas.ValInv
import Umya.Lemmas.TablesGen
import Umya.Lemmas.FormulaGen
namespace Umya.Thm.C09
open Umya.Coord Umya.Dec Umya.Formula

/-! ### termination -/

inductive Fuel (α : Type) where
  | done : α → Fuel α
  | outOfFuel : Fuel α
  deriving Repr, DecidableEq

/-- The main `while index < formula_length` loop of the FIXED code, one unit of fuel per
    iteration: every iteration consumes the character it looks at (`step`). -/
def lexFuel : Nat → List Char → LexSt → Fuel LexSt
  | _, [], st => .done st
  | 0, _ :: _, _ => .outOfFuel
  | f + 1, c :: r, st => lexFuel f r (step st c)

/-- The same loop for the UNCHANGED code: in the `in_range` branch the statement `index;` stands
    where `index += 1;` was meant, so that iteration does not consume its character. -/
def lexFuelOld : Nat → List Char → LexSt → Fuel LexSt
  | _, [], st => .done st
  | 0, _ :: _, _ => .outOfFuel
  | f + 1, c :: r, st =>
    if st.mode = .range then lexFuelOld f (c :: r) (step st c)
    else lexFuelOld f r (step st c)

theorem lexFuel_eq (fuel : Nat) (s : List Char) (st : LexSt) (h : s.length ≤ fuel) :
    lexFuel fuel s st = .done (s.foldl step st) := by
  induction s generalizing fuel st with
  | nil => cases fuel <;> rfl
  | cons c r ih =>
    cases fuel with
    | zero => simp at h
    | succ f => simp only [lexFuel, List.foldl_cons]; exact ih f _ (by simpa using h)

/-- The fixed lexer always terminates: `|s|` iterations suffice for every input, and the result
    is the plain fold `lexRun`. -/
theorem C09_terminates (s : List Char) (fuel : Nat) (h : s.length ≤ fuel) :
    lexFuel fuel s {} ≠ .outOfFuel ∧ lexFuel fuel s {} = .done (lexRun s) := by
  rw [lexFuel_eq fuel s {} h]
  exact ⟨by simp, rfl⟩

theorem lexFuelOld_stuck (fuel : Nat) (st : LexSt) (h : st.mode = .range) :
    lexFuelOld fuel ['a'] st = .outOfFuel := by
  induction fuel generalizing st with
  | zero => rfl
  | succ f ih =>
    simp only [lexFuelOld, h, if_true]
    apply ih
    simp [step, h]

/-- The unchanged code does not terminate on `=[a` (e.g. any structured reference
    `=Table1[Col]`): no amount of fuel is enough. -/
theorem C09_terminates_fails : ¬ ∀ s : List Char, ∃ fuel, lexFuelOld fuel s {} ≠ .outOfFuel := by
  intro h
  obtain ⟨fuel, hf⟩ := h ['[', 'a']
  apply hf
  cases fuel with
  | zero => rfl
  | succ f =>
    have : (step {} '[').mode = .range := by decide
    simp only [lexFuelOld]
    rw [if_neg (by decide)]
    exact lexFuelOld_stuck f _ this

example : (['S', 'U', 'M', '(', 'A', '1', ')'] : List Char).length ≤ 7 := by decide

/-! ### the character machine -/

/-- **Lexer invariant** (induction on characters, every state, every input): as long as the
    machine has not panicked, what it has consumed is exactly what its tokens render to plus the
    pending accumulator, where each consumed character contributes itself — except a blank that
    directly follows a blank outside literals (skipped), and the three characters `)` `;` `}` that
    pop the token stack: they contribute what the popped tokens close with (`emitNormal`), which is
    the character itself exactly when `)` closes a parenthesis and `;` / `}` stand directly inside
    the braces of an array constant (`scanNormal_emit`; fix f50ad32: the `ARRAY` / `ARRAYROW` pseudo
    functions render as `{` `;` `}`). -/
theorem C09_lex_invariant (s : List Char) (st : LexSt) (hi : Inv st)
    (hnd : (s.foldl step st).mode ≠ .dead) :
    out (s.foldl step st) = out st ++ echo st s ∧ Inv (s.foldl step st) :=
  lex_out s st hi hnd

/-- Pass 1 as a whole: for input that does not end inside a string literal, the pass-1 tokens
    render to the echo of the input. -/
theorem C09_lex1_render (s : List Char) (toks : List Tok) (lv : List Char)
    (h : lex1 s = .ok (toks, lv)) (hclosed : (lexRun s).mode ≠ .str) :
    render1 toks = echo {} s := by
  unfold lex1 at h
  by_cases hd : (lexRun s).mode = .dead
  · simp [hd] at h
  · simp only [hd, if_false] at h
    injection h with h; injection h with h1 _
    obtain ⟨ho, hi⟩ := lex_out s {} inv_init hd
    rw [← h1, finish_render (lexRun s) hi hclosed]
    have : out ({} : LexSt) = [] := rfl
    rw [this, List.nil_append] at ho
    exact ho

/-- **No panic**: on every input accepted by the independent scanner `Spec.Clean` (closed string
    literals / quoted names / brackets / error literals, balanced and properly nested parentheses
    and braces, commas only inside them, semicolons only directly inside braces — array constants
    included) the tokenizer returns a token list — no `unwrap` on an empty
    stack in pass 1, no `nth(0).unwrap()` in pass 3. -/
theorem C09_no_panic (s : List Char) (h : Spec.Clean s = true) : ∃ toks, parse ('=' :: s) = .ok toks := by
  cases s with
  | nil => exact ⟨[], rfl⟩
  | cons c r =>
    unfold Spec.Clean Spec.scan at h
    cases hsc : Spec.scanFrom ⟨.normal, []⟩ (c :: r) with
    | none => simp [hsc] at h
    | some res =>
      have hsim := scan_sim (c :: r) _ _ sim_init res hsc
      have hnd := sim_not_dead _ _ hsim
      have hall : AllOk (finish (lexRun (c :: r))).toks :=
        finish_allOk _ (lex_allOk (c :: r) {} inv_init (by intro t ht; simp at ht) hnd)
      have hp2 := pass2_ok1 (finish (lexRun (c :: r))).toks none (finish (lexRun (c :: r))).value hall
      obtain ⟨out3, h3⟩ := pass3Go_ok _ none hp2
      refine ⟨out3, ?_⟩
      have hl : lex1 (c :: r) = .ok ((finish (lexRun (c :: r))).toks, (finish (lexRun (c :: r))).value) := by
        unfold lex1; simp [show (lexRun (c :: r)).mode ≠ .dead from hnd]
      simp only [parse, hl, pass3, pass2]
      exact h3

/-- **Identity, PARTIAL.**  Full statement wanted: for every `Clean s`, with `t := parse ('=' :: s)`:
    `BlankErasure s (render t)` and `parse ('=' :: render t) = t`.
    Proved: the first half — the rendered text is the input with blanks deleted and nothing else
    changed (every string literal, sheet qualifier, name, number, reference, operator, and every
    brace, comma and semicolon of an array constant character for character identical) — for every
    `Clean s` (array constants included since fix f50ad32), under one explicit side condition on the
    pass-1 output: no function name starts with `@` (pass 3 strips it: `=@SUM(A1)` loses the `@`).
    Missing: the second half (re-tokenising the result gives the same tokens) — harness oracle only. -/
theorem C09_identity_partial (s : List Char) (h : Spec.Clean s = true) (hne : s ≠ [])
    (toks1 : List Tok) (lv : List Char) (hl : lex1 s = .ok (toks1, lv))
    (hat : ∀ t ∈ toks1, t.ty = .function → t.val.head? ≠ some '@') :
    ∃ toks, parse ('=' :: s) = .ok toks ∧ BlankErasure s (render toks) := by
  obtain ⟨toks, hp⟩ := C09_no_panic s h
  refine ⟨toks, hp, ?_⟩
  cases s with
  | nil => exact absurd rfl hne
  | cons c r =>
    unfold Spec.Clean Spec.scan at h
    cases hsc : Spec.scanFrom ⟨.normal, []⟩ (c :: r) with
    | none => simp [hsc] at h
    | some res =>
      simp only [hsc, Bool.and_eq_true, decide_eq_true_eq] at h
      have hsim := scan_sim (c :: r) _ _ sim_init res hsc
      have hclosed : (lexRun (c :: r)).mode ≠ .str := by
        intro hm
        have hm' : (List.foldl step {} (c :: r)).mode = .str := hm
        have hs1 := hsim.1
        cases hrm : res.mode with
        | normal =>
          simp only [SimMode, hrm, hm'] at hs1
          rcases hs1 with h1 | h1 | ⟨a, h1⟩ <;> cases h1
        | str => simp [Spec.closedMode, hrm] at h
        | strQ => simp only [SimMode, hrm, hm'] at hs1; cases hs1
        | path => simp [Spec.closedMode, hrm] at h
        | pathQ => simp only [SimMode, hrm, hm'] at hs1; cases hs1
        | bracket => simp [Spec.closedMode, hrm] at h
        | err acc => simp [Spec.closedMode, hrm] at h
      have hnd := sim_not_dead _ _ hsim
      have h1 := C09_lex1_render (c :: r) toks1 lv hl hclosed
      have he := echo_erasure_clean (c :: r) _ {} sim_init res hsc
      have hfin : (finish (lexRun (c :: r))).toks = toks1 ∧ (finish (lexRun (c :: r))).value = lv := by
        have hl' := hl
        unfold lex1 at hl'
        simp only [show (lexRun (c :: r)).mode ≠ .dead from hnd, if_false] at hl'
        injection hl' with hl'; injection hl' with hl1 hl2
        exact ⟨hl1, hl2⟩
      have hall : AllOk toks1 := by
        rw [← hfin.1]
        exact finish_allOk _ (lex_allOk (c :: r) {} inv_init (by intro t ht; simp at ht) hnd)
      have hplain : AllPlain toks1 := by
        rw [← hfin.1]
        exact finish_allPlain _ (lex_allPlain (c :: r) {} inv_init (by intro t ht; simp at ht) hnd)
      have hlv : lv ≠ ['-'] ∧ lv ≠ ['+'] := by
        rw [← hfin.2]
        exact finish_notSign _ (lex_vinv (c :: r) {} vinv_init) hclosed
      simp only [parse, hl, pass3, pass2] at hp
      have hr3 := pass3Go_render _ _ none (pass2_stable toks1 lv hall hplain hat hlv) hp
      rw [hr3]
      have h2 := pass2_erasure toks1 none lv
      rw [h1] at h2
      exact he.trans h2

/-- **Printed ASTs are clean, PARTIAL.**  Full statement wanted: `Spec.Clean e.print` for every
    expression of the grammar.  Proved for every expression (unbounded depth: operators, unary
    signs, percent, nested calls with empty arguments, unions, intersections, parentheses, string
    literals with any content, error literals, names, numbers, well-formed references with quoted
    or plain qualifiers, array constants `{a,b;c,d}` of numbers / negative numbers / strings /
    booleans / error literals with any number of rows and elements) WITHOUT opaque atoms:
    structured / unquoted external references are covered only by the `clean` requests of the
    correspondence stream. -/
theorem C09_clean_partial (e : Spec.Expr) (h : e.Lexical) : Spec.Clean e.print = true := by
  obtain ⟨m, h1, h2⟩ := Spec.scan_expr e h []
  simp [Spec.Clean, Spec.scan, h1, h2]

/-- hence the tokenizer never panics on a printed expression of that grammar -/
theorem C09_no_panic_ast (e : Spec.Expr) (h : e.Lexical) : ∃ toks, parse ('=' :: e.print) = .ok toks :=
  C09_no_panic e.print (C09_clean_partial e h)

/-- non-vacuity: `IF(A1>=2,"a""b",'My Sheet'!$B$2)` and `SUM({1,-2;"a;b",#N/A}*A1:B2)` are accepted by the
    scanner; `A1,B1`, `{1`, `1;2`, `(1}` and `SUM(1;2)` are not -/
example : Spec.Clean ['I', 'F', '(', 'A', '1', '>', '=', '2', ',', '"', 'a', '"', '"', 'b', '"', ',', '\'', 'M', 'y', ' ',
    'S', '\'', '!', '$', 'B', '$', '2', ')'] = true ∧ Spec.Clean ['A', '1', ',', 'B', '1'] = false ∧
    Spec.Clean "SUM({1,-2;\"a;b\",#N/A}*A1:B2)".toList = true ∧
    Spec.Clean ['{', '1'] = false ∧ Spec.Clean ['1', ';', '2'] = false ∧ Spec.Clean ['(', '1', '}'] = false ∧
    Spec.Clean "SUM(1;2)".toList = false := by decide

/-- **Array constants, witnessed** (were known finding C09-array-const): the model of the repaired
    code renders `SUM({1,-2;"a;b",#N/A}*A1:B2)` character for character, a blank inside the braces
    disappears and nothing else, and a function that is literally called `ARRAY` is a function. -/
example :
    (parse "=SUM({1,-2;\"a;b\",#N/A}*A1:B2)".toList).bind (fun t => .ok (render t)) = .ok "SUM({1,-2;\"a;b\",#N/A}*A1:B2)".toList ∧
    (parse "={1, 2; 3}".toList).bind (fun t => .ok (render t)) = .ok "{1,2;3}".toList ∧
    (parse "=ARRAY(ARRAYROW(1,2))".toList).bind (fun t => .ok (render t)) = .ok "ARRAY(ARRAYROW(1,2))".toList := by decide

/-- the array constant of the witness as an expression of the grammar: it is `Lexical`, so
    `C09_clean_partial` / `C09_no_panic_ast` / `C09_identity_partial` apply to it -/
example : (Spec.Expr.array [[.num false ['1'], .num true ['2']], [.str ['a', ';', 'b'], .err .na]]).Lexical ∧
    (Spec.Expr.array [[.num false ['1'], .num true ['2']], [.str ['a', ';', 'b'], .err .na]]).print
      = "{1,-2;\"a;b\",#N/A}".toList := by
  refine ⟨?_, by decide⟩
  intro r hr c hc
  simp at hr
  rcases hr with hr | hr <;> subst hr <;> simp at hc <;> rcases hc with hc | hc <;> subst hc <;>
    simp [Spec.Const.Lexical, Spec.plainText, Spec.isPlainChar]

/-- non-vacuity of the invariant: the initial state satisfies it -/
example : Inv {} := inv_init

/-! ### translation of references -/

/-- **Reference level, full strength.**  For every well-formed reference — a cell, a cell range,
    whole columns or whole rows, any combination of `$` flags, every column 1..16384 and row
    1..1048576, unqualified or qualified by any (possibly quoted, possibly containing apostrophes,
    blanks, `!`) sheet name — and every offset `(dc, dr)`, the code's translation of the token
    that the reference lexes to is the token of `Spec.translateRef`: `dc`/`dr` added to exactly the
    non-`$` parts, `#REF!` when a part leaves the grid, the qualifier untouched; never a panic. -/
theorem C09_translate_ref (r : Spec.CRef) (hw : r.WF) (dc dr : Int) :
    translateTok dc dr (refTok r) = .ok (exprTok (Spec.translateRef r dc dr)) := by
  rw [translateTok_ref r hw dc dr, Spec.translateRef, exprTok_refOr]

/-- Tokens that are not Range operands (strings, numbers, names of functions, operators, error
    literals, blanks) are returned unchanged by the translation, for every token. -/
theorem C09_translate_nonref (t : Tok) (h : isRangeOperand t = false) (dc dr : Int) :
    translateTok dc dr t = .ok t := by
  simp [translateTok, h]

/-- Whole formula, PARTIAL.  Full statement wanted:
    `setCoordinate (e.print) dc dr = .ok ((Spec.translate e dc dr).print)` for every expression `e`.
    Proved here: the token-list form — if a formula's token list consists of arbitrary non-reference
    tokens and of reference tokens of well-formed references, `adjustment_formula_coordinate` maps
    it token by token as the Spec says.  Missing: `parse ('=' :: e.print)` is that token list
    (lexer correctness on printed ASTs), which is established by the correspondence check only. -/
inductive SpecTok where
  | other (t : Tok) (h : isRangeOperand t = false)
  | ref (r : Spec.CRef) (hw : r.WF)

def SpecTok.tok : SpecTok → Tok
  | .other t _ => t
  | .ref r _ => refTok r

def SpecTok.translated (dc dr : Int) : SpecTok → Tok
  | .other t _ => t
  | .ref r _ => exprTok (Spec.translateRef r dc dr)

theorem C09_translate_partial (l : List SpecTok) (dc dr : Int) :
    adjustFormulaCoordinate (l.map SpecTok.tok) dc dr = .ok (l.map (SpecTok.translated dc dr)) := by
  induction l with
  | nil => rfl
  | cons a rest ih =>
    simp only [adjustFormulaCoordinate, List.map] at ih ⊢
    cases a with
    | other t h => simp [mapRes, SpecTok.tok, SpecTok.translated, C09_translate_nonref t h, ih]
    | ref r hw => simp [mapRes, SpecTok.tok, SpecTok.translated, C09_translate_ref r hw, ih]

/-- non-vacuity: `'It''s'!$B3:XFD$1048576` is a well-formed reference -/
def exampleRef : Spec.CRef :=
  ⟨some ⟨['I', 't', '\'', 's'], true⟩, .two ⟨some ⟨2, true⟩, some ⟨3, false⟩⟩ ⟨some ⟨16384, false⟩, some ⟨1048576, true⟩⟩⟩

theorem exampleRef_wf : exampleRef.WF := by
  refine ⟨⟨Or.inl ⟨rfl, rfl, rfl, rfl⟩, ⟨?_, ?_⟩, ⟨?_, ?_⟩, ?_, ?_⟩, ?_⟩
  all_goals (try (intro x hx; injection hx with hx; subst hx; simp [Spec.maxCol, Spec.maxRow]))
  · intro x y hx hy; injection hx with hx; injection hy with hy; subst hx; subst hy; decide
  · intro x y hx hy; injection hx with hx; injection hy with hy; subst hx; subst hy; decide
  · intro q hq; injection hq with hq; subst hq; exact ⟨by simp, by intro h; cases h⟩

/-- non-vacuity of `Lexical`: `SUM('It''s'!$B3:XFD$1048576,"a""b",,-1%)` -/
example : (Spec.Expr.call ['S', 'U', 'M'] (.cons (.ref exampleRef) (.cons (.str ['a', '"', 'b'])
    (.skip (.cons (.neg (.pct (.num ['1']))) .nil))))).Lexical := by
  refine ⟨by decide, ⟨exampleRef_wf, ?_⟩, trivial, (by simp [Spec.Expr.Lexical, Spec.plainText, Spec.isPlainChar]), trivial⟩
  intro q hq hquoted
  injection hq with hq; subst hq; cases hquoted

example : exampleRef.WF ∧ exampleRef.text = "'It''s'!$B3:XFD$1048576".toList := by
  refine ⟨exampleRef_wf, ?_⟩
  simp [exampleRef, Spec.CRef.text, Spec.Qual.text, Spec.Area.text, Spec.Corner.text, optText, colRefText,
    rowRefText, replaceApos, indexToAlpha, alphaRev, letter, decDigits, digitChar]


/-- **Tie to the source (T).**  The error-literal table of the tokenizer model is `ERRORS` of
    helper/formula.rs as regenerated on this run. -/
theorem C09_tables_match_source : Umya.Gen.formula_errors.map String.toList = Umya.Formula.errors :=
  Umya.Gen.gen_formula_errors


/-- **Tie to the source (T).**  `translate_part` (a column / row part moved by an offset unless locked; `None`
    when it leaves `1..=max`) and the grid limits `MAX_COLUMN_NUM` / `MAX_ROW_NUM` of helper/formula.rs, as
    regenerated from the source on this run, are the model's `translatePart`, `maxCol`, `maxRow`. -/
theorem C09_kernels_match_source (p : Umya.Formula.Part) (d : Int) (max : Nat) :
    (Umya.Gen.translate_part ((p.1 : Int), p.2) d max).map (fun q => (q.1.toNat, q.2)) = Umya.Formula.translatePart p d max ∧
    Umya.Gen.max_column_num = Umya.Formula.maxCol ∧ Umya.Gen.max_row_num = Umya.Formula.maxRow :=
  ⟨Umya.Gen.gen_translate_part p d max, Umya.Gen.gen_grid_limits.1, Umya.Gen.gen_grid_limits.2⟩

end Umya.Thm.C09
