/-
  C15 — tie to the source (T), part 3: the spin count and the algorithm name literal in the three
  `encrypt_*_protection` setters of src/helper/crypt.rs, read from the CURRENT source on every run, are the hand
  model's (`Umya/Model/PwHash.lean`).  Constants only.
-/
import Umya.Lemmas.FnsGenCrypt
namespace Umya.Thm.C15
open Umya.Gen

/-- **Tie to the source (T).**  `key_spin_count` of `encrypt_sheet_protection`, `encrypt_workbook_protection` and
    `encrypt_revisions_protection` is the model's `spinCountConst`; `key_hash_algorithm` is the model's `algName`. -/
theorem C15_constants_match_source :
    crypt_protection_literals_ints.map (·.2) = [Umya.PwHash.spinCountConst, Umya.PwHash.spinCountConst, Umya.PwHash.spinCountConst] ∧
    crypt_protection_literals_strs.map (fun p => p.2.toList) = [Umya.PwHash.algName, Umya.PwHash.algName, Umya.PwHash.algName] ∧
    crypt_protection_literals_ints.map (·.1) =
      ["encrypt_sheet_protection.key_spin_count", "encrypt_workbook_protection.key_spin_count", "encrypt_revisions_protection.key_spin_count"] :=
  gen_protection_literals

end Umya.Thm.C15
