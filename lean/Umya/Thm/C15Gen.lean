/-
  C15 — tie to the source (T), part 3: `convert_password_to_hash` and the three `encrypt_*_protection` setters of
  src/helper/crypt.rs, compiled from the CURRENT source on every run (`Umya/Model/Gen/Fns.lean`), are the hand model's
  (`Umya/Model/PwHash.lean`) for all arguments; and the literals of the setters (kept from the constants-only tie).
-/
import Umya.Lemmas.FnsGenCrypt
import Umya.Lemmas.FnsGenCryptPw
namespace Umya.Thm.C15
open Umya.Gen Umya.Crypto Umya.PwHash

/-- **Tie to the source (T).**  `key_spin_count` of `encrypt_sheet_protection`, `encrypt_workbook_protection` and
    `encrypt_revisions_protection` is the model's `spinCountConst`; `key_hash_algorithm` is the model's `algName`. -/
theorem C15_constants_match_source :
    crypt_protection_literals_ints.map (·.2) = [Umya.PwHash.spinCountConst, Umya.PwHash.spinCountConst, Umya.PwHash.spinCountConst] ∧
    crypt_protection_literals_strs.map (fun p => p.2.toList) = [Umya.PwHash.algName, Umya.PwHash.algName, Umya.PwHash.algName] ∧
    crypt_protection_literals_ints.map (·.1) =
      ["encrypt_sheet_protection.key_spin_count", "encrypt_workbook_protection.key_spin_count", "encrypt_revisions_protection.key_spin_count"] :=
  gen_protection_literals

/-- **Tie to the source (T), the hash function.**  `convert_password_to_hash(password, algorithm, salt, spin_count)` as compiled from
    the source, calling the compiled `hash` (UTF-16LE of the password, `H(salt ‖ pw)`, then `spin_count` rounds `H(h ‖ LE32 i)`, `i as u32`;
    `hash` = `Sha512::new()`, `update(buffer_concat(buffers))`, `finalize()` for the names `"SHA512"` / `"SHA-512"`, `Err` — unwrapped, so
    a panic — otherwise; the hasher state is the bytes fed so far, `finalize` is `P.sha512`) equals the model's
    `convertPasswordToHash` for ALL passwords, salts, spin counts and algorithm names. -/
theorem C15_hash_fn_matches_source (P : Prims) (pw alg : List Char) (salt : Bytes) (spin : Nat) :
    crypt_convert_password_to_hash P.sha512 [] shaUpd pw alg salt spin =
      if algOk alg then some (convertPasswordToHash P pw salt spin) else none :=
  gen_convert_password_to_hash P pw alg salt spin

/-- both branches occur -/
example : algOk algName ∧ ¬ algOk ['M', 'D', '5'] := by decide

/-- **Tie to the source (T), the setters.**  For ALL passwords, salts (`draw 0` = the one `gen_random_16()` call) and prior states of
    the object: each `encrypt_*_protection` as compiled from the source returns (no panic), the model's record read out of the new
    object is the model's setter applied to the record read out of the old one (which four fields are set, to what — algorithm name,
    base64 of the salt, `spin as u32`, base64 of the hash — and which legacy password field is removed), and no other `StringValue` /
    `UInt32Value` field of the object changes.  The field a struct setter writes is read from the struct's source file. -/
theorem C15_setters_match_source (P : Prims) (draw : Nat → Bytes) (pw : List Char) (o : rt_Obj) :
    (∃ o', crypt_encrypt_sheet_protection P.b64 draw P.sha512 [] shaUpd pw o = some o' ∧
      sheetView o' = setSheetPassword P pw (draw 0) (sheetView o) ∧
      sameOutside ["algorithm_name", "hash_value", "salt_value", "spin_count", "password"] o o') ∧
    (∃ o', crypt_encrypt_workbook_protection P.b64 draw P.sha512 [] shaUpd pw o = some o' ∧
      workbookView o' = setWorkbookPassword P pw (draw 0) (workbookView o) ∧
      sameOutside ["workbook_algorithm_name", "workbook_hash_value", "workbook_salt_value", "workbook_spin_count", "workbook_password"] o o') ∧
    (∃ o', crypt_encrypt_revisions_protection P.b64 draw P.sha512 [] shaUpd pw o = some o' ∧
      workbookView o' = setRevisionsPassword P pw (draw 0) (workbookView o) ∧
      sameOutside ["revisions_algorithm_name", "revisions_hash_value", "revisions_salt_value", "revisions_spin_count", "revisions_password"] o o') :=
  ⟨gen_encrypt_sheet_protection P draw pw o, gen_encrypt_workbook_protection P draw pw o, gen_encrypt_revisions_protection P draw pw o⟩

/-- the views distinguish the kinds: an object with a legacy workbook password and a revisions salt has them in different records -/
example : (workbookView ⟨fun f => if f = "workbook_password" then some ['x'] else if f = "revisions_salt_value" then some ['y'] else none,
      fun _ => none⟩).workbook.password = some ['x'] ∧
    (workbookView ⟨fun f => if f = "workbook_password" then some ['x'] else if f = "revisions_salt_value" then some ['y'] else none,
      fun _ => none⟩).revisions.saltValue = some ['y'] := by
  constructor <;> simp [workbookView, pwView]

end Umya.Thm.C15
