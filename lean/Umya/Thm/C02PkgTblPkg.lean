/-
  C02, package level — the WHOLE package for workbooks whose sheets may carry comments and TABLES
  (`assembleT` / `writePackageT` of `Umya/Model/PackageNodeTbl.lean`, on top of the comments model).

    C02_tbl_content_types_cover     every part of the package has a content type under the decoder's look-up
    C02_tbl_plain_same              without tables the package is the one of the comments model (writePackageC)
    C02_tbl_package_rels_resolve    every non-external relationship of every `.rels` part of the package resolves, by the
                                    decoder's `resolveTarget` from the source part, to a part that IS in the package
                                    (table relationships → `xl/tables/table{n}.xml` included)
-/
import Umya.Thm.C02PkgTbl
namespace Umya.Thm.C02
open Umya.CellXml Umya.CellNode Umya.SheetNode Umya.WorkbookNode Umya.PackageNode Umya.Num Umya.Dec
open Umya.Spec.Sml
open Umya.Spec.Xml (Node Attr)
open Umya.AnnotComment (Comment writeVml writeComments)

theorem writePackageT_anatomy (F : NumFmt) (b : BookT F.Num) (pkg : Package) (h : writePackageT F b = some pkg) :
    ∃ tbl roots cmt sst, renderSheetsP F [] (b.toC.sheets.map (·.toP)) = some (tbl, roots) ∧ Built F b.toC cmt tbl sst ∧
      pkg = assembleT F b (!tbl.isEmpty) roots cmt sst := by
  unfold writePackageT at h
  cases hr : renderSheetsP F [] (b.toC.sheets.map (·.toP)) with
  | none => rw [hr] at h; cases h
  | some q =>
    obtain ⟨tbl, roots⟩ := q
    rw [hr] at h
    simp only at h
    cases hc : cmtPartsC (annotate b.toC.sheets) with
    | none => rw [hc] at h; cases h
    | some cmt =>
      rw [hc] at h
      simp only [Option.map_eq_some_iff] at h
      obtain ⟨sst, hs, rfl⟩ := h
      exact ⟨tbl, roots, cmt, sst, rfl, ⟨hc, sstPartsP_shape tbl sst hs⟩, rfl⟩

/-! ### `Package.part?` on the assembled package -/

section
variable {F : NumFmt}

def tailT (b : BookT F.Num) (hs : Bool) : List Part :=
  [xmlPart nStyles b.toC.styles,
   xmlPart nWorkbookPart (workbookNode b.toC.wbFrame (b.toC.sheets.map (·.entry)) b.toC.names),
   xmlPart nWorkbookRels (workbookRelsNode b.toC.sheets.length (wbRelsRest b.toC.sheets.length hs)),
   xmlPart nContentTypes (contentTypesNodeT b.toC.sheets.length hs (vmlNums (annotate b.toC.sheets)) (cmtNums (annotate b.toC.sheets)) b.tnums.flatten)]

def tblPartsB (b : BookT F.Num) : List Part := tblPartsOf b.tnums.flatten (b.sheets.map (·.tables)).flatten

theorem assembleT_eq (b : BookT F.Num) (hs : Bool) (roots : List Node) (cmt sst : List Part) :
    assembleT F b hs roots cmt sst =
      headC F b.toC ++ sheetParts 1 roots ++ cmt ++ tblPartsB b ++ relsPartsG 1 (relsInputT (annotate b.toC.sheets) b.tnums) ++ sst ++ tailT b hs := rfl

theorem part_assembleT (b : BookT F.Num) (hs : Bool) (roots : List Node) (cmt sst : List Part) (nm : List Char) :
    (assembleT F b hs roots cmt sst).part? (String.ofList nm) =
      ((headC F b.toC).find? (fun x => x.name = String.ofList nm)).or
       (((sheetParts 1 roots).find? (fun x => x.name = String.ofList nm)).or
        ((cmt.find? (fun x => x.name = String.ofList nm)).or
         (((tblPartsB b).find? (fun x => x.name = String.ofList nm)).or
          (((relsPartsG 1 (relsInputT (annotate b.toC.sheets) b.tnums)).find? (fun x => x.name = String.ofList nm)).or
           ((sst.find? (fun x => x.name = String.ofList nm)).or
            ((tailT b hs).find? (fun x => x.name = String.ofList nm))))))) := by
  simp only [assembleT_eq, Package.part?, List.find?_append, Option.or_assoc]

theorem tblParts_find_other (nm : List Char) (h : ∀ i, tblPartL i ≠ nm) (nums : List Nat) (trees : List Node) :
    (tblPartsOf nums trees).find? (fun x => x.name = String.ofList nm) = none := by
  apply List.find?_eq_none.2
  intro part hp
  obtain ⟨p, _, rfl⟩ := List.mem_map.1 hp
  simp only [decide_eq_true_eq, xmlPart]
  intro e
  exact h _ (String.ofList_injective (of_decide_eq_true e))

theorem tailT_find_none (b : BookT F.Num) (hs : Bool) (nm : List Char) (h : nm ∉ [nStyles, nWorkbookPart, nWorkbookRels, nContentTypes]) :
    (tailT b hs).find? (fun x => x.name = String.ofList nm) = none := by
  simp only [List.mem_cons, List.not_mem_nil, or_false, not_or] at h
  unfold tailT
  rw [find_cons, if_neg (Ne.symm h.1), find_cons, if_neg (Ne.symm h.2.1), find_cons, if_neg (Ne.symm h.2.2.1), find_cons, if_neg (Ne.symm h.2.2.2)]
  rfl

theorem part_isSome_of_mem (pkg : Package) (nm : List Char) (r : Node) (h : xmlPart nm r ∈ pkg) : (pkg.part? (String.ofList nm)).isSome = true := by
  unfold Package.part?
  rw [List.find?_isSome]
  exact ⟨_, h, by simp [xmlPart]⟩

variable {b : BookT F.Num} {cmt : List Part} {tbl : Table} {sst : List Part} (hb : Built F b.toC cmt tbl sst) (hs : Bool) (roots : List Node)
include hb

theorem partT_closed (nm : List Char)
    (h1 : ∀ i, sheetPartL i ≠ nm) (h2 : ∀ i, sheetRelsL i ≠ nm) (h3 : nSst ≠ nm) (h4 : ∀ i, vmlPartL i ≠ nm) (h5 : ∀ i, commentsPartL i ≠ nm)
    (h6 : ∀ i, tblPartL i ≠ nm) :
    (assembleT F b hs roots cmt sst).part? (String.ofList nm) =
      ((headC F b.toC).find? (fun x => x.name = String.ofList nm)).or ((tailT b hs).find? (fun x => x.name = String.ofList nm)) := by
  rw [part_assembleT, sheetParts_find_other nm h1, cmtParts_find_other nm h4 h5 _ _ hb.cmt, tblPartsB, tblParts_find_other nm h6,
    relsPartsG_find_other nm h2, sst_find_other tbl sst hb.sst nm h3]
  simp only [Option.none_or]

theorem partT_rootRels : (assembleT F b hs roots cmt sst).part? (String.ofList nRootRels) = some (xmlPart nRootRels rootRelsNode) := by
  rw [partT_closed hb hs roots nRootRels (by intro i; simp [sheetPartL, nRootRels]) (by intro i; simp [sheetRelsL, nRootRels]) (by decide)
    (by intro i; simp [vmlPartL, nRootRels]) (by intro i; simp [commentsPartL, nRootRels]) (by intro i; simp [tblPartL, nRootRels])]
  unfold headC; fskipC; fskipC; fhit; rfl

theorem partT_workbookRels : (assembleT F b hs roots cmt sst).part? (String.ofList nWorkbookRels) =
    some (xmlPart nWorkbookRels (workbookRelsNode b.toC.sheets.length (wbRelsRest b.toC.sheets.length hs))) := by
  rw [partT_closed hb hs roots nWorkbookRels (by intro i; simp [sheetPartL, nWorkbookRels]) (by intro i; simp [sheetRelsL, nWorkbookRels]) (by decide)
    (by intro i; simp [vmlPartL, nWorkbookRels]) (by intro i; simp [commentsPartL, nWorkbookRels]) (by intro i; simp [tblPartL, nWorkbookRels])]
  unfold headC tailT; fskipC; fskipC; fskipC; fskipC; rw [List.find?_nil, Option.none_or]; fskipC; fskipC; fhit

theorem partT_sheetRels (k : Nat) (hk : 1 ≤ k) :
    (assembleT F b hs roots cmt sst).part? (String.ofList (sheetRelsL k)) =
      ((relsInputT (annotate b.toC.sheets) b.tnums)[k - 1]?).bind (fun p => (relsRoot p.1 p.2).map (xmlPart (sheetRelsL k))) := by
  rw [part_assembleT, sheetParts_find_other (sheetRelsL k) (fun i => sheetPart_ne_sheetRels i k),
    cmtParts_find_other (sheetRelsL k) (fun i e => sheetRels_ne_vml k i e.symm) (fun i e => sheetRels_ne_comments k i e.symm) _ _ hb.cmt,
    tblPartsB, tblParts_find_other (sheetRelsL k) (by intro i; simp [tblPartL, sheetRelsL]),
    relsPartsG_find _ 1 k hk, sst_find_other tbl sst hb.sst _ (by simp [sheetRelsL, nSst]),
    head_find_none hb (sheetRelsL k) (by simp [sheetRelsL, nApp, nCore, nRootRels, nTheme]),
    tailT_find_none b hs (sheetRelsL k) (by simp [sheetRelsL, nStyles, nWorkbookPart, nWorkbookRels, nContentTypes])]
  simp

/-! ### the relationships as read -/

theorem relsOfT_root :
    relsOf (assembleT F b hs roots cmt sst) "" = [relRec 3 tXprops nApp, relRec 2 tCoreprops nCore, relRec 1 tOfficeDoc nWorkbookPart] := by
  unfold relsOf
  rw [relsName_root, partT_rootRels hb hs roots]
  show ((rootRelsNode.children).filter (isKid nRelationship)).map relOf = _
  simp only [rootRelsNode, Node.children, List.filter_cons, isKid_relEl, if_true, List.filter_nil,
    List.map_cons, List.map_nil, relOf_relEl]

theorem relsOfT_wb :
    relsOf (assembleT F b hs roots cmt sst) (String.ofList nWorkbookPart) = wsRecs 1 b.toC.sheets.length ++ wbRestRecs b.toC.sheets.length hs := by
  rw [relsOf_workbook _ _ b.toC.sheets.length (wbRelsRest b.toC.sheets.length hs)
    (by rw [relsName_workbook, partT_workbookRels hb hs roots]; rfl), wbRelsRest_recs]

theorem relsOfT_sheet (k : Nat) (hk : 1 ≤ k) (s : SheetC F.Num) (num : Option (Nat × Nat)) (ts : List Nat)
    (hsk : (annotate b.toC.sheets)[k - 1]? = some (s, num)) (hts : b.tnums[k - 1]? = some ts) :
    relsOf (assembleT F b hs roots cmt sst) (String.ofList (sheetPartL k)) = relRecs 1 s.sheet.links ++ restRecsT (hlNext 1 s.sheet.links) num ts := by
  apply C02_tbl_sheet_rels_read
  rw [relsName_sheet, partT_sheetRels hb hs roots k hk]
  unfold relsInputT
  have hz : ((annotate b.toC.sheets).zip b.tnums)[k - 1]? = some ((s, num), ts) := List.getElem?_zip_eq_some.2 ⟨hsk, hts⟩
  rw [List.getElem?_map, hz]
  cases hrr : relsRoot s.sheet.links (restOfT s.sheet.links num ts) <;> simp [xmlPart, hrr]

end

/-! ### membership of the targets -/

theorem zip_mem_left {α β : Type} (a : α) : ∀ (l1 : List α) (l2 : List β), l1.length = l2.length → a ∈ l1 → ∃ x, (a, x) ∈ l1.zip l2 := by
  intro l1
  induction l1 with
  | nil => intro _ _ h; cases h
  | cons c l1 ih =>
    intro l2 hl ha
    cases l2 with
    | nil => simp at hl
    | cons d l2 =>
      rcases List.mem_cons.1 ha with rfl | ha
      · exact ⟨d, by simp⟩
      · obtain ⟨x, hx⟩ := ih l2 (by simpa using hl) ha
        exact ⟨x, by simp [hx]⟩

theorem tnums_trees_length {N : Type} (b : BookT N) : b.tnums.flatten.length = (b.sheets.map (·.tables)).flatten.length := by
  unfold BookT.tnums
  rw [(C02_tbl_numbers_distinct _).2.1, List.length_range', List.length_flatten, List.map_map]
  rfl

theorem tblPart_mem {N : Type} (b : BookT N) (k : Nat) (ts : List Nat) (t : Nat) (hts : b.tnums[k]? = some ts) (ht : t ∈ ts) :
    ∃ tree, xmlPart (tblPartL t) tree ∈ tblPartsOf b.tnums.flatten (b.sheets.map (·.tables)).flatten := by
  have hm : t ∈ b.tnums.flatten := List.mem_flatten.2 ⟨ts, List.mem_of_getElem? hts, ht⟩
  obtain ⟨tree, h⟩ := zip_mem_left t _ _ (tnums_trees_length b) hm
  exact ⟨tree, List.mem_map.2 ⟨(t, tree), h, rfl⟩⟩

theorem isRels_tblPart (t : Nat) : isRelsNameL (tblPartL t) = false := by
  have : tblPartL t = ('x' :: 'l' :: '/' :: 't' :: 'a' :: 'b' :: 'l' :: 'e' :: 's' :: '/' :: 't' :: 'a' :: 'b' :: 'l' :: 'e' :: (decDigits t ++ ['.', 'x', 'm'])) ++ ['l'] := by
    simp [tblPartL]
  rw [this]; exact not_rels_of_last _ 'l' (by decide)

theorem mem_tblRecs (r : Rel) : ∀ (ts : List Nat) (k : Nat), r ∈ tblRecs k ts → ∃ j t, t ∈ ts ∧ r = relRec j tTable (tblTarget t) := by
  intro ts
  induction ts with
  | nil => intro _ h; cases h
  | cons a ts ih =>
    intro k h
    rcases List.mem_cons.1 h with rfl | h
    · exact ⟨k, a, by simp, rfl⟩
    · obtain ⟨j, t, ht, e⟩ := ih (k + 1) h
      exact ⟨j, t, by simp [ht], e⟩

theorem mem_restRecsT (r : Rel) (k : Nat) (num : Option (Nat × Nat)) (ts : List Nat) (h : r ∈ restRecsT k num ts) :
    (∃ j t, t ∈ ts ∧ r = relRec j tTable (tblTarget t)) ∨
    (∃ v c j, num = some (v, c) ∧ (r = relRec j tVml (vmlTarget v) ∨ r = relRec j tComments (commentsTarget c))) := by
  cases num with
  | none => exact Or.inl (mem_tblRecs r ts k h)
  | some vc =>
    obtain ⟨v, c⟩ := vc
    simp only [restRecsT, List.mem_cons, List.mem_append, List.not_mem_nil, or_false] at h
    rcases h with rfl | h | rfl
    · exact Or.inr ⟨v, c, _, rfl, Or.inl rfl⟩
    · exact Or.inl (mem_tblRecs r ts _ h)
    · exact Or.inr ⟨v, c, _, rfl, Or.inr rfl⟩

/-! ### the theorem -/

/-- **RELATIONSHIP TARGETS, whole package with tables.**  Every internal relationship of every relationships part of
    the package the model writes for a workbook whose sheets may carry comments and tables (`_rels/.rels`,
    `xl/_rels/workbook.xml.rels`, every `xl/worksheets/_rels/sheetK.xml.rels` — whose internal relationships are the
    vmlDrawing, table and comments ones) resolves, by the decoder's `resolveTarget` on the concrete names relative to
    the source part, to a part that is in the package. -/
theorem C02_tbl_package_rels_resolve (F : NumFmt) (b : BookT F.Num) (pkg : Package) (h : writePackageT F b = some pkg) :
    ∀ part ∈ pkg, isRelsNameL part.name.toList = true →
      ∀ r ∈ relsOf pkg (String.ofList (relsSourceL part.name.toList)), r.external = false →
        (pkg.part? (resolveTarget (String.ofList (relsSourceL part.name.toList)) r.target)).isSome = true := by
  obtain ⟨tbl, roots, cmt, sst, hr, hb, rfl⟩ := writePackageT_anatomy F b pkg h
  have hlen : roots.length = b.toC.sheets.length := roots_length F b.toC tbl roots hr
  intro part hp hrels r hrr hext
  have hnot : ∀ (nm : List Char) (x : Node), part = xmlPart nm x → isRelsNameL nm = false → False := by
    intro nm x e hf
    subst e
    simp only [xmlPart, String.toList_ofList] at hrels
    rw [hf] at hrels; cases hrels
  -- membership of the fixed parts
  have mApp : xmlPart nApp b.toC.app ∈ assembleT F b (!tbl.isEmpty) roots cmt sst := by rw [assembleT_eq]; simp [headC]
  have mCore : xmlPart nCore b.toC.core ∈ assembleT F b (!tbl.isEmpty) roots cmt sst := by rw [assembleT_eq]; simp [headC]
  have mTheme : xmlPart nTheme b.toC.theme ∈ assembleT F b (!tbl.isEmpty) roots cmt sst := by rw [assembleT_eq]; simp [headC]
  have mStyles : xmlPart nStyles b.toC.styles ∈ assembleT F b (!tbl.isEmpty) roots cmt sst := by rw [assembleT_eq]; simp [tailT]
  have mWb : xmlPart nWorkbookPart (workbookNode b.toC.wbFrame (b.toC.sheets.map (·.entry)) b.toC.names) ∈ assembleT F b (!tbl.isEmpty) roots cmt sst := by
    rw [assembleT_eq]; simp [tailT]
  have root_case : part = xmlPart nRootRels rootRelsNode →
      (Package.part? (assembleT F b (!tbl.isEmpty) roots cmt sst) (resolveTarget (String.ofList (relsSourceL part.name.toList)) r.target)).isSome = true := by
    intro e
    subst e
    have hsrc : String.ofList (relsSourceL (xmlPart nRootRels rootRelsNode).name.toList) = "" := by
      simp only [xmlPart, String.toList_ofList]; exact congrArg String.ofList (show relsSourceL nRootRels = [] by decide)
    rw [hsrc] at hrr ⊢
    rw [relsOfT_root hb _ roots] at hrr
    simp only [List.mem_cons, List.not_mem_nil, or_false] at hrr
    rcases hrr with rfl | rfl | rfl
    · simp only [relRec]; rw [resolve_root nApp nApp (by decide)]; exact part_isSome_of_mem _ _ _ mApp
    · simp only [relRec]; rw [resolve_root nCore nCore (by decide)]; exact part_isSome_of_mem _ _ _ mCore
    · simp only [relRec]; rw [resolve_root nWorkbookPart nWorkbookPart (by decide)]; exact part_isSome_of_mem _ _ _ mWb
  have wb_case : part = xmlPart nWorkbookRels (workbookRelsNode b.toC.sheets.length (wbRelsRest b.toC.sheets.length (!tbl.isEmpty))) →
      (Package.part? (assembleT F b (!tbl.isEmpty) roots cmt sst) (resolveTarget (String.ofList (relsSourceL part.name.toList)) r.target)).isSome = true := by
    intro e
    subst e
    have hsrc : String.ofList (relsSourceL (xmlPart nWorkbookRels (workbookRelsNode b.toC.sheets.length (wbRelsRest b.toC.sheets.length (!tbl.isEmpty)))).name.toList) = String.ofList nWorkbookPart := by
      simp only [xmlPart, String.toList_ofList]; exact congrArg String.ofList (show relsSourceL nWorkbookRels = nWorkbookPart by decide)
    rw [hsrc] at hrr ⊢
    rw [relsOfT_wb hb _ roots] at hrr
    rcases List.mem_append.1 hrr with hr' | hr'
    · obtain ⟨j, j1, j2, rfl⟩ := wsRecs_mem _ 1 r hr'
      have hj : j - 1 < roots.length := by omega
      have hm : xmlPart (sheetPartL j) roots[j - 1] ∈ assembleT F b (!tbl.isEmpty) roots cmt sst := by
        have hf := sheetParts_find roots 1 j j1
        rw [List.getElem?_eq_getElem hj] at hf
        have := List.mem_of_find?_eq_some hf
        rw [assembleT_eq]; simp [this]
      simp only
      rw [resolve_wb (sheetTarget j) (sheetPartL j) (resolve_sheetTarget j)]
      exact part_isSome_of_mem _ _ _ hm
    · have hsst := hb.sst
      cases hsst with
      | absent ht =>
        subst ht
        simp only [wbRestRecs, List.isEmpty_nil, Bool.not_true, Bool.false_eq_true, if_false, List.append_nil, List.mem_cons, List.not_mem_nil, or_false] at hr'
        rcases hr' with rfl | rfl
        · simp only [relRec]; rw [resolve_wb tStylesTarget nStyles (by decide)]; exact part_isSome_of_mem _ _ _ mStyles
        · simp only [relRec]; rw [resolve_wb tThemeTarget nTheme (by decide)]; exact part_isSome_of_mem _ _ _ mTheme
      | present root hne hroot =>
        have he : (!tbl.isEmpty) = true := by cases tbl with | nil => exact absurd rfl hne | cons _ _ => rfl
        have mSst : xmlPart nSst root ∈ assembleT F b (!tbl.isEmpty) roots cmt [xmlPart nSst root] := by rw [assembleT_eq]; simp
        rw [he] at hr' mStyles mTheme mSst ⊢
        simp only [wbRestRecs, if_true, List.cons_append, List.nil_append, List.mem_cons, List.not_mem_nil, or_false] at hr'
        rcases hr' with rfl | rfl | rfl
        · simp only [relRec]; rw [resolve_wb tStylesTarget nStyles (by decide)]; exact part_isSome_of_mem _ _ _ mStyles
        · simp only [relRec]; rw [resolve_wb tThemeTarget nTheme (by decide)]; exact part_isSome_of_mem _ _ _ mTheme
        · simp only [relRec]; rw [resolve_wb tSstTarget nSst (by decide)]; exact part_isSome_of_mem _ _ _ mSst
  have hp' := hp
  simp only [assembleT_eq, List.mem_append] at hp
  rcases hp with (((((hq | hq) | hq) | hq) | hq) | hq) | hq
  · simp only [headC, List.mem_cons, List.not_mem_nil, or_false] at hq
    rcases hq with e | e | e | e
    · exact (hnot _ _ e (by decide)).elim
    · exact (hnot _ _ e (by decide)).elim
    · exact root_case e
    · exact (hnot _ _ e (by decide)).elim
  · obtain ⟨j, x, _, _, e⟩ := sheetParts_names roots 1 part hq
    exact (hnot _ _ e (isRels_sheetPart j)).elim
  · obtain ⟨s, v, c, _, e | ⟨root, _, e⟩⟩ := cmtParts_names _ _ hb.cmt part hq
    · exact (hnot _ _ e (isRels_vmlPart v)).elim
    · exact (hnot _ _ e (isRels_commentsPart c)).elim
  · obtain ⟨p, _, e⟩ := List.mem_map.1 hq
    exact (hnot _ _ e.symm (isRels_tblPart p.1)).elim
  · -- a sheet relationships part: hyperlinks (external), vmlDrawing, tables, comments
    obtain ⟨j, p, rr, j1, hpj, hrr', e⟩ := relsPartsG_names _ 1 part hq
    subst e
    unfold relsInputT at hpj
    rw [List.getElem?_map] at hpj
    cases hz : ((annotate b.toC.sheets).zip b.tnums)[j - 1]? with
    | none => rw [hz] at hpj; cases hpj
    | some q =>
      obtain ⟨⟨s, num⟩, ts⟩ := q
      obtain ⟨han, hts⟩ := List.getElem?_zip_eq_some.1 hz
      have hsrc : String.ofList (relsSourceL (xmlPart (sheetRelsL j) rr).name.toList) = String.ofList (sheetPartL j) := by
        simp only [xmlPart, String.toList_ofList, relsSource_sheetRels]
      rw [hsrc] at hrr ⊢
      rw [relsOfT_sheet hb _ roots j j1 s num ts han hts] at hrr
      rcases List.mem_append.1 hrr with hr' | hr'
      · rw [relRecs_external s.sheet.links 1 r hr'] at hext; cases hext
      · rcases mem_restRecsT r _ num ts hr' with ⟨i, t, ht, rfl⟩ | ⟨v, c, i, rfl, rfl | rfl⟩
        · obtain ⟨tree, hm⟩ := tblPart_mem b (j - 1) ts t hts ht
          simp only [relRec]
          rw [resolve_sheet j _ _ (resolve_tblTarget j t)]
          exact part_isSome_of_mem _ _ tree (by rw [assembleT_eq]; simp [tblPartsB, hm])
        · have hf := cmtParts_find_vml _ _ hb.cmt (annotate_distinct _) s v c (List.mem_of_getElem? han)
          simp only [relRec]
          rw [resolve_sheet j _ _ (resolve_vmlTarget j v)]
          exact part_isSome_of_mem _ _ (writeVml s.comments) (by rw [assembleT_eq]; simp [List.mem_of_find?_eq_some hf])
        · obtain ⟨root, _, hf⟩ := cmtParts_find_comments _ _ hb.cmt (annotate_distinct _) s v c (List.mem_of_getElem? han)
          simp only [relRec]
          rw [resolve_sheet j _ _ (resolve_commentsTarget j c)]
          exact part_isSome_of_mem _ _ root (by rw [assembleT_eq]; simp [List.mem_of_find?_eq_some hf])
  · cases hb.sst with
    | absent _ => simp at hq
    | present root _ _ =>
      simp only [List.mem_singleton] at hq
      exact (hnot _ _ hq (by decide)).elim
  · simp only [tailT, List.mem_cons, List.not_mem_nil, or_false] at hq
    rcases hq with e | e | e | e
    · exact (hnot _ _ e (by decide)).elim
    · exact (hnot _ _ e (by decide)).elim
    · exact wb_case e
    · exact (hnot _ _ e (by decide)).elim


/-! ### the writer is total where the comments writer is -/

theorem writePackageT_isSome (F : NumFmt) (b : BookT F.Num) : (writePackageT F b).isSome = (writePackageC F b.toC).isSome := by
  unfold writePackageT writePackageC
  cases renderSheetsP F [] (b.toC.sheets.map (·.toP)) with
  | none => rfl
  | some q =>
    obtain ⟨tbl, roots⟩ := q
    simp only
    cases cmtPartsC (annotate b.toC.sheets) with
    | none => rfl
    | some cmt => simp only [Option.isSome_map]

/-! ### content types -/

theorem tableOverrides_kids (ts : List Nat) : (tableOverrides ts).filter (isKid nOverride) = tableOverrides ts ∧
    (tableOverrides ts).filter (isKid nDefault) = [] := by
  induction ts with
  | nil => exact ⟨rfl, rfl⟩
  | cons c cs ih =>
    have e : tableOverrides (c :: cs) = overrideEl (tblPartL c) ctTable :: tableOverrides cs := rfl
    rw [e]
    simp [List.filter_cons, (isKid_override _ _).1, (isKid_override _ _).2, ih.1, ih.2]

def overridesT (n : Nat) (hs : Bool) (cs ts : List Nat) : List Node :=
  [overrideEl nApp ctApp, overrideEl nCore ctCore] ++ (commentsOverrides cs ++ ((if hs then [overrideEl nSst ctSst] else []) ++
    ([overrideEl nStyles ctStyles] ++ (tableOverrides ts ++ ([overrideEl nTheme ctTheme, overrideEl nWorkbookPart ctWorkbook] ++ sheetOverrides 1 n)))))

theorem ct_kidsT (n : Nat) (hs : Bool) (vs cs ts : List Nat) :
    (contentTypesNodeT n hs vs cs ts).kids "Override" = overridesT n hs cs ts ∧
    (contentTypesNodeT n hs vs cs ts).kids "Default" = defaultsC vs := by
  have e1 : "Override".toList = nOverride := rfl
  have e2 : "Default".toList = nDefault := rfl
  rw [kids_eq, kids_eq, e1, e2]
  cases hs <;> cases vs.isEmpty <;>
  simp [contentTypesNodeT, overridesT, defaultsC, Node.children, List.filter_append, List.filter_cons, isKid_override, isKid_default,
    sheetOverrides_kids, commentsOverrides_kids, tableOverrides_kids]

theorem sheetOverrides_are (n : Nat) : ∀ k o, o ∈ sheetOverrides k n → ∃ nm ct, o = overrideEl nm ct := by
  induction n with
  | zero => intro _ o h; cases h
  | succ n ih =>
    intro k o h
    rcases List.mem_cons.1 h with rfl | h
    · exact ⟨_, _, rfl⟩
    · exact ih _ _ h

theorem overridesT_are (n : Nat) (hs : Bool) (cs ts : List Nat) (o : Node) (h : o ∈ overridesT n hs cs ts) : ∃ nm ct, o = overrideEl nm ct := by
  simp only [overridesT, List.mem_append, List.mem_cons, List.not_mem_nil, or_false] at h
  rcases h with (rfl | rfl) | h | h | rfl | h | (rfl | rfl) | h
  · exact ⟨_, _, rfl⟩
  · exact ⟨_, _, rfl⟩
  · obtain ⟨c, _, rfl⟩ := List.mem_map.1 h; exact ⟨_, _, rfl⟩
  · cases hs with
    | false => simp at h
    | true => simp only [if_true, List.mem_singleton] at h; exact ⟨_, _, h⟩
  · exact ⟨_, _, rfl⟩
  · obtain ⟨c, _, rfl⟩ := List.mem_map.1 h; exact ⟨_, _, rfl⟩
  · exact ⟨_, _, rfl⟩
  · exact ⟨_, _, rfl⟩
  · exact sheetOverrides_are _ _ _ h

theorem defaults_xml (vs : List Nat) :
    ((defaultsC vs).find? (dfPred ['x', 'm', 'l'])).bind (fun d => (d.attr? "ContentType".toList).map str) = some (str ctXml) := by
  unfold defaultsC
  generalize vs.isEmpty = e
  cases e <;> decide +kernel

theorem ext_tblPart (t : Nat) : extOfL (tblPartL t) = ['x', 'm', 'l'] := by
  have ht : splitGo '.' (decDigits t ++ ['.', 'x', 'm', 'l']) = (decDigits t, [['x', 'm', 'l']]) := by
    rw [splitGo_append _ _ _ (dot_notin t)]
    simp [splitGo]
  simp [extOfL, splitOnChar, tblPartL, splitGo_cons_ne, ht]

theorem ext_commentsPart (t : Nat) : extOfL (commentsPartL t) = ['x', 'm', 'l'] := by
  have ht : splitGo '.' (decDigits t ++ ['.', 'x', 'm', 'l']) = (decDigits t, [['x', 'm', 'l']]) := by
    rw [splitGo_append _ _ _ (dot_notin t)]
    simp [splitGo]
  simp [extOfL, splitOnChar, commentsPartL, splitGo_cons_ne, ht]

theorem ext_sheetPart (t : Nat) : extOfL (sheetPartL t) = ['x', 'm', 'l'] := by
  have ht : splitGo '.' (decDigits t ++ ['.', 'x', 'm', 'l']) = (decDigits t, [['x', 'm', 'l']]) := by
    rw [splitGo_append _ _ _ (dot_notin t)]
    simp [splitGo]
  simp [extOfL, splitOnChar, sheetPartL, splitGo_cons_ne, ht]

section
variable {F : NumFmt}
variable {b : BookT F.Num} {cmt : List Part} {tbl : Table} {sst : List Part} (hb : Built F b.toC cmt tbl sst) (hs : Bool) (roots : List Node)
include hb

theorem partT_contentTypes : (assembleT F b hs roots cmt sst).part? (String.ofList nContentTypes) =
    some (xmlPart nContentTypes (contentTypesNodeT b.toC.sheets.length hs (vmlNums (annotate b.toC.sheets)) (cmtNums (annotate b.toC.sheets)) b.tnums.flatten)) := by
  rw [partT_closed hb hs roots nContentTypes (by intro i; simp [sheetPartL, nContentTypes]) (by intro i; simp [sheetRelsL, nContentTypes]) (by decide)
    (by intro i; simp [vmlPartL, nContentTypes]) (by intro i; simp [commentsPartL, nContentTypes]) (by intro i; simp [tblPartL, nContentTypes])]
  unfold headC tailT; fskipC; fskipC; fskipC; fskipC; rw [List.find?_nil, Option.none_or]; fskipC; fskipC; fskipC; fhit

theorem contentTypeOf_assembleT (nm : List Char) :
    contentTypeOf (assembleT F b hs roots cmt sst) (String.ofList nm) =
      match (overridesT b.toC.sheets.length hs (cmtNums (annotate b.toC.sheets)) b.tnums.flatten).find? (ovPred nm) with
      | some o => (o.attr? "ContentType".toList).map str
      | none =>
        ((defaultsC (vmlNums (annotate b.toC.sheets))).find? (dfPred (extOfL nm))).bind fun d => (d.attr? "ContentType".toList).map str := by
  have e0 : "[Content_Types].xml" = String.ofList nContentTypes := rfl
  have e1 : ("/" ++ String.ofList nm).toList = '/' :: nm := by simp
  have e2 : "PartName".toList = ['P', 'a', 'r', 't', 'N', 'a', 'm', 'e'] := rfl
  unfold contentTypeOf
  rw [e0, partT_contentTypes hb hs roots]
  simp only [xmlPart, Option.bind_some, (ct_kidsT _ _ _ _ _).1, (ct_kidsT _ _ _ _ _).2, e1, e2, extOf, String.toList_ofList]
  rfl

/-- a part whose extension has a Default has a content type, whatever the Overrides say -/
theorem ctT_isSome (nm : List Char)
    (hext : extOfL nm = ['x', 'm', 'l'] ∨ extOfL nm = ['r', 'e', 'l', 's'] ∨ (extOfL nm = ['v', 'm', 'l'] ∧ vmlNums (annotate b.toC.sheets) ≠ [])) :
    (contentTypeOf (assembleT F b hs roots cmt sst) (String.ofList nm)).isSome = true := by
  rw [contentTypeOf_assembleT hb hs roots]
  cases hf : (overridesT b.toC.sheets.length hs (cmtNums (annotate b.toC.sheets)) b.tnums.flatten).find? (ovPred nm) with
  | some o =>
    obtain ⟨a, ct, rfl⟩ := overridesT_are _ _ _ _ o (List.mem_of_find?_eq_some hf)
    simp only [ct_attr]; rfl
  | none =>
    simp only
    rcases hext with e | e | ⟨e, hv⟩
    · rw [e, defaults_xml]; rfl
    · rw [e, defaults_rels]; rfl
    · rw [e, defaults_vml _ hv]; rfl

end

/-- **CONTENT TYPES, whole package with tables.**  Every part of the package the model writes — any number of sheets,
    with and without comments, with and without tables, with or without a shared-string part — has a content type
    under the decoder's look-up (`Override` by part name, else `Default` by extension). -/
theorem C02_tbl_content_types_cover (F : NumFmt) (b : BookT F.Num) (pkg : Package) (h : writePackageT F b = some pkg) :
    ∀ part ∈ pkg, part.name ≠ "[Content_Types].xml" → (contentTypeOf pkg part.name).isSome = true := by
  obtain ⟨tbl, roots, cmt, sst, hr, hb, rfl⟩ := writePackageT_anatomy F b pkg h
  intro part hp hne
  have key : ∀ (nm : List Char) (x : Node), part = xmlPart nm x →
      (extOfL nm = ['x', 'm', 'l'] ∨ extOfL nm = ['r', 'e', 'l', 's'] ∨ (extOfL nm = ['v', 'm', 'l'] ∧ vmlNums (annotate b.toC.sheets) ≠ [])) →
      (contentTypeOf (assembleT F b (!tbl.isEmpty) roots cmt sst) part.name).isSome = true := by
    intro nm x e hx
    subst e
    exact ctT_isSome hb _ roots nm hx
  simp only [assembleT_eq, List.mem_append] at hp
  rcases hp with (((((hq | hq) | hq) | hq) | hq) | hq) | hq
  · simp only [headC, List.mem_cons, List.not_mem_nil, or_false] at hq
    rcases hq with e | e | e | e
    · exact key _ _ e (Or.inl (by decide))
    · exact key _ _ e (Or.inl (by decide))
    · exact key _ _ e (Or.inr (Or.inl (by decide)))
    · exact key _ _ e (Or.inl (by decide))
  · obtain ⟨j, x, _, _, e⟩ := sheetParts_names roots 1 part hq
    exact key _ _ e (Or.inl (ext_sheetPart j))
  · obtain ⟨s, v, c, hm, e | ⟨root, _, e⟩⟩ := cmtParts_names _ _ hb.cmt part hq
    · exact key _ _ e (Or.inr (Or.inr ⟨ext_vmlPart v, List.ne_nil_of_mem (mem_vmlNums _ s v c hm).1⟩))
    · exact key _ _ e (Or.inl (ext_commentsPart c))
  · obtain ⟨p, _, e⟩ := List.mem_map.1 hq
    exact key _ _ e.symm (Or.inl (ext_tblPart p.1))
  · obtain ⟨j, p, rr, _, _, _, e⟩ := relsPartsG_names _ 1 part hq
    exact key _ _ e (Or.inr (Or.inl (ext_sheetRels j)))
  · cases hb.sst with
    | absent _ => simp at hq
    | present root _ _ =>
      simp only [List.mem_singleton] at hq
      exact key _ _ hq (Or.inl (by decide))
  · simp only [tailT, List.mem_cons, List.not_mem_nil, or_false] at hq
    rcases hq with e | e | e | e
    · exact key _ _ e (Or.inl (by decide))
    · exact key _ _ e (Or.inl (by decide))
    · exact key _ _ e (Or.inr (Or.inl (by decide)))
    · subst e; exact absurd rfl hne


/-! ### without tables -/

theorem tableNums_zeros : ∀ (l : List Nat) (c : Nat), (∀ x ∈ l, x = 0) → tableNums c l = l.map (fun _ => ([] : List Nat)) := by
  intro l
  induction l with
  | nil => intro _ _; rfl
  | cons a l ih =>
    intro c h
    have ha : a = 0 := h a (by simp)
    subst ha
    simp only [tableNums, List.map_cons, Nat.add_zero]
    rw [ih c (fun x hx => h x (by simp [hx]))]
    rfl

theorem flatten_nils {α β : Type} : ∀ (l : List α), (l.map (fun _ => ([] : List β))).flatten = [] := by
  intro l
  induction l with
  | nil => rfl
  | cons a l ih => simp only [List.map_cons, List.flatten_cons, List.nil_append, ih]

theorem zip_nils_map {α β γ : Type} (f : α × List Nat → γ) : ∀ (an : List α) (l : List β), an.length = l.length →
    (an.zip (l.map (fun _ => ([] : List Nat)))).map f = an.map (fun p => f (p, [])) := by
  intro an
  induction an with
  | nil => intro _ _; rfl
  | cons a an ih =>
    intro l hl
    cases l with
    | nil => simp at hl
    | cons d l =>
      simp only [List.map_cons, List.zip_cons_cons]
      rw [ih l (by simpa using hl)]

/-- **THE PLAIN CASE, whole package.**  For a workbook none of whose sheets has a table the model of this file writes
    exactly the package of the comments model on the same sheets (`writePackageC`; and by `C02_cmt_plain_same` the plain
    package when there is no comment either): the extension is conservative. -/
theorem C02_tbl_plain_same (F : NumFmt) (b : BookT F.Num) (h : ∀ s ∈ b.sheets, s.tables = []) :
    writePackageT F b = writePackageC F b.toC ∧ b.toC.sheets = b.sheets.map (·.c) := by
  have hz : ∀ x ∈ b.sheets.map (·.tables.length), x = 0 := by
    intro x hx
    obtain ⟨s, hs, rfl⟩ := List.mem_map.1 hx
    rw [h s hs]; rfl
  have htn : b.tnums = (b.sheets.map (·.tables.length)).map (fun _ => ([] : List Nat)) := tableNums_zeros _ 0 hz
  have hfl : b.tnums.flatten = [] := by rw [htn]; exact flatten_nils _
  refine ⟨?_, ?_⟩
  · unfold writePackageT writePackageC
    cases renderSheetsP F [] (b.toC.sheets.map (·.toP)) with
    | none => rfl
    | some q =>
      obtain ⟨tbl, roots⟩ := q
      simp only
      cases cmtPartsC (annotate b.toC.sheets) with
      | none => rfl
      | some cmt =>
        simp only
        congr 1
        funext sst
        have hri : relsInputT (annotate b.toC.sheets) b.tnums = relsInput (annotate b.toC.sheets) := by
          unfold relsInputT relsInput
          rw [htn, zip_nils_map _ _ _ (by rw [annotate_length]; simp [BookT.toC])]
          apply List.map_congr_left
          intro p _
          exact congrArg _ (C02_tbl_plain_same_partial p.1.sheet.links p.2 false 0 false [] []).1
        unfold assembleT assembleC
        rw [hfl, hri, (C02_tbl_plain_same_partial [] none false _ _ _ _).2.2]
        simp [tblPartsOf]
  · unfold BookT.toC
    simp only
    apply List.map_congr_left
    intro s hs
    unfold SheetT.toC
    rw [h s hs]
    rfl


/-! ### non-vacuity: the three sheets of `demoCmtBook` (comments on the first and third), two tables on the first, none
    on the second, one on the third -/

def demoTblTree : Node := .elem ['t', 'a', 'b', 'l', 'e'] [] []

def demoTblBook : BookT demoFS.Num :=
  { sheets := (demoCmtBook.sheets.zip [[demoTblTree, demoTblTree], [], [demoTblTree]]).map (fun p => { c := p.1, tables := p.2 }),
    names := demoCmtBook.names, wbFrame := demoCmtBook.wbFrame, app := demoCmtBook.app, core := demoCmtBook.core,
    theme := demoCmtBook.theme, styles := demoCmtBook.styles }

example : demoTblBook.tnums = [[1, 2], [], [3]] := by decide +kernel

theorem demoTblBook_written : ∃ pkg, writePackageT demoFS demoTblBook = some pkg := by
  have h := writePackageT_isSome demoFS demoTblBook
  obtain ⟨pkg, hp⟩ := C02_cmt_package_written demoFS demoTblBook.toC (by decide) (by decide)
  rw [hp] at h
  exact Option.isSome_iff_exists.1 h

example : ∃ pkg, writePackageT demoFS demoTblBook = some pkg ∧
    (∀ part ∈ pkg, part.name ≠ "[Content_Types].xml" → (contentTypeOf pkg part.name).isSome = true) ∧
    (∀ part ∈ pkg, isRelsNameL part.name.toList = true →
      ∀ r ∈ relsOf pkg (String.ofList (relsSourceL part.name.toList)), r.external = false →
        (pkg.part? (resolveTarget (String.ofList (relsSourceL part.name.toList)) r.target)).isSome = true) := by
  obtain ⟨pkg, h⟩ := demoTblBook_written
  exact ⟨pkg, h, C02_tbl_content_types_cover _ _ pkg h, C02_tbl_package_rels_resolve _ _ pkg h⟩

/-- `C02_tbl_plain_same` applies: the same workbook with the tables removed -/
example : ∃ b : BookT demoFS.Num, b.sheets.length = 3 ∧ writePackageT demoFS b = writePackageC demoFS b.toC :=
  ⟨{ demoTblBook with sheets := demoTblBook.sheets.map (fun s => { s with tables := [] }) }, by decide,
   (C02_tbl_plain_same _ _ (by decide)).1⟩

end Umya.Thm.C02
