/-
  C07 — whole histories of structural edits; annotations and hyperlinks under move / copy.

  (1) `C07_history_refines`: for EVERY list of edits (place / delete a cell, insert / remove rows /
  columns, move, copy: `Umya.Spec.Grid.Edit`, mapped to the `Op`s of `Umya.Sheet.step` by
  `Edit.toOp`) applied from a coherent in-grid store, as long as the guard of every edit holds on the
  state it is applied to (`Guard`, a decidable predicate; `Guarded` along the history), the
  concrete run does not panic, the final store is coherent and in the grid, and its content is
  the fold of the reference steps of `Spec/Grid.lean` over the same list:
  `content (run s ops) = specRun (content s) ops`.  Induction on the list, one refinement step
  (`C07_step_refines`) per edit: `C07_insert_* / C07_remove_* / C07_move_refines / C07_copy_refines`.
  Panics: `C07_move_copy_panic_iff` (exactly: image outside the grid, or an inverted rectangle),
  `C07_step_panic_only` (no other edit panics, except a remove at position 0),
  `C07_history_panic_exact` (a panicking history has a first edit that panics on a coherent reached
  state, and that edit's guard is false there).

  (2) `C07_move_keeps_annotations`, `C07_move_carries_hyperlink` (`Umya/Model/SheetA.lean`).
-/
import Umya.Thm.C07
import Umya.Thm.C07Move
import Umya.Spec.GridHistory
import Umya.Model.SheetA
import Umya.Lemmas.RemoveZero
namespace Umya.Thm.C07
open Umya.Sheet Umya.Book Umya.Coord Umya.Spec.Grid

/-- the concrete operation (`Umya.Sheet.Op`, executed by `step`) of an edit -/
def _root_.Umya.Spec.Grid.Edit.toOp : Edit → Op
  | .setCell c r v st => .setCell c r v st
  | .removeCell c r => .removeCell c r
  | .insRows p n => .insRows p n
  | .insCols p n => .insCols p n
  | .remRows p n => .remRows p n
  | .remCols p n => .remCols p n
  | .move ρ dr dc => .move ρ.rs ρ.re ρ.cs ρ.ce dr dc
  | .copy ρ dr dc => .copy ρ.rs ρ.re ρ.cs ρ.ce dr dc

/-- every stored key lies inside the grid -/
def AllInGrid (s : Sheet) : Prop := ∀ k ∈ keysOf s, InGrid k.1 k.2

instance (s : Sheet) : Decidable (AllInGrid s) := by unfold AllInGrid; exact inferInstance

/-- the guard of one edit on the state it is applied to: the placed cell inside the grid; `n ≥ 1`
    lines inserted and no stored cell pushed beyond the grid limit; `n ≥ 1` lines removed at `p ≥ 1`;
    move / copy: `InRange` (non-empty rectangle inside the grid whose image is inside the grid) -/
def Guard (s : Sheet) : Edit → Prop
  | .setCell col row _ _ => InGrid row col
  | .removeCell _ _ => True
  | .insRows p n => n ≠ 0 ∧ ∀ k ∈ keysOf s, p ≤ k.1 → k.1 + n ≤ maxRow
  | .insCols p n => n ≠ 0 ∧ ∀ k ∈ keysOf s, p ≤ k.2 → k.2 + n ≤ maxCol
  | .remRows p n => 1 ≤ p ∧ n ≠ 0
  | .remCols p n => 1 ≤ p ∧ n ≠ 0
  | .move ρ dr dc => InRange ρ dr dc
  | .copy ρ dr dc => InRange ρ dr dc

instance (s : Sheet) (e : Edit) : Decidable (Guard s e) := by
  cases e <;> unfold Guard <;> exact inferInstance

/-- every edit of the history is guarded on the state the concrete run reaches before it -/
def Guarded (s : Sheet) : List Edit → Prop
  | [] => True
  | e :: es => Guard s e ∧ match step s e.toOp with
    | .ok t => Guarded t es
    | .panic => False

instance guardedDec : (ops : List Edit) → (s : Sheet) → Decidable (Guarded s ops)
  | [], _ => isTrue trivial
  | e :: es, s =>
    match hst : step s e.toOp with
    | .panic => isFalse (fun hh => by have h2 := hh.2; rw [hst] at h2; exact h2)
    | .ok t =>
      match (inferInstance : Decidable (Guard s e)), guardedDec es t with
      | isTrue a, isTrue b => isTrue ⟨a, by rw [hst]; exact b⟩
      | isFalse a, _ => isFalse (fun hh => a hh.1)
      | _, isFalse b => isFalse (fun hh => b (by have h2 := hh.2; rw [hst] at h2; exact h2))

/-! ### bridges between the store and the abstraction -/

theorem content_ne_none_iff (s : Sheet) (r c : Nat) : content s r c ≠ none ↔ (r, c) ∈ keysOf s := by
  unfold content keysOf
  rw [← lookup_isSome_iff]
  cases lookup (r, c) s.cells <;> simp

theorem allInGrid_iff (s : Sheet) : AllInGrid s ↔ GridIn (content s) := by
  constructor
  · intro h r c hne
    exact h (r, c) ((content_ne_none_iff s r c).1 hne)
  · intro h k hk
    exact h k.1 k.2 ((content_ne_none_iff s k.1 k.2).2 hk)

/-- the guard as the reference grid sees it -/
def GuardG (g : Grid (Nat × Nat)) : Edit → Prop
  | .setCell col row _ _ => 1 ≤ row ∧ row ≤ maxRow ∧ 1 ≤ col ∧ col ≤ maxCol
  | .removeCell _ _ => True
  | .insRows p n => ∀ r c, g r c ≠ none → p ≤ r → r + n ≤ maxRow
  | .insCols p n => ∀ r c, g r c ≠ none → p ≤ c → c + n ≤ maxCol
  | .remRows p _ => 1 ≤ p
  | .remCols p _ => 1 ≤ p
  | .move ρ dr dc => InRange ρ dr dc
  | .copy ρ dr dc => InRange ρ dr dc

theorem guardG_of_guard (s : Sheet) (e : Edit) (hg : Guard s e) : GuardG (content s) e := by
  cases e with
  | setCell col row v sty => exact hg
  | removeCell col row => trivial
  | insRows p n =>
    intro r c hne hp
    exact hg.2 (r, c) ((content_ne_none_iff s r c).1 hne) hp
  | insCols p n =>
    intro r c hne hp
    exact hg.2 (r, c) ((content_ne_none_iff s r c).1 hne) hp
  | remRows p n => exact hg.1
  | remCols p n => exact hg.1
  | move ρ dr dc => exact hg
  | copy ρ dr dc => exact hg

/-- the reference steps keep the grid inside `1..1048576 × 1..16384` under the guard -/
theorem specStep_gridIn (g : Grid (Nat × Nat)) (hg : GridIn g) (e : Edit) (hgu : GuardG g e) :
    GridIn (specStep Prod.mk g e) := by
  intro r c hne
  cases e with
  | setCell col row v sty =>
    simp only [specStep, setAt] at hne
    by_cases e : (r, c) = (row, col)
    · injection e with e1 e2
      subst e1; subst e2
      exact hgu
    · rw [if_neg e] at hne
      exact hg r c hne
  | removeCell col row =>
    simp only [specStep, clearAt] at hne
    by_cases e : (r, c) = (row, col)
    · rw [if_pos e] at hne; exact absurd rfl hne
    · rw [if_neg e] at hne; exact hg r c hne
  | insRows p n =>
    simp only [specStep, insertRows] at hne
    by_cases h1 : r < p
    · rw [if_pos h1] at hne; exact hg r c hne
    · rw [if_neg h1] at hne
      by_cases h2 : r < p + n
      · rw [if_pos h2] at hne; exact absurd rfl hne
      · rw [if_neg h2] at hne
        have a := hg _ _ hne
        have b := hgu _ _ hne (by omega)
        omega
  | insCols p n =>
    simp only [specStep, insertCols] at hne
    by_cases h1 : c < p
    · rw [if_pos h1] at hne; exact hg r c hne
    · rw [if_neg h1] at hne
      by_cases h2 : c < p + n
      · rw [if_pos h2] at hne; exact absurd rfl hne
      · rw [if_neg h2] at hne
        have a := hg _ _ hne
        have b := hgu _ _ hne (by omega)
        omega
  | remRows p n =>
    simp only [specStep, removeRows] at hne
    have hp : 1 ≤ p := hgu
    by_cases h1 : r < p
    · rw [if_pos h1] at hne; exact hg r c hne
    · rw [if_neg h1] at hne
      have a := hg _ _ hne
      omega
  | remCols p n =>
    simp only [specStep, removeCols] at hne
    have hp : 1 ≤ p := hgu
    by_cases h1 : c < p
    · rw [if_pos h1] at hne; exact hg r c hne
    · rw [if_neg h1] at hne
      have a := hg _ _ hne
      omega
  | move ρ dr dc =>
    have hin : InRange ρ dr dc := hgu
    simp only [specStep, moveRect] at hne
    by_cases hI : ρ.hasImage dr dc r c
    · simp only [InRange, maxRow, maxCol] at hin
      simp only [Rect.hasImage, Rect.has] at hI
      simp only [maxRow, maxCol]
      omega
    · rw [if_neg hI] at hne
      by_cases hS : ρ.has r c
      · rw [if_pos hS] at hne; exact absurd rfl hne
      · rw [if_neg hS] at hne; exact hg r c hne
  | copy ρ dr dc =>
    have hin : InRange ρ dr dc := hgu
    simp only [specStep, copyRect] at hne
    by_cases hI : ρ.hasImage dr dc r c
    · simp only [InRange, maxRow, maxCol] at hin
      simp only [Rect.hasImage, Rect.has] at hI
      simp only [maxRow, maxCol]
      omega
    · rw [if_neg hI] at hne; exact hg r c hne

/-! ### one step -/

/-- One guarded edit on a coherent store: no panic, coherence kept, and the concrete step commutes
    with the reference step through the abstraction. -/
theorem C07_step_refines (s : Sheet) (h : Coherent s) (e : Edit) (hg : Guard s e) :
    ∃ t, step s e.toOp = .ok t ∧ Coherent t ∧ content t = specStep Prod.mk (content s) e := by
  cases e with
  | setCell col row v sty =>
    refine ⟨_, rfl, setCell_coherent s col row v sty h, ?_⟩
    funext r c
    rw [content_setCell]; rfl
  | removeCell col row =>
    refine ⟨_, rfl, removeCell_coherent s col row h, ?_⟩
    funext r c
    rw [content_removeCell]; rfl
  | insRows p n => exact ⟨_, rfl, insertAdj_coherent s 0 0 p n h, C07_insert_rows s h p n hg.1⟩
  | insCols p n => exact ⟨_, rfl, insertAdj_coherent s p n 0 0 h, C07_insert_cols s h p n hg.1⟩
  | remRows p n => exact C07_remove_rows s h p n hg.1 hg.2
  | remCols p n => exact C07_remove_cols s h p n hg.1 hg.2
  | move ρ dr dc => exact C07_move_refines s h ρ (dr, dc) hg
  | copy ρ dr dc => exact C07_copy_refines s h ρ (dr, dc) hg

/-! ### the whole history -/

/-- the concrete run of a history of edits -/
def runEdits (s : Sheet) (ops : List Edit) : Res Sheet := run s (ops.map Edit.toOp)

theorem runEdits_cons (s : Sheet) (e : Edit) (es : List Edit) :
    runEdits s (e :: es) = match step s e.toOp with | .ok t => runEdits t es | .panic => .panic := rfl

/-- **Whole-history refinement.**  For every list of edits, from every coherent store inside the
    grid, if every edit is guarded on the state it is applied to, then the concrete run returns
    (no panic), the final store is coherent and inside the grid, and
    `content (run s ops) = specRun (content s) ops`. -/
theorem C07_history_refines (ops : List Edit) : ∀ (s : Sheet), Coherent s → AllInGrid s → Guarded s ops →
    ∃ t, runEdits s ops = .ok t ∧ Coherent t ∧ AllInGrid t ∧
      content t = specRun Prod.mk (content s) ops := by
  induction ops with
  | nil => intro s h hi _; exact ⟨s, rfl, h, hi, rfl⟩
  | cons e es ih =>
    intro s h hi hgd
    obtain ⟨hg, hrest⟩ := hgd
    obtain ⟨t, ht, hco, hc⟩ := C07_step_refines s h e hg
    rw [ht] at hrest
    have hin : AllInGrid t := by
      rw [allInGrid_iff, hc]
      exact specStep_gridIn _ ((allInGrid_iff s).1 hi) e (guardG_of_guard s e hg)
    obtain ⟨u, hu, hcu, hiu, hcc⟩ := ih t hco hin hrest
    refine ⟨u, ?_, hcu, hiu, ?_⟩
    · rw [runEdits_cons, ht]; exact hu
    · rw [hcc, hc]; rfl

/-- the same with the result named: when the guarded run returns `t` … -/
theorem C07_history_content (ops : List Edit) (s t : Sheet) (h : Coherent s) (hi : AllInGrid s)
    (hg : Guarded s ops) (hok : runEdits s ops = .ok t) :
    content t = specRun Prod.mk (content s) ops := by
  obtain ⟨u, hu, _, _, hc⟩ := C07_history_refines ops s h hi hg
  rw [hok] at hu; injection hu with hu; subst hu; exact hc

/-! ### panics -/

/-- the image of the rectangle leaves the grid: the guard of `move_or_copy_range` (`panic!("Out of Range.")`) -/
def OffGrid (ρ : Rect) (dr dc : Int) : Prop :=
  (ρ.cs : Int) + dc < 1 ∨ (ρ.rs : Int) + dr < 1 ∨ (ρ.ce : Int) + dc > 16384 ∨ (ρ.re : Int) + dr > 1048576

instance (ρ : Rect) (dr dc : Int) : Decidable (OffGrid ρ dr dc) := by unfold OffGrid; exact inferInstance

/-- the end corner precedes the start corner in (row, column) order: `BTreeSet::range` panics -/
def Inverted (ρ : Rect) : Prop := ρ.re < ρ.rs ∨ (ρ.re = ρ.rs ∧ ρ.ce < ρ.cs)

instance (ρ : Rect) : Decidable (Inverted ρ) := by unfold Inverted; exact inferInstance

/-- Move / copy on a coherent store panic EXACTLY when the image leaves the grid or the rectangle
    is inverted in (row, column) order; in every other case they return.
    Faithfulness to the code: tied by the out-of-range stream of the harness for stores that hold at
    least one cell.  On a store WITHOUT cells the code's `BTreeSet::range(start > end)` panics only
    when the tree's root node is allocated (index emptied by `remove_cell`) and returns on a fresh
    index (after `rebuild_map_and_indices`); the model's `coordsInRange` says panic in both cases
    (the driver answers `unmodelled` there). -/
theorem C07_move_copy_panic_iff (s : Sheet) (h : Coherent s) (ρ : Rect) (dr dc : Int) (mv : Bool) :
    moveOrCopy s ρ.rs ρ.re ρ.cs ρ.ce dr dc mv = .panic ↔ OffGrid ρ dr dc ∨ Inverted ρ := by
  rw [moveOrCopy_eq]
  by_cases hoff : OffGrid ρ dr dc
  · have hoff' := hoff
    unfold OffGrid at hoff'
    rw [if_pos hoff']
    exact ⟨fun _ => Or.inl hoff, fun _ => rfl⟩
  · have hoff' := hoff
    unfold OffGrid at hoff'
    rw [if_neg hoff']
    by_cases hinv : keyLt (ρ.re, ρ.ce) (ρ.rs, ρ.cs) = true
    · have e : coordsInRange s ρ.rs ρ.re ρ.cs ρ.ce = .panic := by
        unfold coordsInRange; rw [if_pos hinv]
      rw [e]
      exact ⟨fun _ => Or.inr ((keyLt_iff (ρ.re, ρ.ce) (ρ.rs, ρ.cs)).1 hinv), fun _ => rfl⟩
    · obtain ⟨coords, e⟩ : ∃ l, coordsInRange s ρ.rs ρ.re ρ.cs ρ.ce = .ok l := by
        unfold coordsInRange; rw [if_neg hinv]; exact ⟨_, rfl⟩
      rw [e]
      simp only [collectCells_eq s h ρ.rs ρ.re ρ.cs ρ.ce coords e]
      constructor
      · intro hh; cases hh
      · intro hh
        rcases hh with a | b
        · exact absurd a hoff
        · exact absurd ((keyLt_iff (ρ.re, ρ.ce) (ρ.rs, ρ.cs)).2 b) hinv

/-- Which edit can panic on a coherent store: a move / copy under the condition above, or a
    remove of `n ≥ 1` lines at position `0`; nothing else. -/
theorem C07_step_panic_only (s : Sheet) (h : Coherent s) (e : Edit) (hp : step s e.toOp = .panic) :
    (∃ ρ dr dc, (e = .move ρ dr dc ∨ e = .copy ρ dr dc) ∧ (OffGrid ρ dr dc ∨ Inverted ρ)) ∨
    (∃ n, n ≠ 0 ∧ (e = .remRows 0 n ∨ e = .remCols 0 n)) := by
  cases e with
  | setCell col row v sty => cases hp
  | removeCell col row => cases hp
  | insRows p n => cases hp
  | insCols p n => cases hp
  | remRows p n =>
    right
    by_cases hz : 1 ≤ p ∨ n = 0
    · obtain ⟨t, ht⟩ := removeAdj_no_panic s 0 0 p n (Or.inr rfl) hz
      have : removeAdj s 0 0 p n = .panic := hp
      rw [ht] at this; cases this
    · have hp0 : p = 0 := by omega
      subst hp0
      exact ⟨n, by omega, Or.inl rfl⟩
  | remCols p n =>
    right
    by_cases hz : 1 ≤ p ∨ n = 0
    · obtain ⟨t, ht⟩ := removeAdj_no_panic s p n 0 0 hz (Or.inr rfl)
      have : removeAdj s p n 0 0 = .panic := hp
      rw [ht] at this; cases this
    · have hp0 : p = 0 := by omega
      subst hp0
      exact ⟨n, by omega, Or.inr rfl⟩
  | move ρ dr dc =>
    left
    exact ⟨ρ, dr, dc, Or.inl rfl, (C07_move_copy_panic_iff s h ρ dr dc true).1 hp⟩
  | copy ρ dr dc =>
    left
    exact ⟨ρ, dr, dc, Or.inr rfl, (C07_move_copy_panic_iff s h ρ dr dc false).1 hp⟩

theorem runEdits_coherent (ops : List Edit) (s t : Sheet) (h : Coherent s) (hok : runEdits s ops = .ok t) : Coherent t :=
  run_coherent (ops.map Edit.toOp) s t h hok

/-- A history from a coherent store panics exactly when it has a first edit `e` that panics on
    the (coherent) state `t` reached by the edits before it; that edit's guard is false on `t`
    and it is one of the edits of `C07_step_panic_only`. -/
theorem C07_history_panic_exact (ops : List Edit) : ∀ (s : Sheet), Coherent s →
    (runEdits s ops = .panic ↔
      ∃ pre e post t, ops = pre ++ e :: post ∧ runEdits s pre = .ok t ∧ Coherent t ∧
        step t e.toOp = .panic ∧ ¬ Guard t e) := by
  induction ops with
  | nil =>
    intro s _
    constructor
    · intro hp; cases hp
    · rintro ⟨pre, e, post, t, he, _⟩
      cases pre <;> cases he
  | cons e es ih =>
    intro s h
    rw [runEdits_cons]
    cases hst : step s e.toOp with
    | panic =>
      constructor
      · intro _
        refine ⟨[], e, es, s, rfl, rfl, h, hst, ?_⟩
        intro hg
        obtain ⟨t, ht, _⟩ := C07_step_refines s h e hg
        rw [hst] at ht; cases ht
      · intro _; rfl
    | ok t =>
      have hco : Coherent t := step_coherent s t e.toOp h hst
      simp only
      rw [ih t hco]
      constructor
      · rintro ⟨pre, e', post, u, he, hu, hcu, hpu, hng⟩
        refine ⟨e :: pre, e', post, u, by rw [he]; rfl, ?_, hcu, hpu, hng⟩
        rw [runEdits_cons, hst]; exact hu
      · rintro ⟨pre, e', post, u, he, hu, hcu, hpu, hng⟩
        cases pre with
        | nil =>
          simp only [List.nil_append, List.cons.injEq] at he
          obtain ⟨e1, e2⟩ := he
          subst e1
          have : (Res.ok s : Res Sheet) = .ok u := hu
          injection this with this
          subst this
          rw [hst] at hpu; cases hpu
        | cons x pre' =>
          simp only [List.cons_append, List.cons.injEq] at he
          obtain ⟨e1, e2⟩ := he
          subst e1
          rw [runEdits_cons, hst] at hu
          exact ⟨pre', e', post, u, e2, hu, hcu, hpu, hng⟩

/-- the exact panic condition of one edit on the state it is applied to: a move / copy whose image
    leaves the grid or whose rectangle is inverted; a remove of `n ≥ 1` lines at position 0 when a
    stored cell lies in a line below `n` (`num - offset` underflows in `adjustment_remove_coordinate`);
    no other edit panics -/
def Panics (s : Sheet) : Edit → Prop
  | .setCell _ _ _ _ => False
  | .removeCell _ _ => False
  | .insRows _ _ => False
  | .insCols _ _ => False
  | .remRows p n => p = 0 ∧ n ≠ 0 ∧ ∃ k ∈ keysOf s, k.1 < n
  | .remCols p n => p = 0 ∧ n ≠ 0 ∧ ∃ k ∈ keysOf s, k.2 < n
  | .move ρ dr dc => OffGrid ρ dr dc ∨ Inverted ρ
  | .copy ρ dr dc => OffGrid ρ dr dc ∨ Inverted ρ

instance (s : Sheet) (e : Edit) : Decidable (Panics s e) := by
  cases e <;> unfold Panics <;> exact inferInstance

/-- **The panic case, exactly**: on a coherent store an edit panics iff `Panics` holds. -/
theorem C07_step_panic_iff (s : Sheet) (h : Coherent s) (e : Edit) : step s e.toOp = .panic ↔ Panics s e := by
  cases e with
  | setCell col row v sty =>
    constructor
    · intro hp; cases hp
    · intro hp; exact False.elim hp
  | removeCell col row =>
    constructor
    · intro hp; cases hp
    · intro hp; exact False.elim hp
  | insRows p n =>
    constructor
    · intro hp; cases hp
    · intro hp; exact False.elim hp
  | insCols p n =>
    constructor
    · intro hp; cases hp
    · intro hp; exact False.elim hp
  | remRows p n =>
    show removeAdj s 0 0 p n = .panic ↔ _
    rw [removeAdj_rows_panic_iff]
    unfold Panics
    constructor
    · rintro ⟨e, hn, q, hq, hlt⟩
      exact ⟨e, hn, q.1, List.mem_map.2 ⟨q, hq, rfl⟩, by rw [← (h.coord q hq).1]; exact hlt⟩
    · rintro ⟨e, hn, k, hk, hlt⟩
      obtain ⟨q, hq, e2⟩ := List.mem_map.1 hk
      exact ⟨e, hn, q, hq, by rw [(h.coord q hq).1, e2]; exact hlt⟩
  | remCols p n =>
    show removeAdj s p n 0 0 = .panic ↔ _
    rw [removeAdj_cols_panic_iff]
    unfold Panics
    constructor
    · rintro ⟨e, hn, q, hq, hlt⟩
      exact ⟨e, hn, q.1, List.mem_map.2 ⟨q, hq, rfl⟩, by rw [← (h.coord q hq).2]; exact hlt⟩
    · rintro ⟨e, hn, k, hk, hlt⟩
      obtain ⟨q, hq, e2⟩ := List.mem_map.1 hk
      exact ⟨e, hn, q, hq, by rw [(h.coord q hq).2, e2]; exact hlt⟩
  | move ρ dr dc => exact C07_move_copy_panic_iff s h ρ dr dc true
  | copy ρ dr dc => exact C07_move_copy_panic_iff s h ρ dr dc false

/-- a guarded edit never satisfies the panic condition -/
theorem C07_guard_excludes_panic (s : Sheet) (h : Coherent s) (e : Edit) (hg : Guard s e) : ¬ Panics s e := by
  intro hp
  obtain ⟨t, ht, _⟩ := C07_step_refines s h e hg
  rw [(C07_step_panic_iff s h e).2 hp] at ht
  cases ht

/-- **Which history panics, exactly**: a history from a coherent store panics iff it splits as
    `pre ++ e :: post` where the edits `pre` return a state `t` on which `e` satisfies the panic
    condition. -/
theorem C07_history_panics_iff (ops : List Edit) (s : Sheet) (h : Coherent s) :
    runEdits s ops = .panic ↔
      ∃ pre e post t, ops = pre ++ e :: post ∧ runEdits s pre = .ok t ∧ Panics t e := by
  rw [C07_history_panic_exact ops s h]
  constructor
  · rintro ⟨pre, e, post, t, he, ht, hco, hp, _⟩
    exact ⟨pre, e, post, t, he, ht, (C07_step_panic_iff t hco e).1 hp⟩
  · rintro ⟨pre, e, post, t, he, ht, hp⟩
    have hco := runEdits_coherent pre s t h ht
    exact ⟨pre, e, post, t, he, ht, hco, (C07_step_panic_iff t hco e).2 hp,
      fun hg => C07_guard_excludes_panic t hco e hg hp⟩

/-! ### annotations and hyperlinks under move / copy -/

/-- `move_range` / `copy_range` on the worksheet record (cell store + merged ranges + comments +
    conditional formats + auto-filter) leave the merge list, the comment list, the
    conditional-format list and the auto-filter as they were, and act on the cell store as
    `moveOrCopy` (to which `C07_move_refines` / `C07_copy_refines` apply). -/
theorem C07_move_keeps_annotations (w w' : WSheet) (ρ : Rect) (d : Int × Int) (mv : Bool)
    (hok : wsMoveOrCopy w ρ.rs ρ.re ρ.cs ρ.ce d.1 d.2 mv = .ok w') :
    w'.merges = w.merges ∧ w'.comments = w.comments ∧ w'.cfs = w.cfs ∧ w'.filter = w.filter ∧
    (if mv then moveRange w.grid ρ d else copyRange w.grid ρ d) = .ok w'.grid := by
  unfold wsMoveOrCopy at hok
  cases hm : moveOrCopy w.grid ρ.rs ρ.re ρ.cs ρ.ce d.1 d.2 mv with
  | panic => rw [hm] at hok; cases hok
  | ok g =>
    rw [hm] at hok
    injection hok with hok
    subst hok
    refine ⟨rfl, rfl, rfl, rfl, ?_⟩
    cases mv <;> exact hm

/-- … and it panics exactly when the cell-store operation does -/
theorem C07_move_annotations_panic (w : WSheet) (ρ : Rect) (d : Int × Int) (mv : Bool) :
    wsMoveOrCopy w ρ.rs ρ.re ρ.cs ρ.ce d.1 d.2 mv = .panic ↔
      moveOrCopy w.grid ρ.rs ρ.re ρ.cs ρ.ce d.1 d.2 mv = .panic := by
  unfold wsMoveOrCopy
  cases moveOrCopy w.grid ρ.rs ρ.re ρ.cs ρ.ce d.1 d.2 mv with
  | panic => exact ⟨fun _ => rfl, fun _ => rfl⟩
  | ok g => constructor <;> intro hh <;> cases hh

theorem linkAt_eq (s : Sheet) (r c : Nat) : linkAt s r c = (content s r c).map (fun x => linkOf x.1) := by
  unfold linkAt content
  cases lookup (r, c) s.cells <;> rfl

/-- the packing of (value, hyperlink) into the content token is lossless for `v < linkBase` -/
theorem pack_unpack (v h : Nat) (hv : v < linkBase) : linkOf (pack v h) = h ∧ valOf (pack v h) = v := by
  unfold linkOf valOf pack
  unfold linkBase at *
  constructor <;> omega

/-- `set_cell` of a cell with a hyperlink stores it (`set_obj`), `set_value` keeps it -/
theorem C07_set_obj_stores_hyperlink (s : Sheet) (col row v sty hl : Nat) (hv : v < linkBase) :
    linkAt (setCellH s col row v sty hl) row col = some hl ∧
    content (setCellH s col row v sty hl) row col = some (pack v hl, sty) := by
  have hc : content (setCellH s col row v sty hl) row col = some (pack v hl, sty) := by
    unfold setCellH; rw [content_setCell, if_pos rfl]
  refine ⟨?_, hc⟩
  rw [linkAt_eq, hc]
  simp only [Option.map_some]
  rw [(pack_unpack v hl hv).1]

/-- **Hyperlinks travel with the cell.**  After a move with in-range arguments the image of every
    position of the source rectangle holds the hyperlink that position held (none when there was
    no cell, `some 0` when the cell had no hyperlink); after a copy the image of every non-blank
    source position does; every position outside the destination rectangle (and, for a move,
    outside the source rectangle) keeps its hyperlink. -/
theorem C07_move_carries_hyperlink (s s' : Sheet) (h : Coherent s) (ρ : Rect) (d : Int × Int) (hin : InRange ρ d.1 d.2) :
    (moveRange s ρ d = .ok s' →
      (∀ r c : Nat, ρ.has r c → linkAt s' ((r : Int) + d.1).toNat ((c : Int) + d.2).toNat = linkAt s r c) ∧
      (∀ r c : Nat, ¬ ρ.has r c → ¬ ρ.hasImage d.1 d.2 r c → linkAt s' r c = linkAt s r c)) ∧
    (copyRange s ρ d = .ok s' →
      (∀ r c : Nat, ρ.has r c → content s r c ≠ none →
        linkAt s' ((r : Int) + d.1).toNat ((c : Int) + d.2).toNat = linkAt s r c) ∧
      (∀ r c : Nat, ¬ ρ.hasImage d.1 d.2 r c → linkAt s' r c = linkAt s r c)) := by
  constructor
  · intro hok
    constructor
    · intro r c hs
      rw [linkAt_eq, linkAt_eq, C07_move_destination_exact s s' h ρ d hin hok r c hs]
    · intro r c hs hd
      rw [linkAt_eq, linkAt_eq, C07_move_elsewhere_unchanged s s' h ρ d hin (Or.inl hok) r c hs hd]
  · intro hok
    obtain ⟨k1, k2, _⟩ := C07_copy_keeps_source s s' h ρ d hin hok
    constructor
    · intro r c hs hne
      cases hx : content s r c with
      | none => exact absurd hx hne
      | some x => rw [linkAt_eq, linkAt_eq, k2 r c hs x hx, hx]
    · intro r c hd
      rw [linkAt_eq, linkAt_eq, k1 r c hd]

/-! ### non-vacuity -/

/-- a guarded history with every kind of edit, its concrete run and the reference fold -/
def demoOps : List Edit :=
  [.setCell 1 1 7 2, .setCell 2 3 9 0, .insRows 2 2, .move ⟨1, 1, 1, 1⟩ 1 3, .copy ⟨2, 5, 2, 4⟩ 2 (-1),
   .remCols 1 1, .removeCell 1 5, .insCols 1 1, .remRows 1 1]

example : Coherent ({} : Sheet) ∧ AllInGrid {} ∧ Guarded {} demoOps := by
  refine ⟨coherent_empty, by decide, ?_⟩
  decide

example : ∃ t, runEdits {} demoOps = .ok t ∧
    content t 1 4 = some (7, 2) ∧ content t 3 3 = some (7, 2) ∧ content t 4 1 = none ∧
    specRun Prod.mk (content {}) demoOps 1 4 = some (7, 2) ∧ specRun Prod.mk (content {}) demoOps 3 3 = some (7, 2) ∧
    specRun Prod.mk (content {}) demoOps 4 1 = none := by
  refine ⟨_, rfl, ?_⟩
  decide

/-- panics: image off the grid, inverted rectangle, remove at 0 over a cell in row 1; and an
    unguarded move that does not panic (empty column span with `rs < re`) -/
example : OffGrid ⟨1, 1, 1, 1⟩ (-1) 0 ∧ Inverted ⟨2, 1, 1, 1⟩ ∧ ¬ Inverted ⟨1, 2, 3, 2⟩ ∧ ¬ InRange ⟨1, 2, 3, 2⟩ 0 0 ∧
    runEdits {} [.setCell 1 1 7 0, .move ⟨1, 1, 1, 1⟩ (-1) 0] = .panic ∧
    runEdits {} [.setCell 1 1 7 0, .copy ⟨2, 1, 1, 1⟩ 0 0] = .panic ∧
    runEdits {} [.setCell 1 1 7 0, .remRows 0 2] = .panic ∧
    (∃ t, runEdits {} [.setCell 1 1 7 0, .move ⟨1, 2, 3, 2⟩ 0 0] = .ok t) ∧
    Panics (setCell {} 1 1 7 0) (.remRows 0 2) ∧ ¬ Panics (setCell {} 1 2 7 0) (.remRows 0 2) ∧
    (∃ t, runEdits {} [.setCell 1 2 7 0, .remRows 0 2] = .ok t ∧ content t 0 1 = some (7, 0)) := by
  refine ⟨by decide, by decide, by decide, by decide, by decide, by decide, by decide, ⟨_, rfl⟩, by decide, by decide, _, rfl, by decide⟩

/-- a worksheet with a merge, a comment, a conditional format and a filter; a cell with hyperlink 2
    moved by (1, 2): annotations as before, hyperlink at the destination, none at the source -/
example : ∃ w w', w = WSheet.mk (setCellH (setCell {} 3 3 5 0) 1 1 4 6 2) [fullRect 1 1 2 2 false false false false]
      [⟨1, 1, 9⟩] [⟨[fullRect 1 1 1 1 false false false false], 3⟩]
      (some (fullRect 1 1 3 3 false false false false)) ∧
    wsMoveOrCopy w 1 1 1 1 1 2 true = .ok w' ∧ w'.merges = w.merges ∧ w'.comments = w.comments ∧
    w'.cfs = w.cfs ∧ w'.filter = w.filter ∧
    linkAt w.grid 1 1 = some 2 ∧ linkAt w'.grid 2 3 = some 2 ∧ linkAt w'.grid 1 1 = none ∧ linkAt w'.grid 3 3 = some 0 ∧
    content w'.grid 2 3 = some (pack 4 2, 6) := by
  refine ⟨_, _, rfl, rfl, ?_⟩
  decide

end Umya.Thm.C07
