/-
  C19 — tie to the source (T), regular expressions: the expressions of helper/number_format.rs, number_formater.rs and
  date_formater.rs are, in the CURRENT source, the ones the hand-written matchers of the dispatcher model
  (`Umya/Model/NumFmt.lean`, `NumFmtDispatch.lean`, `Date.lean`) were written for.
-/
import Umya.Lemmas.RegexGen
namespace Umya.Thm.C19

/-- **Tie to the source (T).**  Every `Regex::new(<literal>)` of the number-format code, regenerated from the source on
    every run, is the text recorded next to the model's matcher for it (`Umya/Model/RegexTexts.lean`; the colour
    expression is built at run time from the named-colour list and is recorded by name).  That each matcher behaves like
    its expression is tied by the `disp` / `fmt` correspondence streams. -/
theorem C19_regex_matches_source :
    Umya.Gen.regex_literals = Umya.RegexTexts.texts ∧ Umya.Gen.regex_literals.length = 21 ∧
    ("src/helper/number_format/number_formater.rs#5", "(0+)(\\.?)(0*)") ∈ Umya.Gen.regex_literals ∧
    ("src/helper/number_format/number_formater.rs#3", "#?.*\\?{1,2}\\/\\?{1,2}") ∈ Umya.Gen.regex_literals := by
  refine ⟨Umya.Gen.gen_regex_texts, ?_, ?_, ?_⟩ <;> (rw [Umya.Gen.gen_regex_texts]; decide)

end Umya.Thm.C19
