/-
  C20 — CSV export with a wrap STRING of any length (`CsvWriterOption::wrap_with_char` is a `String`).

  The writer (`Umya/Model/CsvWrap.lean`: `format!("{}{}{}", w, value.replace(w, &w.repeat(2)), w)`,
  `str::replace` = leftmost non-overlapping matches) against a reader written from the RFC 4180
  grammar with the quote generalised to a string (`Umya/Spec/CsvWrap.lean`: `w` opens and closes a
  field, `w ++ w` inside a field is one `w` of text).

  Full statement: for every sheet, trim setting and USABLE wrap string the reader returns exactly
  the expected grid (`C20_wrap_string_roundtrip`).  Usable = non-empty, not `,` / CR / CRLF, and
  WITHOUT PROPER SELF-OVERLAP (no proper non-empty prefix of `w` is a suffix of `w`).  The last
  condition is exact: `C20_wrap_string_overlap_fails` (`w = aa`, `w = aba`; replayed against the real
  writer by the harness), `C20_wrap_string_overlap_necessary` (every self-overlapping string has a
  value that is not read back), `C20_wrap_string_exact` (the iff).  With a one-character string the
  reader is a restriction of the RFC 4180 reader (`C20_wrap_reader_refines_rfc`).
  Helper lemmas: `Umya/Lemmas/CsvWrap.lean`.
-/
import Umya.Thm.C20
import Umya.Lemmas.CsvWrap
namespace Umya.Thm.C20
open Umya.Csv Umya.Rfc4180 Umya.Lemmas.CsvWrap

/-- executable form of `Unbordered` -/
def unborderedB (w : Text) : Bool :=
  (List.range w.length).all fun p => p == 0 || !(w.drop p).isPrefixOf w

theorem unborderedB_iff (w : Text) : unborderedB w = true ↔ Unbordered w := by
  simp only [unborderedB, List.all_eq_true, List.mem_range, Bool.or_eq_true, beq_iff_eq,
    Bool.not_eq_true', Unbordered]
  constructor
  · intro h p hp hl hpre
    rcases h p hl with h0 | h0
    · omega
    · rw [← List.isPrefixOf_iff_prefix] at hpre; rw [hpre] at h0; cases h0
  · intro h p hl
    by_cases hp : p = 0
    · left; exact hp
    · right
      have := h p (by omega) hl
      rw [← List.isPrefixOf_iff_prefix] at this
      exact Bool.eq_false_iff.mpr this

instance (w : Text) : Decidable (Unbordered w) := decidable_of_iff _ (unborderedB_iff w)

/-- The wrap string can serve as the quote of a reader: non-empty, no proper self-overlap, and not
    one of the three strings that are the delimiter / begin the record separator. -/
def UsableWrap (w : Text) : Prop :=
  w ≠ [] ∧ Unbordered w ∧ w ≠ [','] ∧ w ≠ ['\r'] ∧ w ≠ ['\r', '\n']

instance (w : Text) : Decidable (UsableWrap w) := by unfold UsableWrap; infer_instance

/-! ### the writer: what `replace(w, ww)` does -/

/-- `value.replace(w, ww)`: at a position where `w` starts, `w w` is written and the scan resumes
    AFTER that occurrence; elsewhere the character is copied. -/
theorem C20_wrap_string_escape (w : Text) (hne : w ≠ []) :
    escapeW w [] = [] ∧
    (∀ t, escapeW w (w ++ t) = w ++ w ++ escapeW w t) ∧
    (∀ c cs, ¬ w <+: c :: cs → escapeW w (c :: cs) = c :: escapeW w cs) :=
  ⟨escapeW_nil w, fun t => escapeW_match w t hne, fun c cs h => escapeW_nomatch w c cs h⟩

example : escapeW "ab".toList "xabaab".toList = "xababaabab".toList := by decide
example : escapeW "aa".toList "aaa".toList = "aaaaa".toList := by decide   -- leftmost, non-overlapping

/-- For a one-character string the general model is the one-character model of `Umya/Model/Csv.lean`. -/
theorem C20_wrap_string_single (q : Char) (v : Text) : escapeW [q] v = escape q v := by
  induction v with
  | nil => simp [escapeW_nil, escape]
  | cons c cs ih =>
    by_cases h : c = q
    · subst h
      have := escapeW_match [c] cs (by simp)
      simp only [List.cons_append, List.nil_append] at this
      rw [this, ih]; simp [escape]
    · have hp : ¬ [q] <+: c :: cs := by
        intro hp; exact h (List.cons_prefix_cons.mp hp).1.symm
      rw [escapeW_nomatch [q] c cs hp, ih]; simp [escape, h]

theorem C20_wrap_string_single_text (g : Grid) (e : Enc) (tr : Bool) (q : Char) :
    csvTextW g tr [q] = csvText g ⟨e, tr, some q⟩ := by
  have hf : renderFieldW tr [q] = renderField ⟨e, tr, some q⟩ := by
    funext v
    simp [renderFieldW, renderField, quotedW, quoted, fieldValue, C20_wrap_string_single]
  simp [csvTextW, csvText, renderRowW, renderRow, hf]

/-! ### round trip -/

/-- **Round trip for a wrap string.**  For every sheet `g`, trim setting and usable wrap string `w`
    (any length ≥ 1), the reader that takes `w` as the quote and `w ++ w` as the escaped quote
    recovers from the written text exactly the expected grid (values with any content: occurrences
    of `w`, of parts of `w`, delimiters, line breaks). -/
theorem C20_wrap_string_roundtrip (g : Grid) (tr : Bool) (w : Text) (hw : UsableWrap w) (hg : HasColumns g) :
    parseW w (csvTextW g tr w) = some (expected g ⟨.utf8, tr, none⟩) := by
  obtain ⟨hne, hub, hc, h1, h2⟩ := hw
  have hemp : w.isEmpty = false := by cases w with | nil => exact absurd rfl hne | cons _ _ => rfl
  unfold parseW csvTextW
  rw [hemp, ← List.flatMap_map]
  simp only [Bool.false_eq_true, if_false]
  rw [run_rowsW tr w hne hub hc h1 h2]
  · simp [expected, fv, List.map_map, Function.comp_def]
  · intro row hrow
    simp only [List.mem_map, List.mem_range] at hrow
    obtain ⟨i, hi, rfl⟩ := hrow
    have hcol : 0 < highestCol g := by
      rcases hg with h | h
      · omega
      · exact h
    intro h0
    have := congrArg List.length h0
    simp at this
    omega

/-- non-vacuity: two-, three- and one-character usable strings; values that contain the string,
    halves of it, the delimiter and a line break -/
example : UsableWrap "ab".toList ∧ UsableWrap "\"'".toList ∧ UsableWrap "aab".toList ∧ UsableWrap "|".toList
    ∧ UsableWrap ",x".toList := by decide

def demoGridW : Grid :=
  [((1, 1), "xaby".toList), ((1, 2), "a".toList), ((2, 1), "b,ab\r\nab".toList), ((2, 2), " abab ".toList)]

example : csvTextW demoGridW true "ab".toList
    = "abxababyab,abaab\r\nabb,abab\r\nababab,abababababab\r\n".toList := by decide
example : parseW "ab".toList (csvTextW demoGridW true "ab".toList)
    = some [["xaby".toList, "a".toList], ["b,ab\r\nab".toList, "abab".toList]] := by decide

/-- The side condition "no proper self-overlap" is needed: with `w = aa` the value `a` is written
    `aa a aa`, in which the reader finds the closing quote one character early; with `w = aba` the
    value `ab` is written `aba ab aba`, same effect.  (All other conditions of `UsableWrap` hold.) -/
theorem C20_wrap_string_overlap_fails :
    ¬ ∀ (g : Grid) (tr : Bool) (w : Text), w ≠ [] → w ≠ [','] → w ≠ ['\r'] → w ≠ ['\r', '\n'] → HasColumns g →
        parseW w (csvTextW g tr w) = some (expected g ⟨.utf8, tr, none⟩) := by
  intro h
  have := h [((1, 1), ['a'])] false ['a', 'a'] (by decide) (by decide) (by decide) (by decide) (Or.inr (by decide))
  revert this
  decide

example : csvTextW [((1, 1), ['a'])] false "aa".toList = "aaaaa\r\n".toList
    ∧ parseW "aa".toList "aaaaa\r\n".toList = none := by decide
example : csvTextW [((1, 1), "ab".toList)] false "aba".toList = "abaababa\r\n".toList
    ∧ parseW "aba".toList "abaababa\r\n".toList = none := by decide
example : ¬ Unbordered "aa".toList ∧ ¬ Unbordered "aba".toList ∧ ¬ Unbordered "\"\"".toList := by decide

/-- The excluded strings `,` and CRLF are excluded for a reason as well. -/
example : parseW [','] (csvTextW [((1, 1), ['x']), ((1, 2), ['y'])] false [',']) ≠ some [[['x'], ['y']]] := by decide
example : parseW ['\r', '\n'] (csvTextW [((1, 1), ['x'])] false ['\r', '\n']) ≠ some [[['x']]] := by decide


/-- **The side condition is exact.**  EVERY non-empty wrap string with a proper self-overlap has a
    value whose export is not read back: if `w` continues itself after a shift `p` (`0 < p < |w|`),
    the one-cell sheet holding the first `p` characters of `w` is written `w a w` = `w w b`, where
    the reader sees the closing quote (or an escaped quote) where the value begins. -/
theorem C20_wrap_string_overlap_necessary (w : Text) (hne : w ≠ []) (hb : ¬ Unbordered w) :
    ∃ v : Text, expected [((1, 1), v)] ⟨.utf8, false, none⟩ = [[v]] ∧
      parseW w (csvTextW [((1, 1), v)] false w) ≠ some [[v]] := by
  have hex : ∃ p, 0 < p ∧ p < w.length ∧ w.drop p <+: w := by
    apply Classical.byContradiction
    intro hn; apply hb; intro p hp hl hpre; exact hn ⟨p, hp, hl, hpre⟩
  obtain ⟨p, hp, hl, ⟨b, hb2⟩⟩ := hex
  refine ⟨w.take p, rfl, ?_⟩
  have halen : (w.take p).length = p := by simp; omega
  have hane : w.take p ≠ [] := by intro e; rw [e] at halen; simp at halen; omega
  have hw : w.take p ++ w.drop p = w := List.take_append_drop p w
  have haw : w.take p ++ w = w ++ b := by
    calc w.take p ++ w = w.take p ++ (w.drop p ++ b) := by rw [hb2]
      _ = (w.take p ++ w.drop p) ++ b := by rw [List.append_assoc]
      _ = w ++ b := by rw [hw]
  have htext : csvTextW [((1, 1), w.take p)] false w = w ++ (w ++ (b ++ ['\r', '\n'])) := by
    have h0 : csvTextW [((1, 1), w.take p)] false w = quotedW w (w.take p) ++ ['\r', '\n'] := by
      simp [csvTextW, highestRow, highestCol, renderRowW, join, renderFieldW, Grid.get, List.lookup, List.range_succ]
    rw [h0, quotedW, escapeW_short w _ (by omega)]
    simp only [List.append_assoc]
    rw [← List.append_assoc (w.take p) w, haw]
    simp
  intro h
  have hemp : w.isEmpty = false := by cases w with | nil => exact absurd rfl hne | cons _ _ => rfl
  unfold parseW at h
  rw [hemp, htext] at h
  simp only [Bool.false_eq_true, if_false] at h
  rw [run_start w hne] at h
  by_cases hwb : w <+: b ++ ['\r', '\n']
  · obtain ⟨t', ht'⟩ := hwb
    rw [← ht', run_esc w hne] at h
    obtain ⟨x, hx⟩ := runW_first w _ _ _ _ _ _ _ h
    simp at hx
    have := congrArg List.length hx
    simp at this
    omega
  · rw [run_close w hne _ _ _ _ hwb] at h
    have hx := runW_first w _ _ _ _ _ _ _ h
    simp [FirstField] at hx
    rcases hx with h0 | h0
    · omega
    · exact hne h0

/-- non-vacuity: `abca` overlaps itself after a shift of 3; the value `abc` is not read back -/
example : ¬ Unbordered "abca".toList ∧
    parseW "abca".toList (csvTextW [((1, 1), "abc".toList)] false "abca".toList) = none := by decide

/-- **Exact condition.**  For a non-empty wrap string other than `,`, CR, CRLF: the written text of
    every sheet is read back iff the string has no proper self-overlap. -/
theorem C20_wrap_string_exact (w : Text) (hne : w ≠ []) (hc : w ≠ [',']) (h1 : w ≠ ['\r']) (h2 : w ≠ ['\r', '\n']) :
    (∀ (g : Grid) (tr : Bool), HasColumns g → parseW w (csvTextW g tr w) = some (expected g ⟨.utf8, tr, none⟩))
      ↔ Unbordered w := by
  constructor
  · intro h
    apply Classical.byContradiction
    intro hb
    obtain ⟨v, he, hv⟩ := C20_wrap_string_overlap_necessary w hne hb
    have := h [((1, 1), v)] false (Or.inr (by simp [highestCol]))
    rw [he] at this
    exact hv this
  · intro hub g tr hg
    exact C20_wrap_string_roundtrip g tr w ⟨hne, hub, hc, h1, h2⟩ hg

example : ∀ (g : Grid) (tr : Bool), HasColumns g →
    parseW "ab".toList (csvTextW g tr "ab".toList) = some (expected g ⟨.utf8, tr, none⟩) :=
  (C20_wrap_string_exact "ab".toList (by decide) (by decide) (by decide) (by decide)).mpr (by decide)
example : ¬ ∀ (g : Grid) (tr : Bool), HasColumns g →
    parseW "\"\"".toList (csvTextW g tr "\"\"".toList) = some (expected g ⟨.utf8, tr, none⟩) :=
  fun h => absurd ((C20_wrap_string_exact "\"\"".toList (by decide) (by decide) (by decide) (by decide)).mp h) (by decide)

/-- the third excluded string, CR -/
example : parseW ['\r'] (csvTextW [((1, 1), ['x'])] false ['\r']) ≠ some [[['x']]] := by decide

/-! ### the string-quote reader against the RFC 4180 reader -/

/-- With a one-character string the string-quote reader is a restriction of the RFC 4180 reader of
    `Umya/Spec/Rfc4180.lean` (delimiter `,`): whatever it reads, the RFC reader reads identically.
    (It is a proper restriction: non-escaped fields are rejected.) -/
theorem C20_wrap_reader_refines_rfc (q : Char) (hq : validConfig ',' q = true) (s : Text) (r : List Record)
    (h : parseW [q] s = some r) : parse ',' q s = some r := by
  have hv := hq
  simp only [validConfig, Bool.and_eq_true, bne_iff_ne, ne_eq] at hv
  obtain ⟨⟨⟨⟨h1, _⟩, _⟩, h2⟩, _⟩ := hv
  unfold parse
  rw [if_pos hq]
  unfold parseW at h
  simp only [List.isEmpty_cons, Bool.false_eq_true, if_false] at h
  exact (runW_refines q (fun e => h1 e.symm) h2 s.length s (Nat.le_refl _) [] [] [] r).1 h

example : parseW ['"'] "\"a\"\"b\",\"\"\r\n\"c\"".toList = some [["a\"b".toList, []], ["c".toList]]
    ∧ parse ',' '"' "\"a\"\"b\",\"\"\r\n\"c\"".toList = some [["a\"b".toList, []], ["c".toList]] := by decide
example : parseW ['"'] "a,b".toList = none ∧ parse ',' '"' "a,b".toList = some [[['a'], ['b']]] := by decide

/-- Hence, for a one-character wrap string, `C20_wrap_string_roundtrip` gives `C20_parse_back` again. -/
example (g : Grid) (e : Enc) (tr : Bool) (q : Char) (hw : UsableWrap [q]) (hv : validConfig ',' q = true)
    (hg : HasColumns g) : parse ',' q (csvText g ⟨e, tr, some q⟩) = some (expected g ⟨e, tr, some q⟩) := by
  rw [← C20_wrap_string_single_text g e tr q]
  exact C20_wrap_reader_refines_rfc q hv _ _ (C20_wrap_string_roundtrip g tr [q] hw hg)

end Umya.Thm.C20
