/-
  C08 — References keep their target cells across row/column insert and remove.
-/
import Umya.Lemmas.Formula
import Umya.Lemmas.FormulaRemove
import Umya.Thm.C09
import Umya.Lemmas.FormulaGen
import Umya.Lemmas.NameShift
namespace Umya.Thm.C08
open Umya.Coord Umya.Dec Umya.Formula

/-- Every structural edit re-tokenises with the fixed lexer, which terminates on every input
    (`C09_terminates`); the unchanged lexer does not (`C09_terminates_fails`). -/
theorem C08_terminates (s : List Char) (fuel : Nat) (h : s.length ≤ fuel) :
    Umya.Thm.C09.lexFuel fuel s {} ≠ .outOfFuel :=
  (Umya.Thm.C09.C09_terminates s fuel h).1

theorem mapRes_untouched {f : Tok → Res Tok} (hf : ∀ t, isRangeOperand t = false → f t = .ok t)
    (toks toks' : List Tok) (h : mapRes f toks = .ok toks') :
    toks'.length = toks.length ∧
    ∀ i (h1 : i < toks.length) (h2 : i < toks'.length), isRangeOperand toks[i] = false → toks'[i] = toks[i] := by
  induction toks generalizing toks' with
  | nil => simp [mapRes] at h; subst h; simp
  | cons t rest ih =>
    simp only [mapRes] at h
    cases hft : f t with
    | panic => simp [hft] at h
    | ok b =>
      cases hr : mapRes f rest with
      | panic => simp [hft, hr] at h
      | ok bs =>
        simp [hft, hr] at h
        subst h
        obtain ⟨hl, hi⟩ := ih bs hr
        refine ⟨by simp [hl], ?_⟩
        intro i h1 h2 hnr
        cases i with
        | zero =>
          simp at hnr ⊢
          have := hf t hnr
          rw [this] at hft; injection hft with e; exact e.symm
        | succ j =>
          simp at hnr ⊢
          exact hi j (by simpa using h1) (by simpa using h2) hnr

/-- Insert, remove and translate leave every token that is not a Range operand — string
    literals, numbers, function names, operators, error literals, blanks — exactly as it was,
    and never change the number of tokens: for every token list. -/
theorem C08_nonrefs_untouched (toks toks' : List Tok) (rc oc rr orr : Nat) (ws selfWs : List Char) (ig : Bool) :
    (mapRes (insertTok rc oc rr orr ws selfWs ig) toks = .ok toks' ∨
     mapRes (removeTok rc oc rr orr ws selfWs ig) toks = .ok toks') →
    toks'.length = toks.length ∧
    ∀ i (h1 : i < toks.length) (h2 : i < toks'.length), isRangeOperand toks[i] = false → toks'[i] = toks[i] := by
  intro h
  rcases h with h | h
  · exact mapRes_untouched (by intro t ht; simp [insertTok, ht]) toks toks' h
  · exact mapRes_untouched (by intro t ht; simp [removeTok, ht]) toks toks' h

example : isRangeOperand ⟨['"', 'A', '1'], .operand, .text, .none⟩ = false := by decide

/-! ### one reference token against the AST shifter -/

/-- the model's `(root_col, offset_col, root_row, offset_row)` call for an edit on one axis -/
def insertRefTok (ax : Spec.Axis) (at_ n : Nat) (edited self : List Char) (t : Tok) : Res Tok :=
  insertTok (axisArgs ax at_ n).1 (axisArgs ax at_ n).2.1 (axisArgs ax at_ n).2.2.1
    (axisArgs ax at_ n).2.2.2 edited self false t

def removeRefTok (ax : Spec.Axis) (at_ n : Nat) (edited self : List Char) (t : Tok) : Res Tok :=
  removeTok (axisArgs ax at_ n).1 (axisArgs ax at_ n).2.1 (axisArgs ax at_ n).2.2.1
    (axisArgs ax at_ n).2.2.2 edited self false t

/-- **Insert, reference level, full strength.**  For every well-formed reference (cell, range,
    whole columns, whole rows; any `$` flags; any qualifier, quoted or not), every axis, every
    insertion point and every count `n ≠ 0` (no bound on `n`, no "fits in the grid" hypothesis):
    the code's result on the token of the reference is the token of `Spec.shiftInsertRef` — every
    part at or behind the insertion point moves by `n` whatever its `$` flag; a cell, or a range
    whose start, is pushed beyond XFD / 1048576 becomes the `#REF!` error literal; a range that
    still starts on the grid is cut off at the edge; the qualifier is kept as written; references
    that do not concern the edited sheet are unchanged; never a panic.
    (Before fix "insert_part" the unrestricted statement was false: `XFD1` became `XFE1`; it was
    `C08_insert_partial` under `FitsInsert` plus the refutation `C08_insert_fails`.) -/
theorem C08_insert (r : Spec.CRef) (hw : r.WF) (ax : Spec.Axis) (at_ n : Nat)
    (edited self : List Char) (hed : edited ≠ []) (hn : n ≠ 0) :
    insertRefTok ax at_ n edited self (refTok r)
      = .ok (exprTok (Spec.shiftInsertRef self edited ax at_ n r)) := by
  unfold insertRefTok
  rw [insertTok_ref r hw ax at_ n hn edited self hed]
  simp only [Spec.shiftInsertRef, hn, ne_eq, not_false_eq_true, decide_true, Bool.and_true]
  cases hc : Spec.concernsRef r self edited with
  | false => simp [exprTok]
  | true => simp only [if_true]; rw [exprTok_refOr]

/-! #### non-vacuity: the overflow branch on concrete references -/

section InsertExamples

/-- a cell `⟨col, row⟩` with the given `$` flags, optionally qualified -/
private def cellRef (q : Option Spec.Qual) (c : Nat) (lc : Bool) (r : Nat) (lr : Bool) : Spec.CRef :=
  ⟨q, .one ⟨some ⟨c, lc⟩, some ⟨r, lr⟩⟩⟩

private theorem cellRef_wf (c : Nat) (lc : Bool) (r : Nat) (lr : Bool)
    (hc : 1 ≤ c ∧ c ≤ 16384) (hr : 1 ≤ r ∧ r ≤ 1048576) : (cellRef none c lc r lr).WF := by
  refine ⟨⟨rfl, rfl, ?_, ?_⟩, ?_⟩
  · intro x hx; injection hx with hx; subst hx; simpa [Spec.maxCol] using hc
  · intro x hx; injection hx with hx; subst hx; simpa [Spec.maxRow] using hr
  · intro q hq; cases hq

/-- `XFD1`, one column inserted at A: the target is pushed off the grid, the Spec says `#REF!` … -/
example : Spec.shiftInsertRef ['S'] ['S'] .col 1 1 (cellRef none 16384 false 1 false) = .err .ref := by
  rfl
/-- … and so does the code (the old code gave `XFE1`) -/
example : insertRefTok .col 1 1 ['S'] ['S'] (refTok (cellRef none 16384 false 1 false)) = .ok refErrTok :=
  C08_insert _ (cellRef_wf _ _ _ _ (by decide) (by decide)) .col 1 1 ['S'] ['S'] (by simp) (by simp)

/-- `A1048576`, three rows inserted at row 5: `#REF!` -/
example : insertRefTok .row 5 3 ['S'] ['S'] (refTok (cellRef none 1 false 1048576 false)) = .ok refErrTok :=
  C08_insert _ (cellRef_wf _ _ _ _ (by decide) (by decide)) .row 5 3 ['S'] ['S'] (by simp) (by simp)

/-- a `$`-locked corner is pushed off like a relative one: `$XFD$7`, insert 2 columns at XFD -/
example : insertRefTok .col 16384 2 ['S'] ['S'] (refTok (cellRef none 16384 true 7 true)) = .ok refErrTok :=
  C08_insert _ (cellRef_wf _ _ _ _ (by decide) (by decide)) .col 16384 2 ['S'] ['S'] (by simp) (by simp)

/-- a cell in front of the insertion point stays: `XFD1`, insert rows -/
example : Spec.shiftInsertRef ['S'] ['S'] .row 2 9 (cellRef none 16384 false 1 false)
    = .ref (cellRef none 16384 false 1 false) := by rfl

/-- a range straddling the limit, with a locked end: `XFB2:$XFD$9`, 2 columns inserted at XFC —
    the start stays, the end is cut off at XFD, the `$` flags are kept -/
example : Spec.shiftInsertRef ['S'] ['S'] .col 16383 2
      ⟨none, .two ⟨some ⟨16382, false⟩, some ⟨2, false⟩⟩ ⟨some ⟨16384, true⟩, some ⟨9, true⟩⟩⟩
    = .ref ⟨none, .two ⟨some ⟨16382, false⟩, some ⟨2, false⟩⟩ ⟨some ⟨16384, true⟩, some ⟨9, true⟩⟩⟩ := by
  rfl

/-- the same on rows with the start moved: `B1048570:C1048576`, 4 rows at 1048569 -> `B1048574:C1048576` -/
example : Spec.shiftInsertRef ['S'] ['S'] .row 1048569 4
      ⟨none, .two ⟨some ⟨2, false⟩, some ⟨1048570, false⟩⟩ ⟨some ⟨3, false⟩, some ⟨1048576, false⟩⟩⟩
    = .ref ⟨none, .two ⟨some ⟨2, false⟩, some ⟨1048574, false⟩⟩ ⟨some ⟨3, false⟩, some ⟨1048576, false⟩⟩⟩ := by
  rfl

/-- a range wholly pushed off: `XFC1:XFD2`, 2 columns at A -> `#REF!` -/
example : Spec.shiftInsertRef ['S'] ['S'] .col 1 2
      ⟨none, .two ⟨some ⟨16383, false⟩, some ⟨1, false⟩⟩ ⟨some ⟨16384, false⟩, some ⟨2, false⟩⟩⟩
    = .err .ref := by rfl

/-- a sheet-qualified reference on another sheet follows the edited sheet only:
    `'It''s'!$B3:XFD$1048576` (`C09.exampleRef`) under a row insert on `It's` from a formula on `S`:
    the end is cut off, the qualifier kept; under an edit of sheet `S` it is untouched -/
example : Spec.shiftInsertRef ['S'] ['I', 't', '\'', 's'] .row 2 5 Umya.Thm.C09.exampleRef
    = .ref ⟨some ⟨['I', 't', '\'', 's'], true⟩,
            .two ⟨some ⟨2, true⟩, some ⟨8, false⟩⟩ ⟨some ⟨16384, false⟩, some ⟨1048576, true⟩⟩⟩ := by rfl
example : Spec.shiftInsertRef ['S'] ['S'] .row 2 5 Umya.Thm.C09.exampleRef = .ref Umya.Thm.C09.exampleRef := by
  rfl
example : insertRefTok .row 2 5 ['I', 't', '\'', 's'] ['S'] (refTok Umya.Thm.C09.exampleRef)
    = .ok (exprTok (Spec.shiftInsertRef ['S'] ['I', 't', '\'', 's'] .row 2 5 Umya.Thm.C09.exampleRef)) :=
  C08_insert _ Umya.Thm.C09.exampleRef_wf .row 2 5 _ _ (by simp) (by simp)

/-- the model executed on formula text: `=XFD1+SUM(A1:XFD2)+$B$2` with one column inserted at B —
    the overflowing cell becomes `#REF!`, the straddling range is cut off, the surviving one moves -/
example : editFormula .insert "XFD1+SUM(A1:XFD2)+$B$2".toList 2 1 0 0 ['S'] ['S']
    = .ok "#REF!+SUM(A1:XFD2)+$C$2".toList := by decide +kernel

/-- sheet-qualified, on text: only the reference to the edited sheet is touched -/
example : editFormula .insert "'My Sheet'!A1048576+Other!A1048576+A1048576".toList 0 0 1 1
      "My Sheet".toList "Sheet1".toList
    = .ok "#REF!+Other!A1048576+A1048576".toList := by decide +kernel

end InsertExamples

/-- **Remove, reference level, full strength.**  For every well-formed reference (cell, range,
    whole columns, whole rows; any `$` flags; any qualifier), every axis, every band
    `[at_, at_ + n)` with `1 ≤ at_`, `n ≠ 0` inside the `u32` range: the code's result on the token
    of the reference is the token of `Spec.shiftRemoveRef` — parts behind the band move up by `n`
    whatever their `$` flag, a range that loses one end is clamped to what is left, a target that
    is deleted entirely becomes the `#REF!` error literal, the qualifier is kept as written,
    references to other sheets are unchanged; never a panic. -/
theorem C08_remove (r : Spec.CRef) (hw : r.WF) (ax : Spec.Axis) (at_ n : Nat)
    (edited self : List Char) (hed : edited ≠ []) (h1 : 1 ≤ at_) (hn : n ≠ 0)
    (ho : at_ + n ≤ 4294967295) :
    removeRefTok ax at_ n edited self (refTok r)
      = .ok (exprTok (Spec.shiftRemoveRef self edited ax at_ n r)) := by
  unfold removeRefTok
  rw [removeTok_ref at_ n h1 hn ho r hw ax edited self hed]
  simp only [Spec.shiftRemoveRef, hn, ne_eq, not_false_eq_true, decide_true, Bool.and_true]
  cases hc : Spec.concernsRef r self edited with
  | false => simp [exprTok]
  | true => simp only [if_true]; rw [exprTok_refOr]

/-- Whole formula, PARTIAL (token-list form; cf. `C09_translate_partial`): a token list made of
    arbitrary non-reference tokens and reference tokens of well-formed references is mapped by
    `adjustment_remove_formula_coordinate` token by token as the Spec says, and rendered.
    Missing: that `parse ('=' :: e.print)` is such a token list (correspondence check only). -/
def removedTok (ax : Spec.Axis) (at_ n : Nat) (edited self : List Char) : Umya.Thm.C09.SpecTok → Tok
  | .other t _ => t
  | .ref r _ => exprTok (Spec.shiftRemoveRef self edited ax at_ n r)

theorem C08_remove_partial (l : List Umya.Thm.C09.SpecTok) (ax : Spec.Axis) (at_ n : Nat)
    (edited self : List Char) (hed : edited ≠ []) (h1 : 1 ≤ at_) (hn : n ≠ 0) (ho : at_ + n ≤ 4294967295) :
    adjustRemove (l.map Umya.Thm.C09.SpecTok.tok) (axisArgs ax at_ n).1 (axisArgs ax at_ n).2.1
        (axisArgs ax at_ n).2.2.1 (axisArgs ax at_ n).2.2.2 edited self false
      = .ok (render (l.map (removedTok ax at_ n edited self))) := by
  have key : mapRes (removeTok (axisArgs ax at_ n).1 (axisArgs ax at_ n).2.1 (axisArgs ax at_ n).2.2.1
      (axisArgs ax at_ n).2.2.2 edited self false) (l.map Umya.Thm.C09.SpecTok.tok)
      = .ok (l.map (removedTok ax at_ n edited self)) := by
    induction l with
    | nil => rfl
    | cons a rest ih =>
      cases a with
      | other t h =>
        have : removeTok (axisArgs ax at_ n).1 (axisArgs ax at_ n).2.1 (axisArgs ax at_ n).2.2.1
            (axisArgs ax at_ n).2.2.2 edited self false t = .ok t := by simp [removeTok, h]
        simp [mapRes, Umya.Thm.C09.SpecTok.tok, removedTok, this, ih]
      | ref r hw =>
        have := C08_remove r hw ax at_ n edited self hed h1 hn ho
        simp only [removeRefTok] at this
        simp [mapRes, Umya.Thm.C09.SpecTok.tok, removedTok, this, ih]
  simp [adjustRemove, key]

def insertedTok (ax : Spec.Axis) (at_ n : Nat) (edited self : List Char) : Umya.Thm.C09.SpecTok → Tok
  | .other t _ => t
  | .ref r _ => exprTok (Spec.shiftInsertRef self edited ax at_ n r)

/-- Whole formula, PARTIAL (token-list form) for insert; same gap as `C08_remove_partial` (that
    `parse ('=' :: e.print)` is such a token list is checked by correspondence only).  No grid
    hypothesis: a formula may mix references that are pushed off, cut off and merely moved. -/
theorem C08_insert_tokens_partial (l : List Umya.Thm.C09.SpecTok) (ax : Spec.Axis) (at_ n : Nat)
    (edited self : List Char) (hed : edited ≠ []) (hn : n ≠ 0) :
    adjustInsert (l.map Umya.Thm.C09.SpecTok.tok) (axisArgs ax at_ n).1 (axisArgs ax at_ n).2.1
        (axisArgs ax at_ n).2.2.1 (axisArgs ax at_ n).2.2.2 edited self false
      = .ok (render (l.map (insertedTok ax at_ n edited self))) := by
  have key : mapRes (insertTok (axisArgs ax at_ n).1 (axisArgs ax at_ n).2.1 (axisArgs ax at_ n).2.2.1
      (axisArgs ax at_ n).2.2.2 edited self false) (l.map Umya.Thm.C09.SpecTok.tok)
      = .ok (l.map (insertedTok ax at_ n edited self)) := by
    induction l with
    | nil => rfl
    | cons a rest ih =>
      cases a with
      | other t h =>
        have : insertTok (axisArgs ax at_ n).1 (axisArgs ax at_ n).2.1 (axisArgs ax at_ n).2.2.1
            (axisArgs ax at_ n).2.2.2 edited self false t = .ok t := by simp [insertTok, h]
        simp [mapRes, Umya.Thm.C09.SpecTok.tok, insertedTok, this, ih]
      | ref r hw =>
        have := C08_insert r hw ax at_ n edited self hed hn
        simp only [insertRefTok] at this
        simp [mapRes, Umya.Thm.C09.SpecTok.tok, insertedTok, this, ih]
  simp [adjustInsert, key]

/-- non-vacuity: a token list mixing an overflowing reference (`XFD1`), an operator and a surviving
    one (`$B$2`), one column inserted at B -/
example : adjustInsert
      ([Umya.Thm.C09.SpecTok.ref (cellRef none 16384 false 1 false) (cellRef_wf _ _ _ _ (by decide) (by decide)),
        .other ⟨['+'], .opInfix, .math, .none⟩ rfl,
        .ref (cellRef none 2 true 2 true) (cellRef_wf _ _ _ _ (by decide) (by decide))].map Umya.Thm.C09.SpecTok.tok)
      2 1 0 0 ['S'] ['S'] false
    = .ok "#REF!+$C$2".toList := by
  have := C08_insert_tokens_partial
    [Umya.Thm.C09.SpecTok.ref (cellRef none 16384 false 1 false) (cellRef_wf _ _ _ _ (by decide) (by decide)),
     .other ⟨['+'], .opInfix, .math, .none⟩ rfl,
     .ref (cellRef none 2 true 2 true) (cellRef_wf _ _ _ _ (by decide) (by decide))] .col 2 1 ['S'] ['S'] (by simp) (by simp)
  simp only [axisArgs] at this
  rw [this]
  decide +kernel

example : Umya.Thm.C09.exampleRef.WF ∧ (1 ≤ 3 ∧ 2 ≠ 0 ∧ 3 + 2 ≤ 4294967295) :=
  ⟨Umya.Thm.C09.exampleRef_wf, by decide⟩


/-! ### defined names follow the sheet they refer to (fix 1629c1f) -/

section DefinedNames
open Umya.NameShift Umya.Annot

/-- apply `f` to every address of a name -/
def nameMap (f : Address → Address) (d : DefName) : DefName := { d with areas := d.areas.map f }

/-- a predicate on every address of every name of the workbook, wherever the name is stored -/
def AllAddr (P : Address → Prop) (b : Book) : Prop :=
  (∀ d ∈ b.wbNames, ∀ a ∈ d.areas, P a) ∧ (∀ s ∈ b.sheets, ∀ d ∈ s.2, ∀ a ∈ d.areas, P a)

/-- what the property demands of one address when `n` lines are inserted at `at_` on sheet
    `edited`: shifted iff the sheet it REFERS to is the edited sheet -/
def followInsert (edited : Text) (ax : Spec.Axis) (at_ n : Nat) (a : Address) : Address :=
  if a.sheet = edited then { a with range := Spec.shiftRangeInsert a.range ax at_ n } else a

/-- **Defined names, insert.**  For every workbook (workbook-level names and the names stored on
    any sheet, with any number of areas each), every edited sheet name, axis, position and count:
    after `Spreadsheet::insert_new_row / insert_new_column(edited, ..)` every address whose sheet
    is the edited sheet is the shifted one (`Spec.shiftRangeInsert`: each part at or behind the
    insertion point moved by `n`, `$` flags kept), every other address — in particular those of
    names stored ON the edited sheet that refer elsewhere — is unchanged, no name is lost and
    nothing panics.  Hypothesis: no number overflows `u32` (any grid coordinate with `n < 2^32 - 2^20`). -/
theorem C08_defined_names_follow (b : Book) (edited : Text) (ax : Spec.Axis) (at_ n : Nat) (hn : n ≠ 0)
    (hfit : AllAddr (fun a => RangeFits a.range n) b) :
    bookInsert b edited (axisArgs ax at_ n).1 (axisArgs ax at_ n).2.1 (axisArgs ax at_ n).2.2.1 (axisArgs ax at_ n).2.2.2
      = .ok ⟨b.wbNames.map (nameMap (followInsert edited ax at_ n)),
             b.sheets.map (fun s => (s.1, s.2.map (nameMap (followInsert edited ax at_ n))))⟩ := by
  have haddr : ∀ a : Address, RangeFits a.range n →
      addrInsert a edited (axisArgs ax at_ n).1 (axisArgs ax at_ n).2.1 (axisArgs ax at_ n).2.2.1 (axisArgs ax at_ n).2.2.2
        = .ok (followInsert edited ax at_ n a) := by
    intro a hf
    unfold addrInsert followInsert
    by_cases hs : a.sheet = edited
    · simp [hs, rangeInsert_spec a.range ax at_ n hf, Res.bind]
    · simp [hs]
  have hname : ∀ d : DefName, (∀ a ∈ d.areas, RangeFits a.range n) →
      nameInsert d edited (axisArgs ax at_ n).1 (axisArgs ax at_ n).2.1 (axisArgs ax at_ n).2.2.1 (axisArgs ax at_ n).2.2.2
        = .ok (nameMap (followInsert edited ax at_ n) d) := by
    intro d hd
    unfold nameInsert
    rw [mapRes_pointwise _ (followInsert edited ax at_ n) d.areas (fun a ha => haddr a (hd a ha))]
    rfl
  have hz : ((axisArgs ax at_ n).2.1 = 0 && (axisArgs ax at_ n).2.2.2 = 0) = false := by
    cases ax <;> simp [axisArgs, hn]
  unfold bookInsert
  rw [mapRes_pointwise _ (nameMap (followInsert edited ax at_ n)) b.wbNames (fun d hd => hname d (hfit.1 d hd))]
  rw [mapRes_pointwise _ (fun s => (s.1, s.2.map (nameMap (followInsert edited ax at_ n)))) b.sheets]
  · rfl
  · intro s hs
    simp only [namesInsert, hz, Bool.false_eq_true, if_false]
    rw [mapRes_pointwise _ (nameMap (followInsert edited ax at_ n)) s.2 (fun d hd => hname d (hfit.2 s hs d hd))]
    rfl

/-- what the property demands of one address when the lines `[at_, at_ + n)` of sheet `edited`
    are removed: `none` = its target was deleted -/
def followRemove (edited : Text) (ax : Spec.Axis) (at_ n : Nat) (a : Address) : Option Address :=
  if a.sheet = edited then (Spec.shiftRangeRemove a.range ax at_ n).map (fun ρ => { a with range := ρ })
  else some a

/-- what the property demands of one name: its surviving areas shifted / clamped; a name all of
    whose areas were deleted is the error text `#REF!` -/
def nameFollowRemove (edited : Text) (ax : Spec.Axis) (at_ n : Nat) (d : DefName) : DefName :=
  if !d.areas.isEmpty && (d.areas.filterMap (followRemove edited ax at_ n)).isEmpty
  then { areas := [], str := some refError }
  else { d with areas := d.areas.filterMap (followRemove edited ax at_ n) }

/-- **Defined names, remove.**  After `Spreadsheet::remove_row / remove_column(edited, ..)` every
    address whose sheet is the edited sheet and whose target survives (at least partly) is the
    shifted / clamped one of `Spec.shiftRangeRemove`, every address of another sheet is unchanged
    wherever its name is stored, and nothing panics.  A name all of whose areas were deleted
    becomes the text `#REF!` (was known finding C08-defined-name-deleted-target).  Left as the code
    has it: of a name with SEVERAL areas, an area that is deleted while another survives is dropped
    from the list (the property wants `#REF!` in its place; not generated by the harness), and a
    sheet-level name that had neither text nor areas before the edit is dropped. -/
theorem C08_defined_names_follow_remove (b : Book) (edited : Text) (ax : Spec.Axis) (at_ n : Nat)
    (h1 : 1 ≤ at_) (hn : n ≠ 0) (ho : at_ + n ≤ 4294967295)
    (hwf : AllAddr (fun a => StartFirst a.range) b) :
    bookRemove b edited (axisArgs ax at_ n).1 (axisArgs ax at_ n).2.1 (axisArgs ax at_ n).2.2.1 (axisArgs ax at_ n).2.2.2
      = .ok ⟨b.wbNames.map (nameFollowRemove edited ax at_ n),
             b.sheets.map (fun s => (s.1, (s.2.filter (fun d => !nameIsRemove d)).map
               (nameFollowRemove edited ax at_ n)))⟩ := by
  have hisrem : ∀ a : Address, StartFirst a.range →
      addrIsRemove a edited (axisArgs ax at_ n).1 (axisArgs ax at_ n).2.1 (axisArgs ax at_ n).2.2.1 (axisArgs ax at_ n).2.2.2
        = .ok (followRemove edited ax at_ n a).isNone := by
    intro a hsf
    unfold addrIsRemove followRemove
    by_cases hs : a.sheet = edited
    · simp only [hs, if_true, rangeIsRemove_spec a.range ax at_ n h1 hn ho hsf]
      cases Spec.shiftRangeRemove a.range ax at_ n <;> rfl
    · simp [hs]
  have hrem : ∀ a a' : Address, StartFirst a.range → followRemove edited ax at_ n a = some a' →
      addrRemove a edited (axisArgs ax at_ n).1 (axisArgs ax at_ n).2.1 (axisArgs ax at_ n).2.2.1 (axisArgs ax at_ n).2.2.2
        = .ok a' := by
    intro a a' hsf h
    unfold addrRemove
    unfold followRemove at h
    by_cases hs : a.sheet = edited
    · simp only [hs, if_true] at h ⊢
      cases hr : Spec.shiftRangeRemove a.range ax at_ n with
      | none => simp [hr] at h
      | some ρ' =>
        simp only [hr, Option.map_some, Option.some.injEq] at h
        subst h
        simp [rangeRemove_spec a.range ρ' ax at_ n h1 hn ho hsf hr, Res.bind]
    · simp only [hs, if_false, Option.some.injEq] at h ⊢
      rw [h]
  have hname : ∀ d : DefName, (∀ a ∈ d.areas, StartFirst a.range) →
      nameRemove d edited (axisArgs ax at_ n).1 (axisArgs ax at_ n).2.1 (axisArgs ax at_ n).2.2.1 (axisArgs ax at_ n).2.2.2
        = .ok (nameFollowRemove edited ax at_ n d) := by
    intro d hd
    unfold nameRemove nameFollowRemove
    rw [rejectRes_pointwise _ (fun a => (followRemove edited ax at_ n a).isNone) d.areas
      (fun a ha => hisrem a (hd a ha))]
    have hfun : (fun a => !(followRemove edited ax at_ n a).isNone) = (fun a => (followRemove edited ax at_ n a).isSome) := by
      funext a; cases followRemove edited ax at_ n a <;> rfl
    rw [hfun]
    simp only [Res.bind]
    -- the kept areas all have an image
    have hk : ∀ l : List Address, (∀ a ∈ l, StartFirst a.range) →
        mapRes (fun a => addrRemove a edited (axisArgs ax at_ n).1 (axisArgs ax at_ n).2.1 (axisArgs ax at_ n).2.2.1
            (axisArgs ax at_ n).2.2.2) (l.filter (fun a => (followRemove edited ax at_ n a).isSome))
          = .ok (l.filterMap (followRemove edited ax at_ n)) := by
      intro l hl
      induction l with
      | nil => rfl
      | cons a rest ih =>
        have ih' := ih (fun x hx => hl x (List.mem_cons_of_mem _ hx))
        cases hf : followRemove edited ax at_ n a with
        | none => simp [List.filter, List.filterMap, hf, ih']
        | some a' =>
          simp [List.filter, List.filterMap, hf, mapRes, hrem a a' (hl a (List.mem_cons_self ..)) hf, ih']
    have hempty : (d.areas.filter (fun a => (followRemove edited ax at_ n a).isSome)).isEmpty
        = (d.areas.filterMap (followRemove edited ax at_ n)).isEmpty := by
      generalize d.areas = l
      induction l with
      | nil => rfl
      | cons a rest ih =>
        cases hf : followRemove edited ax at_ n a with
        | none => simpa [List.filter, List.filterMap, hf] using ih
        | some a' => simp [List.filter, List.filterMap, hf]
    rw [hempty, hk d.areas hd]
    split <;> rfl
  have hz : ((axisArgs ax at_ n).2.1 = 0 && (axisArgs ax at_ n).2.2.2 = 0) = false := by
    cases ax <;> simp [axisArgs, hn]
  unfold bookRemove
  rw [mapRes_pointwise _ (nameFollowRemove edited ax at_ n) b.wbNames
    (fun d hd => hname d (hwf.1 d hd))]
  rw [mapRes_pointwise _ (fun s => (s.1, (s.2.filter (fun d => !nameIsRemove d)).map
      (nameFollowRemove edited ax at_ n))) b.sheets]
  · rfl
  · intro s hs
    simp only [namesRemove, hz, Bool.false_eq_true, if_false]
    rw [mapRes_pointwise _ (nameFollowRemove edited ax at_ n)
      (s.2.filter (fun d => !nameIsRemove d))
      (fun d hd => hname d (hwf.2 s hs d (List.mem_filter.1 hd).1))]
    rfl

/-- non-vacuity and the two repaired situations, on a concrete workbook: `N1` stored on `A` refers
    to `Sa!$B$3`, `N2` stored on `Sa` refers to `Sb!C5:D9`, `N3` is a workbook-level name for `Sb!A2`.
    Inserting 2 rows at row 2 of sheet `Sb` leaves `N1` alone and moves `N2` and `N3`. -/
def exBook : Book :=
  ⟨[⟨[⟨['S', 'b'], ⟨some ⟨1, false⟩, some ⟨2, false⟩, none, none⟩⟩], none⟩],
   [(['S', 'a'], [⟨[⟨['S', 'a'], ⟨some ⟨2, true⟩, some ⟨3, true⟩, none, none⟩⟩], none⟩,
                  ⟨[⟨['S', 'b'], ⟨some ⟨3, false⟩, some ⟨5, false⟩, some ⟨4, false⟩, some ⟨9, false⟩⟩⟩], none⟩]),
    (['S', 'b'], [])]⟩

example : bookInsert exBook ['S', 'b'] 0 0 2 2 = .ok
    ⟨[⟨[⟨['S', 'b'], ⟨some ⟨1, false⟩, some ⟨4, false⟩, none, none⟩⟩], none⟩],
     [(['S', 'a'], [⟨[⟨['S', 'a'], ⟨some ⟨2, true⟩, some ⟨3, true⟩, none, none⟩⟩], none⟩,
                    ⟨[⟨['S', 'b'], ⟨some ⟨3, false⟩, some ⟨7, false⟩, some ⟨4, false⟩, some ⟨11, false⟩⟩⟩], none⟩]),
      (['S', 'b'], [])]⟩ := by
  decide

/-- removing rows 2..6 of `Sb`: `N3` (`Sb!A2`) is deleted entirely and becomes `#REF!`, `N2`
    (`Sb!C5:D9`) is clamped to `Sb!C2:D4`, `N1` (on `Sa`) is untouched -/
example : bookRemove exBook ['S', 'b'] 0 0 2 5 = .ok
    ⟨[⟨[], some ['#', 'R', 'E', 'F', '!']⟩],
     [(['S', 'a'], [⟨[⟨['S', 'a'], ⟨some ⟨2, true⟩, some ⟨3, true⟩, none, none⟩⟩], none⟩,
                    ⟨[⟨['S', 'b'], ⟨some ⟨3, false⟩, some ⟨2, false⟩, some ⟨4, false⟩, some ⟨4, false⟩⟩⟩], none⟩]),
      (['S', 'b'], [])]⟩ := by
  decide

example : AllAddr (fun a => RangeFits a.range 2) exBook ∧ AllAddr (fun a => StartFirst a.range) exBook := by
  simp [AllAddr, exBook, RangeFits, StartFirst]
  refine ⟨?_, ?_, ?_⟩
  · intro r h; rcases h with rfl | rfl <;> decide
  · intro r h; rcases h with rfl | rfl <;> decide
  · intro r h; rcases h with rfl | rfl | rfl | rfl <;> decide

end DefinedNames


/-- **Tie to the source (T).**  `translate_part` (a column / row part moved by an offset unless locked; `None`
    when it leaves `1..=max`), `insert_part` (a part moved by an insert whatever its `$` flag; beyond `max`
    it is `None`, or `max` for the end of a range) and the grid limits `MAX_COLUMN_NUM` / `MAX_ROW_NUM` of
    helper/formula.rs, as regenerated from the source on this run, are the model's `translatePart`,
    `insertPart`, `maxCol`, `maxRow`. -/
theorem C08_kernels_match_source (p : Umya.Formula.Part) (d : Int) (max root off : Nat) (isEnd : Bool) :
    (Umya.Gen.translate_part ((p.1 : Int), p.2) d max).map (fun q => (q.1.toNat, q.2)) = Umya.Formula.translatePart p d max ∧
    (Umya.Gen.insert_part ((p.1 : Int), p.2) root off max isEnd).map (fun q => (q.1.toNat, q.2))
      = Umya.Formula.insertPart p root off max isEnd ∧
    Umya.Gen.max_column_num = Umya.Formula.maxCol ∧ Umya.Gen.max_row_num = Umya.Formula.maxRow :=
  ⟨Umya.Gen.gen_translate_part p d max, Umya.Gen.gen_insert_part p root off max isEnd,
   Umya.Gen.gen_grid_limits.1, Umya.Gen.gen_grid_limits.2⟩

end Umya.Thm.C08
