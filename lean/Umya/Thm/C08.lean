/-
  C08 — References keep their target cells across row/column insert and remove.
-/
import Umya.Lemmas.Formula
import Umya.Lemmas.FormulaRemove
import Umya.Thm.C09
import Umya.Lemmas.FormulaGen
import Umya.Lemmas.NameShift
namespace Umya.Thm.C08
open Umya.Coord Umya.Dec Umya.Formula

/-- Every structural edit re-tokenises with the fixed lexer, which terminates on every input
    (`C09_terminates`); the unchanged lexer does not (`C09_terminates_fails`). -/
theorem C08_terminates (s : List Char) (fuel : Nat) (h : s.length ≤ fuel) :
    Umya.Thm.C09.lexFuel fuel s {} ≠ .outOfFuel :=
  (Umya.Thm.C09.C09_terminates s fuel h).1

theorem mapRes_untouched {f : Tok → Res Tok} (hf : ∀ t, isRangeOperand t = false → f t = .ok t)
    (toks toks' : List Tok) (h : mapRes f toks = .ok toks') :
    toks'.length = toks.length ∧
    ∀ i (h1 : i < toks.length) (h2 : i < toks'.length), isRangeOperand toks[i] = false → toks'[i] = toks[i] := by
  induction toks generalizing toks' with
  | nil => simp [mapRes] at h; subst h; simp
  | cons t rest ih =>
    simp only [mapRes] at h
    cases hft : f t with
    | panic => simp [hft] at h
    | ok b =>
      cases hr : mapRes f rest with
      | panic => simp [hft, hr] at h
      | ok bs =>
        simp [hft, hr] at h
        subst h
        obtain ⟨hl, hi⟩ := ih bs hr
        refine ⟨by simp [hl], ?_⟩
        intro i h1 h2 hnr
        cases i with
        | zero =>
          simp at hnr ⊢
          have := hf t hnr
          rw [this] at hft; injection hft with e; exact e.symm
        | succ j =>
          simp at hnr ⊢
          exact hi j (by simpa using h1) (by simpa using h2) hnr

/-- Insert, remove and translate leave every token that is not a Range operand — string
    literals, numbers, function names, operators, error literals, blanks — exactly as it was,
    and never change the number of tokens: for every token list. -/
theorem C08_nonrefs_untouched (toks toks' : List Tok) (rc oc rr orr : Nat) (ws selfWs : List Char) (ig : Bool) :
    (mapRes (insertTok rc oc rr orr ws selfWs ig) toks = .ok toks' ∨
     mapRes (removeTok rc oc rr orr ws selfWs ig) toks = .ok toks') →
    toks'.length = toks.length ∧
    ∀ i (h1 : i < toks.length) (h2 : i < toks'.length), isRangeOperand toks[i] = false → toks'[i] = toks[i] := by
  intro h
  rcases h with h | h
  · exact mapRes_untouched (by intro t ht; simp [insertTok, ht]) toks toks' h
  · exact mapRes_untouched (by intro t ht; simp [removeTok, ht]) toks toks' h

example : isRangeOperand ⟨['"', 'A', '1'], .operand, .text, .none⟩ = false := by decide

/-! ### one reference token against the AST shifter -/

/-- the model's `(root_col, offset_col, root_row, offset_row)` call for an edit on one axis -/
def insertRefTok (ax : Spec.Axis) (at_ n : Nat) (edited self : List Char) (t : Tok) : Res Tok :=
  insertTok (axisArgs ax at_ n).1 (axisArgs ax at_ n).2.1 (axisArgs ax at_ n).2.2.1
    (axisArgs ax at_ n).2.2.2 edited self false t

def removeRefTok (ax : Spec.Axis) (at_ n : Nat) (edited self : List Char) (t : Tok) : Res Tok :=
  removeTok (axisArgs ax at_ n).1 (axisArgs ax at_ n).2.1 (axisArgs ax at_ n).2.2.1
    (axisArgs ax at_ n).2.2.2 edited self false t

/-- **Insert, reference level.**  Full statement wanted: for every well-formed reference,
    `insertRefTok .. (refTok r) = .ok (exprTok (Spec.shiftInsertRef self edited ax at_ n r))`.
    Proved under `FitsInsert` (no part of the reference is pushed beyond XFD / 1048576): then every
    part at or behind the insertion point moves by `n` *whatever its `$` flag*, the qualifier
    (quoted or not) is kept as written, and references that do not concern the edited sheet are
    unchanged.  What is missing is exactly `C08_insert_fails` (known finding
    C08-insert-grid-overflow). -/
theorem C08_insert_partial (r : Spec.CRef) (hw : r.WF) (ax : Spec.Axis) (at_ n : Nat)
    (edited self : List Char) (hed : edited ≠ []) (hn : n ≠ 0) (hn' : n ≤ 1048576)
    (hfit : FitsInsert r.area ax at_ n) :
    insertRefTok ax at_ n edited self (refTok r)
      = .ok (exprTok (Spec.shiftInsertRef self edited ax at_ n r)) := by
  have hno : NoOverflow r.area (axisArgs ax at_ n).2.1 (axisArgs ax at_ n).2.2.2 := by
    apply noOverflow_of_wf r.area hw.1 <;> cases ax <;> simp [axisArgs, hn']
  unfold insertRefTok
  rw [insertTok_ref r hw _ _ _ _ edited self hed hno]
  simp only [Spec.shiftInsertRef, hn, ne_eq, not_false_eq_true, decide_true, Bool.and_true]
  cases hc : Spec.concernsRef r self edited with
  | false => simp [exprTok]
  | true =>
    simp only [if_true]
    rw [insArea_fits r.area hw.1 ax at_ n hfit]
    rfl

/-- The unrestricted insert statement is false for the code as it stands: inserting one column
    at A turns `XFD1` into `XFE1` (a cell that does not exist) where the property demands `#REF!`. -/
theorem C08_insert_fails :
    ¬ ∀ (r : Spec.CRef), r.WF → ∀ (ax : Spec.Axis) (at_ n : Nat) (edited self : List Char),
        edited ≠ [] → n ≠ 0 → n ≤ 1048576 →
        insertRefTok ax at_ n edited self (refTok r)
          = .ok (exprTok (Spec.shiftInsertRef self edited ax at_ n r)) := by
  intro h
  have hw : (⟨none, .one ⟨some ⟨16384, false⟩, some ⟨1, false⟩⟩⟩ : Spec.CRef).WF := by
    refine ⟨⟨rfl, rfl, ?_, ?_⟩, ?_⟩
    · intro x hx; injection hx with hx; subst hx; simp [Spec.maxCol]
    · intro x hx; injection hx with hx; subst hx; simp [Spec.maxRow]
    · intro q hq; cases hq
  have := h _ hw .col 1 1 ['S'] ['S'] (by simp) (by simp) (by simp)
  rw [insertRefTok, insertTok_ref _ hw _ _ _ _ ['S'] ['S'] (by simp)
    (noOverflow_of_wf _ hw.1 _ _ (by simp [axisArgs]) (by simp [axisArgs]))] at this
  revert this
  simp [Spec.concernsRef, Spec.shiftInsertRef, Spec.insArea, Spec.insAxis, Spec.startOf, Spec.endOf,
    Spec.insNum, Spec.maxCol, Spec.refOr, exprTok, refTok, mapArea, insCornerG, axisArgs]

/-- **Remove, reference level, full strength.**  For every well-formed reference (cell, range,
    whole columns, whole rows; any `$` flags; any qualifier), every axis, every band
    `[at_, at_ + n)` with `1 ≤ at_`, `n ≠ 0` inside the `u32` range: the code's result on the token
    of the reference is the token of `Spec.shiftRemoveRef` — parts behind the band move up by `n`
    whatever their `$` flag, a range that loses one end is clamped to what is left, a target that
    is deleted entirely becomes the `#REF!` error literal, the qualifier is kept as written,
    references to other sheets are unchanged; never a panic. -/
theorem C08_remove (r : Spec.CRef) (hw : r.WF) (ax : Spec.Axis) (at_ n : Nat)
    (edited self : List Char) (hed : edited ≠ []) (h1 : 1 ≤ at_) (hn : n ≠ 0)
    (ho : at_ + n ≤ 4294967295) :
    removeRefTok ax at_ n edited self (refTok r)
      = .ok (exprTok (Spec.shiftRemoveRef self edited ax at_ n r)) := by
  unfold removeRefTok
  rw [removeTok_ref at_ n h1 hn ho r hw ax edited self hed]
  simp only [Spec.shiftRemoveRef, hn, ne_eq, not_false_eq_true, decide_true, Bool.and_true]
  cases hc : Spec.concernsRef r self edited with
  | false => simp [exprTok]
  | true => simp only [if_true]; rw [exprTok_refOr]

/-- Whole formula, PARTIAL (token-list form; cf. `C09_translate_partial`): a token list made of
    arbitrary non-reference tokens and reference tokens of well-formed references is mapped by
    `adjustment_remove_formula_coordinate` token by token as the Spec says, and rendered.
    Missing: that `parse ('=' :: e.print)` is such a token list (correspondence check only). -/
def removedTok (ax : Spec.Axis) (at_ n : Nat) (edited self : List Char) : Umya.Thm.C09.SpecTok → Tok
  | .other t _ => t
  | .ref r _ => exprTok (Spec.shiftRemoveRef self edited ax at_ n r)

theorem C08_remove_partial (l : List Umya.Thm.C09.SpecTok) (ax : Spec.Axis) (at_ n : Nat)
    (edited self : List Char) (hed : edited ≠ []) (h1 : 1 ≤ at_) (hn : n ≠ 0) (ho : at_ + n ≤ 4294967295) :
    adjustRemove (l.map Umya.Thm.C09.SpecTok.tok) (axisArgs ax at_ n).1 (axisArgs ax at_ n).2.1
        (axisArgs ax at_ n).2.2.1 (axisArgs ax at_ n).2.2.2 edited self false
      = .ok (render (l.map (removedTok ax at_ n edited self))) := by
  have key : mapRes (removeTok (axisArgs ax at_ n).1 (axisArgs ax at_ n).2.1 (axisArgs ax at_ n).2.2.1
      (axisArgs ax at_ n).2.2.2 edited self false) (l.map Umya.Thm.C09.SpecTok.tok)
      = .ok (l.map (removedTok ax at_ n edited self)) := by
    induction l with
    | nil => rfl
    | cons a rest ih =>
      cases a with
      | other t h =>
        have : removeTok (axisArgs ax at_ n).1 (axisArgs ax at_ n).2.1 (axisArgs ax at_ n).2.2.1
            (axisArgs ax at_ n).2.2.2 edited self false t = .ok t := by simp [removeTok, h]
        simp [mapRes, Umya.Thm.C09.SpecTok.tok, removedTok, this, ih]
      | ref r hw =>
        have := C08_remove r hw ax at_ n edited self hed h1 hn ho
        simp only [removeRefTok] at this
        simp [mapRes, Umya.Thm.C09.SpecTok.tok, removedTok, this, ih]
  simp [adjustRemove, key]

def insertedTok (ax : Spec.Axis) (at_ n : Nat) (edited self : List Char) : Umya.Thm.C09.SpecTok → Tok
  | .other t _ => t
  | .ref r _ => exprTok (Spec.shiftInsertRef self edited ax at_ n r)

/-- every reference of the list stays on the grid -/
def AllFit (l : List Umya.Thm.C09.SpecTok) (ax : Spec.Axis) (at_ n : Nat) : Prop :=
  ∀ r hw, Umya.Thm.C09.SpecTok.ref r hw ∈ l → FitsInsert r.area ax at_ n

/-- Whole formula, PARTIAL (token-list form) for insert; same gap as `C08_remove_partial`, and the
    `FitsInsert` restriction of `C08_insert_partial`. -/
theorem C08_insert_tokens_partial (l : List Umya.Thm.C09.SpecTok) (ax : Spec.Axis) (at_ n : Nat)
    (edited self : List Char) (hed : edited ≠ []) (hn : n ≠ 0) (hn' : n ≤ 1048576)
    (hfit : AllFit l ax at_ n) :
    adjustInsert (l.map Umya.Thm.C09.SpecTok.tok) (axisArgs ax at_ n).1 (axisArgs ax at_ n).2.1
        (axisArgs ax at_ n).2.2.1 (axisArgs ax at_ n).2.2.2 edited self false
      = .ok (render (l.map (insertedTok ax at_ n edited self))) := by
  have key : mapRes (insertTok (axisArgs ax at_ n).1 (axisArgs ax at_ n).2.1 (axisArgs ax at_ n).2.2.1
      (axisArgs ax at_ n).2.2.2 edited self false) (l.map Umya.Thm.C09.SpecTok.tok)
      = .ok (l.map (insertedTok ax at_ n edited self)) := by
    induction l with
    | nil => rfl
    | cons a rest ih =>
      have hrest : AllFit rest ax at_ n := fun r hw hm => hfit r hw (List.mem_cons_of_mem _ hm)
      cases a with
      | other t h =>
        have : insertTok (axisArgs ax at_ n).1 (axisArgs ax at_ n).2.1 (axisArgs ax at_ n).2.2.1
            (axisArgs ax at_ n).2.2.2 edited self false t = .ok t := by simp [insertTok, h]
        simp [mapRes, Umya.Thm.C09.SpecTok.tok, insertedTok, this, ih hrest]
      | ref r hw =>
        have := C08_insert_partial r hw ax at_ n edited self hed hn hn' (hfit r hw (List.mem_cons_self ..))
        simp only [insertRefTok] at this
        simp [mapRes, Umya.Thm.C09.SpecTok.tok, insertedTok, this, ih hrest]
  simp [adjustInsert, key]

example : Umya.Thm.C09.exampleRef.WF ∧ (1 ≤ 3 ∧ 2 ≠ 0 ∧ 3 + 2 ≤ 4294967295) :=
  ⟨Umya.Thm.C09.exampleRef_wf, by decide⟩

/-- non-vacuity of `FitsInsert`: inserting 2 rows at 3 keeps `B2:C9` on the grid -/
example : FitsInsert (.two ⟨some ⟨2, false⟩, some ⟨2, false⟩⟩ ⟨some ⟨3, false⟩, some ⟨9, true⟩⟩) .row 3 2 := by
  intro k hk
  rcases hk with h | h <;> subst h <;> intro x hx <;> injection hx with hx <;> subst hx <;>
    simp [Spec.insNum, Spec.maxRow]


/-! ### defined names follow the sheet they refer to (fix 1629c1f) -/

section DefinedNames
open Umya.NameShift Umya.Annot

/-- apply `f` to every address of a name -/
def nameMap (f : Address → Address) (d : DefName) : DefName := { d with areas := d.areas.map f }

/-- a predicate on every address of every name of the workbook, wherever the name is stored -/
def AllAddr (P : Address → Prop) (b : Book) : Prop :=
  (∀ d ∈ b.wbNames, ∀ a ∈ d.areas, P a) ∧ (∀ s ∈ b.sheets, ∀ d ∈ s.2, ∀ a ∈ d.areas, P a)

/-- what the property demands of one address when `n` lines are inserted at `at_` on sheet
    `edited`: shifted iff the sheet it REFERS to is the edited sheet -/
def followInsert (edited : Text) (ax : Spec.Axis) (at_ n : Nat) (a : Address) : Address :=
  if a.sheet = edited then { a with range := Spec.shiftRangeInsert a.range ax at_ n } else a

/-- **Defined names, insert.**  For every workbook (workbook-level names and the names stored on
    any sheet, with any number of areas each), every edited sheet name, axis, position and count:
    after `Spreadsheet::insert_new_row / insert_new_column(edited, ..)` every address whose sheet
    is the edited sheet is the shifted one (`Spec.shiftRangeInsert`: each part at or behind the
    insertion point moved by `n`, `$` flags kept), every other address — in particular those of
    names stored ON the edited sheet that refer elsewhere — is unchanged, no name is lost and
    nothing panics.  Hypothesis: no number overflows `u32` (any grid coordinate with `n < 2^32 - 2^20`). -/
theorem C08_defined_names_follow (b : Book) (edited : Text) (ax : Spec.Axis) (at_ n : Nat) (hn : n ≠ 0)
    (hfit : AllAddr (fun a => RangeFits a.range n) b) :
    bookInsert b edited (axisArgs ax at_ n).1 (axisArgs ax at_ n).2.1 (axisArgs ax at_ n).2.2.1 (axisArgs ax at_ n).2.2.2
      = .ok ⟨b.wbNames.map (nameMap (followInsert edited ax at_ n)),
             b.sheets.map (fun s => (s.1, s.2.map (nameMap (followInsert edited ax at_ n))))⟩ := by
  have haddr : ∀ a : Address, RangeFits a.range n →
      addrInsert a edited (axisArgs ax at_ n).1 (axisArgs ax at_ n).2.1 (axisArgs ax at_ n).2.2.1 (axisArgs ax at_ n).2.2.2
        = .ok (followInsert edited ax at_ n a) := by
    intro a hf
    unfold addrInsert followInsert
    by_cases hs : a.sheet = edited
    · simp [hs, rangeInsert_spec a.range ax at_ n hf, Res.bind]
    · simp [hs]
  have hname : ∀ d : DefName, (∀ a ∈ d.areas, RangeFits a.range n) →
      nameInsert d edited (axisArgs ax at_ n).1 (axisArgs ax at_ n).2.1 (axisArgs ax at_ n).2.2.1 (axisArgs ax at_ n).2.2.2
        = .ok (nameMap (followInsert edited ax at_ n) d) := by
    intro d hd
    unfold nameInsert
    rw [mapRes_pointwise _ (followInsert edited ax at_ n) d.areas (fun a ha => haddr a (hd a ha))]
    rfl
  have hz : ((axisArgs ax at_ n).2.1 = 0 && (axisArgs ax at_ n).2.2.2 = 0) = false := by
    cases ax <;> simp [axisArgs, hn]
  unfold bookInsert
  rw [mapRes_pointwise _ (nameMap (followInsert edited ax at_ n)) b.wbNames (fun d hd => hname d (hfit.1 d hd))]
  rw [mapRes_pointwise _ (fun s => (s.1, s.2.map (nameMap (followInsert edited ax at_ n)))) b.sheets]
  · rfl
  · intro s hs
    simp only [namesInsert, hz, Bool.false_eq_true, if_false]
    rw [mapRes_pointwise _ (nameMap (followInsert edited ax at_ n)) s.2 (fun d hd => hname d (hfit.2 s hs d hd))]
    rfl

/-- what the property demands of one address when the lines `[at_, at_ + n)` of sheet `edited`
    are removed: `none` = its target was deleted -/
def followRemove (edited : Text) (ax : Spec.Axis) (at_ n : Nat) (a : Address) : Option Address :=
  if a.sheet = edited then (Spec.shiftRangeRemove a.range ax at_ n).map (fun ρ => { a with range := ρ })
  else some a

/-- what the property demands of one name: its surviving areas shifted / clamped; a name all of
    whose areas were deleted is the error text `#REF!` -/
def nameFollowRemove (edited : Text) (ax : Spec.Axis) (at_ n : Nat) (d : DefName) : DefName :=
  if !d.areas.isEmpty && (d.areas.filterMap (followRemove edited ax at_ n)).isEmpty
  then { areas := [], str := some refError }
  else { d with areas := d.areas.filterMap (followRemove edited ax at_ n) }

/-- **Defined names, remove.**  After `Spreadsheet::remove_row / remove_column(edited, ..)` every
    address whose sheet is the edited sheet and whose target survives (at least partly) is the
    shifted / clamped one of `Spec.shiftRangeRemove`, every address of another sheet is unchanged
    wherever its name is stored, and nothing panics.  A name all of whose areas were deleted
    becomes the text `#REF!` (was known finding C08-defined-name-deleted-target).  Left as the code
    has it: of a name with SEVERAL areas, an area that is deleted while another survives is dropped
    from the list (the property wants `#REF!` in its place; not generated by the harness), and a
    sheet-level name that had neither text nor areas before the edit is dropped. -/
theorem C08_defined_names_follow_remove (b : Book) (edited : Text) (ax : Spec.Axis) (at_ n : Nat)
    (h1 : 1 ≤ at_) (hn : n ≠ 0) (ho : at_ + n ≤ 4294967295)
    (hwf : AllAddr (fun a => StartFirst a.range) b) :
    bookRemove b edited (axisArgs ax at_ n).1 (axisArgs ax at_ n).2.1 (axisArgs ax at_ n).2.2.1 (axisArgs ax at_ n).2.2.2
      = .ok ⟨b.wbNames.map (nameFollowRemove edited ax at_ n),
             b.sheets.map (fun s => (s.1, (s.2.filter (fun d => !nameIsRemove d)).map
               (nameFollowRemove edited ax at_ n)))⟩ := by
  have hisrem : ∀ a : Address, StartFirst a.range →
      addrIsRemove a edited (axisArgs ax at_ n).1 (axisArgs ax at_ n).2.1 (axisArgs ax at_ n).2.2.1 (axisArgs ax at_ n).2.2.2
        = .ok (followRemove edited ax at_ n a).isNone := by
    intro a hsf
    unfold addrIsRemove followRemove
    by_cases hs : a.sheet = edited
    · simp only [hs, if_true, rangeIsRemove_spec a.range ax at_ n h1 hn ho hsf]
      cases Spec.shiftRangeRemove a.range ax at_ n <;> rfl
    · simp [hs]
  have hrem : ∀ a a' : Address, StartFirst a.range → followRemove edited ax at_ n a = some a' →
      addrRemove a edited (axisArgs ax at_ n).1 (axisArgs ax at_ n).2.1 (axisArgs ax at_ n).2.2.1 (axisArgs ax at_ n).2.2.2
        = .ok a' := by
    intro a a' hsf h
    unfold addrRemove
    unfold followRemove at h
    by_cases hs : a.sheet = edited
    · simp only [hs, if_true] at h ⊢
      cases hr : Spec.shiftRangeRemove a.range ax at_ n with
      | none => simp [hr] at h
      | some ρ' =>
        simp only [hr, Option.map_some, Option.some.injEq] at h
        subst h
        simp [rangeRemove_spec a.range ρ' ax at_ n h1 hn ho hsf hr, Res.bind]
    · simp only [hs, if_false, Option.some.injEq] at h ⊢
      rw [h]
  have hname : ∀ d : DefName, (∀ a ∈ d.areas, StartFirst a.range) →
      nameRemove d edited (axisArgs ax at_ n).1 (axisArgs ax at_ n).2.1 (axisArgs ax at_ n).2.2.1 (axisArgs ax at_ n).2.2.2
        = .ok (nameFollowRemove edited ax at_ n d) := by
    intro d hd
    unfold nameRemove nameFollowRemove
    rw [rejectRes_pointwise _ (fun a => (followRemove edited ax at_ n a).isNone) d.areas
      (fun a ha => hisrem a (hd a ha))]
    have hfun : (fun a => !(followRemove edited ax at_ n a).isNone) = (fun a => (followRemove edited ax at_ n a).isSome) := by
      funext a; cases followRemove edited ax at_ n a <;> rfl
    rw [hfun]
    simp only [Res.bind]
    -- the kept areas all have an image
    have hk : ∀ l : List Address, (∀ a ∈ l, StartFirst a.range) →
        mapRes (fun a => addrRemove a edited (axisArgs ax at_ n).1 (axisArgs ax at_ n).2.1 (axisArgs ax at_ n).2.2.1
            (axisArgs ax at_ n).2.2.2) (l.filter (fun a => (followRemove edited ax at_ n a).isSome))
          = .ok (l.filterMap (followRemove edited ax at_ n)) := by
      intro l hl
      induction l with
      | nil => rfl
      | cons a rest ih =>
        have ih' := ih (fun x hx => hl x (List.mem_cons_of_mem _ hx))
        cases hf : followRemove edited ax at_ n a with
        | none => simp [List.filter, List.filterMap, hf, ih']
        | some a' =>
          simp [List.filter, List.filterMap, hf, mapRes, hrem a a' (hl a (List.mem_cons_self ..)) hf, ih']
    have hempty : (d.areas.filter (fun a => (followRemove edited ax at_ n a).isSome)).isEmpty
        = (d.areas.filterMap (followRemove edited ax at_ n)).isEmpty := by
      generalize d.areas = l
      induction l with
      | nil => rfl
      | cons a rest ih =>
        cases hf : followRemove edited ax at_ n a with
        | none => simpa [List.filter, List.filterMap, hf] using ih
        | some a' => simp [List.filter, List.filterMap, hf]
    rw [hempty, hk d.areas hd]
    split <;> rfl
  have hz : ((axisArgs ax at_ n).2.1 = 0 && (axisArgs ax at_ n).2.2.2 = 0) = false := by
    cases ax <;> simp [axisArgs, hn]
  unfold bookRemove
  rw [mapRes_pointwise _ (nameFollowRemove edited ax at_ n) b.wbNames
    (fun d hd => hname d (hwf.1 d hd))]
  rw [mapRes_pointwise _ (fun s => (s.1, (s.2.filter (fun d => !nameIsRemove d)).map
      (nameFollowRemove edited ax at_ n))) b.sheets]
  · rfl
  · intro s hs
    simp only [namesRemove, hz, Bool.false_eq_true, if_false]
    rw [mapRes_pointwise _ (nameFollowRemove edited ax at_ n)
      (s.2.filter (fun d => !nameIsRemove d))
      (fun d hd => hname d (hwf.2 s hs d (List.mem_filter.1 hd).1))]
    rfl

/-- non-vacuity and the two repaired situations, on a concrete workbook: `N1` stored on `A` refers
    to `Sa!$B$3`, `N2` stored on `Sa` refers to `Sb!C5:D9`, `N3` is a workbook-level name for `Sb!A2`.
    Inserting 2 rows at row 2 of sheet `Sb` leaves `N1` alone and moves `N2` and `N3`. -/
def exBook : Book :=
  ⟨[⟨[⟨['S', 'b'], ⟨some ⟨1, false⟩, some ⟨2, false⟩, none, none⟩⟩], none⟩],
   [(['S', 'a'], [⟨[⟨['S', 'a'], ⟨some ⟨2, true⟩, some ⟨3, true⟩, none, none⟩⟩], none⟩,
                  ⟨[⟨['S', 'b'], ⟨some ⟨3, false⟩, some ⟨5, false⟩, some ⟨4, false⟩, some ⟨9, false⟩⟩⟩], none⟩]),
    (['S', 'b'], [])]⟩

example : bookInsert exBook ['S', 'b'] 0 0 2 2 = .ok
    ⟨[⟨[⟨['S', 'b'], ⟨some ⟨1, false⟩, some ⟨4, false⟩, none, none⟩⟩], none⟩],
     [(['S', 'a'], [⟨[⟨['S', 'a'], ⟨some ⟨2, true⟩, some ⟨3, true⟩, none, none⟩⟩], none⟩,
                    ⟨[⟨['S', 'b'], ⟨some ⟨3, false⟩, some ⟨7, false⟩, some ⟨4, false⟩, some ⟨11, false⟩⟩⟩], none⟩]),
      (['S', 'b'], [])]⟩ := by
  decide

/-- removing rows 2..6 of `Sb`: `N3` (`Sb!A2`) is deleted entirely and becomes `#REF!`, `N2`
    (`Sb!C5:D9`) is clamped to `Sb!C2:D4`, `N1` (on `Sa`) is untouched -/
example : bookRemove exBook ['S', 'b'] 0 0 2 5 = .ok
    ⟨[⟨[], some ['#', 'R', 'E', 'F', '!']⟩],
     [(['S', 'a'], [⟨[⟨['S', 'a'], ⟨some ⟨2, true⟩, some ⟨3, true⟩, none, none⟩⟩], none⟩,
                    ⟨[⟨['S', 'b'], ⟨some ⟨3, false⟩, some ⟨2, false⟩, some ⟨4, false⟩, some ⟨4, false⟩⟩⟩], none⟩]),
      (['S', 'b'], [])]⟩ := by
  decide

example : AllAddr (fun a => RangeFits a.range 2) exBook ∧ AllAddr (fun a => StartFirst a.range) exBook := by
  simp [AllAddr, exBook, RangeFits, StartFirst]
  refine ⟨?_, ?_, ?_⟩
  · intro r h; rcases h with rfl | rfl <;> decide
  · intro r h; rcases h with rfl | rfl <;> decide
  · intro r h; rcases h with rfl | rfl | rfl | rfl <;> decide

end DefinedNames


/-- **Tie to the source (T).**  `translate_part` (a column / row part moved by an offset unless locked; `None`
    when it leaves `1..=max`) and the grid limits `MAX_COLUMN_NUM` / `MAX_ROW_NUM` of helper/formula.rs, as
    regenerated from the source on this run, are the model's `translatePart`, `maxCol`, `maxRow`. -/
theorem C08_kernels_match_source (p : Umya.Formula.Part) (d : Int) (max : Nat) :
    (Umya.Gen.translate_part ((p.1 : Int), p.2) d max).map (fun q => (q.1.toNat, q.2)) = Umya.Formula.translatePart p d max ∧
    Umya.Gen.max_column_num = Umya.Formula.maxCol ∧ Umya.Gen.max_row_num = Umya.Formula.maxRow :=
  ⟨Umya.Gen.gen_translate_part p d max, Umya.Gen.gen_grid_limits.1, Umya.Gen.gen_grid_limits.2⟩

end Umya.Thm.C08
