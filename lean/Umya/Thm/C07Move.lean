/-
  C07 — move_range / copy_range relocate content exactly like the reference grid.

  Concrete model: `Umya.Sheet.moveOrCopy` (`Umya/Model/Sheet.lean`), statement by statement after
  `Worksheet::move_or_copy_range`: guard (panic when the image leaves the grid) → collect the cells
  of the source rectangle (`iter_all_cells_by_range_sorted_by_row(..).flatten().cloned()`) →
  move only: for EVERY position of the rectangle in row-major order remove the cell there and the
  cell at its image → for every collected cell: offset its coordinate and `set_cell` it
  (value, style; the formula text is part of the value token: `set_obj` assigns `cell_value` whole,
  nothing translates the references inside it).
  Reference semantics: `Umya.Spec.Grid.moveRect` / `copyRect` (written from the property text).
  Abstraction: `Umya.Sheet.content` (the one of `C07_insert_rows` … `C07_remove_cols`).
  Invariant: `Umya.Sheet.Coherent` (C10; holds in every reachable state, `C10_reachable`).
  Helper lemmas: `Umya/Lemmas/{MoveRange,MoveRange2}.lean`.

  Outside these theorems (what the model does, no more): a move / copy never removes or renumbers
  a row or column dimension — `set_cell` creates the dimension of a destination row / column that
  had none (`C07_move_copy_dimensions_kept`); merged ranges, comments, conditional formats and the
  auto-filter are not touched by `move_or_copy_range` (the driver passes only the cell store to the
  operation; the harness' reference keeps them unchanged and compares them after every move / copy).
-/
import Umya.Lemmas.MoveRange2
namespace Umya.Thm.C07
open Umya.Sheet Umya.Coord Umya.Spec.Grid

/-- `Worksheet::move_range(ρ, dr, dc)` on the cell store of one sheet, `d = (dr, dc)` -/
def moveRange (s : Sheet) (ρ : Rect) (d : Int × Int) : Res Sheet := moveOrCopy s ρ.rs ρ.re ρ.cs ρ.ce d.1 d.2 true

/-- `Worksheet::copy_range(ρ, dr, dc)` -/
def copyRange (s : Sheet) (ρ : Rect) (d : Int × Int) : Res Sheet := moveOrCopy s ρ.rs ρ.re ρ.cs ρ.ce d.1 d.2 false

/-- these are the `move` / `copy` steps of the histories of C10 (and of the correspondence stream) -/
theorem C07_move_copy_are_steps (s : Sheet) (ρ : Rect) (d : Int × Int) :
    moveRange s ρ d = step s (.move ρ.rs ρ.re ρ.cs ρ.ce d.1 d.2) ∧
    copyRange s ρ d = step s (.copy ρ.rs ρ.re ρ.cs ρ.ce d.1 d.2) := ⟨rfl, rfl⟩

/-! ### refinement -/

/-- Move, for every coherent sheet, every rectangle inside the grid and every offset whose image is
    inside the grid (source and destination may overlap): no panic, the store stays coherent, and
    the edit commutes with the reference `moveRect` through the abstraction. -/
theorem C07_move_refines (s : Sheet) (h : Coherent s) (ρ : Rect) (d : Int × Int) (hin : InRange ρ d.1 d.2) :
    ∃ s', moveRange s ρ d = .ok s' ∧ Coherent s' ∧ content s' = moveRect (content s) ρ d.1 d.2 :=
  content_move s h ρ d.1 d.2 hin

/-- Copy, likewise, against `copyRect`. -/
theorem C07_copy_refines (s : Sheet) (h : Coherent s) (ρ : Rect) (d : Int × Int) (hin : InRange ρ d.1 d.2) :
    ∃ s', copyRange s ρ d = .ok s' ∧ Coherent s' ∧ content s' = copyRect (content s) ρ d.1 d.2 :=
  content_copy s h ρ d.1 d.2 hin

/-! ### the clauses of the property, in its words -/

private theorem hasImage_target (ρ : Rect) (d : Int × Int) (hin : InRange ρ d.1 d.2) (r c : Nat) (hs : ρ.has r c) :
    ρ.hasImage d.1 d.2 ((r : Int) + d.1).toNat ((c : Int) + d.2).toNat ∧
    (((((r : Int) + d.1).toNat : Nat) : Int) - d.1).toNat = r ∧ (((((c : Int) + d.2).toNat : Nat) : Int) - d.2).toNat = c := by
  simp only [InRange, maxRow, maxCol] at hin
  simp only [Rect.has] at hs
  simp only [Rect.hasImage, Rect.has]
  omega

/-- "Moving a range leaves the source rectangle empty": every position of the source rectangle that
    is not also a position of the destination rectangle is blank afterwards (a position in both
    holds what the move brought there, `C07_move_destination_exact`). -/
theorem C07_move_source_empty (s s' : Sheet) (h : Coherent s) (ρ : Rect) (d : Int × Int) (hin : InRange ρ d.1 d.2)
    (hok : moveRange s ρ d = .ok s') (r c : Nat) (hs : ρ.has r c) (hd : ¬ ρ.hasImage d.1 d.2 r c) :
    content s' r c = none := by
  obtain ⟨t, ht, _, hc⟩ := C07_move_refines s h ρ d hin
  rw [hok] at ht; injection ht with ht; subst ht
  rw [hc]; unfold moveRect; rw [if_neg hd, if_pos hs]

/-- "… and the destination rectangle holding exactly the source cells (value, style and formula
    text as they were) at their translated positions": the image of every position of the source
    rectangle holds afterwards what that position held before — the content token and the style
    token unchanged, blank when it was blank (so a cell that sat in the destination under a blank
    source position is gone).  Every position of the destination rectangle is such an image. -/
theorem C07_move_destination_exact (s s' : Sheet) (h : Coherent s) (ρ : Rect) (d : Int × Int) (hin : InRange ρ d.1 d.2)
    (hok : moveRange s ρ d = .ok s') (r c : Nat) (hs : ρ.has r c) :
    content s' ((r : Int) + d.1).toNat ((c : Int) + d.2).toNat = content s r c := by
  obtain ⟨t, ht, _, hc⟩ := C07_move_refines s h ρ d hin
  rw [hok] at ht; injection ht with ht; subst ht
  obtain ⟨hI, e1, e2⟩ := hasImage_target ρ d hin r c hs
  rw [hc]; unfold moveRect; rw [if_pos hI, e1, e2]

/-- the destination rectangle is exactly the set of images of positions of the source rectangle -/
theorem C07_destination_is_image (ρ : Rect) (d : Int × Int) (hin : InRange ρ d.1 d.2) (r c : Nat) :
    ρ.hasImage d.1 d.2 r c ↔
      ∃ r0 c0 : Nat, ρ.has r0 c0 ∧ r = ((r0 : Int) + d.1).toNat ∧ c = ((c0 : Int) + d.2).toNat := by
  rw [hasImage_iff ρ d.1 d.2 hin r c]
  constructor
  · rintro ⟨r0, c0, h1, h2, h3, h4, e⟩
    simp only [Prod.mk.injEq] at e
    exact ⟨r0, c0, (has_iff ρ r0 c0).2 ⟨h1, h2, h3, h4⟩, e.1, e.2⟩
  · rintro ⟨r0, c0, hh, e1, e2⟩
    obtain ⟨h1, h2, h3, h4⟩ := (has_iff ρ r0 c0).1 hh
    exact ⟨r0, c0, h1, h2, h3, h4, by rw [e1, e2]⟩

/-- Move and copy leave every position outside both rectangles as it was. -/
theorem C07_move_elsewhere_unchanged (s s' : Sheet) (h : Coherent s) (ρ : Rect) (d : Int × Int) (hin : InRange ρ d.1 d.2)
    (hok : moveRange s ρ d = .ok s' ∨ copyRange s ρ d = .ok s') (r c : Nat)
    (hs : ¬ ρ.has r c) (hd : ¬ ρ.hasImage d.1 d.2 r c) :
    content s' r c = content s r c := by
  rcases hok with hok | hok
  · obtain ⟨t, ht, _, hc⟩ := C07_move_refines s h ρ d hin
    rw [hok] at ht; injection ht with ht; subst ht
    rw [hc]; unfold moveRect; rw [if_neg hd, if_neg hs]
  · obtain ⟨t, ht, _, hc⟩ := C07_copy_refines s h ρ d hin
    rw [hok] at ht; injection ht with ht; subst ht
    rw [hc]; unfold copyRect; rw [if_neg hd]

/-- "copying keeps the source and places every non-blank source cell at its translated position":
    (1) every position outside the destination rectangle — the part of the source rectangle outside
    it included — is unchanged; (2) the image of a non-blank source position holds that cell's value
    and style; (3) under a blank source position the destination keeps what it had. -/
theorem C07_copy_keeps_source (s s' : Sheet) (h : Coherent s) (ρ : Rect) (d : Int × Int) (hin : InRange ρ d.1 d.2)
    (hok : copyRange s ρ d = .ok s') :
    (∀ r c : Nat, ¬ ρ.hasImage d.1 d.2 r c → content s' r c = content s r c) ∧
    (∀ r c : Nat, ρ.has r c → ∀ x, content s r c = some x →
      content s' ((r : Int) + d.1).toNat ((c : Int) + d.2).toNat = some x) ∧
    (∀ r c : Nat, ρ.has r c → content s r c = none →
      content s' ((r : Int) + d.1).toNat ((c : Int) + d.2).toNat = content s ((r : Int) + d.1).toNat ((c : Int) + d.2).toNat) := by
  obtain ⟨t, ht, _, hc⟩ := C07_copy_refines s h ρ d hin
  rw [hok] at ht; injection ht with ht; subst ht
  refine ⟨?_, ?_, ?_⟩
  · intro r c hd
    rw [hc]; unfold copyRect; rw [if_neg hd]
  · intro r c hs x hx
    obtain ⟨hI, e1, e2⟩ := hasImage_target ρ d hin r c hs
    rw [hc]; unfold copyRect; rw [if_pos hI, e1, e2, hx]
  · intro r c hs hx
    obtain ⟨hI, e1, e2⟩ := hasImage_target ρ d hin r c hs
    rw [hc]; unfold copyRect; rw [if_pos hI, e1, e2, hx]

/-- a stored key / a cell's own coordinate inside the grid `1..1048576 × 1..16384` -/
def InGrid (row col : Nat) : Prop := 1 ≤ row ∧ row ≤ maxRow ∧ 1 ≤ col ∧ col ≤ maxCol

instance (row col : Nat) : Decidable (InGrid row col) := by unfold InGrid; exact inferInstance

/-- "None of these operations … produces coordinates outside 1..16384 x 1..1048576 (no row 0, no
    column 0)": on a coherent sheet all of whose cells are inside the grid, a move or copy with
    in-range arguments returns (no panic) a sheet all of whose cells — the key they are stored
    under and the coordinate they carry — are inside the grid. -/
theorem C07_move_copy_in_grid (s : Sheet) (h : Coherent s) (ρ : Rect) (d : Int × Int) (hin : InRange ρ d.1 d.2)
    (hpos : ∀ k ∈ keysOf s, InGrid k.1 k.2) (mv : Bool) :
    ∃ s', (if mv then moveRange s ρ d else copyRange s ρ d) = .ok s' ∧
      ∀ p ∈ s'.cells, InGrid p.1.1 p.1.2 ∧ InGrid p.2.row p.2.col := by
  have key : ∀ s', Coherent s' →
      (∀ r c : Nat, content s' r c ≠ none → ρ.hasImage d.1 d.2 r c ∨ content s r c ≠ none) →
      ∀ p ∈ s'.cells, InGrid p.1.1 p.1.2 ∧ InGrid p.2.row p.2.col := by
    intro s' hco hsub p hp
    have hk : p.1 ∈ keysOf s' := List.mem_map.2 ⟨p, hp, rfl⟩
    have hsome : content s' p.1.1 p.1.2 ≠ none := by
      have := lookup_isSome_iff.2 hk
      simp only [content]
      cases hl : lookup (p.1.1, p.1.2) s'.cells with
      | none => rw [show (p.1.1, p.1.2) = p.1 from rfl] at hl; rw [hl] at this; simp at this
      | some x => simp
    have hg : InGrid p.1.1 p.1.2 := by
      rcases hsub _ _ hsome with hI | hold
      · simp only [InRange, maxRow, maxCol] at hin
        simp only [Rect.hasImage, Rect.has] at hI
        simp only [InGrid, maxRow, maxCol]
        omega
      · have : (p.1.1, p.1.2) ∈ keysOf s := by
          apply lookup_isSome_iff.1
          simp only [content] at hold
          cases hl : lookup (p.1.1, p.1.2) s.cells with
          | none => rw [hl] at hold; simp at hold
          | some x => rfl
        exact hpos _ this
    have hc := hco.coord p hp
    exact ⟨hg, by rw [hc.1, hc.2]; exact hg⟩
  cases mv with
  | true =>
    obtain ⟨t, ht, hco, hc⟩ := C07_move_refines s h ρ d hin
    refine ⟨t, ht, key t hco ?_⟩
    intro r c hne
    rw [hc] at hne
    unfold moveRect at hne
    by_cases hI : ρ.hasImage d.1 d.2 r c
    · exact Or.inl hI
    · rw [if_neg hI] at hne
      by_cases hS : ρ.has r c
      · rw [if_pos hS] at hne; exact absurd rfl hne
      · rw [if_neg hS] at hne; exact Or.inr hne
  | false =>
    obtain ⟨t, ht, hco, hc⟩ := C07_copy_refines s h ρ d hin
    refine ⟨t, ht, key t hco ?_⟩
    intro r c hne
    rw [hc] at hne
    unfold copyRect at hne
    by_cases hI : ρ.hasImage d.1 d.2 r c
    · exact Or.inl hI
    · rw [if_neg hI] at hne; exact Or.inr hne

/-- Row and column dimensions under a move / copy (any arguments that do not panic): the row table
    and the column list of the sheet are kept entry by entry, in place (nothing is removed,
    renumbered or restyled); new entries may follow them (the dimensions `set_cell` creates for
    destination rows / columns that had none).  Dimensions do not travel with the moved cells. -/
theorem C07_move_copy_dimensions_kept (s s' : Sheet) (ρ : Rect) (d : Int × Int)
    (hok : moveRange s ρ d = .ok s' ∨ copyRange s ρ d = .ok s') :
    s.rows <+: s'.rows ∧ s.cols <+: s'.cols := by
  rcases hok with hok | hok
  · exact moveOrCopy_dims s s' _ _ _ _ _ _ true hok
  · exact moveOrCopy_dims s s' _ _ _ _ _ _ false hok

/-! ### non-vacuity -/

example : ∃ s s', run {} [.setRowSty 1 4, .setVal 1 1 7] = .ok s ∧ moveRange s ⟨1, 1, 1, 1⟩ (2, 2) = .ok s' ∧
    s.rows = [(1, ⟨1, 4⟩)] ∧ s'.rows = [(1, ⟨1, 4⟩), (3, ⟨3, 0⟩)] ∧ s'.cols = [⟨1, 0⟩, ⟨3, 0⟩] := by
  refine ⟨_, _, rfl, rfl, ?_⟩
  decide

/-- A sheet with a source cell (row 1, col 1, value 7), a blank source position (row 2, col 2) and a
    styled cell in the destination UNDER that blank position (row 2, col 5): the situation of the
    seeded changes C07 / C07b.  The move empties (2,5); the copy keeps it. -/
example : ∃ s s' s'', run {} [.setVal 1 1 7, .setCell 5 2 9 3, .setVal 7 7 1] = .ok s ∧ Coherent s ∧
    InRange ⟨1, 2, 1, 2⟩ 0 3 ∧ (∀ k ∈ keysOf s, InGrid k.1 k.2) ∧
    moveRange s ⟨1, 2, 1, 2⟩ (0, 3) = .ok s' ∧ copyRange s ⟨1, 2, 1, 2⟩ (0, 3) = .ok s'' ∧
    content s 1 1 = some (7, 0) ∧ content s 2 2 = none ∧ content s 2 5 = some (9, 3) ∧
    -- the theorem's conclusion on the move: (2,5) is the image of the blank (2,2)
    content s' 2 5 = none ∧ content s' 1 4 = some (7, 0) ∧ content s' 1 1 = none ∧ content s' 7 7 = some (1, 0) ∧
    content s' 2 5 = moveRect (content s) ⟨1, 2, 1, 2⟩ 0 3 2 5 ∧
    -- … and on the copy
    content s'' 2 5 = some (9, 3) ∧ content s'' 1 4 = some (7, 0) ∧ content s'' 1 1 = some (7, 0) ∧
    content s'' 2 5 = copyRect (content s) ⟨1, 2, 1, 2⟩ 0 3 2 5 := by
  refine ⟨_, _, _, rfl, run_coherent [.setVal 1 1 7, .setCell 5 2 9 3, .setVal 7 7 1] {} _ coherent_empty rfl,
    by decide, by decide, rfl, rfl, ?_⟩
  decide

/-- overlapping source and destination (rows 1..2 moved down by one): (1,1) empties, (2,1) takes the
    former (1,1), (3,1) takes the former (2,1) -/
example : ∃ s s', run {} [.setVal 1 1 7, .setVal 1 2 8, .setVal 1 3 9] = .ok s ∧ Coherent s ∧
    InRange ⟨1, 2, 1, 1⟩ 1 0 ∧ moveRange s ⟨1, 2, 1, 1⟩ (1, 0) = .ok s' ∧
    content s' 1 1 = none ∧ content s' 2 1 = some (7, 0) ∧ content s' 3 1 = some (8, 0) := by
  refine ⟨_, _, rfl, run_coherent [.setVal 1 1 7, .setVal 1 2 8, .setVal 1 3 9] {} _ coherent_empty rfl, by decide, rfl, ?_⟩
  decide

/-- negative offset up to the grid edge, and the far corner of the grid -/
example : InRange ⟨3, 4, 2, 5⟩ (-2) (-1) ∧ InRange ⟨1048570, 1048574, 16380, 16382⟩ 2 2 ∧
    ¬ InRange ⟨3, 4, 2, 5⟩ (-3) 0 ∧ ¬ InRange ⟨1048570, 1048574, 16380, 16382⟩ 3 0 := by decide

end Umya.Thm.C07
