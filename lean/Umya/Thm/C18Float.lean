/-
  C18 — the `f64` step: `convert_date` → serial → `excel_to_date_time_object`, with the float operations
  satisfying the STANDARD MODEL of IEEE-754 binary64 arithmetic instead of being exact.

  `Umya.Lemmas.FloatStd.StdModel F val fin` (hypotheses on an instance of the model's float interface
  `FloatOps F`; `val : F → ℚ` the represented number, `fin` = finite):  `add sub mul div` return the exact
  result times `1 + δ`, `|δ| ≤ 2⁻⁵³` (`mul`, `div`: plus an absolute term `|η| ≤ 2⁻¹⁰⁷⁴` for results in
  the subnormal range; all four only while the exact result stays below `2¹⁰²³`), `floor` and `round`
  (half away from zero) are exact on the represented value, `ofInt` is exact up to `2⁵³`, `lt` is the
  order of the values, `toInt` truncates.  `ExactRepr` (used only for 1900-01-01T00:00:00, serial exactly
  `1` = the threshold of a comparison): an `add` / `div` whose exact result is a float returns it.

  What is proved: for every such `F` the code's serial `fl(D + fl(T/86400))` is within
  `2958469·2⁻⁵³` day (2.8·10⁻⁵ s) of `D + T/86400`, strictly increasing in `(D, T)`, and the way back
  (three floors, three products, one round, on ANY finite float that close to `D + T/86400`) returns
  exactly day `D`, second `T`.  The floors are not claimed to be the exact ones (each may be off by one
  unit); the sum `86400·days + 3600·hours + 60·minutes + seconds` is what is proved.

  What is NOT proved: that Lean's native `Float` (which the driver executes) or Rust's `f64` satisfy
  `StdModel` / `ExactRepr` — `Float` is opaque to the kernel.  That is the assumption "IEEE-754" of
  tools/props.d/C18.py; the driver's `Float` results are compared bit-for-bit with Rust on every run.
-/
import Umya.Thm.C18
import Umya.Lemmas.FloatDate
namespace Umya.Thm.C18
open Umya.Date Umya.Date.FloatOps Umya.Spec.Calendar Umya.Lemmas.Calendar Umya.Lemmas.FloatStd

section
variable {F : Type} [FloatOps F] {val : F → ℚ} {fin : F → Prop}

/-- **Error of the serial.**  `fl(D + fl(T / 86400))`, as `convert_date_crate` computes it, is a finite
    float within `2958469 · 2⁻⁵³` (< 3.3·10⁻¹⁰ day < 2.9·10⁻⁵ s) of the exact serial `D + T/86400`. -/
theorem C18_serial_float_error (h : StdModel F val fin) (D T : Int) (hD : 0 ≤ D ∧ D ≤ 2958465)
    (hT : 0 ≤ T ∧ T < 86400) :
    fin (serialOf F D T) ∧ |val (serialOf F D T) - ((D : ℚ) + (T : ℚ) / 86400)| ≤ 2958469 / 2 ^ 53 := by
  obtain ⟨f, e⟩ := serial_err h D T hD hT
  refine ⟨f, le_trans e (le_of_eq ?_)⟩
  unfold eps0 u; ring

/-- **Strictly increasing, rounded serial.**  Under the standard model, if `(D, T)` is lexicographically
    smaller than `(D', T')` (days 0 … 2958465, seconds of day) then the float serial is strictly smaller,
    both as a number and for the float comparison. -/
theorem C18_monotone_float (h : StdModel F val fin) (D T D' T' : Int) (hD : 0 ≤ D ∧ D ≤ 2958465)
    (hT : 0 ≤ T ∧ T < 86400) (hD' : 0 ≤ D' ∧ D' ≤ 2958465) (hT' : 0 ≤ T' ∧ T' < 86400)
    (hlt : D < D' ∨ (D = D' ∧ T < T')) :
    val (serialOf F D T) < val (serialOf F D' T') ∧ lt (serialOf F D T) (serialOf F D' T') = true := by
  have hv := serial_lt h D T D' T' hD hT hD' hT' (by omega)
  exact ⟨hv, (h.lt_exact _ _ (serial_err h D T hD hT).1 (serial_err h D' T' hD' hT').1).2 hv⟩

/-- **Day/time split of any nearby float.**  For every finite float within `2958469·2⁻⁵³` of
    `D + T/86400` (`61 ≤ D ≤ 2958465`, i.e. 1900-03-01 … 9999-12-31, `T < 86400`) — the serial computed
    by `convert_date`, but also e.g. the nearest double of the decimal text of a cell — the chain
    `days = floor ts`, `part = ts − days`, `hours = floor (part·24)`, `part·24 − hours`,
    `minutes = floor (…·60)`, `…·60 − minutes`, `seconds = round (…·60)` and the sum
    `1899-12-30 + days + hours + minutes + seconds` give exactly day `D`, second `T`;
    the checked variant returns the same value (no `try_*` / `checked_add_signed` fails). -/
theorem C18_time_float_near (h : StdModel F val fin) (ts : F) (fts : fin ts) (D T : Int)
    (hD : 61 ≤ D ∧ D ≤ 2958465) (hT : 0 ≤ T ∧ T < 86400)
    (he : |val ts - ((D : ℚ) + (T : ℚ) / 86400)| ≤ 2958469 / 2 ^ 53) :
    excelToEpochSeconds ts = (daysFromCivil 1899 12 30 + D) * 86400 + T ∧
    excelToEpochSecondsChecked ts = some ((daysFromCivil 1899 12 30 + D) * 86400 + T) := by
  have he' : |val ts - ((D : ℚ) + (T : ℚ) / 86400)| ≤ eps0 := le_trans he (le_of_eq (by unfold eps0 u; ring))
  have h1 : 1 ≤ val ts := by
    obtain ⟨x1, _⟩ := abs_le.1 he'
    unfold eps0 at x1
    have hu := u_val
    have : (61 : ℚ) ≤ D := by exact_mod_cast hD.1
    have t0 : (0 : ℚ) ≤ T := by exact_mod_cast hT.1
    have : (0 : ℚ) ≤ (T : ℚ) / 86400 := div_nonneg t0 (by norm_num)
    linarith
  have hb := baseFor_near h ts fts D T ⟨by omega, hD.2⟩ (by omega) hT he' h1
  rw [if_neg (by omega)] at hb
  have hb' : baseFor ts = daysFromCivil 1899 12 30 := hb
  constructor
  · unfold excelToEpochSeconds
    rw [split_err h ts fts D T ⟨by omega, hD.2⟩ hT he', hb']
  · rw [split_checked h ts fts D T ⟨by omega, hD.2⟩ hT he', hb']

/-- **Round trip of the serial, `f64` arithmetic under the standard model** (`C18_time_float` of DESIGN.md).
    For every day count `61 ≤ D ≤ 2958465` (1900-03-01 … 9999-12-31) and every second of day `T < 86400`,
    with `ts = fl(D + fl(T / 86400))` as `convert_date_crate` computes it, `excel_to_date_time_object`
    returns 1899-12-30 + `D` days + exactly `T` seconds — the same value as in exact arithmetic
    (`C18_time_exact`). -/
theorem C18_time_float (h : StdModel F val fin) (D T : Int) (hD : 61 ≤ D ∧ D ≤ 2958465)
    (hT : 0 ≤ T ∧ T < 86400) :
    excelToEpochSeconds (serialOf F D T) = (daysFromCivil 1899 12 30 + D) * 86400 + T := by
  obtain ⟨f, e⟩ := C18_serial_float_error h D T ⟨by omega, hD.2⟩ hT
  exact (C18_time_float_near h _ f D T hD hT e).1

/-- the same in the shape of `C18_time_exact`, including the 1900 leap-day window (`D < 60`: base date
    1899-12-31).  `D = 60` (Excel's fictitious 1900-02-29) is excluded; at `D = 1, T = 0`
    (1900-01-01T00:00:00, serial exactly `1`, the threshold of `excel_timestamp < 1`) the error bounds do
    not decide the comparison: correct rounding (`ExactRepr`) is needed there. -/
theorem C18_time_float_1900 (h : StdModel F val fin) (D T : Int) (hD : 1 ≤ D ∧ D ≤ 2958465)
    (hD60 : D ≠ 60) (hT : 0 ≤ T ∧ T < 86400) (hx : ExactRepr F val fin ∨ ¬ (D = 1 ∧ T = 0)) :
    excelToEpochSeconds (serialOf F D T) =
      ((if D < 60 then daysFromCivil 1899 12 31 else daysFromCivil 1899 12 30) + D) * 86400 + T ∧
    excelToEpochSecondsChecked (serialOf F D T) =
      some (((if D < 60 then daysFromCivil 1899 12 31 else daysFromCivil 1899 12 30) + D) * 86400 + T) := by
  obtain ⟨f, e, h1⟩ := serial_near h D T hD hT hx
  have hb := baseFor_near h _ f D T hD hD60 hT e h1
  have hb' : baseFor (serialOf F D T) =
      if D < 60 then daysFromCivil 1899 12 31 else daysFromCivil 1899 12 30 := hb
  constructor
  · unfold excelToEpochSeconds
    rw [split_err h _ f D T ⟨by omega, hD.2⟩ hT e, hb']
  · rw [split_checked h _ f D T ⟨by omega, hD.2⟩ hT e, hb']

/-- **`convert_date`, then the way back, in seconds.**  For every date of the 1900 system
    (1900-01-01 … 9999-12-31) and every time of day, `convert_date` returns a float on which
    `excel_to_date_time_object` (unguarded and checked sums alike) yields the reference day number of
    the date times 86400 plus the second of the day (at 1900-01-01T00:00:00 under correct rounding). -/
theorem C18_convert_epoch_float (h : StdModel F val fin) (y m d hh mi s : Int) (hd : InDomain y m d)
    (ht : ValidTime hh mi s)
    (hx : ExactRepr F val fin ∨ ¬ (y = 1900 ∧ m = 1 ∧ d = 1 ∧ hh = 0 ∧ mi = 0 ∧ s = 0)) :
    ∃ ts : F, convertDateF F y m d hh mi s = some ts ∧
      excelToEpochSeconds ts = daysFromCivil y m d * 86400 + (hh * 3600 + mi * 60 + s) ∧
      excelToEpochSecondsChecked ts = some (daysFromCivil y m d * 86400 + (hh * 3600 + mi * 60 + s)) := by
  unfold convertDateF
  rw [C18_convert y m d hh mi s hd ht]
  simp only [Option.map_some]
  refine ⟨_, rfl, ?_⟩
  obtain ⟨a0, a1, b0, b1, c0, c1⟩ := ht
  have e1900 : daysFromCivil 1900 1 1 = -25567 := by decide
  have e1230 : daysFromCivil 1899 12 30 = -25569 := by decide
  have e1231 : daysFromCivil 1899 12 31 = -25568 := by decide
  have e0301 : daysFromCivil 1900 3 1 = -25508 := by decide
  have e9999 : daysFromCivil 9999 12 31 = 2932896 := by decide
  have hy0 := hd.2.1
  have hy1 := hd.2.2
  have hm0 := hd.1.1
  have hm1 := hd.1.2.1
  have hd0 := hd.1.2.2.1
  -- position of the date relative to 1900-01-01, 1900-03-01, 9999-12-31
  have hlo : daysFromCivil 1900 1 1 ≤ daysFromCivil y m d ∧
      (daysFromCivil y m d = daysFromCivil 1900 1 1 → y = 1900 ∧ m = 1 ∧ d = 1) := by
    by_cases hq : y = 1900 ∧ m = 1 ∧ d = 1
    · obtain ⟨rfl, rfl, rfl⟩ := hq; exact ⟨Int.le_refl _, fun _ => ⟨rfl, rfl, rfl⟩⟩
    · have : dateLt (1900, 1, 1) (y, m, d) := by
        unfold dateLt; simp only
        by_cases hy : 1900 < y
        · exact Or.inl hy
        · refine Or.inr ⟨by omega, ?_⟩
          by_cases hm : 1 < m
          · exact Or.inl hm
          · exact Or.inr ⟨by omega, by omega⟩
      have := daysFromCivil_strictMono _ _ _ _ _ _ (by decide) hd.1 this
      exact ⟨Int.le_of_lt this, fun e => by omega⟩
  have hhi : daysFromCivil y m d ≤ daysFromCivil 9999 12 31 := by
    by_cases hq : y = 9999 ∧ m = 12 ∧ d = 31
    · obtain ⟨rfl, rfl, rfl⟩ := hq; exact Int.le_refl _
    · have hd31 : d ≤ 31 := by
        have := hd.1.2.2.2
        have h31 : daysInMonth y m ≤ 31 := by
          unfold daysInMonth; split
          · omega
          · split
            · omega
            · split
              · split <;> omega
              · omega
        omega
      have : dateLt (y, m, d) (9999, 12, 31) := by
        unfold dateLt; simp only
        by_cases hy : y < 9999
        · exact Or.inl hy
        · refine Or.inr ⟨by omega, ?_⟩
          by_cases hm : m < 12
          · exact Or.inl hm
          · exact Or.inr ⟨by omega, by omega⟩
      exact Int.le_of_lt (daysFromCivil_strictMono _ _ _ _ _ _ hd.1 (by decide) this)
  have hfeb : (y = 1900 ∧ m ≤ 2) → daysFromCivil y m d < daysFromCivil 1900 3 1 := by
    intro ⟨hy, hm⟩
    subst hy
    exact daysFromCivil_strictMono _ _ _ _ _ _ hd.1 (by decide) (Or.inr ⟨rfl, Or.inl (by show m < 3; omega)⟩)
  have hmar : ¬ (y = 1900 ∧ m ≤ 2) → daysFromCivil 1900 3 1 ≤ daysFromCivil y m d := by
    intro hn
    by_cases hq : y = 1900 ∧ m = 3 ∧ d = 1
    · obtain ⟨rfl, rfl, rfl⟩ := hq; exact Int.le_refl _
    · have : dateLt (1900, 3, 1) (y, m, d) := by
        unfold dateLt; simp only
        by_cases hy : 1900 < y
        · exact Or.inl hy
        · refine Or.inr ⟨by omega, ?_⟩
          by_cases hm : 3 < m
          · exact Or.inl hm
          · exact Or.inr ⟨by omega, by omega⟩
      exact Int.le_of_lt (daysFromCivil_strictMono _ _ _ _ _ _ (by decide) hd.1 this)
  by_cases hw : y = 1900 ∧ m ≤ 2
  · have := hfeb hw
    have hx' : ExactRepr F val fin ∨ ¬ (daysFromCivil y m d - daysFromCivil 1899 12 30 - 1 +
        (if y = 1900 ∧ m ≤ 2 then 0 else 1) = 1 ∧ hh * 3600 + mi * 60 + s = 0) := by
      rcases hx with hx | hx
      · exact Or.inl hx
      · refine Or.inr fun ⟨q1, q2⟩ => hx ?_
        rw [if_pos hw] at q1
        obtain ⟨r1, r2, r3⟩ := hlo.2 (by omega)
        exact ⟨r1, r2, r3, by omega, by omega, by omega⟩
    obtain ⟨k1, k2⟩ := C18_time_float_1900 h _ _ (by rw [if_pos hw]; omega) (by rw [if_pos hw]; omega)
      ⟨by omega, by omega⟩ hx'
    rw [k1, k2, if_pos hw, if_pos (by omega)]
    exact ⟨by omega, by congr 1; omega⟩
  · have := hmar hw
    obtain ⟨k1, k2⟩ := C18_time_float_1900 h (daysFromCivil y m d - daysFromCivil 1899 12 30 - 1 +
        (if y = 1900 ∧ m ≤ 2 then 0 else 1)) (hh * 3600 + mi * 60 + s)
      (by rw [if_neg hw]; omega) (by rw [if_neg hw]; omega)
      ⟨by omega, by omega⟩ (Or.inr (by rw [if_neg hw]; omega))
    rw [k1, k2, if_neg hw, if_neg (by omega)]
    exact ⟨by omega, by congr 1; omega⟩

/-- **Round trip to the second, `f64` arithmetic under the standard model.**  For every date of the 1900
    system (1900-01-01 … 9999-12-31) and every time of day, `excel_to_date_time_object (convert_date …)`
    with standard-model floats and chrono's calendar = the reference calendar returns the same
    year, month, day, hour, minute, second (at 1900-01-01T00:00:00 under correct rounding). -/
theorem C18_roundtrip_float (h : StdModel F val fin) (y m d hh mi s : Int) (hd : InDomain y m d)
    (ht : ValidTime hh mi s)
    (hx : ExactRepr F val fin ∨ ¬ (y = 1900 ∧ m = 1 ∧ d = 1 ∧ hh = 0 ∧ mi = 0 ∧ s = 0)) :
    (convertDateF F y m d hh mi s).map excelToDateTime =
      some ⟨y, m, d, hh, mi, s, daysFromCivil y m d⟩ := by
  obtain ⟨ts, e1, hsecs, _⟩ := C18_convert_epoch_float h y m d hh mi s hd ht hx
  rw [e1]
  simp only [Option.map_some]
  obtain ⟨a0, a1, b0, b1, c0, c1⟩ := ht
  unfold excelToDateTime
  rw [hsecs]
  unfold ofEpochSeconds
  have q1 : (daysFromCivil y m d * 86400 + (hh * 3600 + mi * 60 + s)) / 86400 = daysFromCivil y m d := by omega
  have q2 : (daysFromCivil y m d * 86400 + (hh * 3600 + mi * 60 + s)) % 86400 = hh * 3600 + mi * 60 + s := by omega
  simp only [q1, q2, civilFromDays_daysFromCivil y m d hd.1]
  have r1 : (hh * 3600 + mi * 60 + s) / 3600 = hh := by omega
  have r2 : (hh * 3600 + mi * 60 + s) % 3600 / 60 = mi := by omega
  have r3 : (hh * 3600 + mi * 60 + s) % 60 = s := by omega
  rw [r1, r2, r3]

end

/-! ## non-vacuity: instances of the standard model -/

/-- exact rational arithmetic is a standard model (`δ = η = 0`, every number finite) -/
theorem stdModel_rat : StdModel Rat id (fun _ => True) where
  ofInt_exact := fun n _ => ⟨trivial, rfl⟩
  add_err := fun a b _ _ _ => ⟨trivial, 0, by simp [u_pos.le], by simp [FloatOps.add]⟩
  sub_err := fun a b _ _ _ => ⟨trivial, 0, by simp [u_pos.le], by simp [FloatOps.sub]⟩
  mul_err := fun a b _ _ _ => ⟨trivial, 0, 0, by simp [u_pos.le], by simp [eta_nonneg], by simp [FloatOps.mul]⟩
  div_err := fun a b _ _ _ _ => ⟨trivial, 0, 0, by simp [u_pos.le], by simp [eta_nonneg], by simp [FloatOps.div]⟩
  floor_exact := fun a _ => ⟨trivial, rfl⟩
  round_exact := fun a _ => ⟨trivial, rfl⟩
  lt_exact := fun a b _ _ => by simp [FloatOps.lt]
  toInt_exact := fun a _ _ => rfl

theorem exactRepr_rat : ExactRepr Rat id (fun _ => True) where
  add_exact := fun _ _ _ _ _ _ e => e
  div_exact := fun _ _ _ _ _ _ _ e => e

/-- the hypotheses of `C18_time_float` / `C18_monotone_float` / `C18_roundtrip_float` are satisfiable -/
example : excelToEpochSeconds (serialOf Rat 45435 18242) = 1716440642 := by
  rw [C18_time_float stdModel_rat 45435 18242 (by decide) (by decide)]; decide

example : (convertDateF Rat 2021 6 2 5 4 2).map excelToDateTime =
    some ⟨2021, 6, 2, 5, 4, 2, daysFromCivil 2021 6 2⟩ :=
  C18_roundtrip_float stdModel_rat 2021 6 2 5 4 2 (by decide) (by decide) (Or.inl exactRepr_rat)

example : (convertDateF Rat 1900 1 1 0 0 0).map excelToDateTime =
    some ⟨1900, 1, 1, 0, 0, 0, daysFromCivil 1900 1 1⟩ :=
  C18_roundtrip_float stdModel_rat 1900 1 1 0 0 0 (by decide) (by decide) (Or.inl exactRepr_rat)

/-- A standard model with NON-ZERO rounding errors: rationals in which every `add sub mul div` returns
    the exact result times `1 + 2⁻⁵³` (the largest relative error the model allows, always upwards). -/
structure QUp where
  q : Rat

instance : FloatOps QUp where
  ofInt n := ⟨(n : Rat)⟩
  add a b := ⟨(a.q + b.q) * (1 + 1 / 2 ^ 53)⟩
  sub a b := ⟨(a.q - b.q) * (1 + 1 / 2 ^ 53)⟩
  mul a b := ⟨(a.q * b.q) * (1 + 1 / 2 ^ 53)⟩
  div a b := ⟨(a.q / b.q) * (1 + 1 / 2 ^ 53)⟩
  floor a := ⟨(a.q.floor : Rat)⟩
  round a := ⟨(ratRound a.q : Rat)⟩
  lt a b := decide (a.q < b.q)
  toInt a := ratTrunc a.q

theorem stdModel_qup : StdModel QUp QUp.q (fun _ => True) where
  ofInt_exact := fun n _ => ⟨trivial, rfl⟩
  add_err := fun a b _ _ _ => ⟨trivial, u, by rw [abs_of_pos u_pos], rfl⟩
  sub_err := fun a b _ _ _ => ⟨trivial, u, by rw [abs_of_pos u_pos], rfl⟩
  mul_err := fun a b _ _ _ => ⟨trivial, u, 0, by rw [abs_of_pos u_pos], by simp [eta_nonneg],
    by simp [FloatOps.mul, u]⟩
  div_err := fun a b _ _ _ _ => ⟨trivial, u, 0, by rw [abs_of_pos u_pos], by simp [eta_nonneg],
    by simp [FloatOps.div, u]⟩
  floor_exact := fun a _ => ⟨trivial, rfl⟩
  round_exact := fun a _ => ⟨trivial, rfl⟩
  lt_exact := fun a b _ _ => by simp [FloatOps.lt]
  toInt_exact := fun a _ _ => rfl

/-- in `QUp` the serial of 2024-05-23T05:04:02 is NOT the exact one, and the round trip still returns
    the date and time to the second -/
example : (serialOf QUp 45435 18242).q ≠ 45435 + 18242 / 86400 := by
  simp only [serialOf, FloatOps.add, FloatOps.div, FloatOps.ofInt]; norm_num
example : excelToEpochSeconds (serialOf QUp 45435 18242) = 1716440642 := by
  rw [C18_time_float stdModel_qup 45435 18242 (by decide) (by decide)]; decide
example : (serialOf QUp 45435 18242).q < (serialOf QUp 45435 18243).q :=
  (C18_monotone_float stdModel_qup 45435 18242 45435 18243 (by decide) (by decide) (by decide) (by decide)
    (Or.inr ⟨rfl, by decide⟩)).1

end Umya.Thm.C18
