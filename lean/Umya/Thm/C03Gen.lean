/-
  C03 — tie to the source (T), part 3: `CellValue::guess_typed_data` of src/structs/cell_value.rs (and the enum
  `CellRawValue` of src/structs/cell_raw_value.rs with its payloads), compiled to Lean from the CURRENT source on every
  run (tools/extract_fns.py → Umya/Model/Gen/Fns.lean), equals the hand model the C03 value theorems are about.
-/
import Umya.Lemmas.FnsGenReader
namespace Umya.Thm.C03
open Umya.Reader

/-- **Tie to the source (T).**  `guess_typed_data` as it is in the source — upper-casing, the `match` on `""` /
    `"TRUE"` / `"FALSE"`, then `CellErrorType::from_str` on the upper-cased text, then `parse::<f64>` on the text
    itself, else a string — is the model's `guessTyped` for every text: the same constructor with the same payload
    (an error value and a number are represented by their texts: `from_str` = membership in `errorLits`,
    `parse::<f64>` = `parseF64Ok`; `to_uppercase` on its documented ASCII domain). -/
theorem C03_guess_matches_source :
    ∀ v : List Char,
      Umya.Gen.rawView (Umya.Gen.guess_typed_data (List Char) (List Char) Unit Umya.Gen.errorFromStr Umya.Gen.parseF64Text v) =
        guessTyped v :=
  Umya.Gen.gen_guess_typed_data

example : Umya.Gen.rawView (Umya.Gen.guess_typed_data (List Char) (List Char) Unit Umya.Gen.errorFromStr Umya.Gen.parseF64Text
    ['t', 'r', 'u', 'e']) = .bool true := by decide
example : Umya.Gen.rawView (Umya.Gen.guess_typed_data (List Char) (List Char) Unit Umya.Gen.errorFromStr Umya.Gen.parseF64Text
    ['#', 'n', '/', 'a']) = .err ['#', 'N', '/', 'A'] := by decide

end Umya.Thm.C03
