/-
  C06 (comments) — text, VML shapes and their join to the comments by the cell a note shape names: no comment
  moves, swaps or is duplicated, in the library's own output and in parts whose shapes are in another order.

  Model: `Umya/Model/AnnotComment.lean` (element-tree level; see its header for what is and is not
  modelled).  `writeComments tbl cs` / `writeVml cs` are the trees an XML 1.0 reader delivers for the two
  parts `writer/xlsx/comment.rs` and `writer/xlsx/vml_drawing.rs` emit for the comment list `cs`;
  `readComments` / `readVml` are `reader/xlsx/comment.rs` / `vml_drawing.rs` on such trees; `joinShapes`
  is the loop of `vml_drawing::read` (fix b524a98a: by the cell `x:Row` / `x:Column` name; `joinByPosition` is the
  loop before that fix).  `tbl` is the authors table in whatever order the writer's hash set gave.

  Tie to the code on every run: the `cmt` request family (`harness/src/c06cmt.rs`, `Umya/Driver/C06Comment.lean`):
  the real `comments{n}.xml` and `vmlDrawing{n}.vml` of a saved workbook, lexed by the independent XML reader,
  are tree-equal (modelled slice) to `writeComments` / `writeVml` of the values set through the public API,
  and `joinShapes (readComments …) (readVml …)` of the real parts equals the reloaded getters.
-/
import Umya.Lemmas.AnnotComment
import Umya.Lemmas.XmlChannel
import Umya.Lemmas.CellDecode
import Umya.Thm.C03
import Umya.Thm.C17
namespace Umya.Thm.C06
open Umya.Spec.Xml (Node Attr)
open Umya.AnnotComment
open Umya.AnnotView (Coord)

/-! ### text -/

/-- The character channel under the text codec: for every text `t`, what `write_text_node` emits is
    delivered by an XML reader as exactly the child list `txt t` the tree model uses (no child for the
    empty text), and the library's `unescape_text` returns `t` — blanks at the ends, line breaks, carriage
    returns and XML specials included (`C02_text_channel`, `C03_text` composed).  The `<t>` element of the
    model is the `<t>` element proved for shared strings (`Umya.CellNode.tElem`). -/
theorem C06_comment_text_channel (t : List Char) :
    Umya.CellNode.charData (Umya.Xml.escape t) = some (txt t) ∧
    Umya.XmlEsc.textRead (Umya.Xml.escape t) = some t ∧
    writeT t = Umya.CellNode.tElem t := by
  refine ⟨?_, Umya.Thm.C03.C03_text _ _ (Umya.XmlChannel.textValue_escape t), rfl⟩
  simpa [Umya.CellNode.txt, txt] using Umya.CellNode.charData_escape t

/-- **Comment text.**  Every rich text — any number of runs, each with any text (empty, blanks at either
    end: `xml:space="preserve"` is then written, which the untrimmed comments reader does not even need)
    and with or without run properties — reads back as the same runs in the same order; in particular
    every plain text (`set_text_string`). -/
theorem C06_comment_text_codec (t : CommentText) (h : ∀ r ∈ t, r.WF) :
    readText (writeText t) = t ∧
    (∀ s : List Char, readText (writeText (CommentText.plain s)) = CommentText.plain s) := by
  refine ⟨readText_writeText t h, fun s => readText_writeText _ ?_⟩
  intro r hr
  simp only [CommentText.plain, List.mem_singleton] at hr
  subst hr
  simp [Run.WF]

def exRpr : Node := .elem "rPr".toList [] [.elem ['b'] [] [], .elem "sz".toList [⟨"val".toList, "9".toList⟩] []]

/-- non-vacuity: three runs (bold / plain with blanks at both ends and a line break / empty); the blanks
    make the writer add `xml:space` -/
example : readText (writeText [⟨"R&D <1>".toList, some exRpr⟩, ⟨"  two\n lines ".toList, none⟩, ⟨[], none⟩])
      = [⟨"R&D <1>".toList, some exRpr⟩, ⟨"  two\n lines ".toList, none⟩, ⟨[], none⟩] ∧
    writeT "  two\n lines ".toList = .elem ['t'] [⟨"xml:space".toList, "preserve".toList⟩] [.text "  two\n lines ".toList] ∧
    writeT [] = .elem ['t'] [] [] := by
  refine ⟨(C06_comment_text_codec _ (by decide)).1, by decide, by decide⟩

/-! ### order -/

/-- **Both writers emit in list order.**  The i-th `<comment>` element of the comments part is the i-th
    comment of the sheet's list and the i-th `v:shape` of the VML part (id 1025 + i) is the shape of that
    same comment, with `x:Row` / `x:Column` naming that comment's cell (`Comment.writtenShape`): insertion order
    in both parts, nothing sorted, for any number of comments. -/
theorem C06_comment_vml_order (tbl : List (List Char)) (cs : List Comment) (l : List Node)
    (h : writeCommentList tbl cs = some l) (i : Nat) :
    l[i]? = (cs[i]?).bind (writeComment tbl) ∧
    (shapeNodes (writeVml cs))[i]? = (cs[i]?).map (fun c => shapeElem (1025 + i) c.writtenShape) := by
  refine ⟨writeCommentList_order tbl cs l h i, ?_⟩
  rw [shapeNodes_writeVml]
  exact shapeElems_order 1025 cs i

/-! ### round trip -/

/-- **Comments round trip.**  For ANY list of comments (any number, any cells — adjacent or not, distinct or
    not —, any insertion order, any texts, authors, anchors, hidden / visible mixes, shapes with or without
    `x:Row` / `x:Column`, with targets that name the comment's cell or another one) that is well formed
    (`WF`: the Rust field ranges, authors in the table, the cell a cell), saving and reloading returns the same
    list in the same order up to `norm`: every comment comes back with its own shape, whose `x:Row` / `x:Column`
    name the comment's cell. -/
theorem C06_comment_roundtrip (tbl : List (List Char)) (cs : List Comment) (h : WF tbl cs) :
    reload tbl cs = some (cs.map Comment.norm) := by
  obtain ⟨n, h1, h2⟩ := readComments_write tbl cs h
  have h3 := readVml_write cs (fun c hc => writtenShape_WF c (h.2 c hc).1 (h.2 c hc).2.2.2.2)
  have hv := written_valid cs (fun c hc => ⟨(h.2 c hc).1.1, (h.2 c hc).2.1⟩)
  simp only [reload, h1, h2, h3, joinShapes_valid _ _ hv, written_all_notes, zipShapes_written]

/-- `norm` only sets the cell the shape names (`x:Row` / `x:Column`, zero-based) to the comment's own cell:
    cell, author, text, style, anchor, visibility and the two flags are untouched; for a comment whose shape
    already names its cell (what `new_comment` builds) `norm` changes nothing; `norm` is idempotent. -/
theorem C06_comment_norm (c : Comment) :
    c.norm.cell = c.cell ∧ c.norm.author = c.author ∧ c.norm.text = c.text ∧ c.norm.shape.anchor = c.shape.anchor ∧
    c.norm.shape.style = c.shape.style ∧ c.norm.shape.visible = c.shape.visible ∧
    c.norm.shape.moveWithCells = c.shape.moveWithCells ∧ c.norm.shape.sizeWithCells = c.shape.sizeWithCells ∧
    c.norm.shape.row = some (some (c.cell.row - 1)) ∧ c.norm.shape.col = some (some (c.cell.col - 1)) ∧
    (c.shape.row = some (some (c.cell.row - 1)) → c.shape.col = some (some (c.cell.col - 1)) → c.norm = c) ∧
    c.norm.norm = c.norm := by
  refine ⟨rfl, rfl, rfl, rfl, rfl, rfl, rfl, rfl, rfl, rfl, ?_, rfl⟩
  intro hr hc
  obtain ⟨cell, a, t, ⟨st, mv, sz, an, rw, cl, vs⟩⟩ := c
  simp only at hr hc
  subst hr hc
  rfl

/-- **No comment moves, swaps or is duplicated.**  After save and reload there are as many comments as
    before, on the same cells in the same order, and the comment found on cell `k` is the comment that was
    on cell `k` — its own author, text, style, anchor and visibility (`C06_comment_norm`). -/
theorem C06_comment_no_swap (tbl : List (List Char)) (cs : List Comment) (h : WF tbl cs) :
    ∃ back, reload tbl cs = some back ∧ back.length = cs.length ∧ back.map (·.cell) = cs.map (·.cell) ∧
      ((cs.map (·.cell)).Nodup → (back.map (·.cell)).Nodup) ∧
      ∀ k c, lookup cs k = some c → lookup back k = some c.norm := by
  have hcells : (cs.map Comment.norm).map (·.cell) = cs.map (·.cell) := by
    rw [List.map_map]; rfl
  refine ⟨cs.map Comment.norm, C06_comment_roundtrip tbl cs h, by simp, hcells, ?_, ?_⟩
  · intro hn; rw [hcells]; exact hn
  · intro k c hk
    simp only [lookup] at hk ⊢
    rw [List.find?_map]
    have : ((fun c : Comment => decide (c.cell = k)) ∘ Comment.norm) = fun c : Comment => decide (c.cell = k) := by
      funext c; rfl
    rw [this, hk]; rfl

/-! non-vacuity: four comments inserted out of order on scattered cells (D9, A1, XFD1048576, B40): one
    rich with blanks at the ends, one with the empty author and a visible shape, one hidden via its style with
    valueless row / column holders, anchors explicit and default; the table in an order of its own -/

def exC1 : Comment := { cell := ⟨4, 9, false, false⟩, author := "Ann".toList, text := CommentText.plain " hi <&> \n".toList, shape := { style := some "position:absolute;visibility:hidden".toList, anchor := ⟨4, 15, 7, 8, 5, 71, 12, 15⟩, row := some (some 8), col := some (some 3), moveWithCells := some none, sizeWithCells := some none } }
def exC2 : Comment := { cell := ⟨1, 1, false, false⟩, author := [], text := [⟨"a".toList, some exRpr⟩, ⟨" b".toList, none⟩, ⟨[], none⟩], shape := { style := some "visibility:visible".toList, anchor := ⟨1, 15, 1, 8, 2, 71, 4, 15⟩, row := some (some 0), col := some (some 0), visible := some none } }
def exC3 : Comment := { cell := ⟨16384, 1048576, false, false⟩, author := "Bob".toList, text := [], shape := { anchor := ⟨0, 0, 0, 0, 4294967295, 0, 0, 0⟩, row := some none, col := some none, visible := some (some false) } }
def exC4 : Comment := { cell := ⟨2, 40, false, false⟩, author := "Ann".toList, text := CommentText.plain "x".toList, shape := { anchor := ⟨2, 15, 38, 8, 3, 71, 43, 15⟩, row := some (some 39), col := some (some 1), visible := some (some true) } }
def exTbl : List (List Char) := ["Bob".toList, [], "Ann".toList]

example : WF exTbl [exC1, exC2, exC3, exC4] ∧ reload exTbl [exC1, exC2, exC3, exC4] = some [exC1, exC2, exC3.norm, exC4] ∧
    exC3.norm.shape.col = some (some 16383) ∧ lookup [exC1, exC2, exC3, exC4] ⟨1, 1, false, false⟩ = some exC2 := by
  have h : WF exTbl [exC1, exC2, exC3, exC4] := by decide
  refine ⟨h, ?_, by decide, by decide⟩
  rw [C06_comment_roundtrip _ _ h]
  decide

/-! ### comments built without `new_comment`, comments moved after `new_comment` (were outside `WF` before
    fixes b524a98a / 26940198: the refutation `C06_comment_no_column_target_fails` is retired) -/

/-- A comment built WITHOUT `Comment::new_comment` (`Comment::default()` + coordinate) has no `x:Column` in its
    shape.  Before fix 26940198 the VML reader took its shape for an OLE-object shape: after reload the comment
    on A1 carried the anchor and style of the comment on C3 and C3 was left with the default shape.  Now the
    writer names the comment's cell in every shape and both comments come back with their own shapes (the
    first with `x:Row` 0 / `x:Column` 0).  Replayed on the implementation by `c06 reset cmtw no-column-target`. -/
theorem C06_comment_no_column_target :
    let a : Comment := { cell := ⟨1, 1, false, false⟩, author := "Ann".toList, text := CommentText.plain "first".toList }
    let b : Comment := { cell := ⟨3, 3, false, false⟩, author := "Ann".toList, text := CommentText.plain "second".toList, shape := { style := some "visibility:hidden".toList, anchor := ⟨3, 15, 1, 8, 4, 71, 5, 15⟩, row := some (some 2), col := some (some 2) } }
    reload ["Ann".toList] [a, b] = some [{ a with shape := { row := some (some 0), col := some (some 0) } }, b] := by
  intro a b
  rw [C06_comment_roundtrip _ _ (by decide)]
  decide

/-- A comment created on A1 and then moved to C3 through `get_coordinate_mut` (its shape still says row 0 /
    column 0), next to a comment that IS on A1: each comes back with its own shape — the moved one's anchor
    stays with the moved one —, the stale target replaced by the cell.  Replayed by `c06 reset cmtw stale-target`. -/
example :
    let a : Comment := { cell := ⟨3, 3, false, false⟩, author := "Ann".toList, text := CommentText.plain "moved".toList, shape := { anchor := ⟨1, 15, 0, 8, 2, 71, 4, 15⟩, row := some (some 0), col := some (some 0) } }
    let b : Comment := { cell := ⟨1, 1, false, false⟩, author := "Ann".toList, text := CommentText.plain "stays".toList, shape := { anchor := ⟨7, 7, 7, 7, 7, 7, 7, 7⟩, row := some (some 0), col := some (some 0) } }
    reload ["Ann".toList] [a, b] = some [{ a with shape := { a.shape with row := some (some 2), col := some (some 2) } }, b] := by
  intro a b
  rw [C06_comment_roundtrip _ _ (by decide)]
  decide

/-! ### loaded files -/

/-- **Join by cell.**  For ANY comments on distinct cells (as the comments part gave them) and ANY sequence of
    shapes (as the VML part gave them) whose note shapes — those with an `x:Column` —, in whatever order
    (a permutation: Excel does not keep `commentList` order), name exactly the cells of the comments, with any
    other shapes (buttons, form controls, pictures) anywhere between them: the reader's loop computes the join
    by cell (`joinByCell`), no comment is lost, duplicated or re-ordered, and every comment ends up with a
    shape of the part that is a note shape and names the comment's own cell. -/
theorem C06_comment_join_by_cell (cs : List Comment) (ss : List Shape)
    (hd : (cs.map Comment.pos).Nodup)
    (hp : ((ss.filter (·.col.isSome)).map Shape.cell?).Perm (cs.map fun c => some c.pos)) :
    joinShapes cs ss = joinByCell cs ss ∧
    (joinShapes cs ss).map (·.cell) = cs.map (·.cell) ∧
    ∀ c ∈ joinShapes cs ss, c.shape ∈ ss ∧ c.shape.col.isSome = true ∧ c.shape.cell? = some c.pos := by
  have hsome : (cs.map fun c => some c.pos) = (cs.map Comment.pos).map some := by rw [List.map_map]; rfl
  have h3 : ((ss.filter (·.col.isSome)).map Shape.cell?).Nodup := by
    rw [hp.nodup_iff, hsome]; exact nodup_map_some _ hd
  have h2 : ∀ s ∈ ss, s.col.isSome = true → ∃ k ∈ cs.map Comment.pos, s.names k = true := by
    intro s hs hn
    have hm : s.cell? ∈ (ss.filter (·.col.isSome)).map Shape.cell? := List.mem_map.2 ⟨s, List.mem_filter.2 ⟨hs, hn⟩, rfl⟩
    obtain ⟨c, hc, e⟩ := List.mem_map.1 (hp.mem_iff.1 hm)
    exact ⟨c.pos, List.mem_map.2 ⟨c, hc, rfl⟩, by simp [Shape.names, e]⟩
  have hj : joinShapes cs ss = joinByCell cs ss := by
    rw [joinShapes, joinByCell_eq]
    exact joinGo_byCell _ hd ss cs 0 rfl h2 h3
  refine ⟨hj, joinGo_cell cs 0 ss, ?_⟩
  rw [hj, joinByCell_eq]
  intro x hx
  obtain ⟨c, hc, e⟩ := List.mem_map.1 hx
  subst e
  have hm : some c.pos ∈ (ss.filter (·.col.isSome)).map Shape.cell? := hp.mem_iff.2 (List.mem_map.2 ⟨c, hc, rfl⟩)
  obtain ⟨s, hs, e⟩ := List.mem_map.1 hm
  obtain ⟨hs1, hs2⟩ := List.mem_filter.1 hs
  unfold byCell
  cases hf : ss.find? (fun s => s.col.isSome && s.names c.pos) with
  | none =>
    have := List.find?_eq_none.1 hf s hs1
    simp [Shape.names, e, hs2] at this
  | some s' =>
    have hmem := List.mem_of_find?_eq_some hf
    have hprop := List.find?_some hf
    simp only [Bool.and_eq_true, Shape.names, decide_eq_true_eq] at hprop
    exact ⟨hmem, hprop.1, hprop.2⟩

def exNote (col row : Nat) (left : Nat) : Shape := { anchor := ⟨left, 0, 0, 0, 0, 0, 0, 0⟩, row := some (some row), col := some (some col) }
def exButton : Shape := { anchor := ⟨9, 9, 9, 9, 9, 9, 9, 9⟩ }
def exRead (col row : Nat) : Comment := { cell := ⟨col, row, false, false⟩, author := "A".toList }

/-- non-vacuity, the shape of corpus file aaa.xlsx: `commentList` F7, C20; note shapes `x:Row` 19 `x:Column` 2,
    then `x:Row` 6 `x:Column` 5 (a button before and between them): each comment takes the shape that names its
    cell, where the loop before fix b524a98a swapped them -/
example :
    (([exRead 6 7, exRead 3 20].map Comment.pos).Nodup) ∧
    ((([exButton, exNote 2 19 11, exButton, exNote 5 6 22].filter (·.col.isSome)).map Shape.cell?).Perm
      ([exRead 6 7, exRead 3 20].map fun c => some c.pos)) ∧
    joinShapes [exRead 6 7, exRead 3 20] [exButton, exNote 2 19 11, exButton, exNote 5 6 22]
      = [{ exRead 6 7 with shape := exNote 5 6 22 }, { exRead 3 20 with shape := exNote 2 19 11 }] ∧
    joinByPosition [exRead 6 7, exRead 3 20] [exButton, exNote 2 19 11, exButton, exNote 5 6 22]
      = [{ exRead 6 7 with shape := exNote 2 19 11 }, { exRead 3 20 with shape := exNote 5 6 22 }] := by
  refine ⟨by decide, ?_, by decide, by decide⟩
  exact List.Perm.swap _ _ _

/-- three comments, the note shapes rotated: an instance of the theorem -/
example : joinShapes [exRead 1 1, exRead 2 2, exRead 3 3] [exNote 1 1 22, exButton, exNote 2 2 33, exNote 0 0 11]
      = [{ exRead 1 1 with shape := exNote 0 0 11 }, { exRead 2 2 with shape := exNote 1 1 22 }, { exRead 3 3 with shape := exNote 2 2 33 }] := by
  decide

/-- **The fallback is the zip of the note shapes.**  For ANY comments and ANY sequence of shapes the loop keeps
    every comment on its cell in its place (nothing lost, duplicated or re-ordered), and when no shape names the
    cell of a comment (note shapes without `x:Row`, or naming cells that carry no comment) it pairs the k-th comment
    with the k-th shape that has an `x:Column` — the rule before fix b524a98a; comments beyond the last such shape
    keep the default shape, surplus shapes are dropped. -/
theorem C06_comment_join_is_zip (cs : List Comment) (ss : List Shape) :
    (joinShapes cs ss).map (·.cell) = cs.map (·.cell) ∧
    ((∀ s ∈ ss, ∀ c ∈ cs, s.names c.pos = false) →
      joinShapes cs ss = zipShapes cs (ss.filter fun s => s.col.isSome) ∧ joinShapes cs ss = joinByPosition cs ss) := by
  refine ⟨joinGo_cell cs 0 ss, fun h => ⟨joinShapes_fallback cs ss h, ?_⟩⟩
  rw [joinShapes_fallback cs ss h, joinByPosition_zip]

/-- non-vacuity: two note shapes without `x:Row` (and a button between them) go to the comments by position -/
example :
    let n1 : Shape := { anchor := ⟨1, 0, 0, 0, 0, 0, 0, 0⟩, col := some (some 7) }
    let n2 : Shape := { anchor := ⟨2, 0, 0, 0, 0, 0, 0, 0⟩, col := some (some 0) }
    (∀ s ∈ [n1, exButton, n2], ∀ c ∈ [exRead 1 1, exRead 2 2], s.names c.pos = false) ∧
    joinShapes [exRead 1 1, exRead 2 2] [n1, exButton, n2] = [{ exRead 1 1 with shape := n1 }, { exRead 2 2 with shape := n2 }] := by
  decide

/-- **Parts in `commentList` order.**  Under `validCommentParts` — the shapes with an `x:Column`, in document
    order, name the cells of `commentList` in order (what the library writes); any other shapes may stand between
    them; the cells need NOT be distinct — the loop is the zip of the comments with the note shapes and every
    comment ends up with a shape that names the comment's own cell. -/
theorem C06_comment_join_valid (cs : List Comment) (ss : List Shape) (h : validCommentParts cs ss) :
    joinShapes cs ss = zipShapes cs (ss.filter fun s => s.col.isSome) ∧
    ∀ c ∈ joinShapes cs ss, c.shape.cell? = some c.pos := by
  refine ⟨joinShapes_valid cs ss h, ?_⟩
  rw [joinShapes_valid cs ss h]
  unfold validCommentParts at h
  generalize ss.filter (fun s => s.col.isSome) = ns at h
  induction cs generalizing ns with
  | nil => intro c hc; simp [zipShapes_nil_left] at hc
  | cons c r ih =>
    cases ns with
    | nil => simp at h
    | cons s q =>
      simp only [List.map_cons, List.cons.injEq] at h
      intro x hx
      simp only [zipShapes, List.mem_cons] at hx
      rcases hx with e | e
      · subst e; exact h.1
      · exact ih q h.2 x e

/-- inside validity: a button between the two note shapes does not disturb the pairing; two comments on ONE
    cell (not a valid sheet, but the library's own output for such a list) keep their own shapes -/
example : validCommentParts [exRead 1 1, exRead 2 2] [exButton, exNote 0 0 11, exButton, exNote 1 1 22] ∧
    joinShapes [exRead 1 1, exRead 2 2] [exButton, exNote 0 0 11, exButton, exNote 1 1 22]
      = [{ exRead 1 1 with shape := exNote 0 0 11 }, { exRead 2 2 with shape := exNote 1 1 22 }] ∧
    validCommentParts [exRead 1 1, exRead 1 1] [exNote 0 0 11, exNote 0 0 22] ∧
    joinShapes [exRead 1 1, exRead 1 1] [exNote 0 0 11, exNote 0 0 22]
      = [{ exRead 1 1 with shape := exNote 0 0 11 }, { exRead 1 1 with shape := exNote 0 0 22 }] := by
  refine ⟨by decide, by decide, by decide, by decide⟩

/-! ### auto filter -/

/-- **Auto filter.**  The struct holds only the range; the `<autoFilter ref>` element written for it reads back
    as the same range — all four shapes, every column up to ZZZ, every `u32` row, any locks (the C17 hypotheses).
    At the level of the element tree; the attribute's character channel is `C06_view_attr_channel`, the raw
    `ref` text is tied on every run by the `c06 range` lines.  Filter columns / criteria are not held by the
    library and are outside this theorem. -/
theorem C06_auto_filter_codec (ρ : Umya.Coord.Range) (hs : Umya.Thm.C17.Range.IsShape ρ) (hb : Umya.Thm.C17.Range.InBounds ρ) :
    readAutoFilter (writeAutoFilter ρ) = some (.ok ρ) := by
  simp [readAutoFilter, writeAutoFilter, Umya.AnnotCodec.getAttr, Umya.Thm.C17.C17_range ρ hs hb]

example : readAutoFilter (writeAutoFilter ⟨some ⟨2, false⟩, some ⟨20, true⟩, some ⟨16384, false⟩, some ⟨1048576, false⟩⟩)
    = some (.ok ⟨some ⟨2, false⟩, some ⟨20, true⟩, some ⟨16384, false⟩, some ⟨1048576, false⟩⟩) :=
  C06_auto_filter_codec _ (by right; left; simp)
    (by refine ⟨?_, ?_, ?_, ?_⟩ <;> intro x hx <;> injection hx with hx <;> subst hx <;> simp)

end Umya.Thm.C06
