/-
  C13 — Saving to a path is all-or-nothing under I/O failure.

  Property theorems only; the model is `Umya/Model/Fs.lean` (file system, fault plans, `BufWriter`,
  the save protocols of writer/xlsx.rs, writer/csv.rs, helper/crypt.rs AS FIXED), helper lemmas
  are in `Umya/Lemmas/Fs.lean`.

  What is proved is about the step-level protocol model: a save is a sequence of system calls
  (create, write, rename, remove) on a finite-map file system; a fault plan chooses, for every
  call, failure / success / (for writes) how many bytes are accepted.  An "observer" sees one of
  the file-system states of the history.  Not in the model (assumptions, see tools/props.d/C13.py):
  atomicity of rename(2) itself, durability after a crash, process kills between two calls of the
  history are covered only in the sense that every state of the history is one the observer may
  see; `ErrorKind::Interrupted` retries; directories/permissions; seeks of the compound-file writer.

  Hypotheses common to the path theorems:
    `hd`  the destination is a regular file holding `old`;
    `ht`  the temp name `<dest>tmp` is not a symlink (absent, a regular file — e.g. a stale temp
          file of an earlier crash — or a directory).  The harness' fault-injection trick of
          planting a symlink at the temp name is executed by the same model in the driver, but is
          outside the theorems.
-/
import Umya.Lemmas.Fs
namespace Umya.Thm.C13
open Umya.Fs

/-! ### the protocols meet `SaveSpec` -/

theorem stable_init {fs : Fs} {d : Path} {o : Option Node} (h : get fs d = o) :
    Stable d o (St.init fs) := by
  intro s hs
  simp only [St.states, St.init, List.mem_cons, List.not_mem_nil, or_false] at hs
  subst hs; exact h

theorem savePath_spec (φ : Fault) (data old : Bytes) (dest : Path) (fs : Fs)
    (hd : get fs dest = some (.file old))
    (ht : ∀ t, get fs (tmpOf dest) ≠ some (.symlink t)) :
    SaveSpec dest old data (savePath φ data dest (St.init fs)) := by
  have hs0 : Stable dest (some (.file old)) (St.init fs) := stable_init hd
  unfold savePath
  rcases sysCreate_cases φ (tmpOf dest) (St.init fs) ht with e | e
  · rw [e]; exact Or.inl ⟨rfl, hs0⟩
  · rw [e]
    have hs1 : Stable dest (some (.file old)) ((St.init fs).step (set (St.init fs).cur (tmpOf dest) (.file []))) :=
      hs0.step (by rw [get_set_ne _ _ (tmpOf_ne dest)]; exact hd)
    have hf1 : get ((St.init fs).step (set (St.init fs).cur (tmpOf dest) (.file []))).cur (tmpOf dest)
        = some (.file []) := by simp only [St.step, get_set_same]
    have w := writeTmp_spec φ (tmpOf dest) dest _ (tmpOf_ne dest) data _ hf1 hs1
    exact finish_spec φ dest old data _ _ w.1 w.2

theorem savePw_spec (φ : Fault) (chunks : List Bytes) (old : Bytes) (dest : Path) (fs : Fs)
    (hd : get fs dest = some (.file old))
    (ht : ∀ t, get fs (tmpOf dest) ≠ some (.symlink t)) :
    SaveSpec dest old chunks.flatten (savePw φ chunks dest (St.init fs)) := by
  have hs0 : Stable dest (some (.file old)) (St.init fs) := stable_init hd
  unfold savePw
  rcases sysCreate_cases φ (tmpOf dest) (St.init fs) ht with e | e
  · rw [e]; exact finish_spec φ dest old _ _ _ hs0 (Or.inr rfl)
  · rw [e]
    have hs1 : Stable dest (some (.file old)) ((St.init fs).step (set (St.init fs).cur (tmpOf dest) (.file []))) :=
      hs0.step (by rw [get_set_ne _ _ (tmpOf_ne dest)]; exact hd)
    have hf1 : get ((St.init fs).step (set (St.init fs).cur (tmpOf dest) (.file []))).cur (tmpOf dest)
        = some (.file []) := by simp only [St.step, get_set_same]
    have w := writeChunks_spec φ (tmpOf dest) dest _ (tmpOf_ne dest) chunks _ [] hf1 hs1
    refine finish_spec φ dest old _ _ _ w.1 ?_
    simpa using w.2

/-! ### C13: all or nothing -/

/-- **All-or-nothing** for `xlsx::write`, `xlsx::write_light`, `csv::write` (one protocol, the
    complete output `data` is built in memory first): for every output (shorter or longer than
    the 8 KiB buffer), every file system in which the destination holds `old`, and every fault
    plan, the call returns an error and the destination still holds `old`, or it returns Ok and the
    destination holds exactly `data`.  In particular it neither panics nor diverges. -/
theorem C13_all_or_nothing (φ : Fault) (data old : Bytes) (dest : Path) (fs : Fs)
    (hd : get fs dest = some (.file old))
    (ht : ∀ t, get fs (tmpOf dest) ≠ some (.symlink t)) :
    ((savePath φ data dest (St.init fs)).2 = .err ∧
        get (savePath φ data dest (St.init fs)).1.cur dest = some (.file old)) ∨
    ((savePath φ data dest (St.init fs)).2 = .ok ∧
        get (savePath φ data dest (St.init fs)).1.cur dest = some (.file data)) := by
  rcases savePath_spec φ data old dest fs hd ht with ⟨r, s⟩ | ⟨r, c, _⟩
  · exact Or.inl ⟨r, s.cur⟩
  · exact Or.inr ⟨r, c⟩

/-- non-vacuity / both outcomes occur: a 3-byte output, writes failing from byte 2 (with a
    partial write), a stale temp file present: error, destination untouched, temp removed … -/
example :
    let fs : Fs := [(['a', '.', 'x'], .file [9]), (tmpOf ['a', '.', 'x'], .file [7, 7])]
    let out := savePath { noFault with write := limitPolicy 2 true } [1, 2, 3] ['a', '.', 'x'] (St.init fs)
    out.2 = .err ∧ get out.1.cur ['a', '.', 'x'] = some (.file [9]) ∧
      get out.1.cur (tmpOf ['a', '.', 'x']) = none := by decide

/-- … and without a fault: Ok, destination holds the new bytes, temp gone. -/
example :
    let fs : Fs := [(['a', '.', 'x'], .file [9])]
    let out := savePath noFault [1, 2, 3] ['a', '.', 'x'] (St.init fs)
    out.2 = .ok ∧ get out.1.cur ['a', '.', 'x'] = some (.file [1, 2, 3]) ∧
      get out.1.cur (tmpOf ['a', '.', 'x']) = none ∧
      get fs ['a', '.', 'x'] = some (.file [9]) ∧ get fs (tmpOf ['a', '.', 'x']) = none := by decide

/-- All-or-nothing for `write_with_password` / `write_with_password_light` (as fixed).  The
    compound-file writer is modelled as an arbitrary sequence of `write_all` calls `chunks` on the
    temp file, every one of which is checked; the complete new file is their concatenation. -/
theorem C13_all_or_nothing_password (φ : Fault) (chunks : List Bytes) (old : Bytes) (dest : Path)
    (fs : Fs) (hd : get fs dest = some (.file old))
    (ht : ∀ t, get fs (tmpOf dest) ≠ some (.symlink t)) :
    ((savePw φ chunks dest (St.init fs)).2 = .err ∧
        get (savePw φ chunks dest (St.init fs)).1.cur dest = some (.file old)) ∨
    ((savePw φ chunks dest (St.init fs)).2 = .ok ∧
        get (savePw φ chunks dest (St.init fs)).1.cur dest = some (.file chunks.flatten)) := by
  rcases savePw_spec φ chunks old dest fs hd ht with ⟨r, s⟩ | ⟨r, c, _⟩
  · exact Or.inl ⟨r, s.cur⟩
  · exact Or.inr ⟨r, c⟩

example :
    let fs : Fs := [(['a', '.', 'x'], .file [9])]
    let out := savePw { noFault with write := callPolicy 0 (some 1) false } [[1, 2], [3]] ['a', '.', 'x'] (St.init fs)
    out.2 = .err ∧ get out.1.cur ['a', '.', 'x'] = some (.file [9]) ∧
      get out.1.cur (tmpOf ['a', '.', 'x']) = none := by decide

/-- All-or-nothing for `set_password` (as fixed: temp + rename).  `enc` is the container encoder
    (outside the model); the source may be the destination itself. -/
theorem C13_all_or_nothing_set_password (φ : Fault) (enc : Bytes → List Bytes) (old : Bytes)
    (src dest : Path) (fs : Fs) (hd : get fs dest = some (.file old))
    (ht : ∀ t, get fs (tmpOf dest) ≠ some (.symlink t)) :
    ((setPw φ enc src dest (St.init fs)).2 = .err ∧
        get (setPw φ enc src dest (St.init fs)).1.cur dest = some (.file old)) ∨
    (∃ b, content fs src = some b ∧ (setPw φ enc src dest (St.init fs)).2 = .ok ∧
        get (setPw φ enc src dest (St.init fs)).1.cur dest = some (.file (enc b).flatten)) := by
  unfold setPw
  cases hc : content (St.init fs).cur src with
  | none => exact Or.inl ⟨rfl, hd⟩
  | some b =>
    rcases C13_all_or_nothing_password φ (enc b) old dest fs hd ht with h | h
    · exact Or.inl h
    · exact Or.inr ⟨b, hc, h⟩

example :
    let fs : Fs := [(['a', '.', 'x'], .file [9])]
    let out := setPw noFault (fun b => [[0], b]) ['a', '.', 'x'] ['a', '.', 'x'] (St.init fs)
    out.2 = .ok ∧ get out.1.cur ['a', '.', 'x'] = some (.file [0, 9]) := by decide

/-! ### C13: what an observer sees -/

/-- **Observer**: in every file-system state of the save's history (after each system call) the
    destination holds the complete old or the complete new file. -/
theorem C13_observer (φ : Fault) (data old : Bytes) (dest : Path) (fs : Fs)
    (hd : get fs dest = some (.file old))
    (ht : ∀ t, get fs (tmpOf dest) ≠ some (.symlink t)) :
    ∀ s ∈ (savePath φ data dest (St.init fs)).1.states,
      get s dest = some (.file old) ∨ get s dest = some (.file data) := by
  intro s hs
  rcases savePath_spec φ data old dest fs hd ht with ⟨_, st⟩ | ⟨_, c, hh⟩
  · exact Or.inl (st s hs)
  · simp only [St.states, List.mem_cons] at hs
    rcases hs with rfl | hs
    · exact Or.inr c
    · exact Or.inl (hh s hs)

/-- The destination changes only by the final rename: unless the call returns Ok every state has
    the old file; if it returns Ok the last state has the new file and every earlier one the old. -/
theorem C13_observer_only_rename (φ : Fault) (data old : Bytes) (dest : Path) (fs : Fs)
    (hd : get fs dest = some (.file old))
    (ht : ∀ t, get fs (tmpOf dest) ≠ some (.symlink t)) :
    ((savePath φ data dest (St.init fs)).2 = .err ∧
        ∀ s ∈ (savePath φ data dest (St.init fs)).1.states, get s dest = some (.file old)) ∨
    ((savePath φ data dest (St.init fs)).2 = .ok ∧
        get (savePath φ data dest (St.init fs)).1.cur dest = some (.file data) ∧
        ∀ s ∈ (savePath φ data dest (St.init fs)).1.hist, get s dest = some (.file old)) :=
  savePath_spec φ data old dest fs hd ht

/-- the same for the password-protected saves -/
theorem C13_observer_password (φ : Fault) (chunks : List Bytes) (old : Bytes) (dest : Path)
    (fs : Fs) (hd : get fs dest = some (.file old))
    (ht : ∀ t, get fs (tmpOf dest) ≠ some (.symlink t)) :
    ∀ s ∈ (savePw φ chunks dest (St.init fs)).1.states,
      get s dest = some (.file old) ∨ get s dest = some (.file chunks.flatten) := by
  intro s hs
  rcases savePw_spec φ chunks old dest fs hd ht with ⟨_, st⟩ | ⟨_, c, hh⟩
  · exact Or.inl (st s hs)
  · simp only [St.states, List.mem_cons] at hs
    rcases hs with rfl | hs
    · exact Or.inr c
    · exact Or.inl (hh s hs)

/-- non-vacuity: a history with several states, the last one new, the earlier ones old -/
example :
    let fs : Fs := [(['a', '.', 'x'], .file [9])]
    let out := savePath { noFault with write := callPolicy 1 none false } [1, 2, 3] ['a', '.', 'x'] (St.init fs)
    out.2 = .ok ∧ out.1.states.length = 6 ∧
      out.1.states.map (fun s => get s ['a', '.', 'x']) =
        [some (.file [1, 2, 3]), some (.file [9]), some (.file [9]), some (.file [9]), some (.file [9]),
         some (.file [9])] := by decide

/-! ### C13: a destination that did not exist before (or is in any other non-directory state)

  The property's observer clause also covers a FRESH destination: "an observer reading the destination
  at any moment sees either the complete old or the complete new file" — with no old file, the observer
  sees no file at all or the complete new one, never an empty or partial one; a failed save leaves no
  file behind at the destination.  `o` is the state of the destination before the call: `none` (absent),
  a regular file, or a symlink; only a directory is excluded (rename onto it fails: `renamefail` case of
  the harness). -/

theorem savePath_spec_any (φ : Fault) (data : Bytes) (dest : Path) (fs : Fs) (o : Option Node)
    (hd : get fs dest = o) (hnd : o ≠ some .dir)
    (ht : ∀ t, get fs (tmpOf dest) ≠ some (.symlink t)) :
    SaveSpecAny dest o data (savePath φ data dest (St.init fs)) := by
  have hs0 : Stable dest o (St.init fs) := stable_init hd
  unfold savePath
  rcases sysCreate_cases φ (tmpOf dest) (St.init fs) ht with e | e
  · rw [e]; exact Or.inl ⟨rfl, hs0⟩
  · rw [e]
    have hs1 : Stable dest o ((St.init fs).step (set (St.init fs).cur (tmpOf dest) (.file []))) :=
      hs0.step (by rw [get_set_ne _ _ (tmpOf_ne dest)]; exact hd)
    have hf1 : get ((St.init fs).step (set (St.init fs).cur (tmpOf dest) (.file []))).cur (tmpOf dest)
        = some (.file []) := by simp only [St.step, get_set_same]
    have w := writeTmp_spec φ (tmpOf dest) dest _ (tmpOf_ne dest) data _ hf1 hs1
    exact finish_spec_any φ dest o hnd data _ _ w.1 w.2

theorem savePw_spec_any (φ : Fault) (chunks : List Bytes) (dest : Path) (fs : Fs) (o : Option Node)
    (hd : get fs dest = o) (hnd : o ≠ some .dir)
    (ht : ∀ t, get fs (tmpOf dest) ≠ some (.symlink t)) :
    SaveSpecAny dest o chunks.flatten (savePw φ chunks dest (St.init fs)) := by
  have hs0 : Stable dest o (St.init fs) := stable_init hd
  unfold savePw
  rcases sysCreate_cases φ (tmpOf dest) (St.init fs) ht with e | e
  · rw [e]; exact finish_spec_any φ dest o hnd _ _ _ hs0 (Or.inr rfl)
  · rw [e]
    have hs1 : Stable dest o ((St.init fs).step (set (St.init fs).cur (tmpOf dest) (.file []))) :=
      hs0.step (by rw [get_set_ne _ _ (tmpOf_ne dest)]; exact hd)
    have hf1 : get ((St.init fs).step (set (St.init fs).cur (tmpOf dest) (.file []))).cur (tmpOf dest)
        = some (.file []) := by simp only [St.step, get_set_same]
    have w := writeChunks_spec φ (tmpOf dest) dest _ (tmpOf_ne dest) chunks _ [] hf1 hs1
    refine finish_spec_any φ dest o hnd _ _ _ w.1 ?_
    simpa using w.2

/-- **All-or-nothing, fresh destination** (`xlsx::write`, `write_light`, `csv::write`): when the
    destination does not exist, the call returns an error and there is still no file at the destination,
    or it returns Ok and the destination holds exactly `data`. -/
theorem C13_all_or_nothing_fresh (φ : Fault) (data : Bytes) (dest : Path) (fs : Fs)
    (hd : get fs dest = none)
    (ht : ∀ t, get fs (tmpOf dest) ≠ some (.symlink t)) :
    ((savePath φ data dest (St.init fs)).2 = .err ∧
        get (savePath φ data dest (St.init fs)).1.cur dest = none) ∨
    ((savePath φ data dest (St.init fs)).2 = .ok ∧
        get (savePath φ data dest (St.init fs)).1.cur dest = some (.file data)) := by
  rcases savePath_spec_any φ data dest fs none hd (by simp) ht with ⟨r, st⟩ | ⟨r, c, _⟩
  · exact Or.inl ⟨r, st.cur⟩
  · exact Or.inr ⟨r, c⟩

/-- **Observer, fresh destination**: in EVERY file-system state of the history of a save to a path that
    did not exist, there is no file at the destination or the complete new file — never an empty or
    partly written one (the data goes to the temp name; the destination appears only by the rename). -/
theorem C13_observer_fresh (φ : Fault) (data : Bytes) (dest : Path) (fs : Fs)
    (hd : get fs dest = none)
    (ht : ∀ t, get fs (tmpOf dest) ≠ some (.symlink t)) :
    ∀ s ∈ (savePath φ data dest (St.init fs)).1.states,
      get s dest = none ∨ get s dest = some (.file data) := by
  intro s hs
  rcases savePath_spec_any φ data dest fs none hd (by simp) ht with ⟨_, st⟩ | ⟨_, c, hh⟩
  · exact Or.inl (st s hs)
  · simp only [St.states, List.mem_cons] at hs
    rcases hs with rfl | hs
    · exact Or.inr c
    · exact Or.inl (hh s hs)

/-- the same for `write_with_password(_light)` (and, through `setPw`, `set_password`) -/
theorem C13_observer_password_fresh (φ : Fault) (chunks : List Bytes) (dest : Path) (fs : Fs)
    (hd : get fs dest = none)
    (ht : ∀ t, get fs (tmpOf dest) ≠ some (.symlink t)) :
    ∀ s ∈ (savePw φ chunks dest (St.init fs)).1.states,
      get s dest = none ∨ get s dest = some (.file chunks.flatten) := by
  intro s hs
  rcases savePw_spec_any φ chunks dest fs none hd (by simp) ht with ⟨_, st⟩ | ⟨_, c, hh⟩
  · exact Or.inl (st s hs)
  · simp only [St.states, List.mem_cons] at hs
    rcases hs with rfl | hs
    · exact Or.inr c
    · exact Or.inl (hh s hs)

/-- **Any earlier state** (absent, regular file, symlink): the general form of `C13_observer` /
    `C13_observer_fresh`. -/
theorem C13_observer_any (φ : Fault) (data : Bytes) (dest : Path) (fs : Fs) (o : Option Node)
    (hd : get fs dest = o) (hnd : o ≠ some .dir)
    (ht : ∀ t, get fs (tmpOf dest) ≠ some (.symlink t)) :
    ∀ s ∈ (savePath φ data dest (St.init fs)).1.states,
      get s dest = o ∨ get s dest = some (.file data) := by
  intro s hs
  rcases savePath_spec_any φ data dest fs o hd hnd ht with ⟨_, st⟩ | ⟨_, c, hh⟩
  · exact Or.inl (st s hs)
  · simp only [St.states, List.mem_cons] at hs
    rcases hs with rfl | hs
    · exact Or.inr c
    · exact Or.inl (hh s hs)

/-- non-vacuity: a save to a fresh path whose second write fails: no file at the destination in any
    state, the temp file removed -/
example :
    let fs : Fs := [(['b', '.', 'x'], .file [7])]
    let out := savePath { noFault with write := callPolicy 1 (some 1) false } [1, 2, 3] ['a', '.', 'x'] (St.init fs)
    out.2 = .err ∧ out.1.states.map (fun s => get s ['a', '.', 'x']) = List.replicate out.1.states.length none ∧
      get out.1.cur (tmpOf ['a', '.', 'x']) = none := by decide

/-- non-vacuity: a fault-free save to a fresh path: absent, …, absent, new -/
example :
    let fs : Fs := []
    let out := savePath noFault [1, 2, 3] ['a', '.', 'x'] (St.init fs)
    out.2 = .ok ∧ out.1.states.map (fun s => get s ['a', '.', 'x']) = [some (.file [1, 2, 3]), none, none, none] := by decide

/-! ### C13: caller-supplied writer -/

/-- **Sink**: `write_writer` (xlsx, light xlsx, csv as fixed) on any sink — failing at any call,
    accepting any number of bytes per call — returns Ok with the sink holding the complete
    output, or an error with the sink holding a proper prefix of it. -/
theorem C13_sink (φ : Fault) (data : Bytes) :
    ((writeWriter φ data).res = .ok ∧ (writeWriter φ data).accepted = some data) ∨
    ((writeWriter φ data).res = .err ∧
        ∃ k, k < data.length ∧ (writeWriter φ data).accepted = some (data.take k)) := by
  have hne : sinkPath ≠ ([] : Path) := by decide
  have hs : Stable [] none (St.init [(sinkPath, .file [])]) := stable_init (by decide)
  have hf : get (St.init [(sinkPath, Node.file [])]).cur sinkPath = some (.file []) := by decide
  have w := writeAll_spec φ sinkPath [] none hne data.length data _ [] (Nat.le_refl _) hf hs
  unfold writeWriter
  rcases w.2 with ⟨r1, r2⟩ | ⟨r1, k, hk, r2⟩
  · left; simp only [r1, r2]; simp
  · right; refine ⟨by simp only [r1], k, hk, ?_⟩; simp only [r2]; simp

/-- … in particular it never panics (and never runs out of fuel). -/
theorem C13_sink_no_panic (φ : Fault) (data : Bytes) :
    (writeWriter φ data).res ≠ .panic ∧ (writeWriter φ data).res ≠ .diverge := by
  rcases C13_sink φ data with ⟨r, _⟩ | ⟨r, _⟩ <;> rw [r] <;> exact ⟨by decide, by decide⟩

example :
    let o := writeWriter { noFault with write := callPolicy 2 (some 1) false } [1, 2, 3]
    o.res = .err ∧ o.accepted = some [1, 2] ∧ o.calls = 2 := by decide

/-! ### the defects that were fixed -/

/-- The protocol as it was (no explicit flush: the `BufWriter` is dropped, which flushes and
    discards the error) is NOT all-or-nothing for outputs below the buffer capacity:
    3 bytes of output, every write failing — the call returns Ok and the empty temp file has been
    renamed over the destination. -/
theorem C13_unflushed_fails :
    ¬ ∀ (φ : Fault) (data old : Bytes) (dest : Path) (fs : Fs),
        get fs dest = some (.file old) →
        (∀ t, get fs (tmpOf dest) ≠ some (.symlink t)) →
        data.length < 8192 →
        ((savePathUnflushed φ data dest (St.init fs)).2 = .err ∧
            get (savePathUnflushed φ data dest (St.init fs)).1.cur dest = some (.file old)) ∨
        ((savePathUnflushed φ data dest (St.init fs)).2 = .ok ∧
            get (savePathUnflushed φ data dest (St.init fs)).1.cur dest = some (.file data)) := by
  intro h
  have hn : get [((['a', '.', 'x'] : Path), Node.file [9])] (tmpOf ['a', '.', 'x']) = none := by decide
  have := h { noFault with write := fun _ _ _ => .err } [1, 2, 3] [9] ['a', '.', 'x']
    [(['a', '.', 'x'], .file [9])] (by decide) (by intro t; rw [hn]; exact fun e => nomatch e) (by decide)
  revert this
  decide

/-- the witness, spelled out: Ok, and the destination is an empty file -/
example :
    let out := savePathUnflushed { noFault with write := fun _ _ _ => .err } [1, 2, 3] ['a', '.', 'x']
      (St.init [(['a', '.', 'x'], .file [9])])
    out.2 = .ok ∧ get out.1.cur ['a', '.', 'x'] = some (.file []) := by decide

/-- with the flush the same input yields an error and the old file -/
example :
    let out := savePath { noFault with write := fun _ _ _ => .err } [1, 2, 3] ['a', '.', 'x']
      (St.init [(['a', '.', 'x'], .file [9])])
    out.2 = .err ∧ get out.1.cur ['a', '.', 'x'] = some (.file [9]) := by decide

/-- `csv::write_writer` as it was (`write_all(..).unwrap()`) panics on a failing sink. -/
theorem C13_csv_unwrap_fails :
    ¬ ∀ (φ : Fault) (data : Bytes), (csvWriteWriterUnwrap φ data).res ≠ .panic := by
  intro h
  exact h { noFault with write := fun _ _ _ => .err } [1] (by decide)

end Umya.Thm.C13
