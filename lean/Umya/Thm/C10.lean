/-
  C10 — The cell store stays coherent under any history of operations.

  Model: `Umya/Model/Sheet.lean` (hash map keyed (row,col) + per-cell coordinate + two ordered
  indexes + row table + column list, and every operation of the property's quantifier).
  Helper lemmas: `Umya/Lemmas/{Sheet,Coherent,Coherent2,Coherent3,Observers}.lean`.
-/
import Umya.Lemmas.ShiftGen
import Umya.Lemmas.Observers
namespace Umya.Thm.C10
open Umya.Sheet Umya.Coord

/-- The freshly created sheet is coherent. -/
theorem C10_init : Coherent ({} : Sheet) := coherent_empty

/-- Every public operation of the quantifier (get_cell_mut / set value / set_cell / remove_cell /
    set_style / set_style_by_range / insert & remove rows & columns / move_range / copy_range /
    cleanup / copy_row_styling / copy_col_styling) preserves coherence whenever it returns. -/
theorem C10_step (s s' : Sheet) (op : Op) (h : Coherent s) (hs : step s op = .ok s') : Coherent s' :=
  step_coherent s s' op h hs

/-- Every state reachable from the empty sheet by ANY finite sequence of operations is coherent
    (induction over the operation list; no bound on its length or on the sheet). -/
theorem C10_reachable (ops : List Op) (s' : Sheet) (hs : run {} ops = .ok s') : Coherent s' :=
  run_coherent ops {} s' coherent_empty hs

/-- Look-up by coordinate finds a cell exactly when it exists, and the cell found reports that
    coordinate; nothing is stored twice. -/
theorem C10_lookup (s : Sheet) (h : Coherent s) (col row : Nat) :
    (∀ c, getCell s col row = some c ↔ ((row, col), c) ∈ s.cells) ∧
    (∀ c, getCell s col row = some c → c.row = row ∧ c.col = col) ∧
    ((getCell s col row).isSome ↔ (row, col) ∈ keysOf s) ∧ (keysOf s).Nodup := by
  refine ⟨?_, ?_, ?_, h.nodup⟩
  · intro c; exact ⟨lookup_some_mem, lookup_of_mem_nodup h.nodup⟩
  · intro c hc; exact h.coord _ (lookup_some_mem hc)
  · exact lookup_isSome_iff

/-- The sorted listings, the per-row / per-column iterators, the range scan, the highest
    row/column and the dimension all agree with a brute-force scan of the set of existing cells:
    each listing is strictly ascending (so nothing is listed twice) and contains exactly the
    existing keys that qualify. -/
theorem C10_observers (s : Sheet) (h : Coherent s) :
    -- all coordinates, by row then column / by column then row
    (SSorted ((coordsByRowCol s).map swap) ∧ ∀ k, swap k ∈ coordsByRowCol s ↔ k ∈ keysOf s) ∧
    (SSorted (coordsByColRow s) ∧ ∀ k, k ∈ coordsByColRow s ↔ swap k ∈ keysOf s) ∧
    -- by row, by column
    (∀ r, (colsInRow s r).Pairwise (· < ·) ∧ ∀ c, c ∈ colsInRow s r ↔ (r, c) ∈ keysOf s) ∧
    (∀ c, (rowsInCol s c).Pairwise (· < ·) ∧ ∀ r, r ∈ rowsInCol s c ↔ (r, c) ∈ keysOf s) ∧
    -- by range
    (∀ rs re cs ce l, coordsInRange s rs re cs ce = .ok l →
        SSorted (l.map swap) ∧
        ∀ k : Key, swap k ∈ l ↔ (k ∈ keysOf s ∧ rs ≤ k.1 ∧ k.1 ≤ re ∧ cs ≤ k.2 ∧ k.2 ≤ ce)) ∧
    -- highest column / row (and therefore the computed dimension)
    ((∀ k ∈ keysOf s, k.1 ≤ (highest s).2 ∧ k.2 ≤ (highest s).1) ∧
     (keysOf s = [] → highest s = (0, 0)) ∧
     (keysOf s ≠ [] → (∃ k ∈ keysOf s, k.1 = (highest s).2) ∧ (∃ k ∈ keysOf s, k.2 = (highest s).1))) := by
  refine ⟨⟨?_, ?_⟩, ⟨h.csorted, h.cmem⟩, colsInRow_spec s h, rowsInCol_spec s h,
    fun rs re cs ce l hl => coordsInRange_spec s h rs re cs ce l hl, highest_spec s h⟩
  · simp only [coordsByRowCol, List.map_map]
    have e : (swap ∘ swap) = id := by funext k; rfl
    rw [e, List.map_id]; exact h.rsorted
  · intro k
    simp only [coordsByRowCol, List.mem_map]
    constructor
    · rintro ⟨a, ha, e⟩
      have : a = k := by have := congrArg swap e; simpa [swap_swap] using this
      subst this; exact (h.rmem _).1 ha
    · intro hk; exact ⟨k, (h.rmem _).2 hk, rfl⟩

/-- Every existing cell is handed to the cell writer on save, once, in ascending (row, column)
    order: the writer's peek-and-consume row loop loses nothing in a coherent state. -/
theorem C10_saved (s : Sheet) (h : Coherent s) :
    emitted s = sortedCells s ∧ (sortedCells s).map (fun c => (c.row, c.col)) = s.rowIdx ∧
    (∀ k, k ∈ (emitted s).map (fun c => (c.row, c.col)) ↔ k ∈ keysOf s) := by
  have e1 := emitted_all s h
  have e2 := sortedCells_coords s h
  refine ⟨e1, e2, ?_⟩
  intro k; rw [e1, e2]; exact h.rmem k

/-- Without the "row is known" clause the row loop does lose cells: a cell whose row is missing
    from the row table blocks itself and everything after it (why C10 must track the row table). -/
theorem C10_rowloop_needs_rows :
    rowLoop [{ num := 1 }, { num := 3 }] [{ col := 1, row := 1 }, { col := 1, row := 2 }, { col := 1, row := 3 }]
      = [{ col := 1, row := 1 }] := by decide

/-! ### non-vacuity -/

/-- a concrete non-trivial history: its result exists, and is therefore coherent -/
example : ∃ s', run {} [.setVal 2 3 7, .setCell 5 1 4 2, .insRows 2 2, .remCols 1 1, .move 1 5 1 4 1 1, .cleanup] = .ok s'
    ∧ s'.cells.length = 2 := by
  refine ⟨_, rfl, ?_⟩
  decide

/-- (T) The scalar shift kernels as they stand in the Rust source NOW (regenerated by the translator
    on this run) are the ones the model uses: every theorem of this file that mentions
    `adjIns / adjRem / isRem / adjInsV / adjRemV / isRemV` is a theorem about the current source's kernels. -/
theorem C10_kernels_match_source (n r o : Nat) :
    Umya.Gen.adjustment_insert_coordinate n r o = .ok (Umya.Sheet.adjIns n r o) ∧
    Umya.Gen.adjustment_remove_coordinate n r o = Umya.Sheet.adjRem n r o ∧
    Umya.Gen.is_remove_coordinate n r o = .ok (Umya.Sheet.isRem n r o) ∧
    Umya.Gen.row_adjustment_insert_value n r o = .ok (Umya.Sheet.adjInsV n r o) ∧
    Umya.Gen.row_adjustment_remove_value n r o = Umya.Sheet.adjRemV n r o ∧
    Umya.Gen.row_is_remove_value n r o = Umya.Sheet.isRemV n r o ∧
    Umya.Gen.column_adjustment_insert_value n r o = .ok (Umya.Sheet.adjInsV n r o) ∧
    Umya.Gen.column_adjustment_remove_value n r o = Umya.Sheet.adjRemV n r o ∧
    Umya.Gen.column_is_remove_value n r o = Umya.Sheet.isRemV n r o :=
  ⟨Umya.Gen.gen_insert n r o, Umya.Gen.gen_remove n r o, Umya.Gen.gen_is_remove n r o,
   Umya.Gen.gen_row_insert n r o, Umya.Gen.gen_row_remove n r o, Umya.Gen.gen_row_is_remove n r o,
   Umya.Gen.gen_col_insert n r o, Umya.Gen.gen_col_remove n r o, Umya.Gen.gen_col_is_remove n r o⟩

end Umya.Thm.C10
