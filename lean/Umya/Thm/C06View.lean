/-
  C06 (second part) — the attribute-level codecs: sheet protection, workbook protection, tab colour,
  active tab, `<definedName>` attributes, sheet views (pane, selections), page setup, page margins,
  print options, header / footer.

  Models: `Umya/Model/AnnotCodec.lean`, `AnnotProt.lean`, `AnnotView.lean`, `AnnotPage.lean` (records with
  the fields the Rust structs hold; `write` = the element tree an XML 1.0 reader delivers for what
  `write_to` emits; `read` = `set_attributes`).  Each theorem says: for EVERY storable value,
  `read (write x) = x`, or `= norm x` with `norm` explicit, idempotent, and invisible to the getters.
  Outer `some` = "no Rust panic on the way".

  The step between the decoded attribute / text values used here and the bytes of the part is the
  character-level channel proved for every text in C02 / C03; `C06_view_attr_channel` and
  `C06_header_footer_text_channel` restate it for the two writers used by these elements.

  Tie to the code on every run: the `view` / `page` / `prot` request families of `harness/src/c06_view.rs`
  and `Umya/Driver/C06View.lean` (the real elements of the written part, lexed by `Umya.Spec.Xml.parse`,
  against `write x`; `read` of the real element against the reloaded getters; `write (read ..)` against
  the element of a second save), and `C06_view_tables_match_source` (enum and field ↔ attribute tables
  regenerated from the Rust source).
-/
import Umya.Lemmas.AnnotProt
import Umya.Lemmas.AnnotView
import Umya.Lemmas.AnnotPage
import Umya.Lemmas.TablesGenView
import Umya.Lemmas.XmlEsc
import Umya.Lemmas.XmlChannel
import Umya.Lemmas.CellDecode
import Umya.Thm.C03
namespace Umya.Thm.C06
open Umya.Spec.Xml (Node Attr)
open Umya.Dec Umya.AnnotCodec Umya.AnnotProt Umya.AnnotView Umya.AnnotPage Umya.Coord

/-! ### a concrete float-token instance for the non-vacuity examples -/

/-- two tokens, `0` and `1` -/
def exFmt : Umya.Num.NumFmt where
  Num := Bool
  fmt := fun b => if b then ['1'] else ['0']
  parse := fun t => if t = ['1'] then some true else if t = ['0'] then some false else none
  deq := inferInstance

def exZ : NumZ := ⟨exFmt, false⟩

theorem exFmt_sound : exFmt.Sound :=
  ⟨fun n => by cases n <;> rfl, fun n => by cases n <;> simp [exFmt], fun n c hc => by cases n <;> simp_all [exFmt, Umya.Num.numChar]⟩

/-! ### the two character channels used by these elements -/

/-- Attribute values (`write_start_tag` … `get_attribute`): every stored text comes back, both through
    an XML 1.0 reader and through the library's own reader. -/
theorem C06_view_attr_channel (s : List Char) :
    Umya.Spec.Xml.attrValue (Umya.XmlEsc.attrEscape s) = some s ∧ Umya.XmlEsc.attrRead (Umya.XmlEsc.attrWrite s) = s :=
  ⟨Umya.XmlChannel.attrValue_attrEscape s, Umya.XmlEsc.attrRead_attrWrite s⟩

/-- Header / footer text (`write_text_node` … `unescape_text`): the element content an XML reader
    delivers for the written bytes is exactly `txt t` (no child for the empty text), and the library's
    reader returns `t` — for every text, blanks at either end included (the header / footer readers do not
    trim since fix cd8e1b4). -/
theorem C06_header_footer_text_channel (t : List Char) :
    Umya.CellNode.charData (Umya.Xml.escape t) = some (Umya.AnnotPage.txt t) ∧
    Umya.XmlEsc.textRead (Umya.Xml.escape t) = some t := by
  refine ⟨?_, Umya.Thm.C03.C03_text _ _ (Umya.XmlChannel.textValue_escape t)⟩
  simpa [Umya.CellNode.txt, Umya.AnnotPage.txt] using Umya.CellNode.charData_escape t

example : Umya.XmlEsc.textRead (Umya.Xml.escape " &L&\"Arial,Bold\"&12 a<b>&amp; \r\n ".toList)
    = some " &L&\"Arial,Bold\"&12 a<b>&amp; \r\n ".toList := (C06_header_footer_text_channel _).2

/-! ### sheet protection -/

/-- **Sheet protection.**  Every storable `SheetProtection` — any texts for algorithm / hash / salt /
    legacy password, any `u32` spin count, each of the sixteen flags absent, false or true,
    independently — reloads as itself, including which fields have a value. -/
theorem C06_sheet_protection_codec (x : SheetProtection) (h : x.WF) : SheetProtection.read x.write = some x :=
  SheetProtection.read_write x h

/-- No two of the 21 fields share an attribute, and distinct flags have distinct attributes
    (a `decide` over the finite table). -/
theorem C06_sheet_protection_flags_distinct :
    sheetProtectionKeys.Nodup ∧ (∀ f g : Flag, f.attr = g.attr → f = g) :=
  ⟨sheetProtectionKeys_nodup, by intro f g; cases f <;> cases g <;> decide⟩

/-- Each flag has its own attribute: the attribute named after flag `f` in the written element carries
    exactly `f`'s value, whatever all the other fields hold. -/
theorem C06_sheet_protection_flag_attr (x : SheetProtection) (f : Flag) :
    getAttr x.write.attrs f.attr = (x.flags f).map boolStr :=
  getAttr_render _ x.fields_nodup (x.flag_mem f)

/-- a non-trivial value: hash fields, a spin count, one flag on, one explicitly off, the others absent -/
def exSheetProtection : SheetProtection where
  algorithmName := some "SHA-512".toList
  hashValue := some "q1+a/b&<\"'==".toList
  spinCount := some 100000
  flags := fun f => if f = Flag.formatRows then some true else if f = Flag.sheet then some false else none

example : exSheetProtection.WF ∧ SheetProtection.read exSheetProtection.write = some exSheetProtection := by
  have h : exSheetProtection.WF := by intro n h; injection h with h; omega
  exact ⟨h, C06_sheet_protection_codec _ h⟩

example : getAttr exSheetProtection.write.attrs "formatRows".toList = some ['1'] ∧
    getAttr exSheetProtection.write.attrs "formatColumns".toList = none ∧
    getAttr exSheetProtection.write.attrs "sheet".toList = some ['0'] :=
  ⟨C06_sheet_protection_flag_attr _ .formatRows, C06_sheet_protection_flag_attr _ .formatColumns,
   C06_sheet_protection_flag_attr _ .sheet⟩

/-! ### workbook protection -/

/-- **Workbook protection.**  All thirteen fields reload as stored. -/
theorem C06_workbook_protection_codec (x : WorkbookProtection) (h : x.WF) : WorkbookProtection.read x.write = some x :=
  WorkbookProtection.read_write x h

theorem C06_workbook_protection_attrs_distinct : workbookProtectionKeys.Nodup := workbookProtectionKeys_nodup

example : WorkbookProtection.read (WorkbookProtection.write
    { lockStructure := some true, lockWindows := some false, workbookPassword := some "ABCD".toList,
      revisionsSpinCount := some 4294967295 })
    = some { lockStructure := some true, lockWindows := some false, workbookPassword := some "ABCD".toList,
             revisionsSpinCount := some 4294967295 } :=
  C06_workbook_protection_codec _ ⟨by simp, by intro n h; injection h with h; omega⟩

/-! ### tab colour -/

/-- **Tab colour.**  A sheet with a tab-colour object reloads with `normTab` of it: the first present of
    theme / indexed / rgb plus the tint; an object without any value is not written and is gone. -/
theorem C06_tab_color_codec {Z : NumZ} (hs : Z.F.Sound) (c : Color Z)
    (h3 : ∀ n, c.theme = some n → n < 4294967296) (h4 : ∀ n, c.indexed = some n → n < 4294967296) :
    readSheetPr (writeSheetPr [] (some c)) = some (normTab (some c)) :=
  Color.read_writeTab hs c h3 h4

/-- for every colour the public setters can build (`set_argb`, `set_indexed`, `set_theme_index`, `set_tint`
    keep at most one of the three sources) that has some value, that is the identity -/
theorem C06_tab_color_reachable {Z : NumZ} (hs : Z.F.Sound) (c : Color Z) (h : c.WF) (hne : c.isEmpty = false) :
    readSheetPr (writeSheetPr [] (some c)) = some (some c) := by
  rw [C06_tab_color_codec hs c h.2.2.1 h.2.2.2]
  simp [normTab, hne, Color.norm_of_WF c h]

/-- and a sheet without the object stays without -/
theorem C06_tab_color_none {Z : NumZ} : readSheetPr (Z := Z) (writeSheetPr (Z := Z) [] none) = some none := rfl

theorem C06_tab_color_norm_idem {Z : NumZ} (c : Color Z) : c.norm.norm = c.norm := Color.norm_idem c

example : Color.WF (Z := exZ) { theme := some 9, tint := some true } ∧
    Color.isEmpty (Z := exZ) { theme := some 9, tint := some true } = false := by
  refine ⟨⟨by simp, by simp, ?_, by simp⟩, rfl⟩
  intro n h; injection h with h; omega

/-- the residual: `get_tab_color_mut()` without setting anything leaves an object that does not survive -/
theorem C06_tab_color_empty_object_fails :
    ¬ (readSheetPr (Z := exZ) (writeSheetPr (Z := exZ) [] (some {}))).map (·.isSome) = some true := by decide

/-! ### active tab, `<definedName>` attributes -/

/-- **Active sheet.**  `activeTab` reloads (absent stays absent). -/
theorem C06_active_tab (v : WorkbookView) (h : ∀ n, v.activeTab = some n → n < 4294967296) :
    WorkbookView.read v.write = some v :=
  WorkbookView.read_write v h

example : WorkbookView.read (WorkbookView.write ⟨some 5⟩) = some ⟨some 5⟩ :=
  C06_active_tab _ (by intro n h; injection h with h; omega)

/-- **Defined-name attributes.**  `name`, `localSheetId` (the sheet a name is scoped to) and `hidden`
    reload; a name object that never had a name gets the empty one. -/
theorem C06_defined_name_attrs (d : DnAttrs) (h : ∀ n, d.localSheetId = some n → n < 4294967296) :
    DnAttrs.read d.writeAttrs = some d.norm ∧ (d.name.isSome → d.norm = d) := by
  refine ⟨DnAttrs.read_write d h, ?_⟩
  intro hn
  obtain ⟨n, l, hd⟩ := d
  cases n with
  | none => simp at hn
  | some t => rfl

example : DnAttrs.read (DnAttrs.writeAttrs ⟨some "_xlnm.Print_Area".toList, some 3, some true⟩)
    = some ⟨some "_xlnm.Print_Area".toList, some 3, some true⟩ :=
  (C06_defined_name_attrs _ (by intro n h; injection h with h; omega)).1

/-! ### enum tables -/

/-- `from_str (get_value_string v) = Ok(v)` for every constructor of the four enums, and `from_str` accepts
    nothing else -/
theorem C06_enum_tables :
    (∀ v : PaneV, PaneV.fromStr v.toStr = some v) ∧ (∀ v : PaneState, PaneState.fromStr v.toStr = some v) ∧
    (∀ v : ViewV, ViewV.fromStr v.toStr = some v) ∧ (∀ v : Orientation, Orientation.fromStr v.toStr = some v) ∧
    (∀ t v, PaneV.fromStr t = some v → t = v.toStr) ∧ (∀ t v, PaneState.fromStr t = some v → t = v.toStr) ∧
    (∀ t v, ViewV.fromStr t = some v → t = v.toStr) ∧ (∀ t v, Orientation.fromStr t = some v → t = v.toStr) := by
  refine ⟨PaneV.fromStr_toStr, PaneState.fromStr_toStr, ViewV.fromStr_toStr, Orientation.fromStr_toStr, ?_, ?_, ?_, ?_⟩
  · intro t v h; unfold PaneV.fromStr at h; (repeat' split at h) <;> cases h <;> subst_vars <;> rfl
  · intro t v h; unfold PaneState.fromStr at h; (repeat' split at h) <;> cases h <;> subst_vars <;> rfl
  · intro t v h; unfold ViewV.fromStr at h; (repeat' split at h) <;> cases h <;> subst_vars <;> rfl
  · intro t v h; unfold Orientation.fromStr at h; (repeat' split at h) <;> cases h <;> subst_vars <;> rfl

/-- the spelling the library uses for the fourth pane is not the schema's (`topRight`): a part written by
    another producer loses the value (observation; the library agrees with itself) -/
theorem C06_pane_top_right_spelling : PaneV.fromStr "topRight".toList = none ∧ PaneV.toStr .topRight = "TopRight".toList := by
  decide

/-! ### sheet views -/

/-- **Pane.**  Splits (float tokens), top-left cell (any cell up to column ZZZ, any `u32` row, any
    locks), active pane and state reload; the two enum fields have their default as VALUE afterwards. -/
theorem C06_pane_codec {Z : NumZ} (hs : Z.F.Sound) (p : Pane Z) (h : p.WF) :
    ∃ n, p.write = some n ∧ Pane.read n = some p.norm :=
  Pane.read_write hs p h

/-- `norm` is idempotent and the getters (`get_active_pane`, `get_state`: value or default) do not see it -/
theorem C06_pane_norm {Z : NumZ} (p : Pane Z) :
    p.norm.norm = p.norm ∧ p.norm.activePane.getD PaneV.dflt = p.activePane.getD PaneV.dflt ∧
    p.norm.state.getD PaneState.dflt = p.state.getD PaneState.dflt ∧ p.norm.xSplit = p.xSplit ∧
    p.norm.ySplit = p.ySplit ∧ p.norm.topLeft = p.topLeft := by
  simp [Pane.norm]

example : Pane.WF (Z := exZ) { xSplit := some true, topLeft := ⟨2, 7, false, true⟩, activePane := some PaneV.topRight, state := some PaneState.frozen } := by
  simp [Pane.WF, Coord.WF]

/-- **Selection.**  Pane, active cell and the sequence of references (any number of ranges of the four
    shapes, in order) reload exactly. -/
theorem C06_selection_codec (s : Selection) (h : s.WF) : ∃ n, s.write = some n ∧ Selection.read n = some s :=
  Selection.read_write s h

/-- a selection with a pane, an active cell and two ranges -/
def exSelection : Selection where
  pane := some PaneV.topRight
  activeCell := some ⟨3, 4, false, false⟩
  sqref := [⟨some ⟨3, false⟩, some ⟨4, false⟩, none, none⟩, ⟨some ⟨1, false⟩, some ⟨1, false⟩, some ⟨2, false⟩, some ⟨9, false⟩⟩]

example : exSelection.WF := by
  refine ⟨?_, ?_⟩
  · intro c h; injection h with h; subst h; simp [Coord.WF]
  · intro ρ h
    simp only [exSelection, List.mem_cons, List.not_mem_nil, or_false] at h
    rcases h with rfl | rfl
    · refine ⟨Or.inl (by simp), ?_, ?_, ?_, ?_⟩ <;> intro x hx <;> (try injection hx with hx) <;> (try subst hx) <;> simp_all
    · refine ⟨Or.inr (Or.inl (by simp)), ?_, ?_, ?_, ?_⟩ <;> intro x hx <;> (try injection hx with hx) <;> (try subst hx) <;> simp_all

/-- observation (not visible after reload, the reader ignores the attribute): the writer finds the range of
    the active cell by SUBSTRING search on the range texts, so for active cell `A1` and `sqref="AA10:AB12 A1"`
    it writes no `activeCellId` (index 0) although the cell lies in the second range.  The model follows the
    code; the tie compares the attribute. -/
example : activeCellId "A1".toList
    [⟨some ⟨27, false⟩, some ⟨10, false⟩, some ⟨28, false⟩, some ⟨12, false⟩⟩, ⟨some ⟨1, false⟩, some ⟨1, false⟩, none, none⟩] = 0 := by
  simp [activeCellId, containsSub, Range.print, optText, colRefText, rowRefText, indexToAlpha, alphaRev, letter, decDigits, digitChar, List.isPrefixOf]

/-- **Sheet view.**  Every attribute, the pane and ANY NUMBER of selections in their order reload as
    `norm`: `tabSelected = Some(false)` becomes "no value", `workbookViewId` gets the value 0 when it had
    none, the pane is normalised as above. -/
theorem C06_sheet_view_codec {Z : NumZ} (hs : Z.F.Sound) (v : SheetView Z) (h : v.WF) :
    ∃ n, v.write = some n ∧ SheetView.read n = some v.norm := by
  obtain ⟨n, h1, _, _, h2⟩ := SheetView.read_write hs v h
  exact ⟨n, h1, h2⟩

/-- `norm` is idempotent; it keeps every getter's answer, the selections and all other fields -/
theorem C06_sheet_view_norm {Z : NumZ} (v : SheetView Z) :
    v.norm.norm = v.norm ∧ v.norm.tabSelected.getD false = v.tabSelected.getD false ∧
    v.norm.workbookViewId.getD 0 = v.workbookViewId.getD 0 ∧ v.norm.selections = v.selections ∧
    v.norm.showGridLines = v.showGridLines ∧ v.norm.view = v.view ∧ v.norm.zoomScale = v.zoomScale ∧
    v.norm.zoomScaleNormal = v.zoomScaleNormal ∧ v.norm.zoomScalePageLayoutView = v.zoomScalePageLayoutView ∧
    v.norm.zoomScaleSheetLayoutView = v.zoomScaleSheetLayoutView ∧ v.norm.topLeftCell = v.topLeftCell ∧
    v.norm.pane = v.pane.map Pane.norm := by
  refine ⟨SheetView.norm_idem v, ?_, ?_, rfl, rfl, rfl, rfl, rfl, rfl, rfl, rfl, rfl⟩
  · cases h : v.tabSelected.getD false <;> simp [SheetView.norm, h]
  · simp [SheetView.norm]

/-- **All views of a sheet**, any number, in order. -/
theorem C06_sheet_views_codec {Z : NumZ} (hs : Z.F.Sound) (vs : List (SheetView Z)) (hne : vs ≠ [])
    (h : ∀ v ∈ vs, v.WF) :
    ∃ n, writeViews vs = some [n] ∧ readViews n = some (vs.map SheetView.norm) :=
  writeViews_readViews hs vs hne h

/-- the plain identity does NOT hold: an explicit `tabSelected = false` is not written
    (witness: the view whose only value is `tabSelected = Some(false)`) -/
theorem C06_sheet_view_strict_fails :
    ¬ ∀ v : SheetView exZ, v.WF → ∀ n, v.write = some n → SheetView.read n = some v := by
  intro h
  have wf : SheetView.WF (Z := exZ) { tabSelected := some false } :=
    ⟨by simp, by simp, by simp, by simp, by simp, by simp, by simp⟩
  obtain ⟨n, h1, h2⟩ := C06_sheet_view_codec exFmt_sound { tabSelected := some false } wf
  have h3 := h _ wf n h1
  rw [h2] at h3
  have h4 := congrArg (Option.map (·.tabSelected)) h3
  simp [SheetView.norm] at h4

/-- **`Worksheet::set_active_cell` is lost**: the writer has no code for it and the reader's arms for it
    are unreachable (known finding `C06-worksheet-active-cell-not-saved`; replayed by the harness witness
    `active-cell`). -/
theorem C06_active_cell_fails : ¬ ∀ c : Text, readActiveCell (writeActiveCell c) = c := by
  intro h
  exact absurd (h "B2".toList) (by decide)

/-! ### page setup, margins, print options -/

/-- **Page setup.**  Paper size, orientation, scale, fit-to, dpi reload, and the printer settings blob
    too provided the sheet's relationships map the written id to it (the package writer's job, observed
    by the harness through `get_object_data`); a sheet without any page-setup value writes no element and
    reloads as the default. -/
theorem C06_page_setup_codec {Tok : Type} (rels : Text → Option Tok) (p : PageSetup Tok) (rid : Nat) (h : p.WF)
    (hrel : ∀ d, p.objectData = some d → rels (ridText rid) = some d) :
    PageSetup.read rels (p.write rid).1 = some p :=
  PageSetup.read_write rels p rid h hrel

example : PageSetup.read (Tok := Nat) (fun t => if t = ['r', 'I', 'd', '3'] then some 77 else none)
    (PageSetup.write { paperSize := some 9, orientation := some .landscape, horizontalDpi := some 4294967295, objectData := some 77 } 3).1
    = some { paperSize := some 9, orientation := some .landscape, horizontalDpi := some 4294967295, objectData := some 77 } :=
  C06_page_setup_codec _ _ 3 ⟨by intro n h; injection h with h; omega, by simp, by simp, by simp,
    by intro n h; injection h with h; omega, by simp⟩ (by intro d h; injection h with h; subst h; simp [ridText, decDigits, digitChar])

/-- **Page margins.**  The six margins reload; a margin without value comes back as the value zero
    (`norm`, idempotent, invisible to the getters which return zero for "no value"). -/
theorem C06_page_margins_codec {Z : NumZ} (hs : Z.F.Sound) (m : PageMargins Z) :
    PageMargins.read m.write = some m.norm ∧ m.norm.norm = m.norm ∧
    m.norm.left.getD Z.zero = m.left.getD Z.zero ∧ m.norm.right.getD Z.zero = m.right.getD Z.zero ∧
    m.norm.top.getD Z.zero = m.top.getD Z.zero ∧ m.norm.bottom.getD Z.zero = m.bottom.getD Z.zero ∧
    m.norm.header.getD Z.zero = m.header.getD Z.zero ∧ m.norm.footer.getD Z.zero = m.footer.getD Z.zero :=
  ⟨PageMargins.read_write hs m, PageMargins.norm_idem m, rfl, rfl, rfl, rfl, rfl, rfl⟩

/-- **Print options.** -/
theorem C06_print_options_codec (p : PrintOptions) : PrintOptions.read p.write = p := PrintOptions.read_write p

example : PrintOptions.read (PrintOptions.write ⟨some false, some true⟩) = ⟨some false, some true⟩ := by decide

/-! ### header / footer -/

/-- **Header / footer.**  Odd header and odd footer reload character for character — `&L&"Arial"` codes,
    XML-special characters, blanks at either end (fix cd8e1b4: the readers do not trim) — with one
    normalisation: an EMPTY text is "no value" afterwards; `get_value()` returns `""` for both. -/
theorem C06_header_footer_codec (h : HeaderFooter) :
    HeaderFooter.read h.write = h.norm ∧ h.norm.norm = h.norm ∧
    h.norm.headerText = h.headerText ∧ h.norm.footerText = h.footerText :=
  ⟨HeaderFooter.read_write h, HeaderFooter.norm_idem h, (HeaderFooter.norm_text h).1, (HeaderFooter.norm_text h).2⟩

/-- non-empty texts: the identity -/
theorem C06_header_footer_nonempty (h : HeaderFooter) (h1 : h.oddHeader ≠ some []) (h2 : h.oddFooter ≠ some []) :
    HeaderFooter.read h.write = h := by
  rw [(C06_header_footer_codec h).1]
  obtain ⟨a, b⟩ := h
  rcases a with _ | _ | ⟨c, r⟩ <;> rcases b with _ | _ | ⟨c', r'⟩ <;> simp_all [HeaderFooter.norm]

example : HeaderFooter.read (HeaderFooter.write ⟨some " &L&\"Arial,Bold\"&12 <a> ".toList, some "&CTitle with trailing blank ".toList⟩)
    = ⟨some " &L&\"Arial,Bold\"&12 <a> ".toList, some "&CTitle with trailing blank ".toList⟩ :=
  C06_header_footer_nonempty _ (by decide) (by decide)

/-- the plain identity does not hold for the empty text -/
theorem C06_header_footer_empty_fails : HeaderFooter.read (HeaderFooter.write ⟨some [], none⟩) ≠ ⟨some [], none⟩ := by decide

/-! ### tie to the source (T) -/

/-- **Tables match the source.**  The enum string tables (`get_value_string` arms, `from_str` arms,
    `Default`) of `pane_values.rs`, `pane_state_values.rs`, `sheet_view_values.rs`, `orientation_values.rs`
    and the field ↔ attribute tables of `sheet_protection.rs` / `workbook_protection.rs` (`set_attributes`
    macro lines; `write_to`: the field tested, the attribute pushed, the field whose text is pushed), as
    regenerated from the Rust source on this run, are the hand model's. -/
theorem C06_view_tables_match_source :
    Umya.Gen.pane_values_to_str = PaneV.all.map (fun v => (v.nameS, v.toStrS)) ∧
    Umya.Gen.pane_values_from_str = PaneV.all.map (fun v => (v.toStrS, v.nameS)) ∧
    Umya.Gen.pane_values_default = PaneV.dflt.nameS ∧
    Umya.Gen.pane_state_values_to_str = PaneState.all.map (fun v => (v.nameS, v.toStrS)) ∧
    Umya.Gen.pane_state_values_from_str = PaneState.all.map (fun v => (v.toStrS, v.nameS)) ∧
    Umya.Gen.pane_state_values_default = PaneState.dflt.nameS ∧
    Umya.Gen.sheet_view_values_to_str = ViewV.all.map (fun v => (v.nameS, v.toStrS)) ∧
    Umya.Gen.sheet_view_values_from_str = ViewV.all.map (fun v => (v.toStrS, v.nameS)) ∧
    Umya.Gen.sheet_view_values_default = ViewV.dflt.nameS ∧
    Umya.Gen.orientation_values_to_str = Orientation.all.map (fun v => (v.nameS, v.toStrS)) ∧
    Umya.Gen.orientation_values_from_str = Orientation.all.map (fun v => (v.toStrS, v.nameS)) ∧
    Umya.Gen.orientation_values_default = Orientation.default.nameS ∧
    Umya.Gen.sheet_protection_read_table = sheetProtectionTable ∧
    Umya.Gen.sheet_protection_write_table = sheetProtectionTable.map (fun p => (p.1, p.2, p.1)) ∧
    Umya.Gen.workbook_protection_read_table = workbookProtectionTable ∧
    Umya.Gen.workbook_protection_write_table = workbookProtectionTable.map (fun p => (p.1, p.2, p.1)) :=
  Umya.Gen.view_tables_match

end Umya.Thm.C06
