/-
  C02 — the step from the CHARACTERS the writer emits to the element tree an XML 1.0 reader delivers.

  `Umya/Model/XmlWrite.lean` models the tag-level serialisation of `writer/driver.rs` on top of quick-xml
  0.37.5 (`write_start_tag`, `write_end_tag`, `write_text_node`, `write_text_node_conversion`,
  `write_text_node_no_escape`, `write_new_line`, the XML declaration) as characters; a written part is a
  tree of writer calls (`WNode`).  The theorems here say that the independent reader of
  `Umya/Spec/XmlLex.lean` (`parse` = `lex` then `buildGo`), applied to those characters, returns exactly the
  element tree that was meant (`erase`), in the reader's normal form (`normNode`: empty text nodes dropped,
  adjacent text nodes concatenated; nothing else) — for every tree: any depth, any number of children and
  attributes, any text.  Helper lemmas: `Umya/Lemmas/XmlWriteLex.lean` (one lemma per token kind),
  `XmlWriteParse.lean` (event sequence, stack machine), `XmlWriteNF.lean`.

  Tie to the code: (a) on every run the driver re-renders every part written through `writer/driver.rs`
  with `renderDoc` and compares it character for character with the part (`c02 part …` replies
  `render=same`); (b) `C02_writer_matches_source`: which quick-xml event / escape pipeline / literal each
  function of `writer/driver.rs` uses is regenerated from the source and equals the model's.
-/
import Umya.Lemmas.XmlWriteNF
import Umya.Lemmas.XmlWriteGen
import Umya.Lemmas.CellNodeNF
import Umya.Thm.C02
namespace Umya.Thm.C02
open Umya.XmlWrite Umya.XmlEsc
open Umya.Spec.Xml (Node Attr Token parse lexGo flushText)

/-- **Tie to the source (T).**  The tag-level structure of `writer/driver.rs` as regenerated on this run — which
    quick-xml event `write_start_tag` emits under `empty_flag` and otherwise, that attribute values reach
    `push_attribute` through the escape chain, the events of `write_end_tag` / `write_text_node` (with
    `BytesText::from_escaped`), the raw write of `write_text_node_no_escape`, that `write_text_node_conversion` and
    `write_new_line` go through it, the literal CR LF, and the escape-then-replace pipelines — gives the functions of
    the hand model, for all arguments. -/
theorem C02_writer_matches_source (n : List Char) (as : List Attr) (e : Bool) (s : List Char) :
    genStartTag Umya.Gen.driver_shape n as e = some (writeStartTag n as e) ∧
    genEndTag Umya.Gen.driver_shape n = some (writeEndTag n) ∧
    genTextNode Umya.Gen.driver_shape s = some (writeTextNode s) ∧
    genNoEscape Umya.Gen.driver_shape s = some (writeTextNodeNoEscape s) ∧
    genConversion Umya.Gen.driver_shape s = some (writeTextNodeConversion s) ∧
    genNewLine Umya.Gen.driver_shape = some writeNewLine := writer_matches_source n as e s

/-! ### per token: "lexing `render tok ++ rest` yields `tok ::` lexing `rest`" -/

/-- what `write_start_tag(name, attrs, empty_flag)` writes is ONE `open` token carrying the name, the
    attributes in the order written with exactly the values given (one escape, one unescape), and the flag;
    character data pending before the tag (`acc`) is delivered first -/
theorem C02_bytes_start_tag (n : List Char) (as : List Attr) (e : Bool) (hn : wfName n = true) (ha : wfAttrs as = true)
    (acc rest : List Char) :
    lexGo (.text acc) (writeStartTag n as e ++ rest) =
      flushText acc ((lexGo (.text []) rest).map (Token.open n as e :: ·)) := lex_startTag n as e hn ha acc rest

theorem C02_bytes_end_tag (n : List Char) (hn : wfName n = true) (acc rest : List Char) :
    lexGo (.text acc) (writeEndTag n ++ rest) = flushText acc ((lexGo (.text []) rest).map (Token.close n :: ·)) :=
  lex_endTag n hn acc rest

/-- the XML declaration is skipped -/
theorem C02_bytes_decl (rest : List Char) : lexGo (.text []) (writeDecl ++ rest) = lexGo (.text []) rest := lex_decl rest

/-! ### the whole part -/

/-- **Main theorem.**  For every tree of writer calls whose root is an element, whose element and attribute
    names are XML Names (`wfName`), whose attribute names are distinct within an element, and whose attribute
    values and texts consist of XML `Char`s (`WF`, decidable): the independent XML 1.0 reader, given the
    characters of the rendered part, returns the element tree that was meant, in the reader's normal form. -/
theorem C02_bytes_parse (w : WNode) (hw : isElemW w = true) (hwf : WF w = true) :
    parse (renderDoc w) = some (normNode (erase w)) := parse_renderDoc w hw hwf

/-- The normal form is the identity on trees without empty text nodes and without two adjacent text nodes
    (`isNF`, decidable) … -/
theorem C02_bytes_normal_form (t : Node) (h : isNF t = true) : normNode t = t := normNode_nf t h

/-- … so for an element tree in that form, written with either form of childless elements
    (`selfClose`: `<a/>` or `<a></a>`) and every text through `write_text_node`, the reader returns exactly
    the tree. -/
theorem C02_bytes_parse_tree (selfClose : Bool) (n : List Char) (as : List Attr) (ks : List Node)
    (hwf : wfNodes [.elem n as ks] = true) (hnf : isNFKids ks = true) :
    parse (renderDoc (ofNode selfClose (.elem n as ks))) = some (.elem n as ks) := by
  rw [parse_render_tree selfClose n as ks hwf]
  exact congrArg some (normNode_nf (.elem n as ks) hnf)

/-- without the normal-form hypothesis: the tree up to `normNode` -/
theorem C02_bytes_parse_tree_norm (selfClose : Bool) (n : List Char) (as : List Attr) (ks : List Node)
    (hwf : wfNodes [.elem n as ks] = true) :
    parse (renderDoc (ofNode selfClose (.elem n as ks))) = some (normNode (.elem n as ks)) :=
  parse_render_tree selfClose n as ks hwf

/-! ### non-vacuity: attributes with `& < " TAB LF`, text with CR, `]]>`, a non-BMP character, nested
    children, both forms of empty elements, both text writers, a new line between elements -/

def demoW : WNode :=
  .elem "x:root".toList [⟨"xmlns:x".toList, "urn:a&b".toList⟩, ⟨"a".toList, ['<', '"', '\t', '\n', '\'', '>']⟩]
    [ .nl,
      .elem "t".toList [⟨"xml:space".toList, "preserve".toList⟩] [.text [' ', 'a', '\r', ']', ']', '>', Char.ofNat 0x1F600, '&']],
      .empty "e1".toList [⟨"k".toList, []⟩],
      .elem "e2".toList [] [],
      .elem "f".toList [] [.conv ['1', '<', '2', '"'], .text [], .text ['!']],
      .elem "v".toList [] [.raw "&#65;&amp;".toList ['A', '&']] ]

theorem demoW_ok : isElemW demoW = true ∧ WF demoW = true := by
  simp only [demoW, WF, wfKids, isElemW]; decide

example : parse (renderDoc demoW) = some (normNode (erase demoW)) := C02_bytes_parse demoW demoW_ok.1 demoW_ok.2

-- the rendered characters of the example, spelled out
set_option maxRecDepth 8000 in
example : renderDoc demoW =
    "<?xml version=\"1.0\" encoding=\"UTF-8\" standalone=\"yes\"?>\r\n<x:root xmlns:x=\"urn:a&amp;b\" a=\"&lt;&quot;&#9;&#10;&apos;&gt;\">\r\n<t xml:space=\"preserve\"> a&#13;]]&gt;😀&amp;</t><e1 k=\"\"/><e2></e2><f>1&lt;2\"!</f><v>&#65;&amp;</v></x:root>".toList := by
  simp only [demoW, renderDoc, renderNode, renderKids]; decide

def demoT : Node :=
  .elem "r".toList [⟨"a".toList, ['&', '<', '"', '\t', '\n']⟩]
    [.elem "c".toList [] [.text ['x', '\r', ']', ']', '>', Char.ofNat 0x1F600]], .elem "d".toList [] [], .text ['y']]

theorem demoT_ok : wfNodes [demoT] = true ∧ isNF demoT = true := by
  simp only [demoT, wfNodes, isNF, isNFKids]; decide

example : parse (renderDoc (ofNode true demoT)) = some demoT := C02_bytes_parse_tree true _ _ _ demoT_ok.1 demoT_ok.2
example : parse (renderDoc (ofNode false demoT)) = some demoT := C02_bytes_parse_tree false _ _ _ demoT_ok.1 demoT_ok.2

/-! ### (a), (b): composed with the cell clause — from CHARACTERS to the model cell -/

section Cells
open Umya.CellXml Umya.CellNode Umya.Num
open Umya.Spec.Sml (decodeCell rstText sharedStrings)

/-- **One cell, from characters.**  Let `cx` be the `<c>` fact `Cell::write_to` produces for the cell `c`
    (any branch).  Whatever writer calls `w` were used to put that element into the buffer — either form of
    childless elements, any of the text writers per text — as long as they mean the element of the fact
    (`normNode (erase w) = node`, where `cellNode xf cx = some node`) and satisfy `WF` (names, distinct attributes,
    XML `Char`s): the independent XML reader applied to the CHARACTERS `renderDoc w` returns `node`, and the
    independent decoder applied to that returns exactly the cell's reference, kind, value text, formula text
    and style index, for every later state of the shared-string table. -/
theorem C02_cell_bytes_decode (F : NumFmt) (tbl : Table) (c : Cell F.Num) (tbl' : Table) (cx : CellX)
    (h : writeTo F tbl c = some (tbl', some cx)) (xf : Nat) :
    ∃ node, cellNode xf cx = some node ∧
      ∀ w : WNode, isElemW w = true → WF w = true → normNode (erase w) = node →
        parse (renderDoc w) = some node ∧
        ∀ tbl'' : Table, Extends tbl'' tbl' →
          ∃ pkg, sstParts (tbl''.map siOf) = some pkg ∧
            (parse (renderDoc w)).map (decodeCell (sharedStrings pkg sstPath)) = some (fileView F xf c, []) := by
  obtain ⟨_, node, hn, hd⟩ := C02_cell_decodes F tbl c tbl' cx h xf
  refine ⟨node, hn, fun w hw hwf he => ?_⟩
  have hp : parse (renderDoc w) = some node := by rw [C02_bytes_parse w hw hwf, he]
  refine ⟨hp, fun tbl'' hx => ?_⟩
  obtain ⟨pkg, h1, h2⟩ := hd tbl'' hx
  exact ⟨pkg, h1, by rw [hp]; simp [h2]⟩

/-- every `<c>` and every `<si>` the model renders is in the reader's normal form (no empty text node, no two
    adjacent text nodes): the only text nodes come from character data that is not empty, and such data does not
    read as the empty text -/
theorem C02_cell_node_normal_form (xf : Nat) (cx : CellX) (n : Node) (h : cellNode xf cx = some n) : isNF n = true :=
  cellNode_isNF xf cx n h

theorem C02_si_node_normal_form (x : SiX) (n : Node) (h : siNode x = some n) : isNF n = true := siNode_isNF x n h

/-- the same with the default writer calls for the element of the fact (`ofNode`: texts through
    `write_text_node`, childless elements in either form), under the decidable condition on names and
    characters of the tree (`wfNodes`); the normal-form condition is a theorem (`C02_cell_node_normal_form`) -/
theorem C02_cell_bytes_decode_default (F : NumFmt) (tbl : Table) (c : Cell F.Num) (tbl' : Table) (cx : CellX)
    (h : writeTo F tbl c = some (tbl', some cx)) (xf : Nat) (selfClose : Bool) :
    ∃ n as ks, cellNode xf cx = some (.elem n as ks) ∧
      (wfNodes [.elem n as ks] = true →
        ∀ tbl'' : Table, Extends tbl'' tbl' →
          ∃ pkg, sstParts (tbl''.map siOf) = some pkg ∧
            (parse (renderDoc (ofNode selfClose (.elem n as ks)))).map (decodeCell (sharedStrings pkg sstPath))
              = some (fileView F xf c, [])) := by
  obtain ⟨_, node, hn, hd⟩ := C02_cell_decodes F tbl c tbl' cx h xf
  obtain ⟨as, ks, rfl⟩ := cellNode_shape xf cx node hn
  refine ⟨_, as, ks, hn, fun hwf tbl'' hx => ?_⟩
  obtain ⟨pkg, h1, h2⟩ := hd tbl'' hx
  have hnf : isNFKids ks = true := cellNode_isNF xf cx _ hn
  exact ⟨pkg, h1, by rw [C02_bytes_parse_tree selfClose _ as ks hwf hnf]; simp [h2]⟩

/-- **One shared-string item, from characters**: likewise for `<si>` -/
theorem C02_si_bytes_decode (it : Item) :
    ∃ node, siNode (siOf it) = some node ∧
      ∀ w : WNode, isElemW w = true → WF w = true → normNode (erase w) = node →
        (parse (renderDoc w)).map rstText = some (itemText it) := by
  obtain ⟨node, hn, hr⟩ := C02_si_decodes it
  exact ⟨node, hn, fun w hw hwf he => by rw [C02_bytes_parse w hw hwf, he]; simp [hr]⟩

/-- … and with the default writer calls: the `<si>` of any item, rendered as characters, reads back as the item's text -/
theorem C02_si_bytes_decode_default (it : Item) (selfClose : Bool) :
    ∃ ks, siNode (siOf it) = some (.elem ['s', 'i'] [] ks) ∧
      (wfNodes [.elem ['s', 'i'] [] ks] = true →
        (parse (renderDoc (ofNode selfClose (.elem ['s', 'i'] [] ks)))).map rstText = some (itemText it)) := by
  obtain ⟨node, hn, hr⟩ := C02_si_decodes it
  obtain ⟨ks, rfl⟩ := siNode_shape _ node hn
  refine ⟨ks, hn, fun hwf => ?_⟩
  have hnf : isNFKids ks = true := siNode_isNF _ _ hn
  rw [C02_bytes_parse_tree selfClose _ [] ks hwf hnf]
  simp [hr]

/-- non-vacuity of `C02_cell_bytes_decode`: the cell B2 = "a&lt;CR" with style 5 under the formula `A1<2`, written
    as the code writes it (`<f>` and a `str` value through `write_text_node_conversion`) -/
def demoCellW : WNode :=
  .elem ['c'] [⟨['r'], ['B', '2']⟩, ⟨['t'], ['s', 't', 'r']⟩, ⟨['s'], ['5']⟩]
    [.elem ['f'] [] [.conv ['A', '1', '<', '2']], .elem ['v'] [] [.conv ['a', '<', '\r', '"']]]

example : isElemW demoCellW = true ∧ WF demoCellW = true ∧
    normNode (erase demoCellW) = .elem ['c'] [⟨['r'], ['B', '2']⟩, ⟨['t'], ['s', 't', 'r']⟩, ⟨['s'], ['5']⟩]
      [.elem ['f'] [] [.text ['A', '1', '<', '2']], .elem ['v'] [] [.text ['a', '<', '\r', '"']]] := by
  refine ⟨by simp [demoCellW, isElemW], by simp only [demoCellW, WF, wfKids]; decide, ?_⟩
  simp [demoCellW, erase, eraseKids, normNode, normKids, normKidsAcc, pushP, Umya.Spec.Xml.pushText]

example : ∃ tbl' cx, writeTo demoF [] { col := 2, row := 2, raw := .str ['a', '<', '\r', '"'], formula := some ['A', '1', '<', '2'], styled := true }
    = some (tbl', some cx) := C02_cell_written demoF _ _ (by decide) (by decide)

end Cells

end Umya.Thm.C02
