/-
  C03 at package level — property theorems only (namespace `Umya.Thm.C03`, continuing `Umya/Thm/C03Sheet.lean`).

  * C03_style_resolution   style resolution through cellXfs: for EVERY valid `styles.xml` tree (`validStyles`: explicit,
                           decidable; any table sizes) the model of `Stylesheet::set_attributes` + `make_style` does not
                           panic and `maked_style_list` holds, xf by xf, exactly the effective facts the independent decoder's
                           `styleTable` assigns (font name / size / bold / italic / underline / strike / colour, pattern fill
                           with both colours, the five border edges with style and colour and the two diagonal flags,
                           alignment, number-format id and custom code, protection; `apply*` flags honoured).
  * C03_style_cell         … composed with the `s` attribute of a cell.
  * C03_style_components   the per-component statements (font, fill, border, alignment, protection, numFmt, xf).
  Model: `Umya/Model/ReaderStyle.lean` (built from the C05 codec models `Umya.StyleCodec.*.read` and `Umya.Style.pick`);
  decoder: `Umya.Spec.Sml.styleTable` (extended from ECMA-376 18.8 for this theorem: `FontV`, `FillV`, `BorderV`, `AlignV`,
  `ProtV`, `apply*`); helper lemmas `Umya/Lemmas/ReaderStyle*.lean`.
-/
import Umya.Lemmas.ReaderStyle6
import Umya.Thm.C03Sheet
namespace Umya.Thm.C03
open Umya.Reader Umya.Reader.Lemmas Umya.Spec.Xml Umya.Spec.Sml
open Umya.StyleCodec (Tok)

/-! ## style resolution through cellXfs -/
section Styles

/-- **Style resolution through cellXfs.**  For every `styles.xml` whose root element satisfies `validStyles` — any number
    of number formats, fonts, fills, borders and xfs; children in any order; optional children and attributes present or
    not; `apply*` flags present (`0` / `1` / `true` / `false`) or not — and every `cf` (what parsing a float text and
    printing it again yields; the identity on canonical texts): the model of the reader (`readStyleSheet` =
    `Stylesheet::set_attributes` + `make_style`) does not panic, builds as many styles as there are `<xf>` in `cellXfs`, and
    the style at EVERY index `i` shows exactly the facts the decoder's `styleTable` assigns to xf `i` (`xfFacts`: the
    decoder's `XfV` with the float texts — font size, tints — taken through `cf`). -/
theorem C03_style_resolution (cf : Tok → Tok) (root : Node) (h : validStyles root = true) :
    ∃ made, readStyleSheet cf root = some made ∧ made.length = (styleTable root).length ∧
      ∀ i : Nat, (made[i]?).map styleFacts = ((styleTable root)[i]?).map (xfFacts cf) := by
  obtain ⟨made, hm, hv⟩ := styles_agree cf root h
  refine ⟨made, hm, ?_, fun i => ?_⟩
  · have := congrArg List.length hv
    simpa using this
  · rw [← List.getElem?_map, ← List.getElem?_map, hv]

/-- **… for a cell.**  A `<c>` whose `s` attribute is an unsigned decimal below the number of xfs gets from the reader
    (`Cell::set_attributes`: `stylesheet.get_style(s)`) the facts of the xf the decoder's `decodeCell` points at; a `<c>`
    without `s` keeps the default style on the reader's side (no component at all) and has style index 0 on the decoder's. -/
theorem C03_style_cell (cf : Tok → Tok) (root : Node) (h : validStyles root = true) (sst : List Text) (c : Node) (v : Text)
    (hs : c.attr? "s".toList = some v) (hv : uintOk usizeBound v = true)
    (hi : (decodeCell sst c).1.style < (styleTable root).length) :
    ∃ made st, readStyleSheet cf root = some made ∧ cellStyle made c = some st ∧
      some (styleFacts st) = ((styleTable root)[(decodeCell sst c).1.style]?).map (xfFacts cf) := by
  obtain ⟨made, hm, hl, hv'⟩ := C03_style_resolution cf root h
  obtain ⟨n, hn, hp⟩ := uintOk_parse _ v hv
  have hst : (decodeCell sst c).1.style = n := by
    simp only [decodeCell, hs, Option.bind_some, hn, Option.getD_some]
  rw [hst] at hi ⊢
  have hlt : n < made.length := by rw [hl]; exact hi
  refine ⟨made, made[n], hm, ?_, ?_⟩
  · unfold cellStyle
    have : parseUsize v = some n := hp
    simp only [hs, this, Option.bind_some, List.getElem?_eq_getElem hlt]
  · have := hv' n
    rw [List.getElem?_eq_getElem hlt] at this
    exact this

theorem C03_style_cell_unstyled (made : List StyleR) (c : Node) (hs : c.attr? "s".toList = none) :
    cellStyle made c = some {} ∧ styleFacts {} = {} := by
  refine ⟨?_, rfl⟩
  unfold cellStyle
  simp only [hs]

/-- **the components**, one statement each (all for every element satisfying the named predicate, `cf` arbitrary):
    `Font::set_attributes`, `Fill::set_attributes`, `Borders::set_attributes`, `Alignment::set_attributes`,
    `Protection::set_attributes`, `NumberingFormat::set_attributes` show the decoder's `fontV`, `fillV`, `borderV`, `alignV`,
    `protV` and `numFmtTable` entry. -/
theorem C03_style_components (cf : Tok → Tok) :
    (∀ n, validFont n = true → ∃ f, Umya.StyleCodec.Font.read cf n = some f ∧ fontFacts f = cfFont cf (fontV n)) ∧
    (∀ n, validFill n = true → ∃ f, Umya.StyleCodec.Fill.read cf n = some f ∧ fillFacts f = cfFill cf (fillV n)) ∧
    (∀ n, validBorder n = true → ∃ b, Umya.StyleCodec.Borders.read cf n = some b ∧ borderFacts b = cfBorder cf (borderV n)) ∧
    (∀ n, validAlign n = true → ∃ a, Umya.StyleCodec.Alignment.read n = some a ∧ alignFacts a = alignV n) ∧
    (∀ n, ∃ p, Umya.StyleCodec.Protection.read n = some p ∧ protFacts p = protV n) ∧
    (∀ n, validXf n = true → ∃ x, readXf n = some x ∧ XfAgrees x n) :=
  ⟨font_agrees cf, fill_agrees cf, border_agrees cf, align_agrees, prot_agrees, xf_agrees⟩

/-! non-vacuity: a style sheet with a custom and built-in number formats, three fonts (children in different orders, `<b val="0"/>`,
    underline, colours by rgb / theme / indexed+tint), three fills, two borders, a non-trivial `cellStyleXfs`, and five xfs that
    share components: flags absent, `applyFont="0"`, `applyFill="false"`, alignment + protection, built-in 14 and custom 164 -/
def el (n : String) (attrs : List (String × String)) (kids : List Node) : Node :=
  .elem n.toList (attrs.map fun a => ⟨a.1.toList, a.2.toList⟩) kids

def exampleStyles : Node :=
  el "styleSheet" []
    [el "numFmts" [("count", "1")] [el "numFmt" [("numFmtId", "164"), ("formatCode", "yyyy\\-mm")] []],
     el "fonts" []
       [el "font" [] [el "sz" [("val", "11")] [], el "name" [("val", "Calibri")] [], el "family" [("val", "2")] []],
        el "font" [] [el "b" [] [], el "u" [] [], el "sz" [("val", "12.5")] [], el "color" [("rgb", "FFFF0000")] [], el "name" [("val", "Arial")] []],
        el "font" [] [el "name" [("val", "A&B")] [], el "b" [("val", "0")] [], el "i" [("val", "true")] [], el "strike" [] [],
                      el "u" [("val", "double")] [], el "color" [("theme", "4"), ("tint", "-0.25")] [], el "sz" [("val", "9")] []]],
     el "fills" []
       [el "fill" [] [el "patternFill" [("patternType", "none")] []],
        el "fill" [] [el "patternFill" [("patternType", "solid")] [el "fgColor" [("rgb", "FFFFFF00")] [], el "bgColor" [("indexed", "64")] []]],
        el "fill" [] [el "patternFill" [] [el "bgColor" [("theme", "1")] []]]],
     el "borders" []
       [el "border" [] [el "left" [] [], el "right" [] [], el "top" [] [], el "bottom" [] [], el "diagonal" [] []],
        el "border" [("diagonalUp", "1")]
          [el "left" [("style", "thin")] [el "color" [("indexed", "64")] []], el "right" [] [], el "top" [("style", "double")] [],
           el "bottom" [("style", "mediumDashDot")] [el "color" [("rgb", "FF000000")] []], el "diagonal" [("style", "hair")] []]],
     el "cellStyleXfs" [] [el "xf" [("numFmtId", "0"), ("fontId", "0"), ("fillId", "0"), ("borderId", "0")] []],
     el "cellXfs" []
       [el "xf" [("numFmtId", "0"), ("fontId", "0"), ("fillId", "0"), ("borderId", "0"), ("xfId", "0")] [],
        el "xf" [("numFmtId", "14"), ("fontId", "1"), ("fillId", "1"), ("borderId", "1"), ("applyNumberFormat", "1"), ("applyFont", "1")] [],
        el "xf" [("numFmtId", "164"), ("fontId", "1"), ("fillId", "1"), ("borderId", "1"), ("applyFont", "0"), ("applyFill", "false")]
          [el "alignment" [("horizontal", "center"), ("wrapText", "1"), ("textRotation", "45")] [], el "protection" [("locked", "0")] []],
        el "xf" [("numFmtId", "164"), ("fontId", "2"), ("fillId", "2"), ("borderId", "0"), ("applyNumberFormat", "0"), ("applyAlignment", "0")]
          [el "alignment" [("vertical", "top")] []],
        el "xf" [("fontId", "2"), ("fillId", "1")] []]]

theorem exampleStyles_valid : validStyles exampleStyles = true := by decide +kernel

/-- … and what it means: five styles; the third drops font and fill (`applyFont="0"`, `applyFill="false"`) but keeps the
    custom number format, alignment and protection; the fourth drops number format and alignment -/
example :
    ((readStyleSheet id exampleStyles).map fun m => m.map fun s => (s.numFmt.map (·.id), (s.font.bind (·.name)).getD [])) =
      some [(some 0, "Calibri".toList), (some 14, "Arial".toList), (some 164, []), (none, "A&B".toList), (some 0, "A&B".toList)] ∧
    ((readStyleSheet id exampleStyles).map fun m => m.map fun s =>
        [s.fill.isSome, s.borders.isSome, s.alignment.isSome, s.protection.isSome]) =
      some [[true, true, false, false], [true, true, false, false], [false, true, true, true], [true, true, false, false],
            [true, true, false, false]] := by
  refine ⟨by decide +kernel, by decide +kernel⟩

/-- An xf without an `<alignment>` child has no alignment of its own, whatever `cellStyleXfs[0]` carries (was known
    finding C03-style-alignment-from-cell-style, corpus file issue_210.xlsx: before the fix `make_style` handed
    `cellStyleXfs[0]` to `get_style_by_cell_format` as `def_cell_format` and an xf WITHOUT the child took that record's
    alignment / protection).  Witness (the shape Excel writes for a workbook whose Normal style is vertically centred):
    `cellStyleXfs = [<xf …><alignment vertical="center"/></xf>]`, `cellXfs = [<xf … applyAlignment="1"/>]`: the library,
    like the decoder (18.8.45: the xf's own record; no `<alignment>` = the defaults of CT_CellAlignment), shows no
    alignment for the cell xf; the sheet is inside `validStyles` now (the `defNeutral` clause asks for no `apply*`
    attribute on `cellStyleXfs[0]` only); the old rule (`resolveXfOld`) gave vertical = center. -/
def inheritStyles : Node :=
  el "styleSheet" []
    [el "fonts" [] [el "font" [] [el "sz" [("val", "11")] [], el "name" [("val", "Calibri")] []]],
     el "fills" [] [el "fill" [] [el "patternFill" [("patternType", "none")] []]],
     el "borders" [] [el "border" [] [el "left" [] [], el "right" [] [], el "top" [] [], el "bottom" [] [], el "diagonal" [] []]],
     el "cellStyleXfs" [] [el "xf" [("numFmtId", "0"), ("fontId", "0"), ("fillId", "0"), ("borderId", "0")]
       [el "alignment" [("vertical", "center")] []]],
     el "cellXfs" [] [el "xf" [("numFmtId", "0"), ("fontId", "0"), ("fillId", "0"), ("borderId", "0"), ("xfId", "0"), ("applyAlignment", "1")] []]]

theorem C03_style_alignment_own_record :
    ((readStyleSheet id inheritStyles).map fun m => m.map fun s => (styleFacts s).alignment) = some [none] ∧
    ((styleTable inheritStyles).map fun x => (xfFacts id x).alignment) = [none] ∧
    validStyles inheritStyles = true := by
  refine ⟨by decide +kernel, by decide +kernel, by decide +kernel⟩

/-- the rule before the fix, on the same records: the cell xf took the alignment of `cellStyleXfs[0]` -/
theorem C03_style_alignment_from_cell_style_unfixed_fails :
    ((resolveXfOld {} { alignment := some { vertical := some .center } }
        { applyFont := some false, applyFill := some false, applyBorder := some false, applyAlignment := some true }).map
        fun s => s.alignment) = some (some { vertical := some .center }) ∧
    ((resolveXf {} { alignment := some { vertical := some .center } }
        { applyFont := some false, applyFill := some false, applyBorder := some false, applyAlignment := some true }).map
        fun s => s.alignment) = some none := by
  refine ⟨by decide +kernel, by decide +kernel⟩

end Styles

end Umya.Thm.C03
