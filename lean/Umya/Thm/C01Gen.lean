/-
  C01 — tie to the source (T), part 3: the `t=` choice of a cell (`CellRawValue::get_data_type`,
  `CellValue::get_data_type_crate`), compiled to Lean from the CURRENT source on every run, equals the hand model's.
-/
import Umya.Lemmas.FnsGenCell
namespace Umya.Thm.C01
open Umya.CellXml Umya.Num

/-- **Tie to the source (T).**  For every model value `r` and optional formula `f`: the compiled
    `get_data_type` on the variant tag of `r` is `r.dataType`, and the compiled `get_data_type_crate` on
    (tag of `r`, `f.is_some()`) is the model's `dataTypeOf` — the `"str"` arm for plain text results of formulas and the
    `"s"` arm for rich text results (fix 5) included;
    every variant of the `CellRawValue` declaration is covered by the model. -/
theorem C01_datatype_matches_source :
    (∀ (F : NumFmt) (r : RawValue F.Num), Umya.Gen.raw_get_data_type (Umya.Gen.tagOf r) = r.dataType) ∧
    (∀ (F : NumFmt) (r : RawValue F.Num) (f : Option (List Char)),
      Umya.Gen.get_data_type_crate (Umya.Gen.tagOf r) (f.map fun _ => ()) = dataTypeOf F r f) ∧
    (∀ t : Umya.Gen.CellRawValue_tag, ∃ r : RawValue Nat, Umya.Gen.tagOf r = t) :=
  ⟨fun _ r => Umya.Gen.gen_raw_get_data_type r, fun F r f => Umya.Gen.gen_get_data_type_crate F r f,
   Umya.Gen.tagOf_surjective⟩

example : Umya.Gen.get_data_type_crate .String (some ()) = ['s', 't', 'r'] := by decide
example : Umya.Gen.get_data_type_crate .Numeric (some ()) = ['n'] := by decide
example : Umya.Gen.get_data_type_crate .String none = ['s'] := by decide
/-- fix 5: a rich text cached under a formula keeps the shared-string type -/
example : Umya.Gen.get_data_type_crate .RichText (some ()) = ['s'] := by decide

end Umya.Thm.C01
