/-
  C04 — edits that change WHICH cells exist: a value set at an empty position (`get_cell_mut` creates the cell and
  the row record of its row), `remove_cell`, an edit that leaves the cell blank without a style (the writer drops it),
  and a style edit that interns a NEW xf.

  Models: `Umya/Model/CellEdit.lean` (`createSheet`, `deleteSheet`, `lookup`, `ensureRow`), the workbook projection
  `BookP` and its explicit normal form `normBook` of `Umya/Thm/C04Fix.lean` (one save + load IS `normBook`:
  `C04_workbook_resave_defined`), the style sheet of C05 (`setAll` = the writer's `set_style` over all cells).
  The `<dimension ref>` attribute is not a field of the projection (the writer computes it from the cells, the
  reader does not keep it): what changes of it is determined by the cell list, stated here by `lookup`.
-/
import Umya.Thm.C04Fix
import Umya.Lemmas.ResaveEdit
import Umya.Lemmas.ResaveStrings
import Umya.Thm.C05
namespace Umya.Thm.C04
open Umya.Resave

section Edit
open Umya.AnnotCodec Umya.AnnotProt Umya.AnnotView Umya.AnnotPage Umya.Annot Umya.AnnotDv Umya.AnnotCf Umya.Coord
open Umya.Num Umya.CellXml

variable (cf : Umya.StyleCodec.Tok → Umya.StyleCodec.Tok) (hz : cf Umya.StyleCodec.zeroTok = Umya.StyleCodec.zeroTok)
variable {Z : NumZ} (hs : Z.F.Sound) (F : NumFmt) (hF : F.Sound) (e : SaveEnv)

/-- `f` applied to element `i` of a list (nothing happens when there is none) -/
def onIdx {α : Type} (l : List α) (i : Nat) (f : α → α) : List α :=
  match l[i]? with
  | some a => l.set i (f a)
  | none => l

theorem map_onIdx {α β : Type} (l : List α) (i : Nat) (f : α → α) (f' : β → β) (g : α → β) (hg : ∀ a, g (f a) = f' (g a)) :
    (onIdx l i f).map g = onIdx (l.map g) i f' := by
  unfold onIdx
  cases h : l[i]? with
  | none => simp [h]
  | some a => simp [h, List.map_set, hg]

theorem onIdx_other {α : Type} (l : List α) (i i' : Nat) (f : α → α) (hne : i' ≠ i) : (onIdx l i f)[i']? = l[i']? := by
  unfold onIdx
  cases h : l[i]? with
  | none => rfl
  | some a => simp [List.getElem?_set, Ne.symm hne]

theorem onIdx_self {α : Type} (l : List α) (i : Nat) (f : α → α) (a : α) (h : l[i]? = some a) :
    (onIdx l i f)[i]? = some (f a) := by
  have hi : i < l.length := by
    rcases Nat.lt_or_ge i l.length with h1 | h1
    · exact h1
    · rw [List.getElem?_eq_none h1] at h; cases h
  unfold onIdx
  simp only [h]
  simp [hi]

/-- the row record of row `r` exists afterwards (`get_row_dimension_mut`) -/
def SheetP.withRow (s : SheetP Z) (r x : Nat) : SheetP Z := { s with rows := ensureRow r x s.rows }

/-- the column record of column `k` exists afterwards (`get_column_dimension_by_number_mut`) -/
def SheetP.withCol (s : SheetP Z) (k y : Nat) : SheetP Z := { s with cols := ensureCol k y s.cols }

theorem normSheet_withCol (s : SheetP Z) (k y : Nat) : normSheet (s.withCol k y) = (normSheet s).withCol k y := by
  simp only [normSheet, SheetP.withCol, ensureCol_map_norm]

theorem normSheet_withRow (s : SheetP Z) (r x : Nat) : normSheet (s.withRow r x) = (normSheet s).withRow r x := by
  simp only [normSheet, SheetP.withRow, ensureRow_map_norm]

/-- `get_cell_mut` at an empty position of sheet `i`, then a setter: the new cell `c` is in the sheet's collection
    (after the first `n` cells: any place), and row `c.row` and column `c.col` have a record (`x`, `y` = the xf indices
    given to the default style of the new row / column record) -/
def BookP.createCell (b : BookP F Z) (i n : Nat) (c : Cell F.Num) (x y : Nat) : BookP F Z :=
  { b with cells := onSheet F b.cells i (createSheet F n c),
           sheets := onIdx b.sheets i (fun s => (s.withRow c.row x).withCol c.col y) }

/-- `remove_cell` on sheet `i` (the row record stays) -/
def BookP.deleteCell (b : BookP F Z) (i : Nat) (k : Nat × Nat) : BookP F Z :=
  { b with cells := onSheet F b.cells i (deleteSheet F k) }

theorem normBook_createCell (b : BookP F Z) (i n : Nat) (c : Cell F.Num) (x y : Nat) (s : List (Cell F.Num))
    (hs' : b.cells[i]? = some s) (hc : blankUnstyled F c = false) :
    normBook F (b.createCell F i n c x y) = (normBook F b).createCell F i (keptBefore F s n) (Cell.resolved F c) x y := by
  have h1 : normalize F (onSheet F b.cells i (createSheet F n c))
      = onSheet F (normalize F b.cells) i (createSheet F (keptBefore F s n) (Cell.resolved F c)) :=
    normalize_onSheet F b.cells i _ _ (fun s0 h0 => by
      rw [hs'] at h0; cases h0; exact normS_createSheet F n c s hc)
  have h2 : (onIdx b.sheets i (fun s => (s.withRow c.row x).withCol c.col y)).map normSheet
      = onIdx (b.sheets.map normSheet) i (fun s => (s.withRow c.row x).withCol c.col y) :=
    map_onIdx _ _ _ _ _ (fun a => by rw [normSheet_withCol, normSheet_withRow])
  simp only [normBook, BookP.createCell, h1, h2]
  rfl

theorem normBook_deleteCell (b : BookP F Z) (i : Nat) (k : Nat × Nat) :
    normBook F (b.deleteCell F i k) = (normBook F b).deleteCell F i k := by
  have h1 : normalize F (onSheet F b.cells i (deleteSheet F k)) = onSheet F (normalize F b.cells) i (deleteSheet F k) :=
    normalize_onSheet F b.cells i _ _ (fun s0 _ => normS_deleteSheet F k s0)
  simp only [normBook, BookP.deleteCell, h1]

/-- **A value set at an empty position.**  Sheet `i` holds the cells `s`, none of them at the coordinate of `c`
    (`hnew`); `c` is what the setter left there, something the writer writes (`hc`: a value, a formula or a style).
    Then load → edit → save → load is: the reloaded workbook with the (resolved) new cell inserted and the row
    record ensured (1, 2).  Consequently (3) every other sheet — its cells and its records — is untouched; (4) on
    sheet `i` exactly one cell more is read, the new coordinate reads the new cell, every other coordinate reads
    what it read without the edit; (5) every row record that was there is there unchanged, at most one is added (a
    default one for the new cell's row), the same for the column records (at most one default record, for the new
    cell's column, pushed at the end), every other annotation of the sheet is unchanged;
    (6) styles, names, protection: unchanged.  (The used range / `<dimension ref>` follows the cell list.) -/
theorem C04_edit_local_book_create (b : BookP F Z) (i n : Nat) (c : Cell F.Num) (x y : Nat) (s : List (Cell F.Num))
    (hs' : b.cells[i]? = some s) (hc : blankUnstyled F c = false) (hnew : lookup F s (c.row, c.col) = none)
    (h : BookP.WF cf hz hs F hF e b) (h' : BookP.WF cf hz hs F hF e (b.createCell F i n c x y)) :
    resave cf hz hs F hF e (b.createCell F i n c x y)
      = (resave cf hz hs F hF e b).map (fun g => g.createCell F i (keptBefore F s n) (Cell.resolved F c) x y) ∧
    normBook F (b.createCell F i n c x y) = (normBook F b).createCell F i (keptBefore F s n) (Cell.resolved F c) x y ∧
    (∀ i', i' ≠ i → (normBook F (b.createCell F i n c x y)).cells[i']? = (normBook F b).cells[i']? ∧
      (normBook F (b.createCell F i n c x y)).sheets[i']? = (normBook F b).sheets[i']?) ∧
    (∃ s1, (normBook F (b.createCell F i n c x y)).cells[i]? = some s1 ∧ (normBook F b).cells[i]? = some (normS F s) ∧
      s1.length = (normS F s).length + 1 ∧ lookup F s1 (c.row, c.col) = some (Cell.resolved F c) ∧
      ∀ k, k ≠ (c.row, c.col) → lookup F s1 k = lookup F (normS F s) k) ∧
    (∀ sh, (normBook F b).sheets[i]? = some sh →
      (normBook F (b.createCell F i n c x y)).sheets[i]? = some ((sh.withRow c.row x).withCol c.col y) ∧
      (∀ (j : Nat) (p : Umya.StyleCodec.Row × Nat), sh.rows[j]? = some p → ((sh.withRow c.row x).withCol c.col y).rows[j]? = some p) ∧
      ((sh.withRow c.row x).withCol c.col y).rows.length ≤ sh.rows.length + 1 ∧
      (∀ (j : Nat) (p : Umya.StyleCodec.Col × Nat × Nat × Nat), sh.cols[j]? = some p →
        ((sh.withRow c.row x).withCol c.col y).cols[j]? = some p) ∧
      ((sh.withRow c.row x).withCol c.col y).cols.length ≤ sh.cols.length + 1 ∧
      { (sh.withRow c.row x).withCol c.col y with rows := sh.rows, cols := sh.cols } = sh) ∧
    { normBook F (b.createCell F i n c x y) with cells := (normBook F b).cells, sheets := (normBook F b).sheets } = normBook F b := by
  have e0 := normBook_createCell F b i n c x y s hs' hc
  have hn : (normBook F b).cells[i]? = some (normS F s) := by
    show (normalize F b.cells)[i]? = _
    simp [normalize_eq_map, hs']
  have hnew' : lookup F (normS F s) ((Cell.resolved F c).row, (Cell.resolved F c).col) = none :=
    lookup_normS_none F s _ hnew
  refine ⟨?_, e0, ?_, ?_, ?_, ?_⟩
  · rw [C04_workbook_resave_defined cf hz hs F hF e _ h', C04_workbook_resave_defined cf hz hs F hF e b h, e0]; rfl
  · intro i' hne
    rw [e0]
    exact ⟨onSheet_other F _ i i' _ hne, onIdx_other _ i i' _ hne⟩
  · refine ⟨createSheet F (keptBefore F s n) (Cell.resolved F c) (normS F s), ?_, hn, length_createSheet F _ _ _, ?_, ?_⟩
    · rw [e0]; exact onSheet_self F _ i _ _ hn
    · exact lookup_createSheet_self F _ _ _ hnew'
    · intro k hk
      exact lookup_createSheet_other F _ _ _ k (fun h => hk h.symm)
  · intro sh hsh
    refine ⟨?_, fun j p hj => ensureRow_old _ _ _ j p hj, ?_, fun j p hj => ensureCol_old _ _ _ j p hj, ?_, rfl⟩
    · rw [e0]; exact onIdx_self _ i _ sh hsh
    · show (ensureRow c.row x sh.rows).length ≤ _
      unfold ensureRow
      split <;> simp
    · show (ensureCol c.col y sh.cols).length ≤ _
      unfold ensureCol
      split <;> simp
  · rw [e0]; rfl

/-- **A cell removed.**  Load → `remove_cell` → save → load is the reloaded workbook with that cell removed: every other
    sheet is untouched, on sheet `i` the coordinate reads nothing and every other coordinate reads what it read
    without the edit; all records (rows — the removed cell's row record stays —, columns, annotations), styles, names:
    unchanged.  No hypothesis on the coordinate: removing where nothing is changes nothing. -/
theorem C04_edit_local_book_delete (b : BookP F Z) (i : Nat) (k : Nat × Nat)
    (h : BookP.WF cf hz hs F hF e b) (h' : BookP.WF cf hz hs F hF e (b.deleteCell F i k)) :
    resave cf hz hs F hF e (b.deleteCell F i k) = (resave cf hz hs F hF e b).map (fun g => g.deleteCell F i k) ∧
    normBook F (b.deleteCell F i k) = (normBook F b).deleteCell F i k ∧
    (∀ i', i' ≠ i → (normBook F (b.deleteCell F i k)).cells[i']? = (normBook F b).cells[i']?) ∧
    (∀ s0, (normBook F b).cells[i]? = some s0 → ∃ s1, (normBook F (b.deleteCell F i k)).cells[i]? = some s1 ∧
      lookup F s1 k = none ∧ (∀ k', k' ≠ k → lookup F s1 k' = lookup F s0 k') ∧ s1.length ≤ s0.length) ∧
    { normBook F (b.deleteCell F i k) with cells := (normBook F b).cells } = normBook F b := by
  have e0 := normBook_deleteCell F b i k
  refine ⟨?_, e0, ?_, ?_, ?_⟩
  · rw [C04_workbook_resave_defined cf hz hs F hF e _ h', C04_workbook_resave_defined cf hz hs F hF e b h, e0]; rfl
  · intro i' hne; rw [e0]; exact onSheet_other F _ i i' _ hne
  · intro s0 h0
    refine ⟨deleteSheet F k s0, ?_, lookup_deleteSheet_self F k s0, fun k' hk => lookup_deleteSheet_other F k k' s0 hk,
      List.length_filter_le _ _⟩
    rw [e0]; exact onSheet_self F _ i _ s0 h0
  · rw [e0]; rfl

/-- **A cell made blank without a style** (`set_blank` on an unstyled cell, `remove_style` on a blank one …: `hf`):
    the writer drops it — after save + load the workbook is the one `remove_cell` gives -/
theorem C04_edit_local_book_blank (b : BookP F Z) (i : Nat) (k : Nat × Nat) (f : Cell F.Num → Cell F.Num)
    (hf : ∀ c, blankUnstyled F (f c) = true) :
    normBook F (b.editCell F i k f) = normBook F (b.deleteCell F i k) ∧
    normBook F (b.editCell F i k f) = (normBook F b).deleteCell F i k := by
  have h1 : normalize F (editCells F b.cells i k f) = normalize F (onSheet F b.cells i (deleteSheet F k)) := by
    unfold editCells onSheet
    cases hc : b.cells[i]? with
    | none => rfl
    | some s =>
      simp only [normalize_eq_map, List.map_set, normS_editSheet_blank F k f hf s]
  have h2 : normBook F (b.editCell F i k f) = normBook F (b.deleteCell F i k) := by
    simp only [normBook, BookP.editCell, BookP.deleteCell, h1]
  exact ⟨h2, h2.trans (normBook_deleteCell F b i k)⟩

end Edit

/-! ## the shared-string table under a creating edit -/

section Strings
open Umya.Num Umya.CellXml Umya.InternC01

variable (F : NumFmt)

theorem flatten_onSheet : ∀ (cells : List (List (Cell F.Num))) (i : Nat) (s : List (Cell F.Num))
    (g : List (Cell F.Num) → List (Cell F.Num)), cells[i]? = some s →
    ∃ A B, cells.flatten = A ++ s ++ B ∧ (onSheet F cells i g).flatten = A ++ g s ++ B
  | [], i, s, g, h => by cases h
  | x :: xs, 0, s, g, h => by
    have : x = s := by simpa using h
    subst this
    exact ⟨[], xs.flatten, by simp, by simp [onSheet]⟩
  | x :: xs, i + 1, s, g, h => by
    have h' : xs[i]? = some s := by simpa using h
    obtain ⟨A, B, e1, e2⟩ := flatten_onSheet xs i s g h'
    refine ⟨x ++ A, B, by simp [e1], ?_⟩
    have : onSheet F (x :: xs) (i + 1) g = x :: onSheet F xs i g := by
      simp [onSheet, h']
    rw [this]; simp [e2]

/-- **The shared-string table when a cell is created.**  The table a save writes is: the items the cells register
    (`regOf`: a written cell with a non-empty value of type `s`), in writing order, interned one after the other —
    first occurrence wins (`writeBook_sst`).  With the new cell `c` written after the items `pre` and before the items
    `post`: the new table is `internList [] (pre ++ [new] ++ post)` against `internList [] (pre ++ post)`.  So:
    the strings first used before the new cell keep their indices (both tables start with the table of `pre`); if the
    new string occurs in `pre` nothing changes at all; otherwise it takes the next index after `pre`'s, and the strings
    first used after it move up by one (or, if the new string also occurs later, the ones between move up and the rest
    stay) — indices of OTHER cells can move.  What does not move: (set) the new table holds exactly the old items plus
    the new one, both without duplicates — it grows by at most that one string —; (resolution) reading the written
    file back through the NEW table gives every cell its own value: the reloaded sheets are `normalize` of the edited
    ones, i.e. (by `C04_edit_local_book_create`) the old reloaded cells plus the new one. -/
theorem C04_edit_create_strings (hF : F.Sound) (light : Bool) (cells : List (List (Cell F.Num))) (i n : Nat)
    (c : Cell F.Num) (s : List (Cell F.Num)) (hs : cells[i]? = some s)
    (hok : ∀ s ∈ cells, ∀ c ∈ s, cellOK F c = true) (hc : cellOK F c = true) :
    ∃ b0 b1 pre post,
      writeBook F light cells = some b0 ∧ writeBook F light (onSheet F cells i (createSheet F n c)) = some b1 ∧
      itemsOf F cells = pre ++ post ∧
      itemsOf F (onSheet F cells i (createSheet F n c)) = pre ++ (regOf F c).toList ++ post ∧
      b0.sst = (internList [] (pre ++ post)).map siOf ∧
      b1.sst = (internList [] (pre ++ (regOf F c).toList ++ post)).map siOf ∧
      (∃ e0 e1, internList [] (pre ++ post) = internList [] pre ++ e0 ∧
        internList [] (pre ++ (regOf F c).toList ++ post) = internList [] pre ++ e1) ∧
      (∀ it, it ∈ internList [] (pre ++ (regOf F c).toList ++ post) ↔ it ∈ internList [] (pre ++ post) ∨ regOf F c = some it) ∧
      (internList [] (pre ++ post)).Nodup ∧ (internList [] (pre ++ (regOf F c).toList ++ post)).Nodup ∧
      (b1.sst.length < 18446744073709551616 →
        readBook F b1 = some (normalize F (onSheet F cells i (createSheet F n c)))) := by
  have hok' : ∀ s' ∈ onSheet F cells i (createSheet F n c), ∀ c' ∈ s', cellOK F c' = true := by
    intro s' hs' c' hc'
    unfold onSheet at hs'
    rw [hs] at hs'
    rcases List.mem_or_eq_of_mem_set hs' with h1 | h1
    · exact hok s' h1 c' hc'
    · subst h1
      have hsm : s ∈ cells := List.mem_of_getElem? hs
      unfold createSheet at hc'
      rcases List.mem_append.1 hc' with h2 | h2
      · exact hok s hsm c' (List.mem_of_mem_take h2)
      · rcases List.mem_cons.1 h2 with h3 | h3
        · rw [h3]; exact hc
        · exact hok s hsm c' (List.mem_of_mem_drop h3)
  obtain ⟨b0, hw0, _⟩ := writeBook_readBook F hF light cells hok
  obtain ⟨b1, hw1, hr1⟩ := writeBook_readBook F hF light _ hok'
  obtain ⟨A, B, eA, eB⟩ := flatten_onSheet F cells i s (createSheet F n c) hs
  let pre := (A ++ s.take n).filterMap (regOf F)
  let post := (s.drop n ++ B).filterMap (regOf F)
  have i0 : itemsOf F cells = pre ++ post := by
    show cells.flatten.filterMap (regOf F) = _
    rw [eA, ← List.filterMap_append]
    congr 1
    rw [List.append_assoc, List.append_assoc, ← List.append_assoc (s.take n), List.take_append_drop]
  have i1 : itemsOf F (onSheet F cells i (createSheet F n c)) = pre ++ (regOf F c).toList ++ post := by
    show (onSheet F cells i (createSheet F n c)).flatten.filterMap (regOf F) = _
    rw [eB]
    simp only [createSheet, pre, post, List.filterMap_append, List.filterMap_cons, List.append_assoc]
    cases regOf F c <;> simp
  refine ⟨b0, b1, pre, post, hw0, hw1, i0, i1, ?_, ?_, ?_, ?_, ?_, ?_, hr1⟩
  · rw [writeBook_sst F light cells b0 hw0, i0]
  · rw [writeBook_sst F light _ b1 hw1, i1]
  · obtain ⟨e0, h0⟩ := internList_prefix post (internList [] pre)
    obtain ⟨e1, h1⟩ := internList_prefix ((regOf F c).toList ++ post) (internList [] pre)
    exact ⟨e0, e1, by rw [internList_append]; exact h0, by rw [List.append_assoc, internList_append]; exact h1⟩
  · intro it
    simp only [internList_mem, List.mem_append, List.not_mem_nil, false_or, Option.mem_toList]
    constructor
    · rintro ((h | h) | h)
      · exact Or.inl (Or.inl h)
      · exact Or.inr h
      · exact Or.inl (Or.inr h)
    · rintro ((h | h) | h)
      · exact Or.inl (Or.inl h)
      · exact Or.inr h
      · exact Or.inl (Or.inr h)
  · exact internList_nodup _ _ List.nodup_nil
  · exact internList_nodup _ _ List.nodup_nil

end Strings

/-! ## a style edit that interns a NEW xf -/

section NewStyle
open Umya.Style Umya.Interning Umya.Thm.C05

/-- **A new style on one cell.**  The writer interns the cells' styles in cell order (`setAll` over the list `l`); a
    style edit on cell `k` replaces `l[k]` by a style `s'` (any: one the tables have never seen included).  The xf
    INDEX another cell `j` is written with may be a different one than without the edit (if the replaced style was
    used by cell `k` only, its xf is no longer allocated and later ones move down; a new `s'` is appended at the
    place of its first use) — see the example below —, but what it denotes is not: after save + load, cell `j` reads
    through its index, with and without the edit, the effective formatting of its own style `s`; and cell `k` reads
    that of `s'`. -/
theorem C04_edit_new_style_local (cs : Codecs) (key : Tok → Tok) (hkey : ∀ a b, key a = key b → a = b)
    (ss : Sheet) (h : Inv cs ss) (l : List Style) (hl : ∀ s ∈ l, s.WF) (k : Nat) (s' : Style) (hs' : s'.WF) (hk : k < l.length) :
    (∀ (j : Nat) (s : Style), j ≠ k → l[j]? = some s →
      (∃ i st ef, (setAll key ss (l.set k s')).2[j]? = some i ∧ styleAt cs (setAll key ss (l.set k s')).1 i = some st ∧
        eff cs (setAll key ss (l.set k s')).1 st = some ef ∧ eff cs (setAll key ss (l.set k s')).1 s = some ef) ∧
      (∃ i st ef, (setAll key ss l).2[j]? = some i ∧ styleAt cs (setAll key ss l).1 i = some st ∧
        eff cs (setAll key ss l).1 st = some ef ∧ eff cs (setAll key ss l).1 s = some ef)) ∧
    (∃ i st ef, (setAll key ss (l.set k s')).2[k]? = some i ∧ styleAt cs (setAll key ss (l.set k s')).1 i = some st ∧
      eff cs (setAll key ss (l.set k s')).1 st = some ef ∧ eff cs (setAll key ss (l.set k s')).1 s' = some ef) := by
  have hl' : ∀ s ∈ l.set k s', s.WF := by
    intro s hs
    rcases List.mem_or_eq_of_mem_set hs with h1 | h1
    · exact hl s h1
    · rw [h1]; exact hs'
  refine ⟨fun j s hne hj => ⟨?_, C05_get_set_all cs key hkey ss h l hl j s hj⟩, ?_⟩
  · refine C05_get_set_all cs key hkey ss h _ hl' j s ?_
    rw [List.getElem?_set_ne (Ne.symm hne)]; exact hj
  · refine C05_get_set_all cs key hkey ss h _ hl' k s' ?_
    simp [hk]

end NewStyle

/-! ## non-vacuity -/

section DemoEdit
open Umya.Num Umya.CellXml Umya.Thm.C01

def exSheet : List (Cell natFmt.Num) :=
  [{ col := 1, row := 1, raw := .str ['a'] }, { col := 2, row := 1 }, { col := 1, row := 3, raw := .lazy ['7'] }]
def exNew : Cell natFmt.Num := { col := 2, row := 2, raw := .str "CREATED<&>".toList }

/-- the hypotheses of `C04_edit_local_book_create` on the cell side hold (sheet 0 of `demoBook` with its own cells is
    a `BookP.WF` value: `demoBook_WF`); the created cell lands between kept cells, after a dropped one -/
example : lookup natFmt exSheet (exNew.row, exNew.col) = none ∧ blankUnstyled natFmt exNew = false ∧
    keptBefore natFmt exSheet 2 = 1 ∧
    (normS natFmt (createSheet natFmt 2 exNew exSheet)).map (fun c => (c.row, c.col)) = [(1, 1), (2, 2), (3, 1)] ∧
    (ensureRow 2 0 [({ num := 1 }, 0), ({ num := 3 }, 0)]).map (·.1.num) = [1, 3, 2] ∧
    (ensureRow 3 0 [({ num := 1 }, 0), ({ num := 3 }, 0)]).map (·.1.num) = [1, 3] := by decide
/-- delete / blank: the cell at row 3 goes, the rest stays; `setBlank` satisfies `hf` on unstyled cells of this sheet -/
example : (normS natFmt (deleteSheet natFmt (3, 1) exSheet)).map (fun c => (c.row, c.col)) = [(1, 1)] ∧
    normS natFmt (editSheet natFmt (3, 1) (fun c => { c with raw := .empty, formula := none, styled := false }) exSheet)
      = normS natFmt (deleteSheet natFmt (3, 1) exSheet) := by decide
example : ∀ c : Cell natFmt.Num, blankUnstyled natFmt { c with raw := .empty, formula := none, styled := false } = true := by
  intro c; simp [blankUnstyled, blankCore, Cell.resolved, resolveRaw, RawValue.isEmpty]
/-- the delete theorem's hypotheses on a whole projection -/
example : ∃ b : BookP natFmt Umya.Thm.C06.exZ, BookP.WF id rfl Umya.Thm.C06.exFmt_sound natFmt natFmt_sound demoEnv b ∧ b.cells ≠ [] :=
  ⟨demoBook, demoBook_WF demoEnv demoEnv_ok, by decide⟩

/-- `C04_edit_create_strings`: a text cell created between two text cells — the string first used after it moves from
    index 1 to index 2, the one before keeps index 0; the same string again adds nothing -/
example :
    let a : Cell natFmt.Num := { col := 1, row := 1, raw := .str ['a'] }
    let b : Cell natFmt.Num := { col := 3, row := 1, raw := .str ['b'] }
    let x : Cell natFmt.Num := { col := 2, row := 1, raw := .str ['x'] }
    let a' : Cell natFmt.Num := { col := 2, row := 1, raw := .str ['a'] }
    cellOK natFmt x = true ∧ regOf natFmt x = some { text := some ['x'] } ∧
    internList [] (itemsOf natFmt [[a, b]]) = [{ text := some ['a'] }, { text := some ['b'] }] ∧
    internList [] (itemsOf natFmt (onSheet natFmt [[a, b]] 0 (createSheet natFmt 1 x)))
      = [{ text := some ['a'] }, { text := some ['x'] }, { text := some ['b'] }] ∧
    internList [] (itemsOf natFmt (onSheet natFmt [[a, b]] 0 (createSheet natFmt 1 a')))
      = [{ text := some ['a'] }, { text := some ['b'] }] := by decide

/-- `C04_edit_new_style_local`, the renumbering of the docstring (styles of `Umya/Thm/C05.lean`, well-formed by
    `wf_list`): cells styled [sA, sA, sC] are written with xf [2, 2, 3]; a NEW style sD on the second cell gives
    [2, 3, 4] — the third cell's index moves up —; on [sA, sB, sC] ↦ [2, 3, 4], replacing sB (used by that cell only)
    by sA gives [2, 2, 3] — the third cell's index moves down -/
example : (Umya.Style.setAll id (Umya.Style.initSheet id) [Umya.Thm.C05.sA, Umya.Thm.C05.sA, Umya.Thm.C05.sC]).2 = [2, 2, 3] ∧
    (Umya.Style.setAll id (Umya.Style.initSheet id) ([Umya.Thm.C05.sA, Umya.Thm.C05.sA, Umya.Thm.C05.sC].set 1 Umya.Thm.C05.sD)).2 = [2, 3, 4] ∧
    (Umya.Style.setAll id (Umya.Style.initSheet id) [Umya.Thm.C05.sA, Umya.Thm.C05.sB, Umya.Thm.C05.sC]).2 = [2, 3, 4] ∧
    (Umya.Style.setAll id (Umya.Style.initSheet id) ([Umya.Thm.C05.sA, Umya.Thm.C05.sB, Umya.Thm.C05.sC].set 1 Umya.Thm.C05.sA)).2 = [2, 2, 3] := by
  decide

/-- the hypotheses of `C04_edit_local_book_delete` on a whole projection: `demoBook` with the cell at row 1, column 1
    of its first sheet removed -/
theorem demoBook_delete_WF :
    BookP.WF id rfl Umya.Thm.C06.exFmt_sound natFmt natFmt_sound demoEnv (demoBook.deleteCell natFmt 0 (1, 1)) := by
  obtain ⟨h1, _, h3⟩ := demoBook_WF demoEnv demoEnv_ok
  refine ⟨h1, ⟨by decide, ?_⟩, h3⟩
  intro b hb
  have : ∀ b ∈ writeBook natFmt false (onSheet natFmt demo 0 (deleteSheet natFmt (1, 1))),
      b.sst.length < 18446744073709551616 := by decide
  exact this b hb

/-- … and of `C04_edit_local_book_create`: a text cell created at row 2, column 5 of the first sheet (no cell there;
    the row has no record yet: one is made; column 5 neither: one is made) -/
def exCreated : Cell natFmt.Num := { col := 5, row := 2, raw := .str "CREATED<&>".toList }
example : lookup natFmt demo[0] (exCreated.row, exCreated.col) = none ∧ blankUnstyled natFmt exCreated = false ∧
    ((demoSheet1.withRow 2 0).withCol 5 0).rows.length = demoSheet1.rows.length + 1 ∧
    ((demoSheet1.withRow 2 0).withCol 5 0).cols.length = demoSheet1.cols.length + 1 := by decide

theorem demoBook_create_WF :
    BookP.WF id rfl Umya.Thm.C06.exFmt_sound natFmt natFmt_sound demoEnv (demoBook.createCell natFmt 0 1 exCreated 0 0) := by
  obtain ⟨h1, _, hsheets, rest⟩ := demoBook_WF demoEnv demoEnv_ok
  refine ⟨h1, ⟨by decide, ?_⟩, ?_, rest⟩
  · intro b hb
    have : ∀ b ∈ writeBook natFmt false (onSheet natFmt demo 0 (createSheet natFmt 1 exCreated)),
        b.sst.length < 18446744073709551616 := by decide
    exact this b hb
  · intro s hs
    have hs' : s = (demoSheet1.withRow 2 0).withCol 5 0 ∨ s = demoSheet2 := by
      simpa [BookP.createCell, onIdx, demoBook, exCreated] using hs
    rcases hs' with rfl | rfl
    · obtain ⟨a1, a2, a3, a4, a5, a6, a7, a8, a9, a10, a11, hr, hc⟩ := demoSheet1_WF demoEnv demoEnv_ok
      refine ⟨a1, a2, a3, a4, a5, a6, a7, a8, a9, a10, a11, ?_, ?_⟩
      · intro p hp
        have hp' : p ∈ demoSheet1.rows ∨ p = ({ num := 2 }, 0) := by
          have : p ∈ demoSheet1.rows ++ [({ num := 2 }, 0)] := hp
          simpa using this
        rcases hp' with h | rfl
        · exact hr p h
        · refine ⟨⟨by decide, ?_, ?_⟩, by decide⟩
          · intro t ht; cases ht
          · intro t ht; cases ht
      · intro p hp
        have hp' : p ∈ demoSheet1.cols ∨ p = ({ width := Umya.StyleCodec.defaultWidth }, 5, 5, 0) := by
          have : p ∈ demoSheet1.cols ++ [({ width := Umya.StyleCodec.defaultWidth }, 5, 5, 0)] := hp
          simpa using this
        rcases hp' with h | rfl
        · exact hc p h
        · exact ⟨rfl, by decide, by decide, by decide⟩
    · exact hsheets demoSheet2 (by simp [demoBook])

end DemoEdit

end Umya.Thm.C04
