/-
  C17 — tie to the source (T), part 3: pieces of src/helper/coordinate.rs compiled to Lean from the CURRENT source
  on every run equal the hand model's (`Umya/Model/Coord.lean`).
-/
import Umya.Lemmas.FnsGenCoord
namespace Umya.Thm.C17
open Umya.Coord

/-- **Tie to the source (T).**  (1, 2) the format strings of `coordinate_from_index_with_lock` /
    `coordinate_from_index` (with `string_from_column_index` instantiated by the model's `indexToAlpha?`);
    (3) the `"0"` special case of `column_index_from_string` (with `alpha_to_index` instantiated by the model's);
    (4) `BASE_CHAR_CODE = 65`, `POSITIONAL_CONSTANTS = [26⁰, 26¹, 26²]`; (5) the per-character term of
    `alpha_to_index`, panicking beyond three characters and below `'A'`; (6, 7) the `successors` step
    (`index / 26` → `None | Some(n - 1)`) and the digit (`'A' + v % 26`) of `index_to_alpha`; (8) the model's
    `alphaRev` unfolds by exactly that step and digit.
    (9) **`alpha_to_index` in full** — `to_uppercase().chars().rev().enumerate().map(term).sum::<u32>()`, the iterator
    chain lowered to `List.reverse` / enumeration / a panicking map / `List.sum` — is the model's `alphaToIndex` for every
    text (`to_uppercase` on its documented ASCII domain; `u32` overflow of `+`/`*` not modelled, as everywhere): same
    value, and a panic exactly for more than three characters or a character below `'A'`.
    (10) **`index_to_alpha` in full** — the assertion, `successors(Some(index - 1), step)` as an unfold bounded by fuel
    `index` (measure: the value; `successors_fuel` shows it never runs out), the digit map, `collect`, `rev`,
    `char::from_u32(..).unwrap()`, `collect` — is the model's `indexToAlpha?` for every index (panic exactly for 0);
    (11) `string_from_column_index` likewise; (12, 13) hence (1)–(3) hold with the compiled `string_from_column_index` /
    `alpha_to_index` themselves in place of the model's. -/
theorem C17_codec_matches_source :
    (∀ col row lc lr, Umya.Gen.coordinate_from_index_with_lock indexToAlpha? col row lc lr = coordinateFromIndexWithLock? col row lc lr) ∧
    (∀ col row, Umya.Gen.coordinate_from_index indexToAlpha? col row = coordinateFromIndexWithLock? col row false false) ∧
    (∀ s, Umya.Gen.column_index_from_string (fun t => Umya.Gen.resToOpt (alphaToIndex t)) s = Umya.Gen.resToOpt (columnIndexFromString s)) ∧
    (Umya.Gen.alpha_to_index_base_char_code = 65 ∧ Umya.Gen.alpha_to_index_positional_constants = [26 ^ 0, 26 ^ 1, 26 ^ 2]) ∧
    (∀ i c, Umya.Gen.alpha_to_index_term i c = if i < 3 ∧ 65 ≤ c.toNat then some (26 ^ i * (c.toNat - 65 + 1)) else none) ∧
    (∀ v, Umya.Gen.index_to_alpha_step v = some (if v / 26 = 0 then none else some (v / 26 - 1))) ∧
    (∀ v, Char.ofNat (Umya.Gen.index_to_alpha_digit v) = letter v) ∧
    (∀ v, alphaRev v = Char.ofNat (Umya.Gen.index_to_alpha_digit v) ::
      (match Umya.Gen.index_to_alpha_step v with | some (some n) => alphaRev n | _ => [])) ∧
    (∀ s, Umya.Gen.alpha_to_index s = Umya.Gen.resToOpt (alphaToIndex s)) ∧
    (∀ n, Umya.Gen.index_to_alpha n = indexToAlpha? n) ∧
    (∀ n, Umya.Gen.string_from_column_index n = indexToAlpha? n) ∧
    (∀ col row lc lr, Umya.Gen.coordinate_from_index_with_lock Umya.Gen.string_from_column_index col row lc lr =
      coordinateFromIndexWithLock? col row lc lr) ∧
    (∀ s, Umya.Gen.column_index_from_string Umya.Gen.alpha_to_index s = Umya.Gen.resToOpt (columnIndexFromString s)) :=
  ⟨Umya.Gen.gen_coordinate_from_index_with_lock, Umya.Gen.gen_coordinate_from_index, Umya.Gen.gen_column_index_from_string,
   Umya.Gen.gen_alpha_constants, Umya.Gen.gen_alpha_to_index_term, Umya.Gen.gen_index_to_alpha_step,
   Umya.Gen.gen_index_to_alpha_digit, Umya.Gen.gen_alphaRev_step,
   Umya.Gen.gen_alpha_to_index, Umya.Gen.gen_index_to_alpha, Umya.Gen.gen_string_from_column_index,
   fun col row lc lr => by
     rw [show Umya.Gen.string_from_column_index = indexToAlpha? from funext Umya.Gen.gen_string_from_column_index]
     exact Umya.Gen.gen_coordinate_from_index_with_lock col row lc lr,
   fun s => by
     rw [show Umya.Gen.alpha_to_index = (fun t => Umya.Gen.resToOpt (alphaToIndex t)) from funext Umya.Gen.gen_alpha_to_index]
     exact Umya.Gen.gen_column_index_from_string s⟩

example : Umya.Gen.alpha_to_index_term 2 'X' = some (676 * 24) := by decide
example : Umya.Gen.alpha_to_index_term 3 'A' = none := by decide
example : Umya.Gen.index_to_alpha_step 701 = some (some 25) := by decide
example : Umya.Gen.alpha_to_index ['x', 'f', 'd'] = some 16384 := by decide
example : Umya.Gen.alpha_to_index ['A', 'A', 'A', 'A'] = none := by decide
example : Umya.Gen.index_to_alpha 16384 = some ['X', 'F', 'D'] := by decide
example : Umya.Gen.index_to_alpha 0 = none := by decide

end Umya.Thm.C17
