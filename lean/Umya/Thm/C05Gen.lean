/-
  C05 — tie to the source (T), part 3, stateful methods: `NumberingFormats::set_style` of
  src/structs/numbering_formats.rs (with `set_numbering_format`, the struct `NumberingFormat` and its getters / setter),
  compiled to Lean by state passing from the CURRENT source on every run (tools/extract_fns.py → Umya/Model/Gen/Fns.lean),
  equals the number-format id allocation of the hand model the C05 interning theorems are about.
-/
import Umya.Lemmas.FnsGenStyle
namespace Umya.Thm.C05
open Umya.Style

/-- **Tie to the source (T): number-format id allocation.**  `NumberingFormats::set_style` as it is in the source —
    `None` ↦ 0; a built-in format ↦ its own id; otherwise one loop over the table that leaves with the id of an entry whose
    code hash equals the style's and keeps the running maximum of the ids from 175, then `max + 1`, the format cloned under
    that id and inserted — compiled by state passing (the `HashMap<u32, NumberingFormat>` field is the list of its entries
    in the iteration order of the call; `HashMap::insert` = replace-or-append; the loop with `return` = a fold with early
    exit), returns, for EVERY table `t` (hence every iteration order), every optional number format `o` and every hash
    function `key` (`get_hash_code` = `key` of the format code: md5 in the crate), exactly the table and the id of the
    model's `nfSetStyle`.  The lifted loop body and `set_numbering_format` are tied by their own clauses. -/
theorem C05_numfmt_alloc_matches_source :
    (∀ (key : Tok → Tok) (t : List (Nat × NumFmt)) (o : Option NumFmt),
      Umya.Gen.numbering_formats_set_style (Umya.Gen.hashOf key) (Umya.Gen.tableOf t) (o.map Umya.Gen.recOf) =
        (Umya.Gen.tableOf (nfSetStyle key t o).1, (nfSetStyle key t o).2)) ∧
    (∀ (gh : Umya.Gen.NumberingFormat_rec → List Char) (hc : List Char) (id index : Nat) (nf : Umya.Gen.NumberingFormat_rec),
      (Umya.Gen.numbering_formats_set_style_loop_0 gh hc id index nf).1 = (if decide (gh nf = hc) then some index else none) ∧
      (decide (gh nf = hc) = false →
        (Umya.Gen.numbering_formats_set_style_loop_0 gh hc id index nf).2 = if id < index then index else id)) ∧
    (∀ (m : List (Nat × Umya.Gen.NumberingFormat_rec)) (v : Umya.Gen.NumberingFormat_rec),
      Umya.Gen.numbering_formats_set_numbering_format m v = Umya.Gen.rt_map_insert m v.number_format_id v) :=
  ⟨Umya.Gen.gen_nf_set_style, Umya.Gen.gen_nf_loop, Umya.Gen.gen_nf_set_numbering_format⟩

/-- instances: a table with a gap (176, 200), a new code gets 201; a registered code keeps its id; a built-in keeps its own -/
example : (Umya.Gen.numbering_formats_set_style (Umya.Gen.hashOf id)
    (Umya.Gen.tableOf [(176, ⟨176, ['a'], false⟩), (200, ⟨200, ['b'], false⟩)]) (some ⟨999999, ['c'], false⟩)).2 = 201 := by decide
example : (Umya.Gen.numbering_formats_set_style (Umya.Gen.hashOf id)
    (Umya.Gen.tableOf [(176, ⟨176, ['a'], false⟩), (200, ⟨200, ['b'], false⟩)]) (some ⟨999999, ['b'], false⟩)).2 = 200 := by decide
example : (Umya.Gen.numbering_formats_set_style (Umya.Gen.hashOf id) [] (some ⟨14, ['m'], true⟩)).2 = 14 := by decide
example : (Umya.Gen.numbering_formats_set_style (Umya.Gen.hashOf id) [] (some ⟨999999, ['x'], false⟩)) =
    ([(176, ⟨176, ['x'], false⟩)], 176) := by decide

end Umya.Thm.C05
