/-
  C11 — saving a lazily opened workbook, for ALL histories: the package-consistency invariant and the full
  per-sheet statement about raw (never deserialized) sheets.

  `x : Pkg` is the package that is opened (`Model/LazyPkg.lean`), `lazyOpen x` what `read_reader(.., false)` builds.
  `Consistent x b`: every sheet of `b` that is still raw holds exactly what the reader records for a sheet part of
  `x` (bytes, closure of relationship parts with the bytes of every target), its closure names are hygienic, and
  the workbook-level tables are those of `x`.  It is decidable (`consistent`, evaluated by the driver on the state
  the implementation reports after every request).
-/
import Umya.Lemmas.LazySaveRaw
import Umya.Thm.C11
namespace Umya.Thm.C11
open Umya.Lazy

variable {C E : Type} (cd : Codec C E)

/-! ### the invariant -/

/-- `lazyOpen` establishes package consistency.  Hypothesis `pkgOk x` (decidable, on the INPUT package): in the
    closure of every sheet part no relationship points to a part named like a sheet part, a relationships part or
    a workbook-level part, and every relationships part of the closure belongs to the sheet part or to a target. -/
theorem C11_lazyOpen_consistent (x : Pkg) (b0 : Book C) (hx : pkgOk x = true) (ho : lazyOpen x = some b0) :
    Consistent x b0 := lazyOpen_consistent hx ho

/-- every operation of a history preserves it: no operation creates a raw sheet or changes one, or touches the tables -/
theorem C11_consistent_step (x : Pkg) (b : Book C) (op : Op E) (h : Consistent x b) : Consistent x (step cd b op).1 :=
  step_consistent cd x b op h

/-- … so it holds in every reachable state: after ANY history of read_sheet / get_sheet_mut / get_sheet_by_name_mut /
    read_sheet_collection / edits / new_sheet / remove_sheet(_by_name) / set_sheet_name / workbook-level edits -/
theorem C11_consistent_reachable (x : Pkg) (b0 : Book C) (hx : pkgOk x = true) (ho : lazyOpen x = some b0) (ops : List (Op E)) :
    Consistent x (run cd b0 ops) :=
  run_consistent cd x b0 ops (lazyOpen_consistent hx ho)

/-- what the invariant says, sheet by sheet -/
theorem C11_consistent_iff (x : Pkg) (b : Book C) :
    Consistent x b ↔ b.tables = x.tables ∧ ∀ s ∈ b.sheets, ∀ r, s.body = .raw r → FromPkg x r := consistent_iff x b

/-- the closure the reader records is complete: whatever relationships part `x` has next to a (non-external) target
    of the closure is in the closure as well -/
theorem C11_closure_complete (x : Pkg) (part : PName) (r : RawSheet) (h : openRaw x part = some r) :
    (readRelsPart x (.rels part) = some none ∧ r.closure = []) ∨
    ((∃ q0 ∈ r.closure, q0.name = .rels part) ∧
     ∀ q ∈ r.closure, ∀ r' ∈ q.rels, r'.ext = false →
       readRelsPart x (.rels r'.file) = some none ∨ ∃ q' ∈ r.closure, q'.name = .rels r'.file) := by
  have hcl := (openRaw_spec h).2.2
  rcases readClosure_top x _ _ _ hcl with ⟨a, b⟩ | ⟨q0, kids, a, b⟩
  · exact Or.inl ⟨a, b⟩
  · right
    refine ⟨⟨q0, by rw [b]; simp, readRelsPart_name a⟩, ?_⟩
    exact readClosure_complete x _ _ _ hcl

/-! ### the saved package -/

/-- FULL `C11_save`: for the package `x`, every history `ops` from `lazyOpen x`, in `save (run ops (lazyOpen x))`:
    names are unique; every position holds exactly its sheet part (raw bytes / serialised in-memory content, edits
    included), none beyond, workbook order; every relationship of every relationships part resolves; every
    relationships part sits next to a part (`relsHaveSource`); and for EVERY still-raw sheet `r` at position `j`:
      * it is what the reader recorded for the sheet part `r.file` of `x`, and `sheet{j+1}.xml` holds the bytes `x`
        has under `r.file`;
      * `_rels/sheet{j+1}.xml.rels` is exactly the relationships part `x` has next to `r.file` (same resolved targets
        in the same order; absent iff `x` has none or one without relationships) — ITS relationships, whatever other
        sheets were removed, added or renamed before, and whichever position it moved to;
      * every other relationships part of its closure is in the package under its original name with the
        relationships `x` has there, and every non-external target of every relationships part of the closure is in
        the package under its original name with the bytes `x` has there.
    Hypotheses: `pkgOk x` (name hygiene of the input); the profile hypothesis (a serialiser asks for no fixed name
    that looks like a sheet part or a relationships part); `SheetWritable` on the saved state (no zero-length related
    part in a raw closure: `RawFile::write_to` does not copy those; no target a serialiser names but fails to write). -/
theorem C11_save (x : Pkg) (b0 : Book C) (hx : pkgOk x = true) (ho : lazyOpen x = some b0) (ops : List (Op E))
    (hprof : ∀ s ∈ (run cd b0 ops).sheets, ∀ l, s.body = .loaded l → ∀ n ∈ profNames l.prof, NotSheet n ∧ isRelsName n = false)
    (hw : ∀ s ∈ (run cd b0 ops).sheets, SheetWritable s) :
    let b := run cd b0 ops
    let S := (save cd b).parts
    (S.map (·.1)).Nodup ∧
    ((∀ j s, b.sheets[j]? = some s → lookupPart S (.sheet (j + 1)) = some (expectedSheet s)) ∧
     (∀ k, b.sheets.length + 1 ≤ k → hasPart S (.sheet k) = false) ∧
     (save cd b).names = b.sheets.map (·.name)) ∧
    (∀ n ts, (n, Content.relsOf ts) ∈ S → ∀ t, some t ∈ ts → hasPart S t = true) ∧
    (∀ n, hasPart S (.rels n) = true → hasPart S n = true) ∧
    (∀ j s r, b.sheets[j]? = some s → s.body = .raw r →
      (r.file ∈ x.sheets.map (·.2) ∧ openRaw x r.file = some r) ∧
      (∃ p, x.get? r.file = some p ∧ lookupPart S (.sheet (j + 1)) = some (.bytes p.cid)) ∧
      lookupPart S (.rels (.sheet (j + 1))) = ownExpected x r.file ∧
      (∀ q ∈ r.closure, q.name ≠ .rels r.file → q.rels.isEmpty = false →
        readRelsPart x q.name = some (some q) ∧ lookupPart S q.name = some (.relsOf q.targets)) ∧
      (∀ q ∈ r.closure, ∀ r' ∈ q.rels, r'.ext = false →
        ∃ p', x.get? r'.file = some p' ∧ lookupPart S r'.file = some (.bytes p'.cid))) := by
  intro b S
  have hcons : Consistent x b := C11_consistent_reachable cd x b0 hx ho ops
  have hfrom : RawsFrom x b.sheets := ((consistent_iff x b).mp hcons).2
  have hraw : RawsOk b.sheets := rawsOk_of_consistent x b hcons
  have hparts := C11_save_sheet_parts cd b0 ops hraw (fun s hs l hl n hn => (hprof s hs l hl n hn).1)
  have hres := C11_save_resolves cd b0 ops hw
  have hwr : ∀ s ∈ b.sheets, ∀ r, s.body = .raw r → RawWritable r := by
    intro s hs r hb
    have := hw s hs
    simpa [SheetWritable, hb] using this
  -- the two loops
  have hext2 : Ext (fun _ => True) (loop1 false ({} : WM C) 1 b.sheets) (loop2 (loop1 false ({} : WM C) 1 b.sheets) 1 b.sheets) :=
    loop2_ext b.sheets 1 _
  have hempty : ∀ n, ({} : WM C).has n = false := fun _ => rfl
  have hS : S = (loop2 (loop1 false ({} : WM C) 1 b.sheets) 1 b.sheets).parts := rfl
  -- relationship parts sit next to a part
  have hsheets1 : ∀ j, j < b.sheets.length → (loop1 false ({} : WM C) 1 b.sheets).has (.sheet (1 + j)) = true := by
    intro j hj
    have hl := (loop1_sheets b.sheets 1 ({} : WM C) hraw (by intro k _; rfl)).1 j b.sheets[j] (by simp [hj])
    exact has_of_lookup_some _ _ _ hl
  have hrhs : RHS (loop2 (loop1 false ({} : WM C) 1 b.sheets) 1 b.sheets) :=
    loop2_rhs b.sheets 1 _ (loop1_rhs x b.sheets 1 _ hfrom hwr hempty) hsheets1
      (fun s hs l hl n hn => (hprof s hs l hl n hn).2)
  refine ⟨C11_save_names_unique cd b0 ops, hparts, hres, hrhs, ?_⟩
  intro j s r hj hb
  have hf : FromPkg x r := hfrom.at hj hb
  obtain ⟨hown, _, _⟩ := loop1_own x b.sheets 1 ({} : WM C) hfrom (by intro k _; rfl)
  obtain ⟨hclR, hclD⟩ := loop1_closure x b.sheets 1 ({} : WM C) hfrom hempty j s r hj hb
  obtain ⟨_, hasRels, hasData⟩ := loop1_has_raw b.sheets 1 ({} : WM C) j s r hj hb
  refine ⟨⟨hf.sheetPart, hf.read⟩, ?_, ?_, ?_, ?_⟩
  · obtain ⟨p, hp, hcid⟩ := hf.bytes
    refine ⟨p, hp, ?_⟩
    have := hparts.1 j s hj
    simpa [expectedSheet, hb, hcid] using this
  · -- the relationships part next to the sheet: decided in the first loop, untouched by the second
    have h1 := hown j s r hj hb
    rw [show 1 + j = j + 1 by omega] at h1
    by_cases hh : (loop1 false ({} : WM C) 1 b.sheets).has (.rels (.sheet (j + 1))) = true
    · have := hext2.lookup_stable _ hh
      unfold WM.lookup at this h1
      rw [hS, this, h1]
    · have hh' := has_false_of_not hh
      rw [lookup_none_of_not_has _ _ hh'] at h1
      rw [← h1]
      apply lookupPart_none_of_not_has
      -- the second loop writes such a part for deserialized sheets only
      cases hfin : hasPart S (.rels (.sheet (j + 1))) with
      | false => rfl
      | true =>
        exfalso
        rcases (loop2_extP b.sheets 1 (loop1 false ({} : WM C) 1 b.sheets)).new_name _ hfin with h2 | h2
        · exact hh h2
        · rcases h2 with ⟨f, i, e⟩ | ⟨f, i, e⟩ | ⟨j2, s2, l2, hj2, hb2, e | e⟩
          · cases e
          · cases e
          · injection e with e; injection e with e
            have : j2 = j := by omega
            subst this
            rw [hj] at hj2; injection hj2 with hj2; subst hj2
            rw [hb] at hb2; cases hb2
          · have := (hprof s2 (List.mem_of_getElem? hj2) l2 hb2 _ e).2
            cases this
  · intro q hq hown' hne
    refine ⟨hf.closure_sound q hq, ?_⟩
    have hh := hasRels q hq hne
    simp only [relsTarget, hown', if_false] at hh
    have := hext2.lookup_stable _ hh
    unfold WM.lookup at this
    rw [hS, this]
    exact hclR q hq hown' hne
  · intro q hq r' hr' hx'
    have hne : r'.empty = false := hwr s (List.mem_of_getElem? hj) r hb q hq r' hr' hx'
    obtain ⟨p', hp', hcid, _⟩ := hf.rel_bytes hq hr' hx'
    refine ⟨p', hp', ?_⟩
    have hh := hasData q hq r' hr' hne
    have := hext2.lookup_stable _ hh
    unfold WM.lookup at this
    rw [hS, this, hcid]
    exact hclD q hq r' hr' hne

/-! ### deserialized sheets next to raw closures: `add_file_at_*` -/

/-- What happens when a serialiser asks for a numbered part (`add_file_at_drawing`, `_vml_drawing`, `_comment`, `_chart`,
    `_ole_object`, `_excel`, `_printer_settings`; table numbers skip taken names likewise) while raw closures own names of
    the family: all raw sheets are written in the first loop, so in every state `w` of the second loop every part of every
    raw closure is there; the index chosen is the smallest one ≥ 1 that names no part of `w` — hence never a name owned
    by a raw sheet's closure; and (relationship parts sitting next to parts, `RHS`) the relationships part written next
    to the new part is free as well. -/
theorem C11_alloc_no_clash (b : Book C) (w : WM C) (hext : Ext (fun _ => True) (loop1 false ({} : WM C) 1 b.sheets) w) (f : Fam) :
    w.has (.fam f (w.firstFree f)) = false ∧
    (∀ k, 1 ≤ k → k < w.firstFree f → w.has (.fam f k) = true) ∧
    (RHS w → w.has (.rels (.fam f (w.firstFree f))) = false) ∧
    (∀ j s r, b.sheets[j]? = some s → s.body = .raw r →
      (∀ q ∈ r.closure, q.rels.isEmpty = false → relsTarget (1 + j) r q ≠ .fam f (w.firstFree f)) ∧
      (∀ q ∈ r.closure, ∀ r' ∈ q.rels, r'.empty = false → r'.file ≠ .fam f (w.firstFree f))) := by
  have hfree := firstFree_free w f
  refine ⟨hfree, firstFree_smallest w f, ?_, ?_⟩
  · intro hr
    apply has_false_of_not
    intro hh
    rw [hr _ hh] at hfree; cases hfree
  · intro j s r hj hb
    obtain ⟨_, a, c⟩ := loop1_has_raw b.sheets 1 ({} : WM C) j s r hj hb
    refine ⟨?_, ?_⟩
    · intro q hq hne e
      have := hext.has_mono _ (a q hq hne)
      rw [e, hfree] at this; cases this
    · intro q hq r' hr' he e
      have := hext.has_mono _ (c q hq r' hr' he)
      rw [e, hfree] at this; cases this

/-- A part with a FIXED name (media: `add_bin`) is different: the first writer of a name wins.  If the name is already
    there — e.g. owned by a raw sheet's closure, which is written in the first loop — the serialiser's bytes are dropped
    and the deserialized sheet's relationship resolves to the part that is there.  (Not excluded by the invariant: two
    sheets that name different pictures alike collide in the eager workbook as well; the harness counts it as inherited.) -/
theorem C11_fixed_name_taken (w : WM C) (n : PName) (h : w.has n = true) :
    (emitLeaf w (.fixed n)).1 = w ∧ (emitLeaf w (.fixed n)).2 = some n := by
  simp [emitLeaf, WM.add, h]

/-- the relationships part a deserialized sheet gets (`worksheet_rels::write`) is not one a raw sheet left there:
    after the first loop no `_rels/sheet{p}.xml.rels` exists at the position of a deserialized sheet -/
theorem C11_loaded_rels_fresh (x : Pkg) (b : Book C) (h : Consistent x b) (j : Nat) (s : Sheet C) (l : Loaded C)
    (hj : b.sheets[j]? = some s) (hb : s.body = .loaded l) :
    (loop1 false ({} : WM C) 1 b.sheets).has (.rels (.sheet (1 + j))) = false :=
  (loop1_own x b.sheets 1 ({} : WM C) ((consistent_iff x b).mp h).2 (by intro k _; rfl)).2.1 j s l hj hb

/-! ### every edit is present -/

/-- an edit of sheet `i` after any history (the sheet is deserialized implicitly if it was raw) is in the saved
    package: `sheet{i+1}.xml` is the serialisation of the edited in-memory sheet -/
theorem C11_edits_present (x : Pkg) (b0 : Book C) (hx : pkgOk x = true) (ho : lazyOpen x = some b0) (ops : List (Op E))
    (i : Nat) (e : E) (s0 : Sheet C) (hi : (run cd b0 ops).sheets[i]? = some s0)
    (hprof : ∀ s ∈ (run cd b0 (ops ++ [.edit i e])).sheets, ∀ l, s.body = .loaded l → ∀ n ∈ profNames l.prof, NotSheet n) :
    ∃ l0, (materialise cd (run cd b0 ops).tables s0).body = .loaded l0 ∧
      lookupPart (save cd (run cd b0 (ops ++ [.edit i e]))).parts (.sheet (i + 1)) = some (.ser (cd.apply e l0).content) := by
  have hcons := C11_consistent_reachable cd x b0 hx ho (ops ++ [.edit i e])
  have hparts := C11_save_sheet_parts cd b0 (ops ++ [.edit i e]) (rawsOk_of_consistent x _ hcons) hprof
  have hlt : i < (run cd b0 ops).sheets.length := (List.getElem?_eq_some_iff.mp hi).1
  have hrun : run cd b0 (ops ++ [.edit i e]) = (step cd (run cd b0 ops) (.edit i e)).1 := by
    simp [run, List.foldl_append]
  cases hm : (materialise cd (run cd b0 ops).tables s0).body with
  | raw r => exact absurd hm (materialise_raw cd _ _ _)
  | loaded l0 =>
    refine ⟨l0, rfl, ?_⟩
    have hs : (run cd b0 (ops ++ [.edit i e])).sheets[i]? = some (editSheet cd (run cd b0 ops).tables e s0) := by
      rw [hrun]
      simp only [step, hlt, if_true, modifyAt_getElem?, hi, Option.map_some]
    have := hparts.1 i _ hs
    rw [this]
    simp [expectedSheet, editSheet, hm]


/-! ### non-vacuity: a three-sheet package with overlapping closures -/

/-- sheets A and B each have a drawing; both drawings use the same image `img`; B's drawing has a chart as well;
    A has an external hyperlink; C has nothing -/
def exPkg : Pkg :=
  { parts := [(.sheet 1, { cid := 1 }), (.sheet 2, { cid := 2 }), (.sheet 3, { cid := 3 }),
      (.rels (.sheet 1), { cid := 11, rels := [⟨false, .fam .drawing 1⟩, ⟨true, .other []⟩] }),
      (.rels (.sheet 2), { cid := 12, rels := [⟨false, .fam .drawing 2⟩] }),
      (.fam .drawing 1, { cid := 21 }), (.fam .drawing 2, { cid := 22 }),
      (.rels (.fam .drawing 1), { cid := 31, rels := [⟨false, .other ['i', 'm', 'g']⟩] }),
      (.rels (.fam .drawing 2), { cid := 32, rels := [⟨false, .other ['i', 'm', 'g']⟩, ⟨false, .fam .chart 1⟩] }),
      (.other ['i', 'm', 'g'], { cid := 40 }), (.fam .chart 1, { cid := 41 })]
    sheets := [(['A'], .sheet 1), (['B'], .sheet 2), (['C'], .sheet 3)]
    tables := { sst := [7, 8], xfs := [0] } }

def exOps : List (Op Nat) := [.removeSheet 0, .newSheet ['N'], .setName 0 ['Z'], .edit 1 5]

/-- the workbook `lazyOpen exPkg` builds (the open succeeds) -/
def exBook0 : Book Nat := (lazyOpen exPkg).get (by decide)

def relsAt (ps : List (PName × Content Nat)) (n : PName) : Option (List (Option PName)) :=
  match lookupPart ps n with
  | some (.relsOf ts) => some ts
  | _ => none

def bytesAt (ps : List (PName × Content Nat)) (n : PName) : Option Nat :=
  match lookupPart ps n with
  | some (.bytes c) => some c
  | _ => none

/-- the hypotheses of `C11_save` hold on it (`pkgOk`, `lazyOpen` succeeds, the closures overlap on `img`), and after the
    history remove + add + rename + edit the invariant holds and B — moved to position 1, renamed, never deserialized —
    has ITS relationships next to `sheet1.xml`, its closure under the original names; the edited sheet C is serialised -/
example :
    pkgOk exPkg = true ∧ lazyOpen exPkg = some exBook0 ∧
    ((rawBodies exBook0.sheets).map (fun r => r.closure.map (·.name)) =
         [[.rels (.fam .drawing 1), .rels (.sheet 1)], [.rels (.fam .drawing 2), .rels (.sheet 2)], []] ∧
       consistent exPkg exBook0 = true ∧
       let b := run witnessCodec exBook0 exOps
       consistent exPkg b = true ∧
       b.sheets.map (fun s => (s.name, s.isRaw)) = [(['Z'], true), (['C'], false), (['N'], false)] ∧
       let S := (save witnessCodec b).parts
       bytesAt S (.sheet 1) = some 2 ∧
       relsAt S (.rels (.sheet 1)) = some [some (.fam .drawing 2)] ∧
       relsAt S (.rels (.fam .drawing 2)) = some [some (.other ['i', 'm', 'g']), some (.fam .chart 1)] ∧
       bytesAt S (.fam .drawing 2) = some 22 ∧ bytesAt S (.other ['i', 'm', 'g']) = some 40 ∧ bytesAt S (.fam .chart 1) = some 41 ∧
       hasPart S (.rels (.sheet 2)) = false ∧ hasPart S (.fam .drawing 1) = false ∧
       relsHaveSource S = true ∧ closedParts S = true) := by
  refine ⟨by decide, (Option.some_get _).symm, by decide⟩

/-- … and the remaining hypotheses of `C11_save` / `C11_untouched_decodes` (profile hygiene, `SheetWritable`) hold for that
    history, so the theorem applies to it -/
example :
    let b := run witnessCodec exBook0 exOps
    (∀ s ∈ b.sheets, ∀ l, s.body = .loaded l → ∀ n ∈ profNames l.prof, NotSheet n ∧ isRelsName n = false) ∧
    (∀ s ∈ b.sheets, SheetWritable s) := by
  have hs : ∀ s ∈ (run witnessCodec exBook0 exOps).sheets,
      (match s.body with
       | .raw r => r.closure.all (fun q => q.rels.all (fun r => r.ext || !r.empty))
       | .loaded l => l.prof.isEmpty) = true := by decide
  refine ⟨?_, ?_⟩
  · intro s h l hl n hn
    have := hs s h
    simp only [hl, List.isEmpty_iff] at this
    rw [this] at hn; simp [profNames] at hn
  · intro s h
    have := hs s h
    unfold SheetWritable
    cases hb : s.body with
    | raw r =>
      simp only [hb, List.all_eq_true, Bool.or_eq_true, Bool.not_eq_true'] at this
      intro q hq r' hr' hx
      rcases this q hq r' hr' with h1 | h1
      · rw [hx] at h1; cases h1
      · exact h1
    | loaded l =>
      simp only [hb, List.isEmpty_iff] at this
      intro x hx; rw [this] at hx; simp at hx

/-- with all three sheets raw both closures write `img`: the first writer wins, the content is the same -/
example :
      let S := (save witnessCodec exBook0).parts
      bytesAt S (.other ['i', 'm', 'g']) = some 40 ∧
      relsAt S (.rels (.sheet 1)) = some [some (.fam .drawing 1), none] ∧ relsAt S (.rels (.sheet 2)) = some [some (.fam .drawing 2)] ∧
      hasPart S (.rels (.sheet 3)) = false ∧ (S.map (·.1)).length = 11 := by
  decide

/-- a state that is NOT consistent: a raw sheet whose closure lost a relationships part (what a defective operation
    would leave behind) -/
example :
      consistent exPkg { exBook0 with sheets := exBook0.sheets.map (fun s => match s.body with
        | .raw r => { s with body := .raw { r with closure := r.closure.drop 1 } }
        | .loaded _ => s) } = false := by
  decide

/-! ### untouched sheets decode to the same content -/

/-- LOCALITY of a sheet decoder `dec lookup tables part`: the result depends only on the sheet part, the
    relationships part next to it, the parts under a set of names `ns` that contains every target of those
    relationships and is closed under following relationships, and a prefix of each workbook-level table. -/
def DecoderLocal {D : Type} (dec : (PName → Option (Content C)) → Tables → PName → D) : Prop :=
  ∀ (L L' : PName → Option (Content C)) (T T' : Tables) (n n' : PName) (ns : List PName),
    L n = L' n' → L (.rels n) = L' (.rels n') →
    (∀ m ∈ ns, L m = L' m ∧ L (.rels m) = L' (.rels m)) →
    (∀ ts, L (.rels n) = some (.relsOf ts) → ∀ t, some t ∈ ts → t ∈ ns) →
    (∀ m ∈ ns, ∀ ts, L (.rels m) = some (.relsOf ts) → ∀ t, some t ∈ ts → t ∈ ns) →
    T.sst <+: T'.sst → T.xfs <+: T'.xfs → T.dxfs <+: T'.dxfs →
    dec L T n = dec L' T' n'

/-- "Every sheet that was not edited has the same content as in the original", composed with the decoder: for EVERY
    decoder that is local (`DecoderLocal`), a sheet that is still raw when the workbook is saved decodes, in the saved
    package at its position, to exactly what its part decodes to in `x` — after any history. -/
theorem C11_untouched_decodes {D : Type} (dec : (PName → Option (Content C)) → Tables → PName → D) (hdec : DecoderLocal dec)
    (x : Pkg) (b0 : Book C) (hx : pkgOk x = true) (ho : lazyOpen x = some b0) (ops : List (Op E))
    (hprof : ∀ s ∈ (run cd b0 ops).sheets, ∀ l, s.body = .loaded l → ∀ n ∈ profNames l.prof, NotSheet n ∧ isRelsName n = false)
    (hw : ∀ s ∈ (run cd b0 ops).sheets, SheetWritable s) :
    let b := run cd b0 ops
    ∀ j s r, b.sheets[j]? = some s → s.body = .raw r →
      dec (lookupPart (save cd b).parts) (save cd b).tables (.sheet (j + 1)) = dec (xLookup x) x.tables r.file := by
  intro b j s r hj hb
  obtain ⟨_, _, _, _, hraws⟩ := C11_save cd x b0 hx ho ops hprof hw
  obtain ⟨_, ⟨p, hp, hsheet⟩, hown, hclR, hclD⟩ := hraws j s r hj hb
  have hcons : Consistent x b := C11_consistent_reachable cd x b0 hx ho ops
  have hfrom : RawsFrom x b.sheets := ((consistent_iff x b).mp hcons).2
  have hf : FromPkg x r := hfrom.at hj hb
  have hy := hygienic_spec hf.hyg
  have hwr : RawWritable r := by
    have := hw s (List.mem_of_getElem? hj)
    simpa [SheetWritable, hb] using this
  have hempty : ∀ n, ({} : WM C).has n = false := fun _ => rfl
  have hnoRels : ProfNoRels b.sheets := fun s hs l hl n hn => (hprof s hs l hl n hn).2
  have hnnr : NNR (loop1 false ({} : WM C) 1 b.sheets) (loop2 (loop1 false ({} : WM C) 1 b.sheets) 1 b.sheets) :=
    loop2_nnr _ b.sheets 1 _ (Ext.refl _) (fun _ _ _ h => h) hnoRels
  symm
  apply hdec (xLookup x) (lookupPart (save cd b).parts) x.tables (save cd b).tables r.file (.sheet (j + 1)) (closureTargets r)
  · rw [xLookup_plain x r.file hy.fileNotRels, hp, hsheet]; rfl
  · exact hown.symm
  · intro m hm
    obtain ⟨q, hq, r', hr', hx', e⟩ := mem_closureTargets.mp hm
    have hne : r'.empty = false := hwr q hq r' hr' hx'
    have hok := (hy.nonempty hq hr' hne).2
    obtain ⟨hns, hnr, _⟩ := targetOk_spec hok
    rw [e] at hns hnr hok
    refine ⟨?_, ?_⟩
    · obtain ⟨p', hp', hl⟩ := hclD q hq r' hr' hx'
      rw [e] at hp' hl
      rw [xLookup_plain x m hnr, hp', hl]; rfl
    · show ownExpected x m = lookupPart (save cd b).parts (.rels m)
      cases hoe : ownExpected (C := C) x m with
      | none =>
        symm
        apply lookupPart_none_of_not_has
        cases hfin : hasPart (save cd b).parts (.rels m) with
        | false => rfl
        | true =>
          exfalso
          have hbase : (loop1 false ({} : WM C) 1 b.sheets).has m = true := by
            have := (loop1_has_raw b.sheets 1 ({} : WM C) j s r hj hb).2.2 q hq r' hr' hne
            rwa [e] at this
          have h1 := hnnr m hbase hns hfin
          rw [loop1_no_rels x b.sheets 1 ({} : WM C) hfrom hempty m hok hoe] at h1
          cases h1
      | some c =>
        obtain ⟨q', hq', hn', hne', hnonempty, hc⟩ := closure_rels_of_target hf hm hoe
        have := (hclR q' hq' hne' hnonempty).2
        rw [hn'] at this
        rw [this, hc]
  · intro ts h t ht
    have h' : ownExpected (C := C) x r.file = some (.relsOf ts) := h
    obtain ⟨q, hq, _, _, hc⟩ := own_of_ownExpected hf h'
    injection hc with hc
    rw [hc] at ht
    obtain ⟨r', hr', hx', e⟩ := targets_mem ht
    exact mem_closureTargets.mpr ⟨q, hq, r', hr', hx', e⟩
  · intro m hm ts h t ht
    have h' : ownExpected (C := C) x m = some (.relsOf ts) := h
    obtain ⟨q', hq', _, _, _, hc⟩ := closure_rels_of_target hf hm h'
    injection hc with hc
    rw [hc] at ht
    obtain ⟨r', hr', hx', e⟩ := targets_mem ht
    exact mem_closureTargets.mpr ⟨q', hq', r', hr', hx', e⟩
  · have hr : b.hasRaw = true := by
      unfold Book.hasRaw
      exact List.any_eq_true.mpr ⟨s, List.mem_of_getElem? hj, by simp [Sheet.isRaw, hb]⟩
    have := (C11_tables_only_grow cd b0 ops).2.1 hr
    rwa [(lazyOpen_spec ho).1] at this
  · have := (C11_tables_only_grow cd b0 ops).2.2.1
    rwa [(lazyOpen_spec ho).1] at this
  · have := (C11_tables_only_grow cd b0 ops).2.2.2
    rwa [(lazyOpen_spec ho).1] at this

/-- `DecoderLocal` is satisfiable: a decoder that reads the sheet part, its relationships and every part they point to -/
example : DecoderLocal (C := Nat) (fun L _ n => (L n, L (.rels n),
    (match L (.rels n) with
     | some (.relsOf ts) => ts.map (fun t => match t with | some t => L t | none => none)
     | _ => []))) := by
  intro L L' T T' n n' ns h1 h2 h3 h4 _ _ _ _
  have key : (match L (.rels n) with
      | some (.relsOf ts) => ts.map (fun t => match t with | some t => L t | none => none)
      | _ => []) =
     (match L' (.rels n') with
      | some (.relsOf ts) => ts.map (fun t => match t with | some t => L' t | none => none)
      | _ => []) := by
    rw [← h2]
    cases hr : L (.rels n) with
    | none => rfl
    | some c =>
      cases c with
      | relsOf ts =>
        simp only
        apply List.map_congr_left
        intro t ht
        cases t with
        | none => rfl
        | some t => exact (h3 t (h4 ts hr t ht)).1
      | bytes _ => rfl
      | ser _ => rfl
      | gen => rfl
  show (L n, L (.rels n), _) = (L' n', L' (.rels n'), _)
  rw [key, h1, h2]

end Umya.Thm.C11
