/-
  C04 — Re-saving is stable: no drift, no loss of untouched content.

  The fixed-point statements are corollaries of the round-trip theorems of the parts (C01 for cells,
  the attribute channel of Model/XmlEsc, C12 for the string table, C02 for the relationship
  pairing); what they add is the second generation.  The whole-package claim over everything the
  library models (styles, annotations, drawings …) is checked by the harness on generation chains
  and is not a theorem.
-/
import Umya.Thm.C01
import Umya.Lemmas.ResaveCells
import Umya.Thm.C12
import Umya.Lemmas.XmlEsc
import Umya.Lemmas.TablesGen
namespace Umya.Thm.C04
open Umya.CellXml Umya.Num Umya.XmlEsc

/-- Attribute channel: exactly one escape on write and one unescape on read — any attribute text
    (sheet name, hyperlink target, defined name, format code …) is the same after any number of
    load/save generations. -/
def generations (n : Nat) (s : List Char) : List Char := Nat.rec s (fun _ t => attrRead (attrWrite t)) n

theorem C04_attr_channel (s : List Char) (n : Nat) : generations n s = s := by
  induction n with
  | zero => rfl
  | succ n ih => show attrRead (attrWrite (generations n s)) = s; rw [ih, attrRead_attrWrite]

/-- The defect that was repaired: reading the raw attribute text without unescaping makes the text
    grow by one escape per generation (`R&D` → `R&amp;D` → `R&amp;amp;D`). -/
theorem C04_attr_drift_fails :
    let readOld : List Char → List Char := id
    readOld (attrWrite "R&D".toList) = "R&amp;D".toList ∧
    readOld (attrWrite (readOld (attrWrite "R&D".toList))) = "R&amp;amp;D".toList := by decide

theorem normalize_idem (F : NumFmt) (sheets : List (List (Cell F.Num))) :
    normalize F (normalize F sheets) = normalize F sheets := normalize_idem' F sheets

theorem normalize_ok (F : NumFmt) (sheets : List (List (Cell F.Num)))
    (h : ∀ s ∈ sheets, ∀ c ∈ s, cellOK F c = true) :
    ∀ s ∈ normalize F sheets, ∀ c ∈ s, cellOK F c = true :=
  normalize_cellOK F sheets h

/-- Cells: the first re-save shows the original's non-blank cells, and the second generation is a
    fixed point — re-saving what was loaded loads as exactly the same cells again (any number of
    sheets and cells, every value kind, both writers). -/
theorem C04_fixpoint_cells (F : NumFmt) (hF : F.Sound) (light : Bool) (sheets : List (List (Cell F.Num)))
    (h : ∀ s ∈ sheets, ∀ c ∈ s, cellOK F c = true) :
    ∃ b1, writeBook F light sheets = some b1 ∧
      (b1.sst.length < 18446744073709551616 → readBook F b1 = some (normalize F sheets)) ∧
    ∃ b2, writeBook F light (normalize F sheets) = some b2 ∧
      (b2.sst.length < 18446744073709551616 → readBook F b2 = some (normalize F sheets)) := by
  obtain ⟨b1, hw1, hr1⟩ := C01.C01_roundtrip F hF light sheets h
  obtain ⟨b2, hw2, hr2⟩ := C01.C01_roundtrip F hF light (normalize F sheets) (normalize_ok F sheets h)
  refine ⟨b1, hw1, hr1, b2, hw2, ?_⟩
  intro hlen
  rw [hr2 hlen, normalize_idem]

/-- Saving the same unchanged workbook twice produces the same content: the writer is a function of
    the workbook value (the string table is rebuilt per save, C12). -/
theorem C04_save_pure (heap : List Umya.Sst.BookS) (w : Nat) :
    (C12.stepH (C12.stepH heap (.save w)).1 (.save w)).2 = (C12.stepH heap (.save w)).2 :=
  (C12.C12_pure heap w).2

/-- Editing one cell changes nothing else: the cells of every other sheet, and the other cells of
    the edited sheet, are written and read back as before. -/
theorem C04_edit_local (F : NumFmt) (sheets : List (List (Cell F.Num))) (i j : Nat) (c' : Cell F.Num)
    (s : List (Cell F.Num)) (hs : sheets[i]? = some s) :
    (∀ i', i' ≠ i → (normalize F (sheets.set i (s.set j c')))[i']? = (normalize F sheets)[i']?) ∧
    (normalize F (sheets.set i (s.set j c')))[i]?
      = some (((s.set j c').filter (fun c => !blankUnstyled F c)).map (Cell.resolved F)) := by
  constructor
  · intro i' hne
    simp only [normalize, List.getElem?_map, List.getElem?_set]
    have : ¬ (i = i') := fun e => hne e.symm
    simp [this]
  · have hi : i < sheets.length := by
      rcases Nat.lt_or_ge i sheets.length with h | h
      · exact h
      · rw [List.getElem?_eq_none h] at hs; simp at hs
    simp [normalize, List.getElem?_map, List.getElem?_set, hi]

/-! ### non-vacuity -/

example : attrRead (attrWrite "R&D <1> \"q\" 'x'".toList) = "R&D <1> \"q\" 'x'".toList := by decide


/-- **Tie to the source (T).**  Both halves of the attribute channel are the source's, as regenerated on this run:
    `write_start_tag` ↦ `attrWrite`, the normalisation of `get_attribute_value` ↦ `attrNorm`. -/
theorem C04_channels_match_source (s : List Char) :
    Umya.Gen.write_start_tag_escape.run escapeOld partialEscapeOld s = attrWrite s ∧
    Umya.Gen.applySteps Umya.Gen.get_attribute_value_normalise s = attrNorm s :=
  ⟨Umya.Gen.gen_write_start_tag s, Umya.Gen.gen_get_attribute_value s⟩

end Umya.Thm.C04
