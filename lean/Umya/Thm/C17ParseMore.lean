/-
  C17 — parse-then-print at the ADDRESS level (`Address::set_address` / `Address::get_address_ptn2`), widened:
  whole-column and whole-row areas behind a sheet qualifier, areas without a qualifier, and one statement for all of it.

  `Address::set_address` does NOT apply `is_address`: it is `split_address` + `Range::set_range`, so it accepts every one
  of the four range shapes, qualified or not.  (`DefinedName::set_address` filters with `is_address` first and keeps
  `Sheet1!$A:$B` as plain text, printed verbatim — that is `C06_defined_name_text_kept`, for every text one of whose pieces
  `is_address` rejects; that col:col / row:row areas are always rejected is shown there on examples only.)

  Property theorems only; helper lemmas in `Umya/Lemmas/CoordParseMore.lean`, grammars in `Umya/Model/CoordCanonMore.lean`.
-/
import Umya.Lemmas.CoordParseMore
namespace Umya.Thm.C17
open Umya.Coord Umya.Dec Umya.Annot

/-- **Qualified area of ANY of the four shapes, text → area → text.**  For EVERY text `t = qualifier!range` of the grammar
    `canonAreaB'` — qualifier as in `canonAreaB` (unquoted legal name, or `'…'` with doubled apostrophes), range `cell`,
    `cell:cell`, `col:col` or `row:row` in canonical spelling — `set_address` of the un-doubled text does not panic and reads
    an area with a legal sheet name and a range of one of the four shapes inside the bounds; `get_address_ptn2` prints
    `canonArea t` (the range text VERBATIM behind the re-quoted qualifier); `canonArea t` is again in the grammar, is a
    fixed point of `canonArea`, and parses to the same area. -/
theorem C17_address_canon_cols_rows (t : Text) (h : canonAreaB' t = true) :
    ∃ a : Address, LegalSheet a.sheet ∧ Range.IsShape a.range ∧ Range.InBounds a.range ∧
      Address.parse (undouble t) = .ok a ∧ a.text = canonArea t ∧
      canonAreaB' (canonArea t) = true ∧ canonArea (canonArea t) = canonArea t ∧
      Address.parse (undouble (canonArea t)) = .ok a := by
  obtain ⟨a, hl, hs, hb, hp, ht⟩ := canonArea_piece' t h
  obtain ⟨h1, h2⟩ := canonArea_text' a hl hs hb
  refine ⟨a, hl, hs, hb, hp, ht, ?_, ?_, ?_⟩
  · rw [← ht]; exact h1
  · rw [← ht]; exact h2
  · rw [← ht]; exact parse_area' a hl hs hb

/-- the old grammar is inside the new one -/
theorem C17_canonArea_sub (t : Text) (h : canonAreaB t = true) : canonAreaB' t = true := by
  unfold canonAreaB at h
  split at h
  · rename_i q a hsp
    have e : canonAreaB' t = (canonQualB q && canonRangeB a) := by simp only [canonAreaB', hsp]
    rw [Bool.and_eq_true] at h
    have h2 := h.2
    have h3 : canonRangeB a = true := by
      unfold canonCellRangeB at h2; unfold canonRangeB
      split at h2
      · exact h2
      · simp [h2]
      · cases h2
    rw [e, Bool.and_eq_true]
    exact ⟨h.1, h3⟩
  · cases h

/-- non-vacuity: whole columns, whole rows (quoted qualifier with a blank / an apostrophe), and the re-quoting -/
example : canonAreaB' "Sheet1!$A:$B".toList = true ∧ canonAreaB' "'My Sheet'!$1:$3".toList = true ∧
    canonAreaB' "'It''s'!A:XFD".toList = true ∧ canonAreaB' "data!1:1048576".toList = true ∧
    canonAreaB' "Sheet1!$A$1:$B$2".toList = true ∧ canonAreaB "Sheet1!$A:$B".toList = false ∧
    canonAreaB' "Sheet1!$A:$1".toList = false ∧ canonAreaB' "Sheet1!a:b".toList = false ∧ canonAreaB' "$A:$B".toList = false ∧
    addrReprint "Sheet1!$A:$B".toList = .ok "'Sheet1'!$A:$B".toList ∧
    addrReprint "'My Sheet'!$1:$3".toList = .ok "'My Sheet'!$1:$3".toList ∧
    addrReprint "data!1:1048576".toList = .ok "data!1:1048576".toList ∧
    canonArea "Sheet1!$A:$B".toList = "'Sheet1'!$A:$B".toList := by
  decide +kernel

/-- **Area without a qualifier.**  For EVERY text of the range grammar `canonRangeB` (`$A$1`, `A1:B2`, `$A:$B`, `1:3`, …)
    `set_address` — of the text as it is and of its un-doubled form, which is the same text — reads an address with the
    EMPTY sheet name and a range of one of the four shapes inside the bounds, and `get_address_ptn2` prints the text
    verbatim (an empty sheet name prints no qualifier and no `!`); `canonArea` leaves such a text alone. -/
theorem C17_address_unqualified (t : Text) (h : canonRangeB t = true) :
    ∃ a : Address, Address.parse t = .ok a ∧ Address.parse (undouble t) = .ok a ∧ a.sheet = [] ∧
      Range.IsShape a.range ∧ Range.InBounds a.range ∧ a.text = t ∧ canonArea t = t ∧ undouble t = t := by
  obtain ⟨ρ, hs, hb, e⟩ := canonRange_spec t h
  subst e
  obtain ⟨p1, p2⟩ := unqual_parse ρ hs hb
  refine ⟨⟨[], ρ⟩, p1, p2, rfl, hs, hb, unqual_text ρ, ?_, undouble_id _ (apos_free_print ρ)⟩
  simp only [canonArea, rsplitBang_none' _ (bang_free_print ρ)]

example : canonRangeB "$A$1".toList = true ∧ addrReprint "$A$1".toList = .ok "$A$1".toList ∧
    addrReprint "$A:$B".toList = .ok "$A:$B".toList ∧ addrReprint "1:3".toList = .ok "1:3".toList ∧
    Address.parse "$A$1".toList = .ok ⟨[], ⟨some ⟨1, true⟩, some ⟨1, true⟩, none, none⟩⟩ := by
  decide +kernel

/-- **One statement: qualified or not, cell / range / columns / rows.**  For EVERY text `t` of the address-level grammar
    `canonAddrB` (`qualifier!range` with a canonical qualifier, or a bare range; the range of any of the four shapes),
    `set_address` of the un-doubled text reads an address `a` — sheet name empty EXACTLY when `t` has no `!`, legal
    otherwise; range of one of the four shapes inside the bounds — and `get_address_ptn2` prints `canonArea t`
    (`= t` when there is no qualifier; the qualifier re-quoted by `C17_quote_rule` otherwise); `canonArea t` is in the
    grammar, is a fixed point, and parses to the same `a`.  As one equation: `addrReprint t = .ok (canonArea t)`. -/
theorem C17_address_canon_total (t : Text) (h : canonAddrB t = true) :
    ∃ a : Address, ((rsplitBang t = none ∧ a.sheet = [] ∧ canonArea t = t) ∨ (rsplitBang t ≠ none ∧ LegalSheet a.sheet)) ∧
      Range.IsShape a.range ∧ Range.InBounds a.range ∧
      Address.parse (undouble t) = .ok a ∧ a.text = canonArea t ∧ addrReprint t = .ok (canonArea t) ∧
      canonAddrB (canonArea t) = true ∧ canonArea (canonArea t) = canonArea t ∧
      Address.parse (undouble (canonArea t)) = .ok a := by
  cases hsp : rsplitBang t with
  | none =>
    have hr : canonRangeB t = true := by simpa only [canonAddrB, hsp] using h
    obtain ⟨a, _, p2, hsn, hs, hb, ht, hc, _⟩ := C17_address_unqualified t hr
    refine ⟨a, Or.inl ⟨rfl, hsn, hc⟩, hs, hb, p2, by rw [hc]; exact ht, ?_, by rw [hc]; exact h, by rw [hc, hc],
      by rw [hc]; exact p2⟩
    simp only [addrReprint, p2, ht, hc]
  | some qa =>
    have hr : canonAreaB' t = true := by
      simp only [canonAddrB, hsp] at h
      simp only [canonAreaB', hsp]; exact h
    obtain ⟨a, hl, hs, hb, hp, ht, h1, h2, h3⟩ := C17_address_canon_cols_rows t hr
    refine ⟨a, Or.inr ⟨by simp, hl⟩, hs, hb, hp, ht, ?_, canonAddr_of_area _ h1, h2, h3⟩
    simp only [addrReprint, hp, ht]

theorem C17_address_reprint_total (t : Text) (h : canonAddrB t = true) : addrReprint t = .ok (canonArea t) := by
  obtain ⟨_, _, _, _, _, _, h6, _⟩ := C17_address_canon_total t h
  exact h6

/-- non-vacuity: all eight combinations; outside: a mixed pair, lower case, an undoubled apostrophe, three parts -/
example : (["$A$1", "A1:B2", "$A:$B", "1:3", "Sheet1!$A$1", "'My Sheet'!A1:B2", "Sheet1!$A:$B", "'It''s'!$1:$3"].map
      fun s => (canonAddrB s.toList, addrReprint s.toList == .ok (canonArea s.toList), String.ofList (canonArea s.toList))) =
    [(true, true, "$A$1"), (true, true, "A1:B2"), (true, true, "$A:$B"), (true, true, "1:3"),
     (true, true, "'Sheet1'!$A$1"), (true, true, "'My Sheet'!A1:B2"), (true, true, "'Sheet1'!$A:$B"),
     (true, true, "'It''s'!$1:$3")] ∧
    canonAddrB "A1:5".toList = false ∧ canonAddrB "Sheet1!a1".toList = false ∧ canonAddrB "'It's'!$A$1".toList = false ∧
    canonAddrB "A1:B2:C3".toList = false ∧ addrReprint "A1:B2:C3".toList = .panic := by
  decide +kernel

end Umya.Thm.C17
