/-
  C02 — Written files are valid packages that an independent reader decodes to the model.

  What is decided how:
  * The independent reader (`Umya.Spec.Xml`, `Umya.Spec.Sml`: XML 1.0 + OPC + SpreadsheetML, written
    from the standards) is EXECUTED by the driver on every part of every package the harness makes
    the library write; its verdict (violations, decoded view) is compared with the in-memory workbook.
    That part is translation validation, not a theorem.
  * The theorems below are the unbounded pieces: (1) the writer's escaping is read back exactly by
    the independent XML reader, for every text; (2) the rows and cells handed to the sheet writer are
    strictly ascending and complete for every reachable sheet; (3) hyperlink relationship ids pair
    every cell with its own target, for any number of links; (4) the cell clause: every `<c>` and every
    `<si>` the model of the cell writer (`Umya/Model/CellXml.lean`, tied to the code by C01's stream)
    produces, rendered as the element tree an XML 1.0 reader delivers (`Umya/Model/CellNode.lean`), is
    decoded by the independent SpreadsheetML decoder (`Spec/Sml.lean::decodeCell`, `rstText`,
    `sharedStrings`) to the model cell — for all cells, texts, numbers of sheets and table states.
  The helper lemmas of (1) live in `Umya/Lemmas/XmlChannel.lean`, those of (4) in `Umya/Lemmas/CellDecode.lean`.
-/
import Umya.Lemmas.XmlEsc
import Umya.Lemmas.XmlChannel
import Umya.Lemmas.Observers
import Umya.Lemmas.CellDecode
import Umya.Lemmas.CellBridge
import Umya.Lemmas.TablesGen
import Umya.Spec.XmlLex
import Umya.Thm.C02Sheet   -- sheet level (theorems C02_sheet_decodes, C02_merges_decode, C02_hyperlinks_decode, …)
import Umya.Thm.C02Book    -- workbook level (C02_book_decodes_partial, …); same namespace, audited with this module
namespace Umya.Thm.C02
open Umya.XmlEsc Umya.XmlChannel

/-! ### (1) escaping channel: model of the writer's escaping against the independent reader -/

/-- Character data: whatever text the writer puts into a text node, the independent reader reads
    back exactly that text — every text, carriage returns included (they are written as `&#13;`). -/
theorem C02_text_channel (s : List Char) : Umya.Spec.Xml.textValue (escape s) = some s := textValue_escape s

/-- The same for the second text writer, `write_text_node_conversion` (quick-xml `partial_escape`, then
    `\r` ↦ `&#13;`), which writes formula text and the `<v>` of `str` and number cells. -/
theorem C02_text_channel_conversion (s : List Char) : Umya.Spec.Xml.textValue (partialEscape s) = some s :=
  textValue_partialEscape s

/-- Attribute values: read back exactly, for every text (tab, line feed and carriage return are
    written as character references, so attribute-value normalisation does not touch them). -/
theorem C02_attr_channel (s : List Char) : Umya.Spec.Xml.attrValue (attrEscape s) = some s := attrValue_attrEscape s

/-- the defect that was repaired: with quick-xml's plain `escape` a carriage return in a text node
    and a line feed in an attribute do not survive a conformant reader -/
theorem C02_cr_in_text_fails : Umya.Spec.Xml.textValue (escapeOld ['a', '\r', 'b']) ≠ some ['a', '\r', 'b'] := by decide
theorem C02_lf_in_attr_fails : Umya.Spec.Xml.attrValue (escapeOld ['a', '\n', 'b']) ≠ some ['a', '\n', 'b'] := by decide

/-- and the escaped text can never end the attribute, open a tag, or be re-normalised -/
theorem C02_escaped_is_inert (s : List Char) :
    ∀ c ∈ attrEscape s, c ≠ '<' ∧ c ≠ '"' ∧ c ≠ '\'' ∧ c ≠ '>' ∧ c ≠ '\r' ∧ c ≠ '\n' ∧ c ≠ '\t' := attrEscape_safe s

/-! ### (2) sheetData: rows and cells strictly ascending, nothing lost -/

open Umya.Sheet in
/-- For every reachable (coherent) sheet the cells handed to the cell writer are exactly the
    existing cells, in strictly ascending (row, column) order — hence `<row>` elements and the
    `<c>` elements inside them are strictly ascending and every `r=` lies in its own row. -/
theorem C02_sheetdata_ascending (s : Sheet) (h : Coherent s) :
    SSorted ((emitted s).map (fun c => (c.row, c.col))) ∧
    (∀ k, k ∈ (emitted s).map (fun c => (c.row, c.col)) ↔ k ∈ keysOf s) := by
  rw [emitted_all s h, sortedCells_coords s h]
  exact ⟨h.rsorted, h.rmem⟩

/-! ### (3) hyperlink relationship ids -/

structure Link where
  coord : Nat × Nat
  external : Bool
  target : List Char
  deriving Repr, DecidableEq

/-- the sheet part's walk: external links get `rId1`, `rId2`, … in the order met -/
def sheetWalk : List Link → Nat → List ((Nat × Nat) × Option Nat)
  | [], _ => []
  | l :: ls, k => if l.external then (l.coord, some k) :: sheetWalk ls (k + 1) else (l.coord, none) :: sheetWalk ls k

/-- the relationships part's walk: one `Relationship Id=rIdK Target=…` per external link, in the order met -/
def relsWalk : List Link → Nat → List (Nat × List Char)
  | [], _ => []
  | l :: ls, k => if l.external then (k, l.target) :: relsWalk ls (k + 1) else relsWalk ls k

def lookupRel (k : Nat) : List (Nat × List Char) → Option (List Char)
  | [] => none
  | (j, t) :: r => if j = k then some t else lookupRel k r

theorem relsWalk_ids_ge (ls : List Link) (k j : Nat) (t : List Char) (h : (j, t) ∈ relsWalk ls k) : k ≤ j := by
  induction ls generalizing k with
  | nil => simp [relsWalk] at h
  | cons l ls ih =>
    simp only [relsWalk] at h
    split at h
    · rcases List.mem_cons.1 h with e | h
      · injection e with e1 _; omega
      · have := ih (k + 1) h; omega
    · exact ih k h

theorem lookupRel_skip (k : Nat) (l : List (Nat × List Char)) (h : ∀ j t, (j, t) ∈ l → k < j) : lookupRel k l = none := by
  induction l with
  | nil => rfl
  | cons p r ih =>
    obtain ⟨j, t⟩ := p
    have hj := h j t (by simp)
    simp only [lookupRel]
    rw [if_neg (by omega)]
    exact ih (fun j' t' hm => h j' t' (List.mem_cons_of_mem _ hm))

/-- When both parts walk the SAME ordered collection (the code after the ordered-map fix), every
    external hyperlink's `r:id` resolves, in the relationships part, to that hyperlink's own target
    — for any number of links, any mixture of external and internal ones, any start id. -/
theorem C02_hyperlink_pairing (ls : List Link) (k0 : Nat) (l : Link) (hl : l ∈ ls) (hext : l.external = true)
    (hnd : (ls.map (·.coord)).Nodup) :
    ∃ k, (l.coord, some k) ∈ sheetWalk ls k0 ∧ lookupRel k (relsWalk ls k0) = some l.target := by
  induction ls generalizing k0 with
  | nil => simp at hl
  | cons x xs ih =>
    simp only [List.map_cons, List.nodup_cons] at hnd
    rcases List.mem_cons.1 hl with e | hl'
    · subst e
      refine ⟨k0, ?_, ?_⟩
      · simp [sheetWalk, hext]
      · simp [relsWalk, hext, lookupRel]
    · by_cases hx : x.external = true
      · obtain ⟨k, h1, h2⟩ := ih (k0 + 1) hl' hnd.2
        refine ⟨k, ?_, ?_⟩
        · simp only [sheetWalk, hx, if_true]; exact List.mem_cons_of_mem _ h1
        · simp only [relsWalk, hx, if_true, lookupRel]
          have hk : k0 + 1 ≤ k := by
            -- k was handed out by the walk that starts at k0 + 1
            cases hlk : lookupRel k (relsWalk xs (k0 + 1)) with
            | none => rw [hlk] at h2; simp at h2
            | some t =>
              have : ∃ t', (k, t') ∈ relsWalk xs (k0 + 1) := by
                clear h2 ih
                generalize relsWalk xs (k0 + 1) = R at hlk
                induction R with
                | nil => simp [lookupRel] at hlk
                | cons p r ihr =>
                  obtain ⟨j, t'⟩ := p
                  simp only [lookupRel] at hlk
                  split at hlk
                  · rename_i e; subst e; exact ⟨t', by simp⟩
                  · obtain ⟨t'', ht''⟩ := ihr hlk; exact ⟨t'', List.mem_cons_of_mem _ ht''⟩
              obtain ⟨t', ht'⟩ := this
              exact relsWalk_ids_ge xs (k0 + 1) k t' ht'
          rw [if_neg (by omega)]; exact h2
      · have hx' : x.external = false := by simpa using hx
        obtain ⟨k, h1, h2⟩ := ih k0 hl' hnd.2
        refine ⟨k, ?_, ?_⟩
        · simp only [sheetWalk, hx', Bool.false_eq_true, if_false]; exact List.mem_cons_of_mem _ h1
        · simp only [relsWalk, hx', Bool.false_eq_true, if_false]; exact h2

/-- The defect that was repaired: when the two parts walk the collection in DIFFERENT orders (two
    separately built hash maps), a link is paired with another cell's target. -/
theorem C02_unordered_pairing_fails :
    let a : Link := ⟨(1, 1), true, ['u', '1']⟩
    let b : Link := ⟨(2, 1), true, ['u', '2']⟩
    (a.coord, some 1) ∈ sheetWalk [a, b] 1 ∧ lookupRel 1 (relsWalk [b, a] 1) = some b.target := by decide

/-! ### (4) cells: every written `<c>` and `<si>` decodes to the model cell

  Writer side: `Umya.CellXml.writeTo` / `writeV` / `writeCells` / `writeSheets` / `writeBook`, `siOf`,
  `writeText` (the model of `Cell::write_to`, `SharedStringItem::write_to`, `Text::write_to` and the cell
  side of `make_buffer`; it is the model C01 ties to the code on every run).
  Bridge: `Umya.CellNode.cellNode`, `siNode`, `sstParts`, `renderSheets` render the written facts as the
  element trees an XML 1.0 reader delivers (text content through `textValue`, attributes through
  `attrValue ∘ attrEscape`); every choice is documented in `Umya/Model/CellNode.lean`.
  Reader side: `Umya.Spec.Sml.decodeCell`, `rstText`, `sharedStrings` — the independent decoder.

  Kinds (`fileKind`): text and rich text → "s", number → "n", boolean → "b", error → "e", blank → "";
  value text = `valueText` (`CellRawValue: Display`): the text, the concatenation of the run texts, the
  number token, TRUE / FALSE, the error code — both of the value `Cell::write_to` writes (`resolveRaw`: a value
  stored with `set_value_lazy` and never resolved stands for what `guess_typed_data` makes of its text, fix 6 of
  C01; every other value is itself).  One documented deviation from the plain table `docKind`
  (what `get_data_type` says) is part of `fileKind` and is shown to be real by a `_fails` theorem:
  a formula without cached value reads as an empty string result.  NOT needed as a hypothesis here, although C01
  needs it: rich text without runs (an `<si>` without `<t>`/`<r>` — the empty text).  A rich text under a formula
  is a shared-string item like any other rich text (fix 5 of C01).
  No hypothesis on characters, numbers (`NumFmt.Sound` is not used), table state or sizes.
-/

section Cells
open Umya.CellXml Umya.CellNode Umya.Num Umya.Coord
open Umya.Spec.Sml (decodeCell rstText sharedStrings)

/-- The shared-string table is prefix-preserving: whatever `Cell::write_to`, a sheet or all sheets register
    is appended; an index handed out earlier keeps its item (`Extends`).  (Interning itself:
    `Umya.InternC01.intern_spec`.) -/
theorem C02_table_only_grows (F : NumFmt) :
    (∀ tbl c tbl' ox, writeTo F tbl c = some (tbl', ox) → ∃ ext, tbl' = tbl ++ ext) ∧
    (∀ tbl cs tbl' xs, writeCells F tbl cs = some (tbl', xs) → ∃ ext, tbl' = tbl ++ ext) ∧
    (∀ tbl ss tbl' xss, writeSheets F tbl ss = some (tbl', xss) → ∃ ext, tbl' = tbl ++ ext) ∧
    (∀ tbl ext : Table, Extends (tbl ++ ext) tbl) :=
  ⟨fun tbl c tbl' ox h => (writeTo_grows F tbl c tbl' ox h).1,
   fun tbl cs tbl' xs h => (writeCells_decodes F (fun _ => 0) cs tbl tbl' xs h).1,
   fun tbl ss tbl' xss h => (writeSheets_decodes F (fun _ _ => 0) ss 0 tbl tbl' xss h).1,
   fun _ _ _ _ hi => Umya.InternC01.getElem?_append_left' hi⟩

/-- A shared-string item — plain text (any text: padded, empty, with `& < > " '`, CR, LF) or rich text
    (any number of runs, with or without run properties) — as written by `SharedStringItem::write_to`
    renders, and the independent reader's `rstText` of it is the item's text. -/
theorem C02_si_decodes (it : Item) : ∃ n, siNode (siOf it) = some n ∧ rstText n = itemText it :=
  ⟨_, siNode_siOf it, rstText_siN it⟩

/-- The shared-string part of any table state, as the independent reader sees it in the package: one text
    per item, in table order (no part and an empty table when nothing was registered). -/
theorem C02_sst_decodes (tbl : Table) :
    ∃ pkg, sstParts (tbl.map siOf) = some pkg ∧ sharedStrings pkg sstPath = tbl.map itemText :=
  sharedStrings_written tbl

/-- ONE CELL, every branch of `write_to` (`<c r s/>`, `t="s"` through the shared table, `t="str"`, `t="b"`,
    `t="e"`, numbers without `t`, `<v/>`, with and without `<f>`): if the cell is written at all, its `<c>`
    renders, and for EVERY later table state `tbl''` that extends the writer's — whatever other cells of
    this or later sheets register — the independent decoder, given the shared strings it reads from the
    part written for `tbl''`, returns exactly the cell's reference, kind, value text, formula text and
    style index, and reports no violation. -/
theorem C02_cell_decodes (F : NumFmt) (tbl : Table) (c : Cell F.Num) (tbl' : Table) (cx : CellX)
    (h : writeTo F tbl c = some (tbl', some cx)) (xf : Nat) :
    1 ≤ c.col ∧
    ∃ node, cellNode xf cx = some node ∧
      ∀ tbl'' : Table, Extends tbl'' tbl' →
        ∃ pkg, sstParts (tbl''.map siOf) = some pkg ∧
          decodeCell (sharedStrings pkg sstPath) node = (fileView F xf c, []) := by
  obtain ⟨hc, _, _, node, hn, hd⟩ := writeTo_decodes F tbl c tbl' cx h xf
  refine ⟨hc, node, hn, fun tbl'' hx => ?_⟩
  obtain ⟨pkg, hp, hs⟩ := sharedStrings_written tbl''
  exact ⟨pkg, hp, by rw [hs]; exact hd tbl'' hx⟩

/-- The rendering of text content is what the lexer does: the raw character data between two tags (XML
    `Char`s, no `<`) followed by the next tag reaches the tree builder as ONE text token that carries
    `textValue raw`, or as no token when it is empty (or the document is rejected when `textValue` fails) —
    exactly `CellNode.charData`. -/
theorem C02_chardata_lexed (raw rest : List Char) (hx : ∀ c ∈ raw, Umya.Spec.Xml.isXmlChar c = true) (hlt : '<' ∉ raw) :
    Umya.Spec.Xml.lexGo (.text []) (raw ++ '<' :: rest) =
      if raw = [] then Umya.Spec.Xml.lexGo .lt rest
      else match Umya.Spec.Xml.textValue raw, Umya.Spec.Xml.lexGo .lt rest with
        | some t, some ts => some (Umya.Spec.Xml.Token.text t :: ts)
        | _, _ => none := by
  rw [lexGo_text_run raw hx hlt [] rest]
  unfold Umya.Spec.Xml.flushText
  by_cases h : raw = []
  · subst h; simp
  · simp [h]
    cases Umya.Spec.Xml.textValue raw <;> cases Umya.Spec.Xml.lexGo .lt rest <;> rfl

/-- The reference the decoder returns is the cell's own position under the decoder's A1 reading
    (`Spec/Sml.lean::colOf`, `rowOf`, which the well-formedness check of the sheet uses): column and row of
    the model cell, for every column ≥ 1 and every row. -/
theorem C02_cell_position (F : NumFmt) (tbl : Table) (c : Cell F.Num) (tbl' : Table) (cx : CellX)
    (h : writeTo F tbl c = some (tbl', some cx)) (xf : Nat) :
    Umya.Spec.Sml.colOf (fileView F xf c).ref = c.col ∧ Umya.Spec.Sml.rowOf (fileView F xf c).ref = c.row :=
  ref_position c.col c.row (C02_cell_decodes F tbl c tbl' cx h xf).1

/-- the hypothesis of `C02_cell_decodes` holds for every cell that has a column ≥ 1 and is not
    blank-and-unstyled (those are not written: `C01_normalize`) -/
theorem C02_cell_written (F : NumFmt) (tbl : Table) (c : Cell F.Num) (hc : 1 ≤ c.col) (hb : blankUnstyled F c = false) :
    ∃ tbl' cx, writeTo F tbl c = some (tbl', some cx) := by
  obtain ⟨tbl', ox, hw, hx⟩ := writeTo_total F tbl c hc
  obtain ⟨cx, rfl⟩ := hx hb
  exact ⟨tbl', cx, hw⟩

/- Full statement with the PLAIN kind table (`docKind` = `CellRawValue::get_data_type`, of the value written):
     writeTo F tbl c = some (tbl', some cx) → … (decodeCell … node).1.kind = docKind F (resolveRaw F c.raw)
   It is false for a formula without cached value (next theorem); it holds for every other cell: -/
theorem C02_cell_kind_partial (F : NumFmt) (xf : Nat) (c : Cell F.Num) (hk : plainKind F c = true) :
    (fileView F xf c).kind = docKind F (resolveRaw F c.raw) := by
  obtain ⟨col, row, raw, fo, styled⟩ := c
  simp only [fileView, fileViewCore, Cell.resolved, plainKind] at hk ⊢
  cases hr : resolveRaw F raw <;> simp [hr] at hk <;> simp [fileKind, docKind, hk]

/-- `C02_cell_decodes` with the plain kind table spelled out — the statement of the property for one cell:
    the decoded cell has exactly the cell's reference, its kind by the table text / rich text → "s",
    number → "n", boolean → "b", error → "e", blank → "", its value text, its formula text and its style
    (kind and value text of the value written: `resolveRaw`, the identity except on an unresolved lazy value).
    `plainKind` (decidable) excludes exactly a formula without cached value; the exclusion is necessary
    (`C02_cell_uncached_formula_fails`). -/
theorem C02_cell_decodes_plain_partial (F : NumFmt) (tbl : Table) (c : Cell F.Num) (tbl' : Table) (cx : CellX)
    (h : writeTo F tbl c = some (tbl', some cx)) (xf : Nat) (hk : plainKind F c = true) :
    ∃ node, cellNode xf cx = some node ∧
      ∀ tbl'' : Table, Extends tbl'' tbl' →
        ∃ pkg, sstParts (tbl''.map siOf) = some pkg ∧
          decodeCell (sharedStrings pkg sstPath) node =
            ({ ref := coordinateFromIndexWithLock c.col c.row false false, kind := docKind F (resolveRaw F c.raw),
               value := valueText F (resolveRaw F c.raw), formula := c.formula, style := if c.styled then xf else 0 }, []) := by
  obtain ⟨_, node, hn, hd⟩ := C02_cell_decodes F tbl c tbl' cx h xf
  refine ⟨node, hn, fun tbl'' hx => ?_⟩
  obtain ⟨pkg, hp, hdec⟩ := hd tbl'' hx
  refine ⟨pkg, hp, ?_⟩
  rw [hdec, ← C02_cell_kind_partial F xf c hk]
  rfl

/-- A formula without cached value (`set_formula` on a blank cell) is written `t="str"` with `<v/>`: an
    independent reader sees a formula whose cached result is the EMPTY STRING, not "no value".  (The check's
    view function identifies the two, see `C02_cell_kind_normalised`.) -/
theorem C02_cell_uncached_formula_fails (F : NumFmt) :
    ∃ (c : Cell F.Num) (tbl' : Table) (cx : CellX) (node : Umya.Spec.Xml.Node),
      writeTo F [] c = some (tbl', some cx) ∧ cellNode 0 cx = some node ∧ docKind F c.raw = "" ∧
      ∀ tbl'' : Table, Extends tbl'' tbl' →
        (decodeCell (tbl''.map itemText) node).1.kind = "s" ∧ (decodeCell (tbl''.map itemText) node).1.value = [] := by
  obtain ⟨tbl', cx, hw⟩ := C02_cell_written F [] { col := 1, row := 1, formula := some ['A', '2'] } (Nat.le_refl 1) rfl
  obtain ⟨_, _, _, node, hn, hd⟩ := writeTo_decodes F [] _ tbl' cx hw 0
  refine ⟨_, tbl', cx, node, hw, hn, rfl, fun tbl'' hx => ?_⟩
  rw [hd tbl'' hx]
  exact ⟨rfl, rfl⟩

/-- Repaired (fix 6 of C01; was the witness `C02_cell_lazy_fails`: an empty `<v></v>`, a NUMBER cell without
    content): a value stored with `set_value_lazy` and never resolved is written as the typed value it stands
    for, and an independent reader sees that value — lazy "42" is the number 42, lazy "x" under a formula the
    text "x" with the formula. -/
theorem C02_cell_lazy_decodes :
    (∃ (tbl' : Table) (cx : CellX) (node : Umya.Spec.Xml.Node),
      writeTo (textFmt []) [] { col := 1, row := 1, raw := .lazy ['4', '2'] } = some (tbl', some cx) ∧ cellNode 0 cx = some node ∧
      ∀ tbl'' : Table, Extends tbl'' tbl' →
        (decodeCell (tbl''.map itemText) node).1.kind = "n" ∧ (decodeCell (tbl''.map itemText) node).1.value = ['4', '2']) ∧
    (∃ (tbl' : Table) (cx : CellX) (node : Umya.Spec.Xml.Node),
      writeTo (textFmt []) [] { col := 1, row := 1, raw := .lazy ['x'], formula := some ['A', '2'] } = some (tbl', some cx) ∧
      cellNode 0 cx = some node ∧
      ∀ tbl'' : Table, Extends tbl'' tbl' →
        (decodeCell (tbl''.map itemText) node).1.kind = "s" ∧ (decodeCell (tbl''.map itemText) node).1.value = ['x'] ∧
        (decodeCell (tbl''.map itemText) node).1.formula = some ['A', '2']) := by
  constructor
  · obtain ⟨tbl', cx, hw⟩ := C02_cell_written (textFmt []) [] { col := 1, row := 1, raw := .lazy ['4', '2'] } (Nat.le_refl 1) (by decide)
    obtain ⟨_, _, _, node, hn, hd⟩ := writeTo_decodes (textFmt []) [] _ tbl' cx hw 0
    refine ⟨tbl', cx, node, hw, hn, fun tbl'' hx => ?_⟩
    rw [hd tbl'' hx]
    exact ⟨by decide, by decide⟩
  · obtain ⟨tbl', cx, hw⟩ := C02_cell_written (textFmt []) [] { col := 1, row := 1, raw := .lazy ['x'], formula := some ['A', '2'] } (Nat.le_refl 1) (by decide)
    obtain ⟨_, _, _, node, hn, hd⟩ := writeTo_decodes (textFmt []) [] _ tbl' cx hw 0
    refine ⟨tbl', cx, node, hw, hn, fun tbl'' hx => ?_⟩
    rw [hd tbl'' hx]
    exact ⟨by decide, by decide, by decide⟩

/-- The rule by which the check's view (`Driver/C02.lean::cellStr`, which calls this function) compares
    kinds: a formula cell whose cached string result is empty is the same as one without a cached result.
    Under it the decoded kind of EVERY cell is the kind of the value written (`get_data_type` of the cell's value,
    of what a lazy value stands for), the uncached formula included. -/
theorem C02_cell_kind_normalised (F : NumFmt) (xf : Nat) (c : Cell F.Num) :
    normKind (fileView F xf c).formula (fileView F xf c).kind (fileView F xf c).value
      = normKind c.formula (docKind F (resolveRaw F c.raw)) (valueText F (resolveRaw F c.raw)) := by
  obtain ⟨col, row, raw, fo, styled⟩ := c
  simp only [fileView, fileViewCore, Cell.resolved]
  cases hr : resolveRaw F raw with
  | lazy s => have := resolveRaw_not_lazy F raw; rw [hr] at this; cases this
  | empty => cases fo <;> simp [normKind, fileKind, docKind, valueText]
  | _ => rfl

/-- ONE SHEET: the `<c>` elements written for a list of cells (in the order of the row loop,
    `C02_sheetdata_ascending`) render, and the independent decoder — given the shared strings of any table
    state that extends the one reached after the sheet — returns, element by element and in order, the views
    of exactly the cells that are not blank-and-unstyled. -/
theorem C02_sheet_cells_decode (F : NumFmt) (xf : List Char → Nat) (tbl : Table) (cs : List (Cell F.Num))
    (tbl' : Table) (xs : List CellX) (h : writeCells F tbl cs = some (tbl', xs)) :
    ∃ nodes, renderCells xf xs = some nodes ∧
      ∀ tbl'' : Table, Extends tbl'' tbl' →
        ∃ pkg, sstParts (tbl''.map siOf) = some pkg ∧
          nodes.map (decodeCell (sharedStrings pkg sstPath))
            = viewCells F xf (cs.filter (fun c => !blankUnstyled F c)) := by
  obtain ⟨_, nodes, hn, hd⟩ := writeCells_decodes F xf cs tbl tbl' xs h
  refine ⟨nodes, hn, fun tbl'' hx => ?_⟩
  obtain ⟨pkg, hp, hs⟩ := sharedStrings_written tbl''
  exact ⟨pkg, hp, by rw [hs]; exact hd tbl'' hx⟩

/-- THE WHOLE PACKAGE (cell side), both writers: if `make_buffer` does not panic, the shared-string part
    renders (or is absent because no string was registered), the cells of every sheet render, and every
    `<c>` of every sheet decodes — against the table the independent reader takes from the FINAL
    shared-string part — to the view of its model cell: sheet by sheet, cell by cell, in order, exactly the
    cells `normalize` keeps (all but the blank unstyled ones), no violation reported.  Any number of sheets
    and cells, any texts, any mixture of kinds; `xf k ref` is the style index of the cell at `ref` in sheet `k`. -/
theorem C02_book_cells_decode (F : NumFmt) (light : Bool) (sheets : List (List (Cell F.Num))) (b : BookX)
    (h : writeBook F light sheets = some b) (xf : Nat → List Char → Nat) :
    ∃ pkg nodess, sstParts b.sst = some pkg ∧ renderSheets xf 0 b.sheets = some nodess ∧
      nodess.map (fun ns => ns.map (decodeCell (sharedStrings pkg sstPath)))
        = viewSheets F xf 0 (normalize F sheets) :=
  writeBook_decodes F light sheets b h xf

/-- … read cell by cell: the `j`-th `<c>` of the `i`-th sheet decodes to the view of the `j`-th kept cell of
    the `i`-th sheet of the workbook. -/
theorem C02_book_cell_decodes (F : NumFmt) (light : Bool) (sheets : List (List (Cell F.Num))) (b : BookX)
    (h : writeBook F light sheets = some b) (xf : Nat → List Char → Nat) :
    ∃ pkg nodess, sstParts b.sst = some pkg ∧ renderSheets xf 0 b.sheets = some nodess ∧
      ∀ (i j : Nat) (ns : List Umya.Spec.Xml.Node) (node : Umya.Spec.Xml.Node),
        nodess[i]? = some ns → ns[j]? = some node →
        ∃ cs c, (normalize F sheets)[i]? = some cs ∧ cs[j]? = some c ∧
          decodeCell (sharedStrings pkg sstPath) node
            = (fileView F (xf i (coordinateFromIndexWithLock c.col c.row false false)) c, []) := by
  obtain ⟨pkg, nodess, hp, hn, hd⟩ := writeBook_decodes F light sheets b h xf
  refine ⟨pkg, nodess, hp, hn, ?_⟩
  intro i j ns node hi hj
  have h1 := congrArg (fun l => l[i]?) hd
  simp only [List.getElem?_map, hi, Option.map_some, viewSheets_get, Nat.zero_add] at h1
  cases hcs : (normalize F sheets)[i]? with
  | none => rw [hcs] at h1; simp at h1
  | some cs =>
    rw [hcs] at h1
    simp only [Option.map_some, Option.some.injEq] at h1
    have h2 := congrArg (fun l => l[j]?) h1
    simp only [List.getElem?_map, hj, Option.map_some, viewCells] at h2
    cases hc : cs[j]? with
    | none => rw [hc] at h2; simp at h2
    | some c =>
      rw [hc] at h2
      simp only [Option.map_some, Option.some.injEq] at h2
      exact ⟨cs, c, rfl, hc, h2⟩

/-- the writers do not panic on cells with a column ≥ 1 (the hypothesis of the two theorems above) -/
theorem C02_book_written (F : NumFmt) (light : Bool) (sheets : List (List (Cell F.Num)))
    (hc : ∀ s ∈ sheets, ∀ c ∈ s, 1 ≤ c.col) : ∃ b, writeBook F light sheets = some b :=
  writeBook_total F light sheets hc

/-! #### non-vacuity of (4) -/

/-- the driver's number format: a number token is Rust's shortest decimal text -/
def demoF : NumFmt := textFmt []

/-- two sheets with every kind, special characters, a repeated string (one `<si>`, two cells), a blank
    unstyled cell (not written), a styled blank cell (`<c r s/>`), formulas with every kind of cached value,
    a formula without cached value, rich text under a formula, rich text without runs, unresolved lazy values
    (a number, the empty text = not written, a text under a formula) -/
def demoBook : List (List (Cell demoF.Num)) :=
  [[{ col := 1, row := 1, raw := .str [' ', '&', '<', '\r', '\n', '"', ' '] },
    { col := 16384, row := 1, raw := .num ['4', '2', '.', '5'], formula := some [' ', 'A', '1', '<', 'B', '1', ' '] },
    { col := 2, row := 2 },
    { col := 3, row := 2, styled := true },
    { col := 1, row := 1048576, raw := .err .na }],
   [{ col := 1, row := 1, raw := .rich [{ text := [' ', 'a'], font := some 1 }, { text := ['b', '\r'] }] },
    { col := 2, row := 1, raw := .bool true, formula := some [] },
    { col := 3, row := 1, raw := .str [' ', '&', '<', '\r', '\n', '"', ' '], styled := true },
    { col := 4, row := 1, formula := some ['A', '1'] },
    { col := 5, row := 1, raw := .rich [{ text := ['x'] }, { text := ['y'], font := some 2 }], formula := some ['B', '1'] },
    { col := 6, row := 1, raw := .rich [] },
    { col := 7, row := 1, raw := .bool false },
    { col := 8, row := 1, raw := .lazy ['4', '2'] },
    { col := 9, row := 1, raw := .lazy [] },
    { col := 10, row := 1, raw := .lazy ['a', 'b', 'c'], formula := some ['A', '1'] }]]

/-- `C02_book_written`, `C02_book_cells_decode`, `C02_book_cell_decodes`: the hypotheses are satisfiable -/
example : ∀ s ∈ demoBook, ∀ c ∈ s, 1 ≤ c.col := by decide

example : ∃ b, writeBook demoF true demoBook = some b ∧
    ∃ pkg nodess, sstParts b.sst = some pkg ∧ renderSheets (fun _ _ => 3) 0 b.sheets = some nodess ∧
      nodess.map (fun ns => ns.map (decodeCell (sharedStrings pkg sstPath)))
        = viewSheets demoF (fun _ _ => 3) 0 (normalize demoF demoBook) := by
  obtain ⟨b, hb⟩ := C02_book_written demoF true demoBook (by decide)
  exact ⟨b, hb, C02_book_cells_decode demoF true demoBook b hb _⟩

/-- … and what the decoder must find there is not trivial: the kinds, the value texts and the styles of
    the kept cells (4 of 5 and 9 of 10) -/
example : (viewSheets demoF (fun _ _ => 3) 0 (normalize demoF demoBook)).map (fun l => l.map (fun p => (p.1.kind, String.ofList p.1.value, p.1.style)))
    = [[("s", " &<\r\n\" ", 0), ("n", "42.5", 0), ("", "", 3), ("e", "#N/A", 0)],
       [("s", " ab\r", 0), ("b", "TRUE", 0), ("s", " &<\r\n\" ", 3), ("s", "", 0), ("s", "xy", 0), ("s", "", 0), ("b", "FALSE", 0),
        ("n", "42", 0), ("s", "abc", 0)]] := by
  decide

/-- `C02_cell_decodes`, `C02_cell_written`: a padded text cell under a formula at XFD1048576, against a
    table that already holds items -/
example : ∃ tbl' cx, writeTo demoF [{ text := some ['q'] }]
    { col := 16384, row := 1048576, raw := .str [' ', 'x', ' '], formula := some ['A', '1', ' '] } = some (tbl', some cx) :=
  C02_cell_written demoF _ _ (by decide) (by decide)

/-- `C02_chardata_lexed`: escaped text is such character data -/
example : (∀ c ∈ Umya.Xml.escape ['a', '<', '\r', ' '], Umya.Spec.Xml.isXmlChar c = true) ∧ '<' ∉ Umya.Xml.escape ['a', '<', '\r', ' '] := by
  decide

/-- `C02_cell_kind_partial`, `C02_cell_decodes_plain_partial`: a rich text under a formula, a lazy number, a lazy
    text under a formula are `plainKind`; a lazy "" under a formula is a formula without cached value -/
example : plainKind demoF { col := 1, row := 1, raw := .rich [], formula := some ['A', '1'] } = true ∧
    plainKind demoF { col := 1, row := 1, raw := .lazy ['4', '2'] } = true ∧
    plainKind demoF { col := 1, row := 1, raw := .lazy ['a'], formula := some ['A', '1'] } = true ∧
    plainKind demoF { col := 1, row := 1, raw := .lazy [], formula := some ['A', '1'] } = false := by
  decide

/-- `C02_si_decodes`, `C02_sst_decodes`: a table with a padded text, an empty text and a rich text -/
example : ([{ text := some [' ', 'a', '&'] }, { text := some [] }, { rich := some [{ text := ['x'] }, { text := ['y', ' '], font := some 1 }] }] : Table).map itemText
    = [[' ', 'a', '&'], [], ['x', 'y', ' ']] := by decide

/-- the rendering itself, on a concrete cell and item (what the decoder is handed) -/
example : cellNode 5 { ref := ['B', '2'], t := ['s'], styled := true, f := some ['A', '1', '&', 'l', 't', ';', '2'], v := .text ['0'] }
    = some (.elem ['c'] [⟨['r'], ['B', '2']⟩, ⟨['t'], ['s']⟩, ⟨['s'], ['5']⟩]
        [.elem ['f'] [] [.text ['A', '1', '<', '2']], .elem ['v'] [] [.text ['0']]]) := by
  have h5 : Umya.Dec.decDigits 5 = ['5'] := by rw [Umya.Dec.decDigits]; rfl
  simp only [cellNode, cellAttrs, attrOf_eq, h5]
  rfl

example : siNode (siOf { text := some [' ', 'a', '&'] })
    = some (.elem ['s', 'i'] [] [.elem ['t'] [⟨['x', 'm', 'l', ':', 's', 'p', 'a', 'c', 'e'], ['p', 'r', 'e', 's', 'e', 'r', 'v', 'e']⟩] [.text [' ', 'a', '&']], phoneticPr]) := by
  rw [siNode_siOf]; rfl

end Cells

/-! ### non-vacuity -/

example : Umya.Spec.Xml.textValue (escape ['a', '&', '\r', '<', '"', '\n', 'b']) = some ['a', '&', '\r', '<', '"', '\n', 'b'] ∧
    Umya.Spec.Xml.attrValue (attrEscape ['a', '\t', '\r', '\n', '"']) = some ['a', '\t', '\r', '\n', '"'] := by decide

example : sheetWalk [⟨(1, 1), true, ['x']⟩, ⟨(1, 2), false, ['y']⟩, ⟨(1, 3), true, ['z']⟩] 1 = [((1, 1), some 1), ((1, 2), none), ((1, 3), some 2)] := by decide

/-- **Tie to the source (T).**  The escape pipelines of writer/driver.rs as regenerated on this run are the
    model's channel functions: `write_start_tag` ↦ `attrEscape`, `write_text_node` ↦ `escape`,
    `write_text_node_conversion` ↦ `partialEscape` (base quick-xml function and every `.replace` step, in order). -/
theorem C02_channels_match_source (s : List Char) :
    Umya.Gen.write_start_tag_escape.run escapeOld partialEscapeOld s = attrEscape s ∧
    Umya.Gen.write_text_node_escape.run escapeOld partialEscapeOld s = escape s ∧
    Umya.Gen.write_text_node_conversion_escape.run escapeOld partialEscapeOld s = partialEscape s :=
  ⟨Umya.Gen.gen_write_start_tag s, Umya.Gen.gen_write_text_node s, Umya.Gen.gen_write_text_node_conversion s⟩

end Umya.Thm.C02
