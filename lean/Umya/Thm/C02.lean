/-
  C02 — Written files are valid packages that an independent reader decodes to the model.

  What is decided how:
  * The independent reader (`Umya.Spec.Xml`, `Umya.Spec.Sml`: XML 1.0 + OPC + SpreadsheetML, written
    from the standards) is EXECUTED by the driver on every part of every package the harness makes
    the library write; its verdict (violations, decoded view) is compared with the in-memory workbook.
    That part is translation validation, not a theorem.
  * The theorems below are the unbounded pieces: (1) the writer's escaping is read back exactly by
    the independent XML reader, for every text; (2) the rows and cells handed to the sheet writer are
    strictly ascending and complete for every reachable sheet; (3) hyperlink relationship ids pair
    every cell with its own target, for any number of links.
-/
import Umya.Lemmas.XmlEsc
import Umya.Lemmas.Observers
import Umya.Spec.XmlLex
namespace Umya.Thm.C02
open Umya.XmlEsc

/-! ### (1) escaping channel: model of the writer's escaping against the independent reader -/

open Umya.Spec.Xml in
theorem expandGo_escCharOld (lit : Char → List Char) (c : Char) (rest : List Char) (hlit : lit c = [c]) :
    expandGo lit none (escCharOld c ++ rest) = (expandGo lit none rest).map (c :: ·) := by
  unfold escCharOld
  split
  · rename_i h; subst h; simp [expandGo, resolveRef]
  · split
    · rename_i h; subst h; simp [expandGo, resolveRef]
    · split
      · rename_i h; subst h; simp [expandGo, resolveRef]
      · split
        · rename_i h; subst h; simp [expandGo, resolveRef]
        · split
          · rename_i h; subst h; simp [expandGo, resolveRef]
          · rename_i h1 h2 h3 h4 h5
            simp [expandGo, h3, hlit]

open Umya.Spec.Xml in
theorem spec_resolve_refs : resolveRef "#13".toList = some ['\r'] ∧ resolveRef "#10".toList = some ['\n'] ∧
    resolveRef "#9".toList = some ['\t'] := by decide

open Umya.Spec.Xml in
theorem expandGo_ref (lit : Char → List Char) (pat : List Char) (v : List Char) (rest : List Char)
    (hp : resolveRef pat = some v) (hclean : ∀ c ∈ pat, c ≠ ';' ∧ c ≠ '&' ∧ c ≠ '<') :
    expandGo lit none (('&' :: pat) ++ ';' :: rest) = (expandGo lit none rest).map (v ++ ·) := by
  have key : ∀ (p acc : List Char), (∀ c ∈ p, c ≠ ';' ∧ c ≠ '&' ∧ c ≠ '<') →
      expandGo lit (some acc) (p ++ ';' :: rest) = (resolveRef (acc.reverse ++ p)).bind fun v => (expandGo lit none rest).map (v ++ ·) := by
    intro p
    induction p with
    | nil => intro acc _; simp [expandGo]
    | cons c cs ih =>
      intro acc h
      have hc := h c (by simp)
      simp only [List.cons_append, expandGo, hc.1, hc.2.1, hc.2.2, if_false, false_or]
      rw [ih (c :: acc) (fun d hd => h d (List.mem_cons_of_mem _ hd))]
      simp
  simp only [List.cons_append, expandGo, if_true]
  rw [key pat [] hclean]
  simp [hp]

open Umya.Spec.Xml in
theorem expandGo_escChar (lit : Char → List Char) (c : Char) (rest : List Char) (hlit : c ≠ '\r' → lit c = [c]) :
    expandGo lit none (escChar c ++ rest) = (expandGo lit none rest).map (c :: ·) := by
  unfold escChar
  split
  · rename_i h; subst h
    have := expandGo_ref lit "#13".toList ['\r'] rest spec_resolve_refs.1 (by decide)
    simpa using this
  · rename_i h; exact expandGo_escCharOld lit c rest (hlit h)

open Umya.Spec.Xml in
theorem expandGo_attrEscChar (lit : Char → List Char) (c : Char) (rest : List Char)
    (hlit : c ≠ '\r' → c ≠ '\n' → c ≠ '\t' → lit c = [c]) :
    expandGo lit none (attrEscChar c ++ rest) = (expandGo lit none rest).map (c :: ·) := by
  unfold attrEscChar
  split
  · rename_i h; subst h
    have := expandGo_ref lit "#9".toList ['\t'] rest spec_resolve_refs.2.2 (by decide)
    simpa using this
  · split
    · rename_i h; subst h
      have := expandGo_ref lit "#10".toList ['\n'] rest spec_resolve_refs.2.1 (by decide)
      simpa using this
    · rename_i ht hn
      exact expandGo_escChar lit c rest (fun hr => hlit hr hn ht)

theorem normalizeEol_noCR (s : List Char) (h : '\r' ∉ s) : Umya.Spec.Xml.normalizeEol s = s := by
  induction s with
  | nil => rfl
  | cons c r ih =>
    have hc : c ≠ '\r' := by intro e; subst e; simp at h
    have hr : '\r' ∉ r := by intro e; exact h (List.mem_cons_of_mem _ e)
    unfold Umya.Spec.Xml.normalizeEol
    split
    · rename_i heq; injection heq with h1 _; exact absurd h1 hc
    · rename_i heq; injection heq with h1 _; exact absurd h1 hc
    · rename_i heq; injection heq with h1 h2; subst h1; subst h2; rw [ih hr]
    · rename_i heq; simp at heq

theorem attrEscape_noCR (s : List Char) : '\r' ∉ attrEscape s := fun h => (attrEscape_safe s _ h).2.2.2.2.1 rfl

theorem escape_noCR (s : List Char) : '\r' ∉ escape s := by
  intro hm
  simp only [escape, List.mem_flatMap] at hm
  obtain ⟨d, _, hin⟩ := hm
  unfold escChar at hin
  split at hin
  · simp at hin
  · rename_i hr
    exact hr (escCharOld_ws d '\r' hin (Or.inl rfl)).symm

/-- Character data: whatever text the writer puts into a text node, the independent reader reads
    back exactly that text — every text, carriage returns included (they are written as `&#13;`). -/
theorem C02_text_channel (s : List Char) : Umya.Spec.Xml.textValue (escape s) = some s := by
  unfold Umya.Spec.Xml.textValue
  rw [normalizeEol_noCR _ (escape_noCR s)]
  unfold escape
  induction s with
  | nil => rfl
  | cons c r ih => rw [List.flatMap_cons, expandGo_escChar _ c _ (fun _ => rfl), ih]; rfl

/-- Attribute values: read back exactly, for every text (tab, line feed and carriage return are
    written as character references, so attribute-value normalisation does not touch them). -/
theorem C02_attr_channel (s : List Char) : Umya.Spec.Xml.attrValue (attrEscape s) = some s := by
  unfold Umya.Spec.Xml.attrValue
  rw [normalizeEol_noCR _ (attrEscape_noCR s)]
  unfold attrEscape
  induction s with
  | nil => rfl
  | cons c r ih =>
    rw [List.flatMap_cons, expandGo_attrEscChar _ c _ (by intro h1 h2 h3; simp [h1, h2, h3]), ih]; rfl

/-- the defect that was repaired: with quick-xml's plain `escape` a carriage return in a text node
    and a line feed in an attribute do not survive a conformant reader -/
theorem C02_cr_in_text_fails : Umya.Spec.Xml.textValue (escapeOld ['a', '\r', 'b']) ≠ some ['a', '\r', 'b'] := by decide
theorem C02_lf_in_attr_fails : Umya.Spec.Xml.attrValue (escapeOld ['a', '\n', 'b']) ≠ some ['a', '\n', 'b'] := by decide

/-- and the escaped text can never end the attribute, open a tag, or be re-normalised -/
theorem C02_escaped_is_inert (s : List Char) :
    ∀ c ∈ attrEscape s, c ≠ '<' ∧ c ≠ '"' ∧ c ≠ '\'' ∧ c ≠ '>' ∧ c ≠ '\r' ∧ c ≠ '\n' ∧ c ≠ '\t' := attrEscape_safe s

/-! ### (2) sheetData: rows and cells strictly ascending, nothing lost -/

open Umya.Sheet in
/-- For every reachable (coherent) sheet the cells handed to the cell writer are exactly the
    existing cells, in strictly ascending (row, column) order — hence `<row>` elements and the
    `<c>` elements inside them are strictly ascending and every `r=` lies in its own row. -/
theorem C02_sheetdata_ascending (s : Sheet) (h : Coherent s) :
    SSorted ((emitted s).map (fun c => (c.row, c.col))) ∧
    (∀ k, k ∈ (emitted s).map (fun c => (c.row, c.col)) ↔ k ∈ keysOf s) := by
  rw [emitted_all s h, sortedCells_coords s h]
  exact ⟨h.rsorted, h.rmem⟩

/-! ### (3) hyperlink relationship ids -/

structure Link where
  coord : Nat × Nat
  external : Bool
  target : List Char
  deriving Repr, DecidableEq

/-- the sheet part's walk: external links get `rId1`, `rId2`, … in the order met -/
def sheetWalk : List Link → Nat → List ((Nat × Nat) × Option Nat)
  | [], _ => []
  | l :: ls, k => if l.external then (l.coord, some k) :: sheetWalk ls (k + 1) else (l.coord, none) :: sheetWalk ls k

/-- the relationships part's walk: one `Relationship Id=rIdK Target=…` per external link, in the order met -/
def relsWalk : List Link → Nat → List (Nat × List Char)
  | [], _ => []
  | l :: ls, k => if l.external then (k, l.target) :: relsWalk ls (k + 1) else relsWalk ls k

def lookupRel (k : Nat) : List (Nat × List Char) → Option (List Char)
  | [] => none
  | (j, t) :: r => if j = k then some t else lookupRel k r

theorem relsWalk_ids_ge (ls : List Link) (k j : Nat) (t : List Char) (h : (j, t) ∈ relsWalk ls k) : k ≤ j := by
  induction ls generalizing k with
  | nil => simp [relsWalk] at h
  | cons l ls ih =>
    simp only [relsWalk] at h
    split at h
    · rcases List.mem_cons.1 h with e | h
      · injection e with e1 _; omega
      · have := ih (k + 1) h; omega
    · exact ih k h

theorem lookupRel_skip (k : Nat) (l : List (Nat × List Char)) (h : ∀ j t, (j, t) ∈ l → k < j) : lookupRel k l = none := by
  induction l with
  | nil => rfl
  | cons p r ih =>
    obtain ⟨j, t⟩ := p
    have hj := h j t (by simp)
    simp only [lookupRel]
    rw [if_neg (by omega)]
    exact ih (fun j' t' hm => h j' t' (List.mem_cons_of_mem _ hm))

/-- When both parts walk the SAME ordered collection (the code after the ordered-map fix), every
    external hyperlink's `r:id` resolves, in the relationships part, to that hyperlink's own target
    — for any number of links, any mixture of external and internal ones, any start id. -/
theorem C02_hyperlink_pairing (ls : List Link) (k0 : Nat) (l : Link) (hl : l ∈ ls) (hext : l.external = true)
    (hnd : (ls.map (·.coord)).Nodup) :
    ∃ k, (l.coord, some k) ∈ sheetWalk ls k0 ∧ lookupRel k (relsWalk ls k0) = some l.target := by
  induction ls generalizing k0 with
  | nil => simp at hl
  | cons x xs ih =>
    simp only [List.map_cons, List.nodup_cons] at hnd
    rcases List.mem_cons.1 hl with e | hl'
    · subst e
      refine ⟨k0, ?_, ?_⟩
      · simp [sheetWalk, hext]
      · simp [relsWalk, hext, lookupRel]
    · by_cases hx : x.external = true
      · obtain ⟨k, h1, h2⟩ := ih (k0 + 1) hl' hnd.2
        refine ⟨k, ?_, ?_⟩
        · simp only [sheetWalk, hx, if_true]; exact List.mem_cons_of_mem _ h1
        · simp only [relsWalk, hx, if_true, lookupRel]
          have hk : k0 + 1 ≤ k := by
            -- k was handed out by the walk that starts at k0 + 1
            cases hlk : lookupRel k (relsWalk xs (k0 + 1)) with
            | none => rw [hlk] at h2; simp at h2
            | some t =>
              have : ∃ t', (k, t') ∈ relsWalk xs (k0 + 1) := by
                clear h2 ih
                generalize relsWalk xs (k0 + 1) = R at hlk
                induction R with
                | nil => simp [lookupRel] at hlk
                | cons p r ihr =>
                  obtain ⟨j, t'⟩ := p
                  simp only [lookupRel] at hlk
                  split at hlk
                  · rename_i e; subst e; exact ⟨t', by simp⟩
                  · obtain ⟨t'', ht''⟩ := ihr hlk; exact ⟨t'', List.mem_cons_of_mem _ ht''⟩
              obtain ⟨t', ht'⟩ := this
              exact relsWalk_ids_ge xs (k0 + 1) k t' ht'
          rw [if_neg (by omega)]; exact h2
      · have hx' : x.external = false := by simpa using hx
        obtain ⟨k, h1, h2⟩ := ih k0 hl' hnd.2
        refine ⟨k, ?_, ?_⟩
        · simp only [sheetWalk, hx', Bool.false_eq_true, if_false]; exact List.mem_cons_of_mem _ h1
        · simp only [relsWalk, hx', Bool.false_eq_true, if_false]; exact h2

/-- The defect that was repaired: when the two parts walk the collection in DIFFERENT orders (two
    separately built hash maps), a link is paired with another cell's target. -/
theorem C02_unordered_pairing_fails :
    let a : Link := ⟨(1, 1), true, ['u', '1']⟩
    let b : Link := ⟨(2, 1), true, ['u', '2']⟩
    (a.coord, some 1) ∈ sheetWalk [a, b] 1 ∧ lookupRel 1 (relsWalk [b, a] 1) = some b.target := by decide

/-! ### non-vacuity -/

example : Umya.Spec.Xml.textValue (escape ['a', '&', '\r', '<', '"', '\n', 'b']) = some ['a', '&', '\r', '<', '"', '\n', 'b'] ∧
    Umya.Spec.Xml.attrValue (attrEscape ['a', '\t', '\r', '\n', '"']) = some ['a', '\t', '\r', '\n', '"'] := by decide

example : sheetWalk [⟨(1, 1), true, ['x']⟩, ⟨(1, 2), false, ['y']⟩, ⟨(1, 3), true, ['z']⟩] 1 = [((1, 1), some 1), ((1, 2), none), ((1, 3), some 2)] := by decide

end Umya.Thm.C02
