/-
  C02 — Written files are valid packages that an independent reader decodes to the model.

  What is decided how:
  * The independent reader (`Umya.Spec.Xml`, `Umya.Spec.Sml`: XML 1.0 + OPC + SpreadsheetML, written
    from the standards) is EXECUTED by the driver on every part of every package the harness makes
    the library write; its verdict (violations, decoded view) is compared with the in-memory workbook.
    That part is translation validation, not a theorem.
  * The theorems below are the unbounded pieces: (1) the writer's escaping is read back exactly by
    the independent XML reader, for every text; (2) the rows and cells handed to the sheet writer are
    strictly ascending and complete for every reachable sheet; (3) hyperlink relationship ids pair
    every cell with its own target, for any number of links.
-/
import Umya.Lemmas.XmlEsc
import Umya.Lemmas.Observers
import Umya.Spec.XmlLex
namespace Umya.Thm.C02
open Umya.XmlEsc

/-! ### (1) escaping channel: model of quick-xml's writer side against the independent reader -/

theorem expandGo_escChar (lit : Char → List Char) (c : Char) (rest : List Char)
    (hlit : lit c = [c]) :
    Umya.Spec.Xml.expandGo lit none (escChar c ++ rest) = (Umya.Spec.Xml.expandGo lit none rest).map (c :: ·) := by
  unfold escChar
  split
  · rename_i h; subst h; simp [Umya.Spec.Xml.expandGo, Umya.Spec.Xml.resolveRef]
  · split
    · rename_i h; subst h; simp [Umya.Spec.Xml.expandGo, Umya.Spec.Xml.resolveRef]
    · split
      · rename_i h; subst h; simp [Umya.Spec.Xml.expandGo, Umya.Spec.Xml.resolveRef]
      · split
        · rename_i h; subst h; simp [Umya.Spec.Xml.expandGo, Umya.Spec.Xml.resolveRef]
        · split
          · rename_i h; subst h; simp [Umya.Spec.Xml.expandGo, Umya.Spec.Xml.resolveRef]
          · rename_i h1 h2 h3 h4 h5
            simp [Umya.Spec.Xml.expandGo, h3, hlit]

theorem normalizeEol_noCR (s : List Char) (h : '\r' ∉ s) : Umya.Spec.Xml.normalizeEol s = s := by
  induction s with
  | nil => rfl
  | cons c r ih =>
    have hc : c ≠ '\r' := by intro e; subst e; simp at h
    have hr : '\r' ∉ r := by intro e; exact h (List.mem_cons_of_mem _ e)
    unfold Umya.Spec.Xml.normalizeEol
    split
    · rename_i heq; injection heq with h1 _; exact absurd h1 hc
    · rename_i heq; injection heq with h1 _; exact absurd h1 hc
    · rename_i heq; injection heq with h1 h2; subst h1; subst h2; rw [ih hr]
    · rename_i heq; simp at heq

theorem escape_noCR (s : List Char) (h : '\r' ∉ s) : '\r' ∉ escape s := by
  intro hm
  simp only [escape, List.mem_flatMap] at hm
  obtain ⟨d, hd, hin⟩ := hm
  unfold escChar at hin
  split at hin
  · simp at hin
  · split at hin
    · simp at hin
    · split at hin
      · simp at hin
      · split at hin
        · simp at hin
        · split at hin
          · simp at hin
          · simp at hin; subst hin; exact h hd

/-- Character data: whatever text the writer escapes into a text node, the independent reader reads
    back exactly that text — provided it contains no carriage return (a conformant reader
    normalises `\r`; the writer emits it raw: the recorded defect). -/
theorem C02_text_channel (s : List Char) (h : '\r' ∉ s) :
    Umya.Spec.Xml.textValue (escape s) = some s := by
  unfold Umya.Spec.Xml.textValue
  rw [normalizeEol_noCR _ (escape_noCR s h)]
  unfold escape
  clear h
  induction s with
  | nil => rfl
  | cons c r ih => rw [List.flatMap_cons, expandGo_escChar _ c _ rfl, ih]; rfl

/-- Attribute values: read back exactly, provided the text contains no literal tab, line feed or
    carriage return (attribute-value normalisation turns those into blanks; the writer does not
    write them as character references). -/
theorem C02_attr_channel (s : List Char) (h : '\r' ∉ s ∧ '\n' ∉ s ∧ '\t' ∉ s) :
    Umya.Spec.Xml.attrValue (escape s) = some s := by
  unfold Umya.Spec.Xml.attrValue
  rw [normalizeEol_noCR _ (escape_noCR s h.1)]
  unfold escape
  induction s with
  | nil => rfl
  | cons c r ih =>
    have hc : c ≠ '\r' ∧ c ≠ '\n' ∧ c ≠ '\t' := by
      refine ⟨?_, ?_, ?_⟩ <;> (intro e; subst e; simp at h)
    have hr : '\r' ∉ r ∧ '\n' ∉ r ∧ '\t' ∉ r :=
      ⟨fun e => h.1 (List.mem_cons_of_mem _ e), fun e => h.2.1 (List.mem_cons_of_mem _ e), fun e => h.2.2 (List.mem_cons_of_mem _ e)⟩
    rw [List.flatMap_cons, expandGo_escChar _ c _ (by simp [hc.1, hc.2.1, hc.2.2]), ih hr]; rfl

/-- the two clauses above are sharp: a carriage return in a text node, a line feed in an
    attribute, do not survive a conformant reader -/
theorem C02_cr_in_text_fails : Umya.Spec.Xml.textValue (escape ['a', '\r', 'b']) ≠ some ['a', '\r', 'b'] := by decide
theorem C02_lf_in_attr_fails : Umya.Spec.Xml.attrValue (escape ['a', '\n', 'b']) ≠ some ['a', '\n', 'b'] := by decide

/-- and the escaped text can never end the attribute or open a tag -/
theorem C02_escaped_is_inert (s : List Char) : ∀ c ∈ escape s, c ≠ '<' ∧ c ≠ '"' ∧ c ≠ '\'' ∧ c ≠ '>' := escape_safe s

/-! ### (2) sheetData: rows and cells strictly ascending, nothing lost -/

open Umya.Sheet in
/-- For every reachable (coherent) sheet the cells handed to the cell writer are exactly the
    existing cells, in strictly ascending (row, column) order — hence `<row>` elements and the
    `<c>` elements inside them are strictly ascending and every `r=` lies in its own row. -/
theorem C02_sheetdata_ascending (s : Sheet) (h : Coherent s) :
    SSorted ((emitted s).map (fun c => (c.row, c.col))) ∧
    (∀ k, k ∈ (emitted s).map (fun c => (c.row, c.col)) ↔ k ∈ keysOf s) := by
  rw [emitted_all s h, sortedCells_coords s h]
  exact ⟨h.rsorted, h.rmem⟩

/-! ### (3) hyperlink relationship ids -/

structure Link where
  coord : Nat × Nat
  external : Bool
  target : List Char
  deriving Repr, DecidableEq

/-- the sheet part's walk: external links get `rId1`, `rId2`, … in the order met -/
def sheetWalk : List Link → Nat → List ((Nat × Nat) × Option Nat)
  | [], _ => []
  | l :: ls, k => if l.external then (l.coord, some k) :: sheetWalk ls (k + 1) else (l.coord, none) :: sheetWalk ls k

/-- the relationships part's walk: one `Relationship Id=rIdK Target=…` per external link, in the order met -/
def relsWalk : List Link → Nat → List (Nat × List Char)
  | [], _ => []
  | l :: ls, k => if l.external then (k, l.target) :: relsWalk ls (k + 1) else relsWalk ls k

def lookupRel (k : Nat) : List (Nat × List Char) → Option (List Char)
  | [] => none
  | (j, t) :: r => if j = k then some t else lookupRel k r

theorem relsWalk_ids_ge (ls : List Link) (k j : Nat) (t : List Char) (h : (j, t) ∈ relsWalk ls k) : k ≤ j := by
  induction ls generalizing k with
  | nil => simp [relsWalk] at h
  | cons l ls ih =>
    simp only [relsWalk] at h
    split at h
    · rcases List.mem_cons.1 h with e | h
      · injection e with e1 _; omega
      · have := ih (k + 1) h; omega
    · exact ih k h

theorem lookupRel_skip (k : Nat) (l : List (Nat × List Char)) (h : ∀ j t, (j, t) ∈ l → k < j) : lookupRel k l = none := by
  induction l with
  | nil => rfl
  | cons p r ih =>
    obtain ⟨j, t⟩ := p
    have hj := h j t (by simp)
    simp only [lookupRel]
    rw [if_neg (by omega)]
    exact ih (fun j' t' hm => h j' t' (List.mem_cons_of_mem _ hm))

/-- When both parts walk the SAME ordered collection (the code after the ordered-map fix), every
    external hyperlink's `r:id` resolves, in the relationships part, to that hyperlink's own target
    — for any number of links, any mixture of external and internal ones, any start id. -/
theorem C02_hyperlink_pairing (ls : List Link) (k0 : Nat) (l : Link) (hl : l ∈ ls) (hext : l.external = true)
    (hnd : (ls.map (·.coord)).Nodup) :
    ∃ k, (l.coord, some k) ∈ sheetWalk ls k0 ∧ lookupRel k (relsWalk ls k0) = some l.target := by
  induction ls generalizing k0 with
  | nil => simp at hl
  | cons x xs ih =>
    simp only [List.map_cons, List.nodup_cons] at hnd
    rcases List.mem_cons.1 hl with e | hl'
    · subst e
      refine ⟨k0, ?_, ?_⟩
      · simp [sheetWalk, hext]
      · simp [relsWalk, hext, lookupRel]
    · by_cases hx : x.external = true
      · obtain ⟨k, h1, h2⟩ := ih (k0 + 1) hl' hnd.2
        refine ⟨k, ?_, ?_⟩
        · simp only [sheetWalk, hx, if_true]; exact List.mem_cons_of_mem _ h1
        · simp only [relsWalk, hx, if_true, lookupRel]
          have hk : k0 + 1 ≤ k := by
            -- k was handed out by the walk that starts at k0 + 1
            cases hlk : lookupRel k (relsWalk xs (k0 + 1)) with
            | none => rw [hlk] at h2; simp at h2
            | some t =>
              have : ∃ t', (k, t') ∈ relsWalk xs (k0 + 1) := by
                clear h2 ih
                generalize relsWalk xs (k0 + 1) = R at hlk
                induction R with
                | nil => simp [lookupRel] at hlk
                | cons p r ihr =>
                  obtain ⟨j, t'⟩ := p
                  simp only [lookupRel] at hlk
                  split at hlk
                  · rename_i e; subst e; exact ⟨t', by simp⟩
                  · obtain ⟨t'', ht''⟩ := ihr hlk; exact ⟨t'', List.mem_cons_of_mem _ ht''⟩
              obtain ⟨t', ht'⟩ := this
              exact relsWalk_ids_ge xs (k0 + 1) k t' ht'
          rw [if_neg (by omega)]; exact h2
      · have hx' : x.external = false := by simpa using hx
        obtain ⟨k, h1, h2⟩ := ih k0 hl' hnd.2
        refine ⟨k, ?_, ?_⟩
        · simp only [sheetWalk, hx', Bool.false_eq_true, if_false]; exact List.mem_cons_of_mem _ h1
        · simp only [relsWalk, hx', Bool.false_eq_true, if_false]; exact h2

/-- The defect that was repaired: when the two parts walk the collection in DIFFERENT orders (two
    separately built hash maps), a link is paired with another cell's target. -/
theorem C02_unordered_pairing_fails :
    let a : Link := ⟨(1, 1), true, ['u', '1']⟩
    let b : Link := ⟨(2, 1), true, ['u', '2']⟩
    (a.coord, some 1) ∈ sheetWalk [a, b] 1 ∧ lookupRel 1 (relsWalk [b, a] 1) = some b.target := by decide

/-! ### non-vacuity -/

example : '\r' ∉ ['a', '&', '<', '"', '\n', 'b'] ∧ Umya.Spec.Xml.textValue (escape ['a', '&', '<', '"', '\n', 'b']) = some ['a', '&', '<', '"', '\n', 'b'] := by decide

example : sheetWalk [⟨(1, 1), true, ['x']⟩, ⟨(1, 2), false, ['y']⟩, ⟨(1, 3), true, ['z']⟩] 1 = [((1, 1), some 1), ((1, 2), none), ((1, 3), some 2)] := by decide

end Umya.Thm.C02
