/-
  C12 — A saved file contains only content of the workbook being saved.

  Model: `Umya/Model/SharedStrings.lean` (the string side of `make_buffer` after the per-save
  table fix).  Workbooks are values; `Clone` is copying a value; a save is a function of the
  workbook value and returns the package's shared-string part and the cell indices.
-/
import Umya.Lemmas.SharedStrings
namespace Umya.Thm.C12
open Umya.Sst

/-- All sheets deserialized: the shared-string part holds exactly the text reachable from the
    workbook at that moment — every reachable string once, nothing else — whatever was overwritten,
    deleted, registered by earlier saves or lives in other workbook objects; `count` is the number
    of text cells. -/
theorem C12_exact (b : BookS) (h : b.hasRaw = false) :
    (save b).table.Nodup ∧ (∀ y, y ∈ (save b).table ↔ y ∈ b.texts) ∧ (save b).count = b.texts.length := by
  obtain ⟨_, hnd, hmem, _, _⟩ := internAll_spec [] b.texts
  have e : (save b).table = (internAll [] b.texts).1 := by simp [save, h]
  refine ⟨by rw [e]; exact hnd (by simp), ?_, by simp [save]⟩
  intro y; rw [e, hmem y]; simp

/-- Every `t="s"` cell shows its own string: the j-th registered text resolves, through the index
    written into its cell, to itself in the written table. -/
theorem C12_resolves (b : BookS) (j : Nat) (x : Text) (hx : b.texts[j]? = some x) :
    let base := if b.hasRaw then b.loaded else []
    ∃ i : Nat, (internAll base b.texts).2[j]? = some i ∧ (save b).table[i]? = some x := by
  intro base
  obtain ⟨_, _, _, _, hres⟩ := internAll_spec base b.texts
  obtain ⟨i, h1, h2⟩ := hres j x hx
  exact ⟨i, h1, by simpa [save, base] using h2⟩

/-- While some sheet is still raw (lazily opened, never deserialized) its verbatim XML indexes the
    loaded table, so that table stays in front — unchanged, as a prefix — and only strings of the
    workbook that are not already in it are appended.  (Stale strings of the *loaded file* may
    therefore remain in this case; this is the clause recorded in DESIGN.md.) -/
theorem C12_raw (b : BookS) (h : b.hasRaw = true) :
    ∃ ext, (save b).table = b.loaded ++ ext ∧ (∀ y ∈ ext, y ∈ b.texts ∧ y ∉ b.loaded) ∧
      (∀ (i : Nat) (x : Text), b.loaded[i]? = some x → (save b).table[i]? = some x) := by
  obtain ⟨⟨ext, he, hn⟩, _⟩ := internAll_spec b.loaded b.texts
  refine ⟨ext, by simp [save, h, he], hn, ?_⟩
  intro i x hi
  simp only [save, h, if_true, he]
  exact getElem?_append_left' hi

/-! ### saving is free of side effects; clones are independent -/

/-- a heap of workbook objects and the operations of the property's histories -/
inductive HOp where
  | put (w : Nat) (b : BookS)          -- any edit: the object now has this value
  | clone (w w2 : Nat)                 -- `obj[w2] = obj[w].clone()`
  | save (w : Nat)
  deriving Repr

def setAt {α} (l : List α) (i : Nat) (x : α) : List α := if i < l.length then l.set i x else l ++ [x]

def stepH (heap : List BookS) : HOp → List BookS × Option Saved
  | .put w b => (setAt heap w b, none)
  | .clone w w2 => (match heap[w]? with | some b => setAt heap w2 b | none => heap, none)
  | .save w => (heap, (heap[w]?).map save)

def runH (heap : List BookS) : List HOp → List BookS × List Saved
  | [] => (heap, [])
  | op :: ops =>
    let (h1, o) := stepH heap op
    let (h2, os) := runH h1 ops
    (h2, match o with | some s => s :: os | none => os)

/-- A save changes no workbook object, and saving twice in a row gives the same content. -/
theorem C12_pure (heap : List BookS) (w : Nat) :
    (stepH heap (.save w)).1 = heap ∧
    (stepH (stepH heap (.save w)).1 (.save w)).2 = (stepH heap (.save w)).2 := by
  simp [stepH]

/-- What a save of object `w` writes depends only on the value of `w` at that moment: any history
    that leaves `w` with the same value — whatever it does to clones and other objects, whatever
    was saved before — yields the same file content. -/
theorem C12_depends_only_on_value (heap heap' : List BookS) (w : Nat) (h : heap[w]? = heap'[w]?) :
    (stepH heap (.save w)).2 = (stepH heap' (.save w)).2 := by
  simp [stepH, h]

/-- The defect that was repaired: with ONE table kept across saves (the behaviour before the fix)
    a string that was overwritten before the second save is still written. -/
theorem C12_persistent_table_fails :
    let t1 := (internAll [] [['o', 'l', 'd']]).1           -- first save registers "old"
    let t2 := (internAll t1 [['n', 'e', 'w']]).1           -- cell overwritten, second save on the same table
    ['o', 'l', 'd'] ∈ t2 ∧ ['o', 'l', 'd'] ∉ (save { sheets := [.cells [['n', 'e', 'w']]] }).table := by
  decide

/-! ### non-vacuity -/

example : (save { sheets := [.cells [['a'], ['b'], ['a']], .cells [['c'], ['b']]] }).table = [['a'], ['b'], ['c']] ∧
    (save { sheets := [.cells [['a'], ['b'], ['a']], .cells [['c'], ['b']]] }).sheetIdx = [[0, 1, 0], [2, 1]] ∧
    (BookS.hasRaw { sheets := [.cells [['a'], ['b'], ['a']], .cells [['c'], ['b']]] }) = false := by decide

example : (save { sheets := [.raw [1, 0], .cells [['z'], ['y']]], loaded := [['x'], ['y']] }).table = [['x'], ['y'], ['z']] ∧
    (save { sheets := [.raw [1, 0], .cells [['z'], ['y']]], loaded := [['x'], ['y']] }).sheetIdx = [[1, 0], [2, 1]] := by decide

end Umya.Thm.C12
