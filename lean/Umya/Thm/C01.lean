/-
  C01 — Cell content survives save and reload.

  Model (of the code AS FIXED by fix_1 … fix_6; fix 5: a rich text cached under a formula is a shared-string
  item; fix 6: an unresolved lazy value is written as the typed value it stands for): `Umya/Model/Xml.lean` (quick-xml escaping, unescaping,
  text events and trimming), `Umya/Model/Num.lean` (numbers as opaque tokens), `Umya/Model/CellXml.lean`
  (typed values, `Cell::write_to`, `Cell::set_attributes`, the shared-string part, the package as facts),
  `Umya/Model/InternC01.lean` (find-or-append), and the row loop of C10 (`Umya/Model/Sheet.lean`).
  Helper lemmas: `Umya/Lemmas/{Xml,InternC01,CellXml,CellRoundTrip,BookRoundTrip}.lean`.

  Characters: text is `List Char`, i.e. ANY sequence of Unicode scalar values — including `& < > " '`,
  CR, LF, TAB, every other C0 control (U+0000 too), U+00A0, U+2028, U+FFFE/U+FFFF and non-BMP code
  points.  No theorem below restricts the characters of value text, run text or formula text.
  (Whether such a file is well-formed XML for OTHER readers is C02's business, not C01's.)

  Numbers: the theorems hold for every `NumFmt` that satisfies `NumFmt.Sound` (print-then-parse is the
  identity; printed numbers are non-empty over `-0123456789.eE+infNa`).  That Rust's `f64` `Display` /
  `FromStr` satisfy this is trusted and sampled by the harness; it is not proved here.

  XML is handled as lexed facts (element, attributes, raw text content): the tag syntax produced by
  quick-xml's `Writer` and consumed by its `Reader` is not modelled at character level.
-/
import Umya.Lemmas.BookRoundTrip
import Umya.Thm.C10
import Umya.Lemmas.TablesGen
namespace Umya.Thm.C01
open Umya.Xml Umya.Num Umya.CellXml Umya.Sheet Umya.Dec

/-! ### escaping -/

/-- `unescape(escape(s)) = Ok(s)` for every text (`write_text_node` then `BytesText::unescape`) -/
theorem C01_unescape_escape (s : List Char) : unescape (escape s) = some s := unescape_escape s

/-- `unescape(partial_escape(s)) = Ok(s)` for every text (`write_text_node_conversion`) -/
theorem C01_unescape_partial_escape (s : List Char) : unescape (partialEscape s) = some s :=
  unescape_partialEscape s

/-- the reader's `unescape_text` (line-end normalisation of XML 1.0 2.11, then `unescape`) undoes
    both writers for every text: the writers emit no literal carriage return -/
theorem C01_unescape_text_escape (s : List Char) :
    unescapeText (escape s) = some s ∧ unescapeText (partialEscape s) = some s :=
  ⟨unescapeText_escape s, unescapeText_partialEscape s⟩

/-- Text written to a `<t>` of the shared-string part (any text: padded, blank-only, empty, with line
    breaks) is read back character for character by the shared-string reader (`trim_text(false)`);
    so are the text of a `t="str"` cell and formula text by the sheet reader after fix 3 / fix 4. -/
theorem C01_text_nodes (s : List Char) :
    readTX (writeText s) = some s ∧ readText false (partialEscape s) = some s :=
  ⟨readTX_writeText s, readText_false_partialEscape s⟩

/-- Why fix 3 / fix 4 were needed: read under `trim_text(true)` (the sheet reader's default), padded text
    loses its padding. -/
theorem C01_trimmed_read_fails : ¬ (readText true (partialEscape [' ', 'x', ' ']) = some [' ', 'x', ' ']) := by
  decide

/-! ### one cell -/

/-- For every cell of every kind — blank, text, rich text (≥ 1 run), number, boolean, error, or a value stored
    with `set_value_lazy` and never resolved —, with or without a formula (any formula text; also over a rich
    text), styled or not, anywhere in the 16384 × 1048576 grid, and for every state of the string table: a cell
    that is blank and unstyled (once its value is resolved) is not written and changes nothing; any other cell is
    written as exactly one `<c>` (the table only grows, by well-formed items), and the reader turns that `<c>`
    back into the SAME cell — coordinate, kind, value (text / runs / number token / boolean / error code),
    formula text, styled flag — against any string table that extends the writer's (i.e. whatever later cells
    register).  "The same cell" is `Cell.resolved F c`: `c` itself unless its value is lazy (`C01_resolved`), and
    for a lazy value the cell holding what `get_value_lazy` would make of the text, formula kept.
    `cellOK` excludes exactly: a rich text with zero runs (see `C01_rich_no_runs_fails`). -/
theorem C01_cell_roundtrip (F : NumFmt) (hF : F.Sound) (tbl : Table) (c : Cell F.Num) (hc : cellOK F c = true) :
    ∃ tbl' ox, writeTo F tbl c = some (tbl', ox) ∧
      (∃ ext, tbl' = tbl ++ ext ∧ ∀ it ∈ ext, ItemOK it) ∧
      (blankUnstyled F c = true → ox = none) ∧
      (blankUnstyled F c = false → ∃ x, ox = some x ∧
        ∀ sst : Table, sst.length < 18446744073709551616 → Extends sst tbl' →
          readCell F sst x = some (Cell.resolved F c)) :=
  writeTo_readCell F hF tbl c hc

/-- What `Cell.resolved` is: the cell itself unless its value is an unresolved lazy one; then the same cell
    (coordinate, formula, style) holding `guess_typed_data` of the text — the conversion `get_value_lazy` performs:
    "" → blank, TRUE / FALSE (any case) → boolean, an error code (any case) → error, a text `f64::from_str`
    accepts → number, anything else → that text. -/
theorem C01_resolved (F : NumFmt) (c : Cell F.Num) :
    ((∀ s, c.raw ≠ .lazy s) → Cell.resolved F c = c) ∧
    (∀ s, c.raw = .lazy s → Cell.resolved F c = { c with raw := guess F s }) ∧
    (∀ s, guess F s = .empty ∨ (∃ b, guess F s = .bool b) ∨ (∃ e, guess F s = .err e) ∨ (∃ n, guess F s = .num n) ∨
      guess F s = .str s) := by
  refine ⟨fun h => resolved_of_not_lazy F ?_, fun s h => by simp [Cell.resolved, h, resolveRaw], guess_cases F⟩
  cases hr : c.raw <;> first | rfl | exact absurd hr (h _)

/-- The index a text / rich-text cell is written with resolves to its own item in the table as written
    (the interning lemma: find-or-append returns an index that holds the item), and that item reads back
    as itself from the shared-string part. -/
theorem C01_index_resolves (tbl : Table) (it : Item) (h : ItemOK it) :
    (Umya.InternC01.intern tbl it).1[(Umya.InternC01.intern tbl it).2]? = some it ∧ readSi (siOf it) = some it :=
  ⟨(Umya.InternC01.intern_spec tbl it).2, readSi_siOf it h⟩

/-! ### the whole package, both writers -/

/-- Saving and reloading a workbook (any number of sheets; per sheet the cells in the order the row loop
    emits them) gives back every sheet with exactly its non-blank-or-styled cells, each equal to the
    stored one (a lazy value as the typed value it stands for: `normalize`, `C01_normalize`), in the same order.  `light` is the writer flavour (`write_writer` / `write_writer_light`):
    the two differ only in the zip compression method, which no part of the cell codec sees, so the
    statement holds for both by construction.  The side condition bounds the number of distinct strings
    by the range of `usize` (the reader parses the index with `parse::<usize>()`). -/
theorem C01_roundtrip (F : NumFmt) (hF : F.Sound) (light : Bool) (sheets : List (List (Cell F.Num)))
    (h : ∀ s ∈ sheets, ∀ c ∈ s, cellOK F c = true) :
    ∃ b, writeBook F light sheets = some b ∧
      (b.sst.length < 18446744073709551616 → readBook F b = some (normalize F sheets)) :=
  writeBook_readBook F hF light sheets h

/-- The writer flavour is irrelevant to the content. -/
theorem C01_light_same (F : NumFmt) (sheets : List (List (Cell F.Num))) :
    writeBook F true sheets = writeBook F false sheets := rfl

/-- What "non-blank" means: `normalize` drops exactly the cells whose (resolved) value is empty, that have no
    formula and whose style is empty (`Cell::write_to`'s early return), keeps every other cell in order, unchanged
    except that a lazy value is replaced by the typed value it stands for (`C01_resolved`). -/
theorem C01_normalize (F : NumFmt) (sheets : List (List (Cell F.Num))) :
    (normalize F sheets).length = sheets.length ∧
    (∀ (i : Nat) (s : List (Cell F.Num)), sheets[i]? = some s →
      ∃ kept : List (Cell F.Num), kept.Sublist s ∧
        (∀ c, c ∈ kept ↔ (c ∈ s ∧ ¬ (resolveRaw F c.raw = .empty ∧ c.formula = none ∧ c.styled = false))) ∧
        (normalize F sheets)[i]? = some (kept.map (Cell.resolved F))) := by
  refine ⟨by simp [normalize], ?_⟩
  intro i s hi
  refine ⟨s.filter (fun c => !blankUnstyled F c), List.filter_sublist, ?_, by simp [normalize, hi]⟩
  intro c
  have hbu : blankUnstyled F c = ((resolveRaw F c.raw).isEmpty && c.formula.isNone && !c.styled) := rfl
  simp only [List.mem_filter, hbu, Bool.not_eq_true', Bool.and_eq_false_imp, Bool.and_eq_true,
    Bool.not_eq_eq_eq_not, Bool.not_true]
  constructor
  · rintro ⟨hc, hk⟩
    refine ⟨hc, ?_⟩
    rintro ⟨h1, h2, h3⟩
    have := hk ⟨by rw [h1]; rfl, by rw [h2]; rfl⟩
    simp [h3] at this
  · rintro ⟨hc, hk⟩
    refine ⟨hc, ?_⟩
    rintro ⟨h1, h2⟩
    cases hst : c.styled with
    | true => rfl
    | false =>
      exfalso; apply hk
      refine ⟨?_, by simpa using h2, hst⟩
      cases hr : resolveRaw F c.raw <;> simp [hr, RawValue.isEmpty] at h1 ⊢

/-! ### one sheet, from the cell store to the reloaded cells (uses C10) -/

/-- the cells of a C10 sheet as the cell writer sees them; `body` interprets C10's opaque content
    token (value and optional formula), `sty ≠ 0` is "style not empty" -/
def cellsOf (F : NumFmt) (body : Nat → RawValue F.Num × Option (List Char)) (l : List CellM) : List (Cell F.Num) :=
  l.map (fun m => { col := m.col, row := m.row, raw := (body m.val).1, formula := (body m.val).2,
                    styled := decide (m.sty ≠ 0) })

/-- In any coherent sheet state (C10: every state reachable through the public API) whose cells lie in
    the grid and hold covered values: the writer's row loop hands every stored cell to `Cell::write_to`
    exactly once, in strictly ascending (row, column) order (`C10_saved`); the package written from them
    reads back as exactly the cells that are not blank-and-unstyled, each equal to the stored cell and
    therefore at its own coordinate; those coordinates are strictly ascending, so no reloaded cell
    overwrites another in the reader's coordinate-keyed store.  `hval`: no rich text with zero runs. -/
theorem C01_sheet_roundtrip (F : NumFmt) (hF : F.Sound) (light : Bool) (s : Sheet) (hs : Coherent s)
    (body : Nat → RawValue F.Num × Option (List Char))
    (hgrid : ∀ k ∈ keysOf s, 1 ≤ k.2 ∧ k.2 ≤ 16384 ∧ 1 ≤ k.1 ∧ k.1 ≤ 1048576)
    (hval : ∀ m ∈ sortedCells s, rawOK F (body m.val).1 = true) :
    cellsOf F body (emitted s) = cellsOf F body (sortedCells s) ∧
    (cellsOf F body (emitted s)).map (fun c => (c.row, c.col)) = s.rowIdx ∧
    SSorted s.rowIdx ∧
    ∃ b, writeBook F light [cellsOf F body (emitted s)] = some b ∧
      (b.sst.length < 18446744073709551616 →
        readBook F b = some [((cellsOf F body (emitted s)).filter (keep F)).map (Cell.resolved F)] ∧
        ((((cellsOf F body (emitted s)).filter (keep F)).map (Cell.resolved F)).map (fun c => (c.row, c.col))).Sublist s.rowIdx) := by
  obtain ⟨e1, e2, _⟩ := Umya.Thm.C10.C10_saved s hs
  have hkeys : (cellsOf F body (emitted s)).map (fun c => (c.row, c.col)) = s.rowIdx := by
    rw [e1, ← e2]; simp [cellsOf, List.map_map, Function.comp_def]
  have hok : ∀ sh ∈ [cellsOf F body (emitted s)], ∀ c ∈ sh, cellOK F c = true := by
    intro sh hsh c hc
    simp only [List.mem_singleton] at hsh
    subst hsh
    simp only [cellsOf, List.mem_map] at hc
    obtain ⟨m, hm, rfl⟩ := hc
    rw [e1] at hm
    have hk : (m.row, m.col) ∈ keysOf s := by
      rw [← hs.rmem, ← e2]; exact List.mem_map.2 ⟨m, hm, rfl⟩
    have hg := hgrid _ hk
    simp only [cellOK, Bool.and_eq_true, decide_eq_true_eq]
    exact ⟨⟨hg.1, hg.2.1, hg.2.2.1, hg.2.2.2⟩, hval m hm⟩
  obtain ⟨b, hb, hr⟩ := C01_roundtrip F hF light [cellsOf F body (emitted s)] hok
  refine ⟨by rw [e1], hkeys, hs.rsorted, b, hb, fun hlen => ⟨?_, ?_⟩⟩
  · have h2 := hr hlen
    simp only [normalize, List.map_cons, List.map_nil] at h2
    exact h2
  · rw [← hkeys, List.map_map]
    exact List.Sublist.map _ List.filter_sublist

/-! ### what does not survive (known findings; the harness replays these witnesses) -/

/-- a concrete sound number format (naturals in decimal) for the witnesses and non-vacuity examples -/
def natFmt : NumFmt where
  Num := Nat
  fmt := decDigits
  parse := fun s => if s ≠ [] ∧ s.all isDigit = true then some (parseDec s) else none
  deq := inferInstance

instance : DecidableEq natFmt.Num := inferInstanceAs (DecidableEq Nat)

theorem numChar_digitChar (d : Nat) : numChar (digitChar d) = true := by
  unfold digitChar
  split <;> decide

theorem decDigits_numChar (n : Nat) : ∀ c ∈ decDigits n, numChar c = true := by
  induction n using Nat.strongRecOn with
  | _ n ih =>
    rw [decDigits]
    split
    · intro c hc; simp at hc; subst hc; exact numChar_digitChar n
    · intro c hc
      rcases List.mem_append.1 hc with h | h
      · exact ih (n / 10) (by omega) c h
      · simp at h; subst h; exact numChar_digitChar _

theorem natFmt_parse_fmt (n : Nat) : natFmt.parse (natFmt.fmt n) = some n := by
  have h1 : decDigits n ≠ [] := decDigits_ne_nil n
  have h2 : (decDigits n).all isDigit = true := decDigits_all_digit n
  show (if decDigits n ≠ [] ∧ (decDigits n).all isDigit = true then some (parseDec (decDigits n)) else none) = some n
  rw [if_pos ⟨h1, h2⟩, parseDec_decDigits]

theorem natFmt_sound : natFmt.Sound where
  parse_fmt := natFmt_parse_fmt
  fmt_ne := fun n => decDigits_ne_nil n
  fmt_chars := fun n => decDigits_numChar n

/-- Repaired (fix 6; was the witness `C01_lazy_fails`): a value stored with `set_value_lazy` and never resolved
    is written as the typed value it stands for — lazy "a" as the text "a" — and reads back as it, from any table
    that extends the writer's. -/
theorem C01_lazy_repaired :
    ∃ tbl' x, writeTo natFmt [] { col := 1, row := 1, raw := .lazy ['a'] } = some (tbl', some x) ∧
      ∀ sst : Table, sst.length < 18446744073709551616 → Extends sst tbl' →
        readCell natFmt sst x = some { col := 1, row := 1, raw := .str ['a'] } := by
  obtain ⟨tbl', ox, hw, _, _, hk⟩ :=
    C01_cell_roundtrip natFmt natFmt_sound [] { col := 1, row := 1, raw := .lazy ['a'] } (by decide)
  obtain ⟨x, rfl, hr⟩ := hk (by decide)
  exact ⟨tbl', x, hw, hr⟩

/-- Repaired (fix 5; was the witness `C01_rich_under_formula_fails`): a rich text cached under a formula is
    written with the data type `s` (a shared-string item next to the `<f>`), and reads back as the same runs under
    the same formula. -/
theorem C01_rich_under_formula_repaired :
    tAttrOf (dataTypeOf natFmt (.rich [{ text := ['a'] }, { text := ['b'], font := some 1 }]) (some ['A', '1'])) = tS ∧
    ∃ tbl' x, writeTo natFmt [] { col := 1, row := 1, raw := .rich [{ text := ['a'] }, { text := ['b'], font := some 1 }], formula := some ['A', '1'] }
        = some (tbl', some x) ∧
      ∀ sst : Table, sst.length < 18446744073709551616 → Extends sst tbl' →
        readCell natFmt sst x
          = some { col := 1, row := 1, raw := .rich [{ text := ['a'] }, { text := ['b'], font := some 1 }], formula := some ['A', '1'] } := by
  refine ⟨by decide, ?_⟩
  obtain ⟨tbl', ox, hw, _, _, hk⟩ :=
    C01_cell_roundtrip natFmt natFmt_sound []
      { col := 1, row := 1, raw := .rich [{ text := ['a'] }, { text := ['b'], font := some 1 }], formula := some ['A', '1'] } (by decide)
  obtain ⟨x, rfl, hr⟩ := hk (by decide)
  exact ⟨tbl', x, hw, hr⟩

/-- A rich text with zero runs is written as an `<si>` without `<t>` and without `<r>`; read back, that
    item has neither text nor runs, and such an item leaves the cell's value empty: the cell reloads blank. -/
theorem C01_rich_no_runs_fails :
    siOf (itemOf natFmt (.rich [])) = { t := none, runs := [] } ∧
    readSi { t := none, runs := [] } = some { text := none, rich := none } ∧
    setSharedStringItem natFmt { text := none, rich := none } .empty none = (.empty, none) := by
  decide

/-! ### non-vacuity -/

/-- the hypotheses of `C01_roundtrip` are satisfiable: a two-sheet workbook with every kind -/
def demo : List (List (Cell natFmt.Num)) :=
  [[{ col := 1, row := 1, raw := .str [' ', '&', '<', '\r', '\n', ' '] },
    { col := 16384, row := 1, raw := .num (42 : Nat), formula := some [' ', 'A', '1', '<', 'B', '1', ' '] },
    { col := 2, row := 2 },
    { col := 3, row := 2, styled := true },
    { col := 1, row := 1048576, raw := .err .na }],
   [{ col := 1, row := 1, raw := .rich [{ text := [' ', 'a'], font := some 1 }, { text := [] }] },
    { col := 2, row := 1, raw := .bool true, formula := some [] },
    { col := 3, row := 1, raw := .str [' ', '&', '<', '\r', '\n', ' '] },
    { col := 4, row := 1, raw := .str [' ', 'x', ' '], formula := some ['A', '1'] },
    -- newly covered (fix 5): a formula with a two-run rich cached value
    { col := 5, row := 1, raw := .rich [{ text := ['x', ' '] }, { text := ['y'], font := some 2 }], formula := some ['B', '1', '&', 'C', '1'] },
    -- newly covered (fix 6): lazy "123", "TRUE", "abc", "" — without and with a formula
    { col := 6, row := 1, raw := .lazy ['1', '2', '3'] },
    { col := 7, row := 1, raw := .lazy ['T', 'R', 'U', 'E'] },
    { col := 8, row := 1, raw := .lazy ['a', 'b', 'c'] },
    { col := 9, row := 1, raw := .lazy [] },
    { col := 10, row := 1, raw := .lazy ['1', '2', '3'], formula := some ['A', '1'] },
    { col := 11, row := 1, raw := .lazy ['t', 'r', 'u', 'e'], formula := some ['A', '1'] },
    { col := 12, row := 1, raw := .lazy ['a', 'b', 'c'], formula := some ['A', '1'] }]]

example : ∀ s ∈ demo, ∀ c ∈ s, cellOK natFmt c = true := by decide

example : ∃ b, writeBook natFmt true demo = some b ∧
    (b.sst.length < 18446744073709551616 → readBook natFmt b = some (normalize natFmt demo)) :=
  C01_roundtrip natFmt natFmt_sound true demo (by decide)

example : (normalize natFmt demo).map List.length = [4, 11] := by decide

/-- what the newly covered cells reload as: the two runs under the formula; 123 as a number, TRUE as a boolean,
    "abc" as text, lazy "" not at all; the same under a formula, formula kept -/
example : ((normalize natFmt demo)[1]?.map (fun s => (s.drop 4).map (fun c => (c.col, c.raw, c.formula)))) = some
    [(5, .rich [{ text := ['x', ' '] }, { text := ['y'], font := some 2 }], some ['B', '1', '&', 'C', '1']),
     (6, .num (123 : Nat), none), (7, .bool true, none), (8, .str ['a', 'b', 'c'], none),
     (10, .num (123 : Nat), some ['A', '1']), (11, .bool true, some ['A', '1']), (12, .str ['a', 'b', 'c'], some ['A', '1'])] := by
  decide

/-- `C01_cell_roundtrip` on the newly covered inputs: the hypotheses hold, the cells are written, and `Cell.resolved`
    is the typed cell -/
example : cellOK natFmt { col := 5, row := 1, raw := .rich [{ text := ['x'] }, { text := ['y'], font := some 2 }], formula := some ['B', '1'] } = true ∧
    cellOK natFmt { col := 6, row := 1, raw := .lazy ['1', '2', '3'] } = true ∧
    blankUnstyled natFmt { col := 6, row := 1, raw := .lazy ['1', '2', '3'] } = false ∧
    Cell.resolved natFmt { col := 6, row := 1, raw := .lazy ['1', '2', '3'] } = { col := 6, row := 1, raw := .num (123 : Nat) } ∧
    Cell.resolved natFmt { col := 7, row := 1, raw := .lazy ['T', 'R', 'U', 'E'] } = { col := 7, row := 1, raw := .bool true } ∧
    Cell.resolved natFmt { col := 8, row := 1, raw := .lazy ['a', 'b', 'c'] } = { col := 8, row := 1, raw := .str ['a', 'b', 'c'] } ∧
    Cell.resolved natFmt { col := 12, row := 1, raw := .lazy ['a', 'b', 'c'], formula := some ['A', '1'] }
      = { col := 12, row := 1, raw := .str ['a', 'b', 'c'], formula := some ['A', '1'] } ∧
    blankUnstyled natFmt { col := 9, row := 1, raw := .lazy [] } = true := by
  decide

/-- `C01_cell_roundtrip`: a padded text cell under a formula at XFD1048576 -/
example : cellOK natFmt { col := 16384, row := 1048576, raw := .str [' ', 'x', ' '], formula := some ['A', '1', ' '] } = true := by
  decide

/-- `C01_sheet_roundtrip`: a coherent sheet reached through the API (C10), in the grid -/
example : ∃ s', run {} [.setVal 2 3 7, .setCell 5 1 4 2, .getMut 1 1] = .ok s' ∧ Coherent s' ∧
    (∀ k ∈ keysOf s', 1 ≤ k.2 ∧ k.2 ≤ 16384 ∧ 1 ≤ k.1 ∧ k.1 ≤ 1048576) := by
  refine ⟨_, rfl, Umya.Thm.C10.C10_reachable [.setVal 2 3 7, .setCell 5 1 4 2, .getMut 1 1] _ rfl, by decide⟩


/-- **Tie to the source (T).**  Regenerated from the source on this run and proved equal to the model:
    the text pipelines of writer/driver.rs (`write_text_node` = quick-xml `escape` then `\r` ↦ `&#13;`,
    `write_text_node_conversion` = `partial_escape` then the same), the line-end normalisation of
    `reader/driver.rs::unescape_text`, and the `CellErrorType` text tables (Display and FromStr inverse). -/
theorem C01_channels_match_source (s : List Char) :
    Umya.Gen.write_text_node_escape.run Umya.XmlEsc.escapeOld Umya.XmlEsc.partialEscapeOld s = escape s ∧
    Umya.Gen.write_text_node_conversion_escape.run Umya.XmlEsc.escapeOld Umya.XmlEsc.partialEscapeOld s = partialEscape s ∧
    Umya.Gen.applySteps Umya.Gen.unescape_text_normalise s = normEol s ∧
    Umya.Gen.cell_error_from_str = Umya.Gen.cell_error_display.map (fun p => (p.2, p.1)) ∧
    Umya.Gen.cell_error_display.map (fun p => p.2.toList) = Umya.CellXml.ErrT.all.map Umya.CellXml.ErrT.text := by
  refine ⟨?_, ?_, Umya.Gen.gen_unescape_text s, Umya.Gen.gen_cell_errors.1, Umya.Gen.gen_cell_errors.2.1⟩
  · rw [(Umya.Gen.xml_escape_eq s).1]; exact Umya.Gen.gen_write_text_node s
  · rw [(Umya.Gen.xml_escape_eq s).2]; exact Umya.Gen.gen_write_text_node_conversion s

end Umya.Thm.C01
