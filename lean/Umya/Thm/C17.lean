/-
  C17 — Coordinate, column, range and address codecs are exact inverses grid-wide.

  Property theorems only; helper lemmas are in `Umya/Lemmas/Coord.lean`.
  Every theorem in namespace `Umya.Thm.C17` is audited for its axioms on every run.
-/
import Umya.Lemmas.Coord
namespace Umya.Thm.C17
open Umya.Coord Umya.Dec

/-- Column index → letters → index is the identity for **every** column `n ≥ 1`
    (positional value of the letters, no length bound). -/
theorem C17_alpha_index (n : Nat) (h : 1 ≤ n) : alphaToIndexGen (indexToAlpha n) = n :=
  alphaVal_indexToAlpha n h

/-- The implementation's 3-letter table parser inverts the printer on its whole domain
    (1 … 18278 = ZZZ), in particular on 1 … 16384, and does not panic there. -/
theorem C17_alpha_index3 (n : Nat) (h : 1 ≤ n ∧ n ≤ 18278) :
    columnIndexFromString (indexToAlpha n) = .ok n := by
  obtain ⟨c, r, hcr, hc⟩ := indexToAlpha_head n
  have hne : indexToAlpha n ≠ ['0'] := by
    intro h0; rw [hcr] at h0
    have : c = '0' := by injection h0
    subst this; simp [isUpperAZ] at hc
  unfold columnIndexFromString
  rw [if_neg hne, alphaToIndex_upper _ (indexToAlpha_upper n)]
  · simp only [indexToAlpha, List.reverse_reverse, valRev_alphaRev]
    congr 1; omega
  · simp only [indexToAlpha, List.length_reverse]
    exact alphaRev_length_le3 _ (by omega)

/-- Letters → index → letters is the identity for every 1–3 letter upper-case name. -/
theorem C17_index_alpha (s : List Char) (hu : s.all isUpperAZ = true)
    (hl : 1 ≤ s.length ∧ s.length ≤ 3) :
    ∃ n, columnIndexFromString s = .ok n ∧ 1 ≤ n ∧ indexToAlpha n = s := by
  have up : ∀ c, isUpperAZ c = true → 65 ≤ c.toNat ∧ c.toNat ≤ 90 := fun c h => (isUpperAZ_iff c).1 h
  have hne : s ≠ ['0'] := by
    intro h0; subst h0; simp [isUpperAZ] at hu
  refine ⟨valRev s.reverse, ?_, ?_, ?_⟩
  · unfold columnIndexFromString
    rw [if_neg hne, alphaToIndex_upper s hu hl.2]
  · exact valRev_pos _ (by intro h; rw [List.reverse_eq_nil_iff] at h; subst h; simp at hl)
  · simp only [indexToAlpha]
    have hne' : s.reverse ≠ [] := by
      intro h; rw [List.reverse_eq_nil_iff] at h; subst h; simp at hl
    rw [alphaRev_valRev s.reverse (by simpa [List.all_reverse] using hu) hne', List.reverse_reverse]

/-! ### letters are the bijective base-26 numerals, in order -/

/-- successor on little-endian bijective base-26 numerals (independent of `alphaRev`) -/
def succRev : List Char → List Char
  | [] => ['A']
  | c :: r => if c = 'Z' then 'A' :: succRev r else Char.ofNat (c.toNat + 1) :: r

/-- successor on the printed (big-endian) numeral -/
def succ26 (s : List Char) : List Char := (succRev s.reverse).reverse

theorem alphaRev_succ (v : Nat) : alphaRev (v + 1) = succRev (alphaRev v) := by
  induction v using Nat.strongRecOn with
  | _ v ih =>
    have hZ : ∀ d, d % 26 = 25 → letter d = 'Z' := by
      intro d hd; apply Char.toNat_inj.1; rw [letter_toNat, hd]; rfl
    have hA : ∀ d, d % 26 = 0 → letter d = 'A' := by
      intro d hd; apply Char.toNat_inj.1; rw [letter_toNat, hd]; rfl
    have hnext : ∀ d, d % 26 < 25 → letter (d + 1) = Char.ofNat ((letter d).toNat + 1) ∧ letter d ≠ 'Z' := by
      intro d hd
      have key : ∀ k : Fin 25, Char.ofNat (65 + (k.val + 1)) = Char.ofNat ((Char.ofNat (65 + k.val)).toNat + 1)
          ∧ Char.ofNat (65 + k.val) ≠ 'Z' := by decide
      have h1 : (d + 1) % 26 = d % 26 + 1 := by omega
      have := key ⟨d % 26, hd⟩
      simp only [letter, h1]
      exact this
    by_cases h25 : v % 26 = 25
    · by_cases hq : v / 26 = 0
      · -- v = 25
        have hv : v = 25 := by omega
        subst hv
        rw [alphaRev, if_neg (by decide), alphaRev, if_pos (by decide), alphaRev, if_pos (by decide)]
        simp [succRev, hZ 25 (by decide), hA 26 (by decide), hA 0 (by decide)]
      · rw [alphaRev, if_neg (by omega)]
        conv => rhs; rw [alphaRev, if_neg hq]
        have e : (v + 1) / 26 - 1 = (v / 26 - 1) + 1 := by omega
        rw [e, ih (v / 26 - 1) (by omega)]
        simp [succRev, hZ v h25, hA (v + 1) (by omega)]
    · have hlt : v % 26 < 25 := by have := Nat.mod_lt v (by decide : 26 > 0); omega
      have hq : (v + 1) / 26 = v / 26 := by omega
      obtain ⟨hn, hz⟩ := hnext v hlt
      rw [alphaRev]
      conv => rhs; rw [alphaRev]
      rw [hq]
      split <;> simp [succRev, hz, hn]

/-- `A` is column 1 and column `n+1` is the successor numeral of column `n`. -/
theorem C17_bijective_numeral (n : Nat) (h : 1 ≤ n) :
    indexToAlpha 1 = ['A'] ∧ indexToAlpha (n + 1) = succ26 (indexToAlpha n) := by
  constructor
  · have hA : letter 0 = 'A' := by apply Char.toNat_inj.1; rw [letter_toNat]; rfl
    simp [indexToAlpha, alphaRev, hA]
  · simp only [indexToAlpha, succ26, List.reverse_reverse]
    have : n + 1 - 1 = (n - 1) + 1 := by omega
    rw [this, alphaRev_succ]

/-! ### coordinates with locks -/

/-- General form: printing an optional column reference followed by an optional row reference
    and re-parsing with `index_from_coordinate` gives back both, with their lock flags. -/
theorem indexFromCoordinate_print (c r : Option Ref)
    (hc : ∀ x, c = some x → 1 ≤ x.num ∧ x.num ≤ 18278)
    (hr : ∀ x, r = some x → x.num < 4294967296) :
    indexFromCoordinate (optText colRefText c ++ optText rowRefText r)
      = (c.map (·.num), r.map (·.num), c.map (·.lock), r.map (·.lock)) := by
  cases c with
  | none =>
    cases r with
    | none => simp [optText, indexFromCoordinate, matchColGroup_nil, matchRowGroup_nil]
    | some x =>
      have hx := hr x rfl
      simp [optText, indexFromCoordinate, matchColGroup_rowText, matchRowGroup_rowText x hx,
        parseU32_decDigits x.num hx]
  | some y =>
    have hy := hc y rfl
    cases r with
    | none =>
      have := matchColGroup_colText y [] hy (Or.inl rfl)
      simp only [List.append_nil] at this
      simp [optText, indexFromCoordinate, this, matchRowGroup_nil, alphaVal_indexToAlpha y.num hy.1]
    | some x =>
      have hx := hr x rfl
      have := matchColGroup_colText y (rowRefText x) hy (Or.inr (rowRefText_head x))
      simp [optText, indexFromCoordinate, this, matchRowGroup_rowText x hx,
        parseU32_decDigits x.num hx, alphaVal_indexToAlpha y.num hy.1]

/-- A cell coordinate with any combination of `$` locks prints and re-parses to the same column,
    row and lock flags — every column the parser can represent and every `u32` row, hence
    every cell of the 16384 × 1048576 grid. -/
theorem C17_coord (c r : Nat) (lc lr : Bool) (hc : 1 ≤ c ∧ c ≤ 18278) (hr : r < 4294967296) :
    coordinateFromIndexWithLock? c r lc lr = some (coordinateFromIndexWithLock c r lc lr) ∧
    indexFromCoordinate (coordinateFromIndexWithLock c r lc lr) = (some c, some r, some lc, some lr) := by
  constructor
  · simp [coordinateFromIndexWithLock?, coordinateFromIndexWithLock, hc.1]
  · have := indexFromCoordinate_print (some ⟨c, lc⟩) (some ⟨r, lr⟩)
      (by intro x hx; injection hx with hx; subst hx; exact hc)
      (by intro x hx; injection hx with hx; subst hx; exact hr)
    simpa [optText, colRefText, rowRefText, coordinateFromIndexWithLock, List.append_assoc] using this

/-! ### ranges -/

/-- The four printable shapes of the property: a cell, cell:cell, whole rows, whole columns. -/
def Range.IsShape (ρ : Range) : Prop :=
  (ρ.startCol.isSome ∧ ρ.startRow.isSome ∧ ρ.endCol.isNone ∧ ρ.endRow.isNone) ∨
  (ρ.startCol.isSome ∧ ρ.startRow.isSome ∧ ρ.endCol.isSome ∧ ρ.endRow.isSome) ∨
  (ρ.startCol.isNone ∧ ρ.startRow.isSome ∧ ρ.endCol.isNone ∧ ρ.endRow.isSome) ∨
  (ρ.startCol.isSome ∧ ρ.startRow.isNone ∧ ρ.endCol.isSome ∧ ρ.endRow.isNone)

def Range.InBounds (ρ : Range) : Prop :=
  (∀ x, ρ.startCol = some x → 1 ≤ x.num ∧ x.num ≤ 18278) ∧
  (∀ x, ρ.endCol = some x → 1 ≤ x.num ∧ x.num ≤ 18278) ∧
  (∀ x, ρ.startRow = some x → x.num < 4294967296) ∧
  (∀ x, ρ.endRow = some x → x.num < 4294967296)

theorem colon_free_col (x : Ref) : ':' ∉ colRefText x := by
  intro h
  simp only [colRefText, List.mem_append] at h
  rcases h with h | h
  · split at h <;> simp at h
  · have := List.all_eq_true.1 (indexToAlpha_upper x.num) _ h
    simp [isUpperAZ] at this

theorem colon_free_row (x : Ref) : ':' ∉ rowRefText x := by
  intro h
  simp only [rowRefText, List.mem_append] at h
  rcases h with h | h
  · split at h <;> simp at h
  · have := List.all_eq_true.1 (decDigits_all_digit x.num) _ h
    simp [isDigit] at this

theorem colon_free_text (c r : Option Ref) : ':' ∉ optText colRefText c ++ optText rowRefText r := by
  intro h
  simp only [List.mem_append] at h
  rcases h with h | h
  · cases c with
    | none => simp [optText] at h
    | some x => exact colon_free_col x h
  · cases r with
    | none => simp [optText] at h
    | some x => exact colon_free_row x h

theorem splitColon_go_free (s cur : List Char) (h : ':' ∉ s) :
    splitColon.go s cur = [cur.reverse ++ s] := by
  induction s generalizing cur with
  | nil => simp [splitColon.go]
  | cons c r ih =>
    have hc : c ≠ ':' := by intro e; subst e; simp at h
    have hr : ':' ∉ r := by intro e; exact h (List.mem_cons_of_mem _ e)
    simp [splitColon.go, hc, ih _ hr]

theorem splitColon_go_two (a b cur : List Char) (ha : ':' ∉ a) (hb : ':' ∉ b) :
    splitColon.go (a ++ ':' :: b) cur = [cur.reverse ++ a, b] := by
  induction a generalizing cur with
  | nil => simp [splitColon.go, splitColon_go_free b [] hb]
  | cons c r ih =>
    have hc : c ≠ ':' := by intro e; subst e; simp at ha
    have hr : ':' ∉ r := by intro e; exact ha (List.mem_cons_of_mem _ e)
    simp [splitColon.go, hc, ih _ hr]

theorem splitColon_one (a : List Char) (ha : ':' ∉ a) : splitColon a = [a] := by
  simp [splitColon, splitColon_go_free a [] ha]

theorem splitColon_two (a b : List Char) (ha : ':' ∉ a) (hb : ':' ∉ b) :
    splitColon (a ++ ':' :: b) = [a, b] := by
  simp [splitColon, splitColon_go_two a b [] ha hb]

/-- Range strings parse to the same corners they print from, for all four shapes, every column
    up to ZZZ and every `u32` row, with any lock flags; parsing never panics on printed text. -/
theorem C17_range (ρ : Range) (hs : Range.IsShape ρ) (hb : Range.InBounds ρ) :
    Range.parse (Range.print ρ) = .ok ρ := by
  obtain ⟨sc, sr, ec, er⟩ := ρ
  obtain ⟨b1, b2, b3, b4⟩ := hb
  simp only at b1 b2 b3 b4
  have pS := indexFromCoordinate_print sc sr b1 b3
  have pE := indexFromCoordinate_print ec er b2 b4
  have fS := colon_free_text sc sr
  have fE := colon_free_text ec er
  unfold Range.IsShape at hs
  simp only at hs
  rcases hs with ⟨h1, h2, h3, h4⟩ | ⟨h1, h2, h3, h4⟩ | ⟨h1, h2, h3, h4⟩ | ⟨h1, h2, h3, h4⟩
  · -- single cell
    cases sc <;> cases sr <;> cases ec <;> cases er <;> simp at h1 h2 h3 h4
    rename_i a b
    have hp : Range.print ⟨some a, some b, none, none⟩
        = optText colRefText (some a) ++ optText rowRefText (some b) := by simp [Range.print]
    rw [hp]; unfold Range.parse Range.setRange
    rw [splitColon_one _ fS]; simp only [pS]; simp [refsOf, Option.orElse]
  · cases sc <;> cases sr <;> cases ec <;> cases er <;> simp at h1 h2 h3 h4
    rename_i a b x y
    have hp : Range.print ⟨some a, some b, some x, some y⟩
        = (optText colRefText (some a) ++ optText rowRefText (some b)) ++ ':' ::
          (optText colRefText (some x) ++ optText rowRefText (some y)) := by simp [Range.print]
    rw [hp]; unfold Range.parse Range.setRange
    rw [splitColon_two _ _ fS fE]; simp only [pS, pE]; simp [refsOf, Option.orElse]
  · cases sc <;> cases sr <;> cases ec <;> cases er <;> simp at h1 h2 h3 h4
    rename_i x y
    have hp : Range.print ⟨none, some x, none, some y⟩
        = (optText colRefText none ++ optText rowRefText (some x)) ++ ':' ::
          (optText colRefText none ++ optText rowRefText (some y)) := by simp [Range.print, optText]
    rw [hp]; unfold Range.parse Range.setRange
    rw [splitColon_two _ _ fS fE]; simp only [pS, pE]; simp [refsOf, Option.orElse]
  · cases sc <;> cases sr <;> cases ec <;> cases er <;> simp at h1 h2 h3 h4
    rename_i x y
    have hp : Range.print ⟨some x, none, some y, none⟩
        = (optText colRefText (some x) ++ optText rowRefText none) ++ ':' ::
          (optText colRefText (some y) ++ optText rowRefText none) := by simp [Range.print, optText]
    rw [hp]; unfold Range.parse Range.setRange
    rw [splitColon_two _ _ fS fE]; simp only [pS, pE]; simp [refsOf, Option.orElse]

/-! ### sheet-qualified addresses -/

/-- Legal sheet names (the part of Excel's rule that matters here): non-empty and not starting
    with an apostrophe.  `!`, `"`, blanks, inner apostrophes are all allowed. -/
def LegalSheetName (name : List Char) : Prop := name ≠ [] ∧ name.head? ≠ some '\''

theorem rsplitBang_join (sheet a : List Char) (ha : '!' ∉ a) :
    rsplitBang (sheet ++ '!' :: a) = some (sheet, a) := by
  unfold rsplitBang
  have hr : (sheet ++ '!' :: a).reverse = a.reverse ++ '!' :: sheet.reverse := by simp
  have hfree : ∀ x ∈ a.reverse, (decide (x ≠ '!')) = true := by
    intro x hx
    have : x ∈ a := List.mem_reverse.1 hx
    simp; intro e; subst e; exact ha this
  rw [hr]
  have tw : (a.reverse ++ '!' :: sheet.reverse).takeWhile (fun x => decide (x ≠ '!')) = a.reverse := by
    rw [List.takeWhile_append_of_pos hfree]; simp
  have dw : (a.reverse ++ '!' :: sheet.reverse).dropWhile (fun x => decide (x ≠ '!')) = '!' :: sheet.reverse := by
    rw [List.dropWhile_append_of_pos hfree]; simp
  simp only [tw, dw]; simp

theorem stripSheetQuote_legal (name : List Char) (h : LegalSheetName name) :
    stripSheetQuote name = name := by
  obtain ⟨hne, hh⟩ := h
  unfold stripSheetQuote
  split
  · simp at hh
  · rfl

theorem stripSheetQuote_quoted (name : List Char) :
    stripSheetQuote ('\'' :: (name ++ ['\''])) = name := by
  simp [stripSheetQuote]

/-- Splitting a joined address is lossless for every legal sheet name — whatever `!`, `"`,
    blanks or inner apostrophes it contains — and every `!`-free cell/range text. -/
theorem C17_address (name a : List Char) (h : LegalSheetName name) (ha : '!' ∉ a) :
    splitAddress (joinAddress name a) = (name, a) := by
  have hne : name.isEmpty = false := by
    cases name with
    | nil => exact absurd rfl h.1
    | cons _ _ => rfl
  simp only [joinAddress, hne, Bool.false_eq_true, if_false, List.append_assoc,
    List.singleton_append, splitAddress, rsplitBang_join name a ha, stripSheetQuote_legal name h]

/-- The same through `Address::get_address` (quotes added when the name contains white space). -/
theorem C17_address_quoted (name a : List Char) (h : LegalSheetName name) (ha : '!' ∉ a) :
    splitAddress (addressText name a false) = (name, a) := by
  have hne : name.isEmpty = false := by
    cases name with
    | nil => exact absurd rfl h.1
    | cons _ _ => rfl
  unfold addressText
  simp only [hne, Bool.false_eq_true, if_false]
  cases hq : name.any isWhitespace
  · have e : ([] : List Char) ++ name ++ [] ++ ['!'] ++ a = name ++ '!' :: a := by simp
    simp only [Bool.false_eq_true, if_false, e]
    simp only [splitAddress, rsplitBang_join name a ha, stripSheetQuote_legal name h]
  · have e : ['\''] ++ name ++ ['\''] ++ ['!'] ++ a = ('\'' :: (name ++ ['\''])) ++ '!' :: a := by simp
    simp only [if_true, e]
    simp only [splitAddress, rsplitBang_join _ a ha, stripSheetQuote_quoted]

/-- The defined-name printer (`get_address_ptn2`), for names without apostrophes (names with
    apostrophes are doubled by the printer and un-doubled by `DefinedName::add_address`
    before `split_address` sees them; that path belongs to C06/C08). -/
theorem C17_address_ptn2 (name a : List Char) (h : LegalSheetName name) (ha : '!' ∉ a)
    (hap : name.contains '\'' = false) :
    splitAddress (addressText name a true) = (name, a) := by
  have hne : name.isEmpty = false := by
    cases name with
    | nil => exact absurd rfl h.1
    | cons _ _ => rfl
  unfold addressText
  simp only [hne, Bool.false_eq_true, if_false, if_true, hap]
  generalize (name.any isWhitespace || name.contains '!' || name.contains '"' ||
    (name.any fun c => !isAlnumAscii c) ||
    indexFromCoordinate name != (none, none, none, none)) = q
  cases q
  · have : ([] : List Char) ++ name ++ [] ++ ['!'] ++ a = name ++ '!' :: a := by simp
    simp only [Bool.false_eq_true, if_false, this]
    simp only [splitAddress, rsplitBang_join name a ha, stripSheetQuote_legal name h]
  · have : ['\''] ++ name ++ ['\''] ++ ['!'] ++ a = ('\'' :: (name ++ ['\''])) ++ '!' :: a := by simp
    simp only [if_true, this]
    simp only [splitAddress, rsplitBang_join _ a ha, stripSheetQuote_quoted]

/-! ### non-vacuity: the hypotheses are met by concrete, non-trivial values -/

example : (1 ≤ 16384 ∧ 16384 ≤ 18278) ∧ indexToAlpha 16384 = ['X', 'F', 'D'] := by
  refine ⟨by omega, ?_⟩
  simp [indexToAlpha, alphaRev, letter]

example : Range.IsShape ⟨some ⟨3, true⟩, some ⟨7, false⟩, some ⟨16384, false⟩, some ⟨1048576, true⟩⟩ ∧
    Range.InBounds ⟨some ⟨3, true⟩, some ⟨7, false⟩, some ⟨16384, false⟩, some ⟨1048576, true⟩⟩ := by
  constructor
  · right; left; simp
  · refine ⟨?_, ?_, ?_, ?_⟩ <;> intro x hx <;> injection hx with hx <;> subst hx <;> simp

example : LegalSheetName ['"', 'a', '!', ' ', '\'', 'b', '"'] ∧ '!' ∉ ['$', 'A', '$', '1'] := by
  constructor
  · constructor <;> simp
  · simp

end Umya.Thm.C17
