/-
  C11 — two items that were open around `C11_save`:

  (1) the fuel of the reader model.  `readClosure x fuel n` (`RawWorksheet::read_rawrelationships`) follows the
      relationships of every target; the model runs it with `x.fuel` = number of parts + 1.  Here: for every package
      whose relationship graph, on a set `S` of relationships-part names that contains the start and is closed under
      following relationships, is ACYCLIC (an explicit rank function that strictly decreases along every
      relationship), that fuel is enough: every larger fuel gives the same result (`C11_read_closure_fuel`), and the
      result is `some` as soon as every non-external target is in the package (a missing target is the `unwrap`
      panic of `RawFile::set_attributes`, at every fuel).  The bound is the pigeonhole principle on the names of the
      parts that are there, not a bound on the rank.  Without any hypothesis on the graph (`C11_read_closure_any_fuel`):
      whatever ANY fuel reads, `x.fuel` reads.  On a CYCLIC graph (`C11_read_closure_cyclic`): `none` for every
      fuel — the code recurses without end (stack overflow).

  (2) locality of the independent decoder `Spec.Sml.decodeSheet` (`C11_decoder_local`) and `C11_save_concrete`.
-/
import Umya.Thm.C11Save
import Umya.Spec.Sml
import Umya.Lemmas.PackagePath
namespace Umya.Thm.C11
open Umya.Lazy

/-! ## `mapOpt`, pigeonhole -/

theorem mapOpt_congr_mem {α β} {f g : α → Option β} : ∀ {l : List α}, (∀ a ∈ l, f a = g a) → mapOpt f l = mapOpt g l
  | [], _ => rfl
  | a :: as, h => by
    simp only [mapOpt, h a (List.mem_cons_self ..), mapOpt_congr_mem (fun b hb => h b (List.mem_cons_of_mem _ hb))]

theorem mapOpt_some_of_all {α β} {f : α → Option β} : ∀ {l : List α}, (∀ a ∈ l, ∃ b, f a = some b) → ∃ bs, mapOpt f l = some bs
  | [], _ => ⟨[], rfl⟩
  | a :: as, h => by
    obtain ⟨b, hb⟩ := h a (List.mem_cons_self ..)
    obtain ⟨bs, hbs⟩ := mapOpt_some_of_all (fun c hc => h c (List.mem_cons_of_mem _ hc))
    exact ⟨b :: bs, by simp only [mapOpt, hb, hbs]⟩

theorem mapOpt_none_of_mem {α β} {f : α → Option β} : ∀ {l : List α} {a : α}, a ∈ l → f a = none → mapOpt f l = none
  | b :: bs, a, hm, hf => by
    rcases List.mem_cons.mp hm with e | e
    · subst e; simp only [mapOpt, hf]
    · have := mapOpt_none_of_mem e hf
      simp only [mapOpt, this]
      cases f b <;> rfl

/-- pigeonhole: a list without repetitions inside `ks` is not longer than `ks` -/
theorem nodup_subset_length {α} [DecidableEq α] : ∀ (ks path : List α), path.Nodup → (∀ m ∈ path, m ∈ ks) → path.length ≤ ks.length
  | [], path, _, hs => by
    cases path with
    | nil => simp
    | cons a _ => exact absurd (hs a (List.mem_cons_self ..)) (by simp)
  | k :: ks, path, hn, hs => by
    have h1 : (path.erase k).Nodup := hn.erase k
    have h2 : ∀ m ∈ path.erase k, m ∈ ks := by
      intro m hm
      have hmk : m ≠ k ∧ m ∈ path := (List.Nodup.mem_erase_iff hn).mp hm
      rcases List.mem_cons.mp (hs m hmk.2) with e | e
      · exact absurd e hmk.1
      · exact e
    have ih := nodup_subset_length ks (path.erase k) h1 h2
    have : path.length ≤ (path.erase k).length + 1 := by
      rw [List.length_erase]; split <;> omega
    simp only [List.length_cons]; omega

theorem getPart_mem_keys : ∀ (ps : List (PName × Part)) (n : PName) (p : Part), getPart ps n = some p → n ∈ ps.map (·.1)
  | [], _, _, h => by simp [getPart] at h
  | (m, q) :: r, n, p, h => by
    simp only [getPart] at h
    by_cases e : m = n
    · subst e; simp
    · simp only [e, if_false] at h
      simp [getPart_mem_keys r n p h]

theorem readRel_some {x : Pkg} {e : PRel} {r : RawRel} (h : readRel x e = some r) :
    r.ext = true ∨ (e.ext = false ∧ r.ext = false ∧ r.file = e.file ∧ ∃ p, x.get? e.file = some p) := by
  unfold readRel at h
  by_cases hx : e.ext = true
  · simp only [hx, if_true, Option.some.injEq] at h
    subst h; exact Or.inl rfl
  · simp only [hx] at h
    cases hg : x.get? e.file with
    | none => simp [hg] at h
    | some p =>
      simp only [hg, Bool.false_eq_true, if_false, Option.some.injEq] at h
      subst h
      exact Or.inr ⟨by simpa using hx, rfl, rfl, p, rfl⟩

/-! ## acyclic relationship graphs -/

/-- ACYCLICITY on `S`, as an explicit rank function: `S` (a set of relationships-part names) is closed under
    following a non-external relationship to the relationships part of its target, and the rank strictly decreases
    along every such step.  (A relationships part that is not in the package is a leaf.)  The set of names reachable
    from the start is the least such `S`; the longest-path height is such a rank iff no part is reachable from itself. -/
def Ranked (x : Pkg) (S : PName → Prop) (rank : PName → Nat) : Prop :=
  ∀ n p, S n → x.get? n = some p → ∀ e ∈ p.rels, e.ext = false → S (.rels e.file) ∧ rank (.rels e.file) < rank n

/-- every non-external relationship of a relationships part in `S` has its target in the package
    (otherwise `arv.by_name(..).unwrap()` panics) -/
def TargetsPresent (x : Pkg) (S : PName → Prop) : Prop :=
  ∀ n p, S n → x.get? n = some p → ∀ e ∈ p.rels, e.ext = false → ∃ p', x.get? e.file = some p'

theorem readClosure_fuel_aux (x : Pkg) (S : PName → Prop) (rank : PName → Nat) (hr : Ranked x S rank) :
    ∀ (fuel : Nat) (n : PName) (path : List PName), S n → path.Nodup →
      (∀ m ∈ path, (∃ p, x.get? m = some p) ∧ rank n < rank m) →
      x.parts.length + 1 ≤ path.length + fuel →
      (∀ k, readClosure x (fuel + k) n = readClosure x fuel n) ∧
      (TargetsPresent x S → ∃ cl, readClosure x fuel n = some cl)
  | 0, n, path, _, hnd, hp, hlen => by
    exfalso
    have := nodup_subset_length (x.parts.map (·.1)) path hnd (fun m hm => by
      obtain ⟨⟨p, hg⟩, _⟩ := hp m hm
      exact getPart_mem_keys _ _ _ hg)
    simp only [List.length_map] at this
    omega
  | fuel + 1, n, path, hS, hnd, hp, hlen => by
    cases hg : x.get? n with
    | none =>
      refine ⟨fun k => ?_, fun _ => ⟨[], ?_⟩⟩
      · rw [show fuel + 1 + k = (fuel + k) + 1 by omega]
        simp only [readClosure, readRelsPart, hg]
      · simp only [readClosure, readRelsPart, hg]
    | some p =>
      cases hm : mapOpt (readRel x) p.rels with
      | none =>
        refine ⟨fun k => ?_, fun ht => ?_⟩
        · rw [show fuel + 1 + k = (fuel + k) + 1 by omega]
          simp only [readClosure, readRelsPart, hg, hm]
        · exfalso
          obtain ⟨bs, hbs⟩ := mapOpt_some_of_all (f := readRel x) (l := p.rels) (by
            intro e he
            unfold readRel
            by_cases hx : e.ext = true
            · simp only [hx, if_true]; exact ⟨_, rfl⟩
            · obtain ⟨p', hp'⟩ := ht n p hS hg e he (by simpa using hx)
              simp only [hx, hp', Bool.false_eq_true, if_false]; exact ⟨_, rfl⟩)
          rw [hm] at hbs; cases hbs
      | some rs =>
        -- the recursive calls: one level deeper, the path grows by `n`
        have hkid : ∀ r ∈ rs, r.ext = false →
            (∀ k, readClosure x (fuel + k) (.rels r.file) = readClosure x fuel (.rels r.file)) ∧
            (TargetsPresent x S → ∃ cl, readClosure x fuel (.rels r.file) = some cl) := by
          intro r hrm hx
          obtain ⟨e, he, hre⟩ := mapOpt_mem hm r hrm
          rcases readRel_some hre with h | ⟨hex, _, hfile, _⟩
          · rw [hx] at h; cases h
          · obtain ⟨hS', hrk⟩ := hr n p hS hg e he hex
            rw [hfile]
            refine readClosure_fuel_aux x S rank hr fuel (.rels e.file) (n :: path) hS' ?_ ?_ ?_
            · refine List.nodup_cons.mpr ⟨fun hmem => ?_, hnd⟩
              have := (hp n hmem).2
              omega
            · intro m hmm
              rcases List.mem_cons.mp hmm with e' | e'
              · subst e'; exact ⟨⟨p, hg⟩, hrk⟩
              · exact ⟨(hp m e').1, Nat.lt_trans hrk (hp m e').2⟩
            · simp only [List.length_cons]; omega
        refine ⟨fun k => ?_, fun ht => ?_⟩
        · rw [show fuel + 1 + k = (fuel + k) + 1 by omega]
          simp only [readClosure, readRelsPart, hg, hm]
          rw [mapOpt_congr_mem (l := rs) (g := fun r => if r.ext then some [] else readClosure x fuel (.rels r.file))]
          intro r hrm
          by_cases hx : r.ext = true
          · simp only [hx, if_true]
          · simp only [hx, Bool.false_eq_true, if_false]
            exact (hkid r hrm (by simpa using hx)).1 k
        · simp only [readClosure, readRelsPart, hg, hm]
          obtain ⟨kids, hk⟩ := mapOpt_some_of_all (f := fun r : RawRel => if r.ext then some [] else readClosure x fuel (.rels r.file)) (l := rs) (by
            intro r hrm
            by_cases hx : r.ext = true
            · simp only [hx, if_true]; exact ⟨_, rfl⟩
            · obtain ⟨cl, hcl⟩ := (hkid r hrm (by simpa using hx)).2 ht
              simp only [hx, Bool.false_eq_true, if_false, hcl]; exact ⟨_, rfl⟩)
          simp only [hk]; exact ⟨_, rfl⟩

/-- **The fuel of the reader model is enough.**  For a package whose relationship graph is acyclic on a set `S` of
    relationships-part names closed under following relationships (`Ranked`: explicit rank function), and every start
    `n ∈ S` (for `openRaw x part`: `n = .rels part`): `readClosure` with `x.fuel` = number of parts + 1 returns what it
    returns with ANY larger fuel; and if every non-external target is in the package, that is `some` closure.
    (If a target is missing the result is `none` = the panic of `unwrap`, again at every fuel.) -/
theorem C11_read_closure_fuel (x : Pkg) (S : PName → Prop) (rank : PName → Nat) (hr : Ranked x S rank) (n : PName) (hn : S n) :
    (∀ k, readClosure x (x.fuel + k) n = readClosure x x.fuel n) ∧
    (TargetsPresent x S → ∃ cl, readClosure x x.fuel n = some cl ∧ ∀ k, readClosure x (x.fuel + k) n = some cl) := by
  have h := readClosure_fuel_aux x S rank hr x.fuel n [] hn List.nodup_nil (by simp) (by simp [Pkg.fuel])
  refine ⟨h.1, fun ht => ?_⟩
  obtain ⟨cl, hcl⟩ := h.2 ht
  exact ⟨cl, hcl, fun k => by rw [h.1 k, hcl]⟩

/-- … hence `openRaw` (and with it `lazyOpen`) does not depend on the fuel constant of the model: with any larger
    fuel the reader model records the same raw sheet -/
theorem C11_open_raw_fuel (x : Pkg) (S : PName → Prop) (rank : PName → Nat) (hr : Ranked x S rank) (part : PName) (hn : S (.rels part))
    (ht : TargetsPresent x S) (p : Part) (hp : x.get? part = some p) :
    ∃ cl, openRaw x part = some { file := part, cid := p.cid, closure := cl } ∧ ∀ k, readClosure x (x.fuel + k) (.rels part) = some cl := by
  obtain ⟨cl, hcl, hk⟩ := (C11_read_closure_fuel x S rank hr (.rels part) hn).2 ht
  exact ⟨cl, by simp only [openRaw, hp, hcl, Option.map_some], hk⟩

/-- **Cyclic graphs.**  `cyc` is a non-empty set of relationships parts of `x` each of which has a non-external
    relationship to a part whose relationships part is again in `cyc` (a cycle, or a path into one).  Then the
    reader model returns `none` from every member of `cyc` for EVERY fuel: the recursion of
    `read_rawrelationships` never ends (in the code: stack overflow). -/
theorem C11_read_closure_cyclic (x : Pkg) (cyc : List PName)
    (hc : ∀ c ∈ cyc, ∃ p, x.get? c = some p ∧ ∃ e ∈ p.rels, e.ext = false ∧ PName.rels e.file ∈ cyc) :
    ∀ (fuel : Nat), ∀ c ∈ cyc, readClosure x fuel c = none
  | 0, _, _ => rfl
  | fuel + 1, c, hcm => by
    obtain ⟨p, hg, e, he, hex, hnext⟩ := hc c hcm
    cases hm : mapOpt (readRel x) p.rels with
    | none => simp only [readClosure, readRelsPart, hg, hm]
    | some rs =>
      simp only [readClosure, readRelsPart, hg, hm]
      obtain ⟨r, hr, hre⟩ := mapOpt_mem_src hm e he
      have hrx : r.ext = false ∧ r.file = e.file := by
        rcases readRel_some hre with h | ⟨_, h1, h2, _⟩
        · unfold readRel at hre
          simp only [hex, Bool.false_eq_true, if_false] at hre
          cases hg' : x.get? e.file with
          | none => simp [hg'] at hre
          | some p' =>
            simp only [hg', Option.some.injEq] at hre
            subst hre; exact ⟨rfl, rfl⟩
        · exact ⟨h1, h2⟩
      have hnone : (fun r : RawRel => if r.ext then some [] else readClosure x fuel (.rels r.file)) r = none := by
        simp only [hrx.1, hrx.2, Bool.false_eq_true, if_false]
        exact C11_read_closure_cyclic x cyc hc fuel _ hnext
      rw [mapOpt_none_of_mem hr hnone]

/-! ## no hypothesis on the graph: whatever ANY fuel reads, `x.fuel` reads -/

theorem readClosure_mono (x : Pkg) : ∀ (f : Nat) (n : PName) (cl : List RawRels), readClosure x f n = some cl →
    ∀ k, readClosure x (f + k) n = some cl
  | 0, _, _, h, _ => by simp [readClosure] at h
  | f + 1, n, cl, h, k => by
    rw [show f + 1 + k = (f + k) + 1 by omega]
    simp only [readClosure] at h ⊢
    cases hq : readRelsPart x n with
    | none => simp [hq] at h
    | some o =>
      cases o with
      | none => simpa [hq] using h
      | some q =>
        simp only [hq] at h ⊢
        cases hm : mapOpt (fun r : RawRel => if r.ext then some [] else readClosure x f (.rels r.file)) q.rels with
        | none => simp [hm] at h
        | some kids =>
          have : mapOpt (fun r : RawRel => if r.ext then some [] else readClosure x (f + k) (.rels r.file)) q.rels = some kids := by
            rw [← hm]
            apply mapOpt_congr_mem
            intro r hr
            by_cases hx : r.ext = true
            · simp only [hx, if_true]
            · simp only [hx, Bool.false_eq_true, if_false]
              obtain ⟨b, _, hb⟩ := mapOpt_mem_src hm r hr
              simp only [hx, Bool.false_eq_true, if_false] at hb
              rw [hb, readClosure_mono x f _ b hb k]
          simpa [hm, this] using h

/-- `F` is the least fuel with which the reader model gets through from `n` -/
def MinFuel (x : Pkg) (F : Nat) (n : PName) : Prop :=
  (∃ cl, readClosure x F n = some cl) ∧ ∀ G cl, readClosure x G n = some cl → F ≤ G

theorem exists_minFuel (x : Pkg) (n : PName) : ∀ (F : Nat) (cl : List RawRels), readClosure x F n = some cl → ∃ F', F' ≤ F ∧ MinFuel x F' n := by
  intro F
  induction F using Nat.strongRecOn with
  | _ F ih =>
    intro cl h
    by_cases hmin : ∀ G cl', readClosure x G n = some cl' → F ≤ G
    · exact ⟨F, Nat.le_refl _, ⟨cl, h⟩, hmin⟩
    · have : ∃ G, G < F ∧ ∃ cl', readClosure x G n = some cl' := by
        apply Classical.byContradiction
        intro hne
        apply hmin
        intro G cl' hG
        apply Classical.byContradiction
        intro hlt
        exact hne ⟨G, by omega, cl', hG⟩
      obtain ⟨G, hG, cl', hcl'⟩ := this
      obtain ⟨F', hF', hm⟩ := ih G hG cl' hcl'
      exact ⟨F', by omega, hm⟩

theorem readClosure_enough_aux (x : Pkg) :
    ∀ (fuel : Nat) (n : PName) (path : List PName) (F : Nat), MinFuel x F n → path.Nodup →
      (∀ m ∈ path, (∃ p, x.get? m = some p) ∧ ∀ G cl, readClosure x G m = some cl → F < G) →
      x.parts.length + 1 ≤ path.length + fuel →
      ∃ cl, readClosure x fuel n = some cl
  | 0, n, path, _, _, hnd, hp, hlen => by
    exfalso
    have := nodup_subset_length (x.parts.map (·.1)) path hnd (fun m hm => by
      obtain ⟨⟨p, hg⟩, _⟩ := hp m hm
      exact getPart_mem_keys _ _ _ hg)
    simp only [List.length_map] at this
    omega
  | fuel + 1, n, path, F, hmin, hnd, hp, hlen => by
    obtain ⟨⟨cl, hcl⟩, hleast⟩ := hmin
    cases F with
    | zero => simp [readClosure] at hcl
    | succ F' =>
      simp only [readClosure] at hcl ⊢
      cases hq : readRelsPart x n with
      | none => simp [hq] at hcl
      | some o =>
        cases o with
        | none => exact ⟨[], by simp⟩
        | some q =>
          simp only [hq] at hcl ⊢
          have hpres : ∃ p, x.get? n = some p := by
            unfold readRelsPart at hq
            cases hg : x.get? n with
            | none => simp [hg] at hq
            | some p => exact ⟨p, rfl⟩
          cases hm : mapOpt (fun r : RawRel => if r.ext then some [] else readClosure x F' (.rels r.file)) q.rels with
          | none => simp [hm] at hcl
          | some kids =>
            obtain ⟨kids', hk'⟩ := mapOpt_some_of_all (f := fun r : RawRel => if r.ext then some [] else readClosure x fuel (.rels r.file)) (l := q.rels) (by
              intro r hr
              by_cases hx : r.ext = true
              · simp only [hx, if_true]; exact ⟨_, rfl⟩
              · simp only [hx, Bool.false_eq_true, if_false]
                obtain ⟨b, _, hb⟩ := mapOpt_mem_src hm r hr
                simp only [hx, Bool.false_eq_true, if_false] at hb
                obtain ⟨Fc, hFc, hmc⟩ := exists_minFuel x _ F' b hb
                refine readClosure_enough_aux x fuel (.rels r.file) (n :: path) Fc hmc ?_ ?_ ?_
                · refine List.nodup_cons.mpr ⟨fun hmem => ?_, hnd⟩
                  have := (hp n hmem).2 (F' + 1) cl (by simp only [readClosure, hq]; exact hcl)
                  omega
                · intro m hmm
                  rcases List.mem_cons.mp hmm with e' | e'
                  · subst e'
                    refine ⟨hpres, fun G cl' hG => ?_⟩
                    have := hleast G cl' hG
                    omega
                  · refine ⟨(hp m e').1, fun G cl' hG => ?_⟩
                    have := (hp m e').2 G cl' hG
                    omega
                · simp only [List.length_cons]; omega)
            simp only [hk']; exact ⟨_, rfl⟩

/-- **No hypothesis on the graph.**  Whatever the reader model returns from `n` with ANY fuel `F`, it returns with
    `x.fuel` = number of parts + 1.  So `readClosure x x.fuel n = none` means: `none` for every fuel — a target is
    missing (the `unwrap` panic) or the relationship graph has a cycle (`C11_read_closure_cyclic`; stack overflow in
    the code) — and never "the model's fuel constant was too small". -/
theorem C11_read_closure_any_fuel (x : Pkg) (n : PName) (F : Nat) (cl : List RawRels) (h : readClosure x F n = some cl) :
    readClosure x x.fuel n = some cl := by
  obtain ⟨F', _, hm⟩ := exists_minFuel x n F cl h
  obtain ⟨cl', hcl'⟩ := readClosure_enough_aux x x.fuel n [] F' hm List.nodup_nil (by simp) (by simp [Pkg.fuel])
  have h1 := readClosure_mono x F n cl h x.fuel
  have h2 := readClosure_mono x x.fuel n cl' hcl' F
  rw [Nat.add_comm] at h2
  rw [h1] at h2
  rw [hcl', Option.some.inj h2]

/-- … and so for `openRaw`: if the sheet part is there and SOME fuel gets through its relationships, the model's
    `openRaw` (fuel `x.fuel`) records exactly that closure -/
theorem C11_open_raw_any_fuel (x : Pkg) (part : PName) (p : Part) (hp : x.get? part = some p) (F : Nat) (cl : List RawRels)
    (h : readClosure x F (.rels part) = some cl) : openRaw x part = some { file := part, cid := p.cid, closure := cl } := by
  simp only [openRaw, hp, C11_read_closure_any_fuel x _ F cl h, Option.map_some]

/-! ### non-vacuity -/

/-- sheet → drawing → chart (+ an image, + an external hyperlink): depth 3, acyclic -/
def exDeep : Pkg :=
  { parts := [(.sheet 1, { cid := 1 }),
              (.rels (.sheet 1), { cid := 2, rels := [⟨false, .fam .drawing 1⟩, ⟨true, .other []⟩] }),
              (.fam .drawing 1, { cid := 3 }),
              (.rels (.fam .drawing 1), { cid := 4, rels := [⟨false, .fam .chart 1⟩, ⟨false, .other ['i']⟩] }),
              (.fam .chart 1, { cid := 5 }),
              (.rels (.fam .chart 1), { cid := 6, rels := [⟨false, .other ['s']⟩] }),
              (.other ['i'], { cid := 7 }), (.other ['s'], { cid := 8 })],
    sheets := [(['A'], .sheet 1)] }

def exRank : PName → Nat
  | .rels (.sheet _) => 3
  | .rels (.fam .drawing _) => 2
  | .rels (.fam .chart _) => 1
  | _ => 0

def exS (n : PName) : Prop := n ∈ [PName.rels (.sheet 1), .rels (.fam .drawing 1), .rels (.fam .chart 1), .rels (.other ['i']), .rels (.other ['s'])]

example : Ranked exDeep exS exRank ∧ TargetsPresent exDeep exS ∧ exS (.rels (.sheet 1)) ∧
    (readClosure exDeep exDeep.fuel (.rels (.sheet 1))).map (·.map (·.name)) =
      some [.rels (.fam .chart 1), .rels (.fam .drawing 1), .rels (.sheet 1)] := by
  refine ⟨?_, ?_, by simp [exS], by decide⟩
  · intro n p hS hg e he hx
    simp only [exS, List.mem_cons, List.not_mem_nil, or_false] at hS
    rcases hS with rfl | rfl | rfl | rfl | rfl <;>
      simp [Pkg.get?, exDeep, getPart] at hg <;> subst hg <;> simp at he
    · rcases he with rfl | rfl
      · simp [exS, exRank]
      · cases hx
    · rcases he with rfl | rfl <;> simp [exS, exRank]
    · subst he; simp [exS, exRank]
  · intro n p hS hg e he hx
    simp only [exS, List.mem_cons, List.not_mem_nil, or_false] at hS
    rcases hS with rfl | rfl | rfl | rfl | rfl <;>
      simp [Pkg.get?, exDeep, getPart] at hg <;> subst hg <;> simp at he
    · rcases he with rfl | rfl
      · exact ⟨_, rfl⟩
      · cases hx
    · rcases he with rfl | rfl <;> exact ⟨_, rfl⟩
    · subst he; exact ⟨_, rfl⟩

example : ∃ cl, readClosure exDeep 4 (.rels (.sheet 1)) = some cl ∧ cl.length = 3 ∧
    readClosure exDeep exDeep.fuel (.rels (.sheet 1)) = some cl ∧
    ∃ r, openRaw exDeep (.sheet 1) = some r ∧ r.closure = cl := by
  refine ⟨_, rfl, by decide, C11_read_closure_any_fuel exDeep _ 4 _ rfl, _, C11_open_raw_any_fuel exDeep (.sheet 1) { cid := 1 } rfl 4 _ rfl, rfl⟩

/-- the drawing's relationships part points back at the sheet: sheet → drawing → sheet -/
def exCyc : Pkg :=
  { parts := [(.sheet 1, { cid := 1 }),
              (.rels (.sheet 1), { cid := 2, rels := [⟨false, .fam .drawing 1⟩] }),
              (.fam .drawing 1, { cid := 3 }),
              (.rels (.fam .drawing 1), { cid := 4, rels := [⟨false, .sheet 1⟩] })],
    sheets := [(['A'], .sheet 1)] }

example : (∀ c ∈ [PName.rels (.sheet 1), .rels (.fam .drawing 1)],
      ∃ p, exCyc.get? c = some p ∧ ∃ e ∈ p.rels, e.ext = false ∧ PName.rels e.file ∈ [PName.rels (.sheet 1), .rels (.fam .drawing 1)]) ∧
    openRaw exCyc (.sheet 1) = none ∧ (lazyOpen exCyc : Option (Book Nat)) = none := by
  refine ⟨?_, by decide, by decide⟩
  intro c hc
  simp only [List.mem_cons, List.not_mem_nil, or_false] at hc
  rcases hc with rfl | rfl
  · exact ⟨_, rfl, ⟨false, .fam .drawing 1⟩, by decide, rfl, by decide⟩
  · exact ⟨_, rfl, ⟨false, .sheet 1⟩, by decide, rfl, by decide⟩

section Concrete
open Umya.Spec.Sml Umya.Spec.Xml

/-! ## (2) locality of the independent decoder `Spec.Sml.decodeSheet` -/

/-- the `<row>` elements of a worksheet root -/
def sheetRows (root : Node) : List Node := ((root.kid? "sheetData").map (·.kids "row")).getD []

/-- every shared-string index used by a `t="s"` cell of the sheet is inside the table `sst` (true of a valid file;
    decidable on a concrete root) -/
def SstCovers (sst : List Text) (root : Node) : Prop :=
  ∀ row ∈ sheetRows root, ∀ c ∈ row.kids "c", str ((c.attr? "t".toList).getD "n".toList) = "s" →
    ∀ i, ((c.kid? "v").map (·.ownText)).bind natOf = some i → i < sst.length

/-- the relationships the `<tablePart r:id=…>` elements of the sheet refer to -/
def tableRels (root : Node) (rels : List Rel) : List Rel :=
  (((root.kid? "tableParts").map (·.kids "tablePart")).getD []).filterMap fun tp =>
    (tp.attr? "r:id".toList).bind (fun rid => rels.find? (fun (r : Rel) => r.id = str rid))

theorem decodeCell_prefix (sst sst' : List Text) (h : sst <+: sst') (c : Node)
    (hin : str ((c.attr? "t".toList).getD "n".toList) = "s" → ∀ i, ((c.kid? "v").map (·.ownText)).bind natOf = some i → i < sst.length) :
    (decodeCell sst c).1 = (decodeCell sst' c).1 := by
  unfold decodeCell
  simp only []
  split
  · rename_i ht
    cases hv : ((c.kid? "v").map (·.ownText)).bind natOf with
    | none => simp only []
    | some i =>
      have hi := hin ht i hv
      obtain ⟨t, rfl⟩ := h
      have hs : sst[i]? = some sst[i] := List.getElem?_eq_getElem hi
      simp only [List.getElem?_append_left hi, hs]
  all_goals rfl

theorem flatMap_fst_map_congr {α β γ γ'} (F : α → List β × γ) (F' : α → List β × γ') (l : List α) (h : ∀ x ∈ l, (F x).1 = (F' x).1) :
    (l.map F).flatMap (·.1) = (l.map F').flatMap (·.1) := by
  induction l with
  | nil => rfl
  | cons a l ih =>
    simp only [List.map_cons, List.flatMap_cons, h a (List.mem_cons_self ..), ih (fun x hx => h x (List.mem_cons_of_mem _ hx))]

theorem filterMap_congr_mem {α β} (f g : α → Option β) : ∀ (l : List α), (∀ x ∈ l, f x = g x) → l.filterMap f = l.filterMap g
  | [], _ => rfl
  | a :: l, h => by
    simp only [List.filterMap_cons, h a (List.mem_cons_self ..), filterMap_congr_mem f g l (fun x hx => h x (List.mem_cons_of_mem _ hx))]

theorem relsOf_congr (p p' : Package) (a a' : String)
    (h : (p.part? (relsNameOf a)).bind (·.xml) = (p'.part? (relsNameOf a')).bind (·.xml)) : relsOf p a = relsOf p' a' := by
  unfold relsOf
  rw [h]

/-- **Locality of `Spec.Sml.decodeSheet`** (the independent decoder of C03, unchanged): the decoded view of a sheet
    (`.1`: cells, merges, hyperlinks, columns, rows, tables, `noR`) depends only on
      * the XML tree of the sheet's own part,
      * the XML tree of the relationships part next to it (`relsNameOf path`),
      * the XML trees of the parts its `tablePart` relationships name, resolved against the sheet's directory,
      * the shared-string table up to the indices the sheet uses (`sst <+: sst'`, `SstCovers`),
    and NOT on the name of the part, on any other part of the package, or on the sizes of cellXfs / dxfs.
    (The second component, the list of diagnostics, quotes the part name and the table sizes: it is not local and is
    not claimed.)  `DecoderLocal` of `C11Save.lean` is the same statement for decoders over the abstract package; it
    quantifies over arbitrary pairs of part names, which a decoder that resolves RELATIVE targets cannot satisfy, so
    the instance `C11_save` needs is stated here on the concrete packages and used in `C11_save_concrete`. -/
theorem C11_decoder_local (p p' : Package) (path path' : String) (sst sst' : List Text) (nXf nXf' nDxf nDxf' : Nat)
    (hroot : (p.part? path).bind (·.xml) = (p'.part? path').bind (·.xml))
    (hrels : (p.part? (relsNameOf path)).bind (·.xml) = (p'.part? (relsNameOf path')).bind (·.xml))
    (htab : ∀ root, (p.part? path).bind (·.xml) = some root → ∀ r ∈ tableRels root (relsOf p path),
      (p.part? (resolveTarget path r.target)).bind (·.xml) = (p'.part? (resolveTarget path' r.target)).bind (·.xml))
    (hsst : sst <+: sst')
    (hcov : ∀ root, (p.part? path).bind (·.xml) = some root → SstCovers sst root) :
    (decodeSheet p path sst nXf nDxf).1 = (decodeSheet p' path' sst' nXf' nDxf').1 := by
  have hr := relsOf_congr p p' path path' hrels
  cases h : (p.part? path).bind (·.xml) with
  | none =>
    have h' := hroot ▸ h
    unfold decodeSheet
    simp only [h, h']
  | some root =>
    have h' := hroot ▸ h
    have htab' := htab root h
    have hcov' := hcov root h
    unfold decodeSheet
    simp only [h, h', ← hr]
    congr 1
    · refine congrArg _ (flatMap_fst_map_congr _ _ _ ?_)
      intro x hx
      simp only [List.map_map]
      congr 1
      apply List.map_congr_left
      intro c hc
      exact decodeCell_prefix sst sst' hsst c (hcov' x.1 (List.of_mem_zip hx).1 c hc)
    · simp only [List.map_map]
      apply List.map_congr_left
      intro h _
      simp only [Function.comp]
      cases h.attr? "r:id".toList with
      | none => rfl
      | some rid =>
        simp only []
        cases (relsOf p path).find? (fun (r : Rel) => r.id = str rid) <;> rfl
    · apply filterMap_congr_mem
      intro tp htp
      cases hf : (tp.attr? "r:id".toList).bind (fun rid => (relsOf p path).find? (fun (r : Rel) => r.id = str rid)) with
      | none => rfl
      | some r =>
        have hmem : r ∈ tableRels root (relsOf p path) := List.mem_filterMap.mpr ⟨tp, htp, hf⟩
        simp only [Option.bind_some, decodeTable, htab' r hmem]

variable {C E : Type} (cd : Codec C E)

/-- how the abstract package of the model (names ↦ contents; bytes are identities) stands for a concrete one:
    the printer of part names, the XML tree of a part as a function of its abstract content (for `bytes cid` the parse
    of those bytes; for a relationships part the tree the raw writer emits — ids, types and target texts are below the
    model and assumed to be a function of the content), the text of a shared-string item -/
structure Realisation (C : Type) where
  text : PName → String
  xml : Content C → Option Node
  item : Nat → Text

/-- the concrete package `p` is what the abstract lookup `L` stands for -/
def Realises (R : Realisation C) (L : PName → Option (Content C)) (p : Package) : Prop :=
  ∀ m, (p.part? (R.text m)).bind (·.xml) = (L m).bind R.xml

def kids1 (L : PName → Option (Content C)) (c : Option (Content C)) : List (Option (Content C)) :=
  match c with
  | some (.relsOf ts) => ts.map (fun t => t.bind L)
  | _ => []

/-- the abstract decoder that returns what it is allowed to look at on the first level: the sheet part, its
    relationships part, the parts those relationships name -/
def dec1 (L : PName → Option (Content C)) (_ : Tables) (n : PName) :
    Option (Content C) × Option (Content C) × List (Option (Content C)) :=
  (L n, L (.rels n), kids1 L (L (.rels n)))

theorem dec1_local : DecoderLocal (C := C) (dec1 (C := C)) := by
  intro L L' T T' n n' ns h1 h2 h3 h4 _ _ _ _
  have key : kids1 L (L (.rels n)) = kids1 L' (L' (.rels n')) := by
    rw [← h2]
    cases hr : L (.rels n) with
    | none => rfl
    | some c =>
      cases c with
      | relsOf ts =>
        simp only [kids1]
        apply List.map_congr_left
        intro t ht
        cases t with
        | none => rfl
        | some t => exact (h3 t (h4 ts hr t ht)).1
      | bytes _ => rfl
      | ser _ => rfl
      | gen => rfl
  show (L n, L (.rels n), _) = (L' n', L' (.rels n'), _)
  rw [key, h1, h2]

/-- **`C11_untouched_decodes` without the `DecoderLocal` hypothesis, for the concrete decoder.**  `P` realises the
    opened package `x`, `P'` the package saved after ANY history; a sheet that is still raw at position `j` decodes
    (`Spec.Sml.decodeSheet … .1`) in `P'` under `sheet{j+1}.xml`, with the saved shared-string table, to exactly what its
    part `r.file` decodes to in `P` with the table of `x`.  Hypotheses beyond those of `C11_save`: the two realisations;
    the names (`hname`, `hname'`, `hdir`: relationships part next to the part, same directory — discharged for
    `xl/worksheets/sheet{k}.xml` in `C11_save_concrete_sheet`); `htbl`: the model's resolved targets of the sheet's
    relationships part are what the spec's path rules give for the relationships its tableParts use; `hcov`. -/
theorem C11_save_concrete (R : Realisation C) (x : Pkg) (b0 : Book C) (hx : pkgOk x = true) (ho : lazyOpen x = some b0) (ops : List (Op E))
    (hprof : ∀ s ∈ (run cd b0 ops).sheets, ∀ l, s.body = .loaded l → ∀ n ∈ profNames l.prof, NotSheet n ∧ isRelsName n = false)
    (hw : ∀ s ∈ (run cd b0 ops).sheets, SheetWritable s)
    (P P' : Package) (hP : Realises R (xLookup x) P) (hP' : Realises R (lookupPart (save cd (run cd b0 ops)).parts) P')
    (j : Nat) (s : Sheet C) (r : RawSheet) (hj : (run cd b0 ops).sheets[j]? = some s) (hb : s.body = .raw r)
    (hname : relsNameOf (R.text r.file) = R.text (.rels r.file))
    (hname' : relsNameOf (R.text (.sheet (j + 1))) = R.text (.rels (.sheet (j + 1))))
    (hdir : ∀ t, resolveTarget (R.text r.file) t = resolveTarget (R.text (.sheet (j + 1))) t)
    (htbl : ∀ root, (P.part? (R.text r.file)).bind (·.xml) = some root → ∀ rel ∈ tableRels root (relsOf P (R.text r.file)),
        ∃ ts t, xLookup (C := C) x (.rels r.file) = some (.relsOf ts) ∧ some t ∈ ts ∧ resolveTarget (R.text r.file) rel.target = R.text t)
    (hcov : ∀ root, (P.part? (R.text r.file)).bind (·.xml) = some root → SstCovers (x.tables.sst.map R.item) root) :
    (decodeSheet P (R.text r.file) (x.tables.sst.map R.item) x.tables.xfs.length x.tables.dxfs.length).1 =
    (decodeSheet P' (R.text (.sheet (j + 1))) ((save cd (run cd b0 ops)).tables.sst.map R.item)
      (save cd (run cd b0 ops)).tables.xfs.length (save cd (run cd b0 ops)).tables.dxfs.length).1 := by
  have h := C11_untouched_decodes cd (dec1 (C := C)) dec1_local x b0 hx ho ops hprof hw j s r hj hb
  simp only [dec1, Prod.mk.injEq] at h
  obtain ⟨h1, h2, h3⟩ := h
  apply C11_decoder_local
  · rw [hP r.file, hP' (.sheet (j + 1)), h1]
  · rw [hname, hname', hP, hP', h2]
  · intro root hroot rel hrel
    obtain ⟨ts, t, hts, ht, hres⟩ := htbl root hroot rel hrel
    rw [← hdir, hres, hP t, hP' t]
    rw [h2, hts] at h3
    simp only [kids1] at h3
    have := List.map_inj_left.mp h3 (some t) ht
    simp only [Option.bind_some] at this
    rw [this]
  · apply List.IsPrefix.map
    have hr : (run cd b0 ops).hasRaw = true := by
      unfold Book.hasRaw
      exact List.any_eq_true.mpr ⟨s, List.mem_of_getElem? hj, by simp [Sheet.isRaw, hb]⟩
    have := (C11_tables_only_grow cd b0 ops).2.1 hr
    rwa [(lazyOpen_spec ho).1] at this
  · exact hcov

open Umya.PackageNode in
/-- all sheet parts `xl/worksheets/sheet{k}.xml` resolve relative targets alike, and their relationships part is
    `xl/worksheets/_rels/sheet{k}.xml.rels` -/
theorem C11_sheet_paths (k k' : Nat) :
    (∀ t, resolveTarget (String.ofList (sheetPartL k)) t = resolveTarget (String.ofList (sheetPartL k')) t) ∧
    relsNameOf (String.ofList (sheetPartL k)) = String.ofList (sheetRelsL k) := by
  refine ⟨fun t => ?_, by rw [relsNameOf, String.toList_ofList, relsName_sheetPart]⟩
  unfold resolveTarget resolveTargetL
  simp only [String.toList_ofList, segsOf_sheetPart, List.dropLast]

open Umya.PackageNode in
/-- … for sheet parts named `xl/worksheets/sheet{n}.xml` (every file the crate, Excel or LibreOffice writes): the
    three name hypotheses are theorems -/
theorem C11_save_concrete_sheet (R : Realisation C)
    (hRs : ∀ k, R.text (.sheet k) = String.ofList (sheetPartL k)) (hRr : ∀ k, R.text (.rels (.sheet k)) = String.ofList (sheetRelsL k))
    (x : Pkg) (b0 : Book C) (hx : pkgOk x = true) (ho : lazyOpen x = some b0) (ops : List (Op E))
    (hprof : ∀ s ∈ (run cd b0 ops).sheets, ∀ l, s.body = .loaded l → ∀ n ∈ profNames l.prof, NotSheet n ∧ isRelsName n = false)
    (hw : ∀ s ∈ (run cd b0 ops).sheets, SheetWritable s)
    (P P' : Package) (hP : Realises R (xLookup x) P) (hP' : Realises R (lookupPart (save cd (run cd b0 ops)).parts) P')
    (j : Nat) (s : Sheet C) (r : RawSheet) (hj : (run cd b0 ops).sheets[j]? = some s) (hb : s.body = .raw r)
    (n : Nat) (hfile : r.file = .sheet n)
    (htbl : ∀ root, (P.part? (R.text r.file)).bind (·.xml) = some root → ∀ rel ∈ tableRels root (relsOf P (R.text r.file)),
        ∃ ts t, xLookup (C := C) x (.rels r.file) = some (.relsOf ts) ∧ some t ∈ ts ∧ resolveTarget (R.text r.file) rel.target = R.text t)
    (hcov : ∀ root, (P.part? (R.text r.file)).bind (·.xml) = some root → SstCovers (x.tables.sst.map R.item) root) :
    (decodeSheet P (R.text r.file) (x.tables.sst.map R.item) x.tables.xfs.length x.tables.dxfs.length).1 =
    (decodeSheet P' (R.text (.sheet (j + 1))) ((save cd (run cd b0 ops)).tables.sst.map R.item)
      (save cd (run cd b0 ops)).tables.xfs.length (save cd (run cd b0 ops)).tables.dxfs.length).1 := by
  apply C11_save_concrete cd R x b0 hx ho ops hprof hw P P' hP hP' j s r hj hb
  · rw [hfile, hRs, hRr]; exact (C11_sheet_paths n n).2
  · rw [hRs, hRr]; exact (C11_sheet_paths (j + 1) 0).2
  · intro t; rw [hfile, hRs, hRs]; exact (C11_sheet_paths _ _).1 t
  · exact htbl
  · exact hcov

/-! ### non-vacuity -/

def at' (n v : String) : Attr := ⟨n.toList, v.toList⟩
def exC : Node := .elem "c".toList [at' "r" "A1", at' "t" "s"] [.elem "v".toList [] [.text ['1']]]
def exRow : Node := .elem "row".toList [at' "r" "1"] [exC]
def exRoot : Node := .elem "worksheet".toList [] [
  .elem "sheetData".toList [] [exRow],
  .elem "tableParts".toList [] [.elem "tablePart".toList [at' "r:id" "rId1"] []]]
def exRelsRoot : Node := .elem "Relationships".toList [] [.elem "Relationship".toList [at' "Id" "rId1", at' "Type" "t", at' "Target" "../tables/table1.xml"] []]
def exTbl : Node := .elem "table".toList [at' "name" "T", at' "displayName" "T", at' "ref" "A1:A2"] []
/-- the sheet as `sheet7.xml` of the package that is read … -/
def exP : Package := [⟨"xl/worksheets/sheet7.xml", some exRoot, true⟩, ⟨"xl/worksheets/_rels/sheet7.xml.rels", some exRelsRoot, true⟩,
  ⟨"xl/tables/table1.xml", some exTbl, true⟩]
/-- … and as `sheet1.xml` of another package, behind another sheet, with a longer shared-string table -/
def exP' : Package := [⟨"xl/worksheets/sheet2.xml", some (.elem "worksheet".toList [] []), true⟩, ⟨"xl/tables/table1.xml", some exTbl, true⟩,
  ⟨"xl/worksheets/_rels/sheet1.xml.rels", some exRelsRoot, true⟩, ⟨"xl/worksheets/sheet1.xml", some exRoot, true⟩]

example :
    (decodeSheet exP "xl/worksheets/sheet7.xml" [['a'], ['b']] 1 0).1 = (decodeSheet exP' "xl/worksheets/sheet1.xml" [['a'], ['b'], ['c']] 5 2).1 ∧
    (decodeSheet exP "xl/worksheets/sheet7.xml" [['a'], ['b']] 1 0).1.tables.map (·.name) = [['T']] ∧
    (decodeSheet exP "xl/worksheets/sheet7.xml" [['a'], ['b']] 1 0).1.cells.map (·.value) = [['b']] := by
  have e : (exP.part? "xl/worksheets/sheet7.xml").bind (·.xml) = some exRoot := by rfl
  have hroot : (exP.part? "xl/worksheets/sheet7.xml").bind (·.xml) = (exP'.part? "xl/worksheets/sheet1.xml").bind (·.xml) :=
    e.trans (show (exP'.part? "xl/worksheets/sheet1.xml").bind (·.xml) = some exRoot from by rfl).symm
  have hrels : (exP.part? (relsNameOf "xl/worksheets/sheet7.xml")).bind (·.xml) = (exP'.part? (relsNameOf "xl/worksheets/sheet1.xml")).bind (·.xml) :=
    (show (exP.part? (relsNameOf "xl/worksheets/sheet7.xml")).bind (·.xml) = some exRelsRoot from by rfl).trans
      (show (exP'.part? (relsNameOf "xl/worksheets/sheet1.xml")).bind (·.xml) = some exRelsRoot from by rfl).symm
  refine ⟨C11_decoder_local exP exP' "xl/worksheets/sheet7.xml" "xl/worksheets/sheet1.xml" [['a'], ['b']] [['a'], ['b'], ['c']] 1 5 0 2
    hroot hrels ?_ ⟨[['c']], rfl⟩ ?_, by rfl, by rfl⟩
  · intro root h r hr
    rw [e] at h; injection h with h; subst h
    have e2 : tableRels exRoot (relsOf exP "xl/worksheets/sheet7.xml") = [⟨"rId1", "t", "../tables/table1.xml", false⟩] := rfl
    rw [e2] at hr
    simp only [List.mem_singleton] at hr
    subst hr
    exact (show (exP.part? (resolveTarget "xl/worksheets/sheet7.xml" "../tables/table1.xml")).bind (·.xml) = some exTbl from by rfl).trans
      (show (exP'.part? (resolveTarget "xl/worksheets/sheet1.xml" "../tables/table1.xml")).bind (·.xml) = some exTbl from by rfl).symm
  · intro root h
    rw [e] at h; injection h with h; subst h
    intro row hrow c hc _ i hi
    have e3 : sheetRows exRoot = [exRow] := rfl
    rw [e3] at hrow; simp only [List.mem_singleton] at hrow; subst hrow
    have e4 : exRow.kids "c" = [exC] := rfl
    rw [e4] at hc; simp only [List.mem_singleton] at hc; subst hc
    have e5 : ((exC.kid? "v").map (·.ownText)).bind natOf = some 1 := rfl
    rw [e5] at hi; injection hi with hi
    simp only [List.length_cons, List.length_nil]; omega

/-- the hypotheses `C11_save_concrete_sheet` adds to those of `C11_untouched_decodes` (shown satisfiable on `exPkg`,
    `exOps` in `C11Save.lean`) are jointly satisfiable there, for the raw sheet B at position 0 (a DEGENERATE
    realisation: standard names, no part parses; a realisation with real trees is what the tie supplies) -/
example : ∃ R : Realisation Nat,
    (∀ k, R.text (.sheet k) = String.ofList (Umya.PackageNode.sheetPartL k)) ∧
    (∀ k, R.text (.rels (.sheet k)) = String.ofList (Umya.PackageNode.sheetRelsL k)) ∧
    Realises R (xLookup exPkg) [] ∧ Realises R (lookupPart (save witnessCodec (run witnessCodec exBook0 exOps)).parts) [] ∧
    ((run witnessCodec exBook0 exOps).sheets[0]?).map (fun s => match s.body with | .raw r => some r.file | .loaded _ => none) = some (some (.sheet 2)) := by
  refine ⟨⟨fun m => match m with
      | .sheet k => String.ofList (Umya.PackageNode.sheetPartL k)
      | .rels (.sheet k) => String.ofList (Umya.PackageNode.sheetRelsL k)
      | _ => "?", fun _ => none, fun _ => []⟩, fun _ => rfl, fun _ => rfl, ?_, ?_, ?_⟩
  · intro m; cases xLookup (C := Nat) exPkg m <;> rfl
  · intro m; cases lookupPart (save witnessCodec (run witnessCodec exBook0 exOps)).parts m <;> rfl
  · decide

end Concrete

end Umya.Thm.C11
