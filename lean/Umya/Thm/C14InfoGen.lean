/-
  C14 — the composition with the translator tie: the two streams the COMPILED `encrypt_parts` (regenerated from the
  current source on every run, `Thm/C14Gen.lean` `C14_encrypt_parts_matches_source`) returns are read back by the
  specification's stream reader to the package.  One statement from source text to decrypted bytes; nothing new is
  proved here beyond chaining `C14_encrypt_parts_matches_source` with `C14_decrypts_text`.
-/
import Umya.Thm.C14Gen
import Umya.Thm.C14Info
namespace Umya.Thm.C14
open Umya.Crypt Umya.Crypto Umya.Gen
open Umya.Spec.Agile (decryptFile)

/-- **From the source to the package.**  For every package (< 4 GiB), password and random material of the sizes
    `gen_random_*` return: `encrypt_parts` as compiled from the source returns two byte strings — the EncryptionInfo and
    EncryptedPackage stream contents — and the independent reader of the two streams (XML reader, verifier, key unwrap,
    HMAC, segment decryption) returns the package from them.  Hypotheses on the primitives as in `C14_decrypts_text`. -/
theorem C14_source_streams_decrypt (P : Prims) (hP : P.Lawful) (hb : B64Plain P) (data : Bytes) (pw : List Char)
    (ρ : Randoms) (hρ : ρ.wellFormed) (hn : data.length < 4294967296) :
    ∃ infoStream pkgStream,
      crypt_encrypt_parts (List Char) P.b64 (cryptOf P) (draws16 ρ) (fun _ => ρ.packageKey) (fun _ => ρ.hmacKey) (hmacOf P)
        P.sha512 [] shaUpd xmlBytes xmlDecl xmlEndTag [] xmlNewLine xmlStartTag data pw = some (infoStream, pkgStream) ∧
      decryptFile P infoStream pkgStream pw = some data := by
  obtain ⟨info, pkg, he, hd⟩ := C14_decrypts_text P hP hb data pw ρ hρ hn
  refine ⟨buildEncryptionInfo info, pkg, ?_, hd⟩
  rw [C14_encrypt_parts_matches_source, he]
  rfl

/-- the hypotheses are satisfiable (see `Thm/C14Info.lean`) -/
example : toy64.Lawful ∧ B64Plain toy64 ∧ toyRandoms.wellFormed := ⟨toy64_lawful, toy64_plain, toyRandoms_wf⟩

end Umya.Thm.C14
