/-
  C02, workbook level — `xl/workbook.xml` and `xl/_rels/workbook.xml.rels` as trees.

  `Umya/Model/WorkbookNode.lean` renders what `writer/xlsx/workbook.rs` and `workbook_rels.rs` write as far as
  the independent decoder reads it (`<sheets>`, `<definedNames>`, the worksheet relationships).  The theorem
  below says what `Umya.Spec.Sml.decode` returns on a package holding these trees: the sheet list (names in
  order, visibility), each sheet's body as decoded from the part its `r:id` leads to through
  workbook.xml.rels, the defined names, and no diagnostic about sheet names, sheet ids, unresolved sheet
  relationships, sheet bodies or defined-name scopes.

  PARTIAL, and why.  Full statement (section 3 of DESIGN.md):
      decode (writePackage wb) = (some (view wb), [])
  What is missing here: (1) the package-level diagnostics `dEPkg` (every part has a content type, every XML
  part parses, relationship ids unique, internal relationship targets exist) and `dE3` (activeTab inside the
  sheet list) stay in the result, they are validated per file; (2) the path algebra of OPC
  (`resolveTarget`, `relsNameOf`: operations on `String`) is a hypothesis (`hpath`: the target
  `worksheets/sheetK.xml` resolves, relative to the workbook part, to the name under which the K-th sheet part
  is stored), evaluated by the tie on every real package, not proved for symbolic K; (3) the sheet bodies come
  from `C02_sheet_decodes` (hypothesis `hsheet` is exactly its conclusion).
-/
import Umya.Lemmas.WorkbookNode
import Umya.Thm.C02Sheet
namespace Umya.Thm.C02
open Umya.WorkbookNode Umya.SheetNode
open Umya.Spec.Sml
open Umya.Spec.Xml (Node Attr)

/-- the sheet list the decoder must return: per sheet its name, its state (`visible` when none is written)
    and the body decoded from the K-th sheet part, K = 1-based position -/
def sheetVs (body : Nat → SheetBody) : Nat → List SheetE → List SheetV
  | _, [] => []
  | k, s :: ss =>
    SheetV.mk s.name (str (s.state.getD ['v', 'i', 's', 'i', 'b', 'l', 'e'])) (body k).cells (body k).merges (body k).links (body k).cols
      (body k).rows (body k).tables (body k).noR :: sheetVs body (k + 1) ss

theorem sheetOf_rendered (p : Package) (wbPath : String) (n : Nat) (rest : List Node)
    (hr : (p.part? (relsNameOf wbPath)).bind (·.xml) = some (workbookRelsNode n rest))
    (path : Nat → String) (body : Nat → SheetBody) (k : Nat) (hk1 : 1 ≤ k) (hk2 : k ≤ n) (s : SheetE)
    (hpath : resolveTarget wbPath (str (sheetTarget k)) = path k)
    (hsheet : decodeSheet p (path k) (dSst p wbPath) (dNXf p wbPath) (dNDxf p wbPath) = (body k, [])) :
    sheetOf p wbPath (sheetEl k s) =
      (SheetV.mk s.name (str (s.state.getD ['v', 'i', 's', 'i', 'b', 'l', 'e'])) (body k).cells (body k).merges (body k).links (body k).cols
        (body k).rows (body k).tables (body k).noR, []) := by
  have hfind := ws_find ((rest.filter (Umya.CellNode.isKid nRelationship)).map relOf) n 1 [] k (by simp) hk1 (by omega)
  rw [List.nil_append, ← relsOf_workbook p wbPath n rest hr] at hfind
  have hname : (sheetEl k s).attr? ['n', 'a', 'm', 'e'] = some s.name := by simp [sheetEl, Node.attr?, Node.attrs]
  have hrid : (sheetEl k s).attr? ['r', ':', 'i', 'd'] = some (rIdText k) := by simp [sheetEl, Node.attr?, Node.attrs]
  have hstate : (sheetEl k s).attr? ['s', 't', 'a', 't', 'e'] = s.state := by
    cases hs : s.state <;> simp [sheetEl, Node.attr?, Node.attrs, hs]
  unfold sheetOf
  simp only [hname, hrid, hstate, Option.bind_some, hfind, hpath, hsheet, Option.getD_some]

theorem sheetsE_rendered (p : Package) (wbPath : String) (n : Nat) (rest : List Node)
    (hr : (p.part? (relsNameOf wbPath)).bind (·.xml) = some (workbookRelsNode n rest))
    (path : Nat → String) (body : Nat → SheetBody)
    (hpath : ∀ k, 1 ≤ k → k ≤ n → resolveTarget wbPath (str (sheetTarget k)) = path k)
    (hsheet : ∀ k, 1 ≤ k → k ≤ n → decodeSheet p (path k) (dSst p wbPath) (dNXf p wbPath) (dNDxf p wbPath) = (body k, [])) :
    ∀ (ss : List SheetE) (k : Nat), 1 ≤ k → k + ss.length ≤ n + 1 →
      (sheetEls k ss).map (sheetOf p wbPath) = (sheetVs body k ss).map (fun v => (v, [])) := by
  intro ss
  induction ss with
  | nil => intro _ _ _; rfl
  | cons s ss ih =>
    intro k hk1 hk2
    simp only [List.length_cons] at hk2
    simp only [sheetEls, sheetVs, List.map_cons]
    rw [sheetOf_rendered p wbPath n rest hr path body k hk1 (by omega) s (hpath k hk1 (by omega)) (hsheet k hk1 (by omega)),
      ih (k + 1) (by omega) (by omega)]

/-- THE WORKBOOK (partial, see the header).  In a package whose main relationship leads to the rendered
    workbook part, whose workbook relationships part is the rendered one, whose sheet names are distinct
    (`namesDistinct`, the decoder's case-insensitive comparison) and whose defined-name scopes lie inside the
    sheet list, the independent decoder returns the sheet list in order — name, visibility, and for the K-th
    sheet the body decoded from the part its `r:id` resolves to (the conclusion of `C02_sheet_decodes`) —
    and the defined names (name, scope, address) in order; the diagnostics that remain are the package-level
    ones and the activeTab one: nothing about sheet names, sheet ids, unresolved `r:id`s, sheet bodies or
    defined-name scopes.  Any number of sheets and names. -/
theorem C02_book_decodes_partial (p : Package) (mr : Rel) (fr : WbFrame) (ss : List SheetE) (ds : List NameE) (rest : List Node)
    (h1 : (relsOf p "").find? (fun r => r.type.endsWith "/officeDocument") = some mr)
    (h2 : (p.part? (resolveTarget "" mr.target)).bind (·.xml) = some (workbookNode fr ss ds))
    (h3 : (p.part? (relsNameOf (resolveTarget "" mr.target))).bind (·.xml) = some (workbookRelsNode ss.length rest))
    (hfr : fr.ok = true) (hnames : namesDistinct ss = true)
    (hscope : ∀ d ∈ ds, ∀ i, d.localSheetId = some i → i < ss.length)
    (path : Nat → String) (body : Nat → SheetBody)
    (hpath : ∀ k, 1 ≤ k → k ≤ ss.length → resolveTarget (resolveTarget "" mr.target) (str (sheetTarget k)) = path k)
    (hsheet : ∀ k, 1 ≤ k → k ≤ ss.length →
      decodeSheet p (path k) (dSst p (resolveTarget "" mr.target)) (dNXf p (resolveTarget "" mr.target)) (dNDxf p (resolveTarget "" mr.target)) = (body k, [])) :
    ∃ b : BookV, decode p = (some b, dEPkg p ++ dE3 (workbookNode fr ss ds)) ∧
      b.sheets = sheetVs body 1 ss ∧ b.names = ds.map nameView := by
  obtain ⟨b, hdec, hsheets, hnamesV, _⟩ := decode_anatomy p mr (workbookNode fr ss ds) h1 h2
  have hels := dSheetEls_rendered fr ss ds hfr
  have hse : dSheetsE p (resolveTarget "" mr.target) (workbookNode fr ss ds) = (sheetVs body 1 ss).map (fun v => (v, [])) := by
    unfold dSheetsE
    rw [hels]
    exact sheetsE_rendered p _ ss.length rest h3 path body hpath hsheet ss 1 (by omega) (by omega)
  have he1 : dE1 (workbookNode fr ss ds) = [] := by
    unfold dE1
    rw [hels, sheetEls_names]
    unfold namesDistinct at hnames
    simp only [decide_eq_true_eq] at hnames
    simp only [List.map_map, List.length_map, Function.comp_def] at hnames ⊢
    rw [if_pos hnames]
  have he2 : dE2 (workbookNode fr ss ds) = [] := by
    unfold dE2
    rw [hels, sheetEls_ids, sheetEls_length, eraseDups_nodup _ (ids_nodup _ _)]
    simp
  have he4 : dE4 (workbookNode fr ss ds) = [] := by
    unfold dE4
    rw [dNames_rendered fr ss ds hfr, hels, sheetEls_length]
    apply List.filterMap_eq_nil_iff.2
    intro v hv
    obtain ⟨d, hd, rfl⟩ := List.mem_map.1 hv
    cases hsc : d.localSheetId with
    | none => simp [nameView, hsc]
    | some i => simp [nameView, hsc, hscope d hd i hsc]
  refine ⟨b, ?_, ?_, ?_⟩
  · rw [hdec, he1, he2, he4, hse]
    have : ((sheetVs body 1 ss).map (fun v => (v, ([] : List String)))).flatMap (·.2) = [] := by
      generalize sheetVs body 1 ss = l
      induction l with
      | nil => rfl
      | cons v l ih => simp only [List.map_cons, List.flatMap_cons, ih]; rfl
    rw [this]
    simp
  · rw [hsheets, hse, List.map_map]
    exact List.map_id' _
  · rw [hnamesV, dNames_rendered fr ss ds hfr]

theorem nodup_map_inj {α β} (f : α → β) (hf : ∀ a b, f a = f b → a = b) : ∀ l : List α, l.Nodup → (l.map f).Nodup := by
  intro l
  induction l with
  | nil => intro _; simp
  | cons a as ih =>
    intro h
    have ha := List.nodup_cons.1 h
    rw [List.map_cons, List.nodup_cons]
    refine ⟨?_, ih ha.2⟩
    intro hm
    obtain ⟨b, hb, he⟩ := List.mem_map.1 hm
    have := hf b a he
    subst this
    exact ha.1 hb

theorem lower_str (a : List Char) : (str a).toLower = String.ofList (a.map Char.toLower) := by
  rw [← String.ofList_toList (s := (str a).toLower)]
  simp [String.toLower, str, String.toList_map]

/-- sheet names whose lower-case forms are pairwise different are distinct for the decoder -/
theorem namesDistinct_of_nodup (ss : List SheetE) (h : (ss.map (fun s => s.name.map Char.toLower)).Nodup) : namesDistinct ss = true := by
  unfold namesDistinct
  have hn : (ss.map (fun s => (str s.name).toLower)).Nodup := by
    have : ss.map (fun s => (str s.name).toLower) = (ss.map (fun s => s.name.map Char.toLower)).map String.ofList := by
      simp [List.map_map, lower_str, Function.comp_def]
    rw [this]
    exact nodup_map_inj _ (fun _ _ h => String.ofList_injective h) _ h
  rw [eraseDups_nodup _ hn]
  simp

/-- where the code violates the uniqueness clause: `Spreadsheet::new_sheet` compares titles exactly, so the
    titles `A` and `a` are both accepted (and `Worksheet::set_name` checks nothing); the decoder — like the
    applications, which compare sheet names case-insensitively — reports them as not unique -/
theorem C02_sheet_names_case_fails :
    namesDistinct [{ name := ['A'] }, { name := ['a'] }] = false ∧
    dE1 (workbookNode {} [{ name := ['A'] }, { name := ['a'] }] []) = ["sheet names are not unique"] := by
  have hl : (str ['A']).toLower = "a" ∧ (str ['a']).toLower = "a" := by
    rw [lower_str, lower_str]; decide
  have hels := dSheetEls_rendered {} [{ name := ['A'] }, { name := ['a'] }] [] (by decide)
  constructor
  · simp only [namesDistinct, List.map_cons, List.map_nil, hl.1, hl.2]; decide
  · unfold dE1
    rw [hels, sheetEls_names]
    simp only [List.map_cons, List.map_nil, hl.1, hl.2]
    decide

/-! ### non-vacuity -/

def demoSheets : List SheetE := [{ name := ['R', '&', 'D'] }, { name := ['I', 't', '\'', 's'], state := some ['h', 'i', 'd', 'd', 'e', 'n'] },
  { name := ['A', '1'], state := some ['v', 'i', 's', 'i', 'b', 'l', 'e'] }]
def demoNames : List NameE := [{ name := ['G', '1'], address := ['\'', 'I', 't', '\'', '\'', 's', '\'', '!', '$', 'C', '$', '3'] },
  { name := ['L', '1'], localSheetId := some 1, address := [] }]
def demoWbFrame : WbFrame := { pre := [.elem ['b', 'o', 'o', 'k', 'V', 'i', 'e', 'w', 's'] [] []], post := [.elem ['c', 'a', 'l', 'c', 'P', 'r'] [] []] }

example : demoWbFrame.ok = true ∧ namesDistinct demoSheets = true ∧ (∀ d ∈ demoNames, ∀ i, d.localSheetId = some i → i < demoSheets.length) :=
  ⟨by decide, namesDistinct_of_nodup _ (by decide), by decide⟩

example : (sheetVs (fun _ => {}) 1 demoSheets).map (fun v => (String.ofList v.name, v.state)) = [("R&D", "visible"), ("It's", "hidden"), ("A1", "visible")] ∧
    (demoNames.map nameView).map (fun v => (String.ofList v.name, v.scope, String.ofList v.text)) = [("G1", none, "'It''s'!$C$3"), ("L1", some 1, "")] := by
  decide

end Umya.Thm.C02
