/-
  C17 — tie to the source (T), regular expressions: the coordinate regex of helper/coordinate.rs (the one place where the
  tie of `index_from_coordinate` is behavioural: `Umya/Model/Coord.lean` has a hand-written matcher for it), the `is_address`
  regex of helper/address.rs and the quoting test of structs/address.rs are, in the CURRENT source, the expressions the
  model's matchers were written for.
-/
import Umya.Lemmas.RegexGen
namespace Umya.Thm.C17

/-- **Tie to the source (T).**  The texts of the three regular expressions of the coordinate / address codecs,
    regenerated from the source on every run, are the ones recorded next to the model's matchers
    (`Umya/Model/RegexTexts.lean`).  A changed expression breaks this obligation; that each matcher behaves like its
    expression is tied by the C17 correspondence stream (10^5 arbitrary strings per run against the real regex). -/
theorem C17_regex_matches_source :
    Umya.Gen.regex_literals = Umya.RegexTexts.texts ∧
    ("src/helper/coordinate.rs#0", "((\\$)?([A-Z]{1,3}))?((\\$)?([0-9]+))?") ∈ Umya.Gen.regex_literals ∧
    ("src/helper/address.rs#0", "^([^\\:\\\\\\?\\[\\]\\/\\*]+\\!)?(\\$?[A-Z]{1,3}\\$?[0-9]+)(\\:\\$?[A-Z]{1,3}\\$?[0-9]+)?$") ∈ Umya.Gen.regex_literals ∧
    ("src/structs/address.rs#0", "[^0-9a-zA-Z]") ∈ Umya.Gen.regex_literals := by
  refine ⟨Umya.Gen.gen_regex_texts, ?_, ?_, ?_⟩ <;> (rw [Umya.Gen.gen_regex_texts]; decide)

end Umya.Thm.C17
