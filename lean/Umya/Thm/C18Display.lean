/-
  C18 — "Cells formatted with a date format display the calendar date of their serial."

  Scope.  Format codes that are lists of the tokens `yyyy yy mmm mm m dd d hh h mm(minutes) ss` and the
  separators `- / : . ,` blank (`Umya.Lemmas.DateDisplay.Tok`), and that the code reads the way the tokens
  mean: `SimpleDateCode toks` — decidable; it runs the model of `format_as_date`'s replacement tables
  (`strftimeOf`; the tables are those of date_formater.rs, `C18_tables_match_source`) on the text of the
  list and compares the strftime string with the token-by-token specifiers, which is where the month /
  minute reading of `mm` (`:mm`, `mm:` ↦ minutes, else month) is decided.  Built-in number formats in the
  class: 14 `m/d/yyyy`, 15 `d-mmm-yy`, 16 `d-mmm`, 17 `mmm-yy`, 20 `h:mm`, 21 `h:mm:ss`,
  22 `m/d/yyyy h:mm`, 30 `m/d/yy`, 45 `mm:ss` (checked below); not in it: 18, 19 (AM/PM), 46 (`[h]`),
  47 (`.0`), the bracketed / quoted East-Asian codes.  `mm` alone or next to other letters only is
  month; a list in which the code reads some `mm` differently from the list is not in the class
  (example below).

  Statement.  For every code of the class and every serial whose day/time split is day number `n`
  (1899-12-31 … 9999-12-31) and second `T` — by `C18_time_float_near` every finite float within
  `2958469·2⁻⁵³` of `D + T/86400`, by `C18_convert_epoch_float` every result of `convert_date` — the
  text is, token by token, the field the token names of `civilFromDays n` and of `T`
  (`showToks (civilDateTime n T) toks`), trimmed of blanks at both ends as `to_formatted_string` does
  (`C18_date_display_notrim`: nothing is trimmed when the code neither starts nor ends with a blank).

  chrono's `strftime` is outside the model: `Umya.Date.strftime` stands for it (trusted, compared with
  the implementation on every code of `SIMPLE_CODES` in harness/src/c18.rs on every run).  The regex
  stages of `to_formatted_string` / `format_as_date` are the identity on these codes (assumption of the
  model, sampled by the same stream).
-/
import Umya.Thm.C18Float
import Umya.Lemmas.DateDisplay
namespace Umya.Thm.C18
open Umya.Date Umya.Date.FloatOps Umya.Spec.Calendar Umya.Lemmas.Calendar Umya.Lemmas.FloatStd
open Umya.Lemmas.DateDisplay

/-- token lists that `format_as_date` reads the way the tokens mean (decidable) -/
def SimpleDateCode (toks : List Tok) : Prop := simpleCode toks = true

instance (toks : List Tok) : Decidable (SimpleDateCode toks) := by unfold SimpleDateCode; infer_instance

/-- **Display, from the second count, codes with `AM/PM` included (partial).**  FULL statement wanted: the
    conclusion with `showToks` (Excel's rule: the marker is `AM` / `PM`).  Proved: the conclusion with
    `showToksCode`, which differs from `showToks` in one place only — the marker is `am` / `pm` (the code maps
    `am/pm` to chrono's `%P`; refuted for `showToks` by `C18_ampm_case_fails`).  The 12-hour clock itself
    (`h12` / `hh12`: 0 and 12 o'clock ↦ 12, 13…23 ↦ 1…11; the code reads `h` so exactly when the marker is
    present) and AM-before-noon are as Excel's rule says.  If the (checked) day/time split of the cell's number is day
    number `n` (1899-12-31 … 9999-12-31 in the reference calendar) and second `T`, a cell whose format is
    a `SimpleDateCode` shows, token by token, the year / month / day of `civilFromDays n` and the hour /
    minute / second of `T`. -/
theorem C18_date_display_ampm_partial {F : Type} [FloatOps F] (toks : List Tok) (hc : SimpleDateCode toks)
    (g : List Char) (ts : F) (n T : Int)
    (h0 : daysFromCivil 1899 12 31 ≤ n) (h1 : n ≤ daysFromCivil 9999 12 31) (hT : 0 ≤ T ∧ T < 86400)
    (hts : excelToEpochSecondsChecked ts = some (n * 86400 + T)) :
    formatAsDateChecked (codeText toks) g ts = some (trimBlanks (showToksCode (civilDateTime n T) toks)) := by
  obtain ⟨sf, e1, e2⟩ := render_toks toks hc n T h0 h1 hT
  unfold formatAsDateChecked
  rw [e1]
  simp only [hts, e2, Option.map_some]

/-- **Display, from the second count** — every `SimpleDateCode` without the `AM/PM` marker (month and weekday
    names included): the text is token by token what Excel's rule says (`showToks`). -/
theorem C18_date_display {F : Type} [FloatOps F] (toks : List Tok) (hc : SimpleDateCode toks)
    (hp : toks.contains .ampm = false) (g : List Char) (ts : F) (n T : Int)
    (h0 : daysFromCivil 1899 12 31 ≤ n) (h1 : n ≤ daysFromCivil 9999 12 31) (hT : 0 ≤ T ∧ T < 86400)
    (hts : excelToEpochSecondsChecked ts = some (n * 86400 + T)) :
    formatAsDateChecked (codeText toks) g ts = some (trimBlanks (showToks (civilDateTime n T) toks)) := by
  rw [C18_date_display_ampm_partial toks hc g ts n T h0 h1 hT hts, showToksCode_eq _ toks hp]

/-- the same for the unguarded function the C18 driver executes (`formatAsDate`) -/
theorem C18_date_display_unchecked {F : Type} [FloatOps F] (toks : List Tok) (hc : SimpleDateCode toks)
    (hp : toks.contains .ampm = false) (ts : F) (n T : Int)
    (h0 : daysFromCivil 1899 12 31 ≤ n) (h1 : n ≤ daysFromCivil 9999 12 31) (hT : 0 ≤ T ∧ T < 86400)
    (hts : excelToEpochSeconds ts = n * 86400 + T) :
    formatAsDate (codeText toks) ts = some (trimBlanks (showToks (civilDateTime n T) toks)) := by
  obtain ⟨sf, e1, e2⟩ := render_toks toks hc n T h0 h1 hT
  unfold formatAsDate excelToDateTime
  rw [e1]
  simp only [hts, e2, Option.map_some, showToksCode_eq _ toks hp]

section
variable {F : Type} [FloatOps F] {val : F → ℚ} {fin : F → Prop}

/-- **Display of a serial, `f64` arithmetic under the standard model.**  For every finite float within
    `2958469·2⁻⁵³` of `D + T/86400` (`61 ≤ D ≤ 2958465`: 1900-03-01 … 9999-12-31; `T < 86400`) the text
    of a `SimpleDateCode` is the calendar date `1899-12-30 + D days` and the time of day `T`. -/
theorem C18_date_display_float (h : StdModel F val fin) (toks : List Tok) (hc : SimpleDateCode toks)
    (hp : toks.contains .ampm = false) (g : List Char) (ts : F) (fts : fin ts) (D T : Int) (hD : 61 ≤ D ∧ D ≤ 2958465)
    (hT : 0 ≤ T ∧ T < 86400)
    (he : |val ts - ((D : ℚ) + (T : ℚ) / 86400)| ≤ 2958469 / 2 ^ 53) :
    formatAsDateChecked (codeText toks) g ts =
      some (trimBlanks (showToks (civilDateTime (daysFromCivil 1899 12 30 + D) T) toks)) := by
  have e1 : daysFromCivil 1899 12 30 = -25569 := by decide
  have e2 : daysFromCivil 1899 12 31 = -25568 := by decide
  have e3 : daysFromCivil 9999 12 31 = 2932896 := by decide
  exact C18_date_display toks hc hp g ts _ T (by omega) (by omega) hT (C18_time_float_near h ts fts D T hD hT he).2

/-- the same with the `AM/PM` marker allowed (partial: marker in lower case, see `C18_date_display_ampm_partial`) -/
theorem C18_date_display_ampm_float_partial (h : StdModel F val fin) (toks : List Tok) (hc : SimpleDateCode toks)
    (g : List Char) (ts : F) (fts : fin ts) (D T : Int) (hD : 61 ≤ D ∧ D ≤ 2958465)
    (hT : 0 ≤ T ∧ T < 86400)
    (he : |val ts - ((D : ℚ) + (T : ℚ) / 86400)| ≤ 2958469 / 2 ^ 53) :
    formatAsDateChecked (codeText toks) g ts =
      some (trimBlanks (showToksCode (civilDateTime (daysFromCivil 1899 12 30 + D) T) toks)) := by
  have e1 : daysFromCivil 1899 12 30 = -25569 := by decide
  have e2 : daysFromCivil 1899 12 31 = -25568 := by decide
  have e3 : daysFromCivil 9999 12 31 = 2932896 := by decide
  exact C18_date_display_ampm_partial toks hc g ts _ T (by omega) (by omega) hT
    (C18_time_float_near h ts fts D T hD hT he).2

/-- **Display of a date written by `convert_date`** (worker; `AM/PM` allowed, marker in lower case — partial
    as `C18_date_display_ampm_partial`).  For every date of the 1900 system and every time of
    day, the cell that holds `convert_date y m d hh mi s` and has a `SimpleDateCode` format shows, token by
    token, `y m d hh mi s` themselves (standard-model floats; 1900-01-01T00:00:00 under correct rounding). -/
theorem C18_date_display_ampm_convert_partial (h : StdModel F val fin) (toks : List Tok) (hc : SimpleDateCode toks)
    (g : List Char) (y m d hh mi s : Int) (hd : InDomain y m d) (ht : ValidTime hh mi s)
    (hx : ExactRepr F val fin ∨ ¬ (y = 1900 ∧ m = 1 ∧ d = 1 ∧ hh = 0 ∧ mi = 0 ∧ s = 0)) :
    ∃ ts : F, convertDateF F y m d hh mi s = some ts ∧
      formatAsDateChecked (codeText toks) g ts =
        some (trimBlanks (showToksCode ⟨y, m, d, hh, mi, s, daysFromCivil y m d⟩ toks)) := by
  obtain ⟨ts, e1, _, e3⟩ := C18_convert_epoch_float h y m d hh mi s hd ht hx
  refine ⟨ts, e1, ?_⟩
  obtain ⟨a0, a1, b0, b1, c0, c1⟩ := ht
  have hlo : daysFromCivil 1899 12 31 ≤ daysFromCivil y m d :=
    Int.le_of_lt (daysFromCivil_strictMono 1899 12 31 y m d (by decide) hd.1 (Or.inl (by show 1899 < y; have := hd.2.1; omega)))
  have hhi : daysFromCivil y m d ≤ daysFromCivil 9999 12 31 := by
    by_cases hq : y = 9999 ∧ m = 12 ∧ d = 31
    · obtain ⟨rfl, rfl, rfl⟩ := hq; exact Int.le_refl _
    · have hd31 : d ≤ 31 := by
        have := hd.1.2.2.2
        have h31 : daysInMonth y m ≤ 31 := by
          unfold daysInMonth; split
          · omega
          · split
            · omega
            · split
              · split <;> omega
              · omega
        omega
      have hy1 := hd.2.2
      have hm1 := hd.1.2.1
      have : dateLt (y, m, d) (9999, 12, 31) := by
        unfold dateLt; simp only
        by_cases hy : y < 9999
        · exact Or.inl hy
        · refine Or.inr ⟨by omega, ?_⟩
          by_cases hm : m < 12
          · exact Or.inl hm
          · exact Or.inr ⟨by omega, by omega⟩
      exact Int.le_of_lt (daysFromCivil_strictMono _ _ _ _ _ _ hd.1 (by decide) this)
  rw [C18_date_display_ampm_partial toks hc g ts (daysFromCivil y m d) (hh * 3600 + mi * 60 + s) hlo hhi
    ⟨by omega, by omega⟩ e3]
  unfold civilDateTime
  have r1 : (hh * 3600 + mi * 60 + s) / 3600 = hh := by omega
  have r2 : (hh * 3600 + mi * 60 + s) % 3600 / 60 = mi := by omega
  have r3 : (hh * 3600 + mi * 60 + s) % 60 = s := by omega
  simp only [r1, r2, r3, civilFromDays_daysFromCivil y m d hd.1]

/-- **Display of a date written by `convert_date`**, codes without the `AM/PM` marker: token by token
    `y m d hh mi s` themselves, month and weekday names included (Excel's rule, `showToks`). -/
theorem C18_date_display_convert (h : StdModel F val fin) (toks : List Tok) (hc : SimpleDateCode toks)
    (hp : toks.contains .ampm = false)
    (g : List Char) (y m d hh mi s : Int) (hd : InDomain y m d) (ht : ValidTime hh mi s)
    (hx : ExactRepr F val fin ∨ ¬ (y = 1900 ∧ m = 1 ∧ d = 1 ∧ hh = 0 ∧ mi = 0 ∧ s = 0)) :
    ∃ ts : F, convertDateF F y m d hh mi s = some ts ∧
      formatAsDateChecked (codeText toks) g ts =
        some (trimBlanks (showToks ⟨y, m, d, hh, mi, s, daysFromCivil y m d⟩ toks)) := by
  obtain ⟨ts, e1, e2⟩ := C18_date_display_ampm_convert_partial h toks hc g y m d hh mi s hd ht hx
  exact ⟨ts, e1, by rw [e2, showToksCode_eq _ toks hp]⟩

end

/-- a code that neither starts nor ends with a blank: the trimming of `to_formatted_string` changes
    nothing, the text IS the token-by-token text -/
theorem C18_date_display_notrim (toks : List Tok) (hc : SimpleDateCode toks) (hne : toks ≠ [])
    (h1 : toks.head? ≠ some (.lit ' ')) (h2 : toks.getLast? ≠ some (.lit ' ')) (n T : Int) :
    trimBlanks (showToks (civilDateTime n T) toks) = showToks (civilDateTime n T) toks := by
  unfold SimpleDateCode simpleCode at hc
  simp only [Bool.and_eq_true] at hc
  have hv := civilFromDays_valid n
  exact trimBlanks_showToks (civilDateTime n T) ⟨hv.1, hv.2.1⟩ toks hc.1 hne h1 h2

theorem C18_date_display_ampm_notrim (toks : List Tok) (hc : SimpleDateCode toks) (hne : toks ≠ [])
    (h1 : toks.head? ≠ some (.lit ' ')) (h2 : toks.getLast? ≠ some (.lit ' ')) (n T : Int) :
    trimBlanks (showToksCode (civilDateTime n T) toks) = showToksCode (civilDateTime n T) toks := by
  unfold SimpleDateCode simpleCode at hc
  simp only [Bool.and_eq_true] at hc
  have hv := civilFromDays_valid n
  exact trimBlanks_showToksCode (civilDateTime n T) ⟨hv.1, hv.2.1⟩ toks hc.1 hne h1 h2

open Tok in
/-- **`yyyy-mm-dd`, spelled out.**  A cell with the format `yyyy-mm-dd` whose number splits into day number
    `n` (1899-12-31 … 9999-12-31) and second `T` shows the four-digit year, `-`, the two-digit month, `-`,
    the two-digit day of the calendar date `civilFromDays n`. -/
theorem C18_date_display_iso {F : Type} [FloatOps F] (g : List Char) (ts : F) (n T : Int)
    (h0 : daysFromCivil 1899 12 31 ≤ n) (h1 : n ≤ daysFromCivil 9999 12 31) (hT : 0 ≤ T ∧ T < 86400)
    (hts : excelToEpochSecondsChecked ts = some (n * 86400 + T)) :
    formatAsDateChecked "yyyy-mm-dd".toList g ts =
      some (pad4 (civilFromDays n).1 ++ '-' :: (pad2 (civilFromDays n).2.1 ++ '-' :: pad2 (civilFromDays n).2.2)) := by
  have hc : SimpleDateCode [yyyy, lit '-', mm, lit '-', dd] := by decide
  have e := C18_date_display [yyyy, lit '-', mm, lit '-', dd] hc (by decide) g ts n T h0 h1 hT hts
  rw [C18_date_display_notrim _ hc (by decide) (by decide) (by decide)] at e
  have ec : codeText [yyyy, lit '-', mm, lit '-', dd] = "yyyy-mm-dd".toList := by decide
  rw [ec] at e
  rw [e]
  simp [showToks, tokShow, civilDateTime]

/-! ## the codes of the class (kernel evaluation of the replacement tables), and one outside it -/

open Tok in
/-- the codes exercised by `SIMPLE_CODES` of harness/src/c18.rs, with the built-in ids among them -/
theorem C18_simple_codes :
    SimpleDateCode [yyyy, lit '-', mm, lit '-', dd] ∧                                   -- yyyy-mm-dd
    SimpleDateCode [yyyy, lit '-', mm, lit '-', dd, lit ' ', hh, lit ':', mi, lit ':', ss] ∧  -- yyyy-mm-dd hh:mm:ss
    SimpleDateCode [dd, lit '/', mm, lit '/', yyyy] ∧                                   -- dd/mm/yyyy
    SimpleDateCode [yyyy, lit '/', mm, lit '/', dd] ∧                                   -- yyyy/mm/dd
    SimpleDateCode [m, lit '/', d, lit '/', yyyy] ∧                                     -- 14  m/d/yyyy
    SimpleDateCode [d, lit '-', mmm, lit '-', yy] ∧                                     -- 15  d-mmm-yy
    SimpleDateCode [d, lit '-', mmm] ∧                                                  -- 16  d-mmm
    SimpleDateCode [mmm, lit '-', yy] ∧                                                 -- 17  mmm-yy
    SimpleDateCode [h, lit ':', mi] ∧                                                   -- 20  h:mm
    SimpleDateCode [h, lit ':', mi, lit ':', ss] ∧                                      -- 21  h:mm:ss
    SimpleDateCode [m, lit '/', d, lit '/', yyyy, lit ' ', h, lit ':', mi] ∧            -- 22  m/d/yyyy h:mm
    SimpleDateCode [m, lit '/', d, lit '/', yy] ∧                                       -- 30  m/d/yy
    SimpleDateCode [mi, lit ':', ss] ∧                                                  -- 45  mm:ss
    SimpleDateCode [d, lit '/', m, lit '/', yy] ∧                                       -- d/m/yy
    SimpleDateCode [dd, lit '-', mm, lit '-', yyyy] ∧                                   -- dd-mm-yyyy
    SimpleDateCode [mm, lit '-', dd, lit '-', yy] ∧                                     -- mm-dd-yy
    SimpleDateCode [m, lit '/', d, lit '/', yy, lit ' ', h, lit ':', mi] ∧              -- m/d/yy h:mm
    SimpleDateCode [dd, lit '.', mm, lit '.', yyyy, lit ',', lit ' ', hh, lit ':', mi] := by  -- dd.mm.yyyy, hh:mm
  decide

open Tok in
example : codeText [yyyy, lit '-', mm, lit '-', dd, lit ' ', hh, lit ':', mi, lit ':', ss] =
    "yyyy-mm-dd hh:mm:ss".toList := by decide

open Tok in
/-- not every token list is in the class: the code reads a lone `mm` as month, never as minutes, and
    `hh mm` (blank, no colon) as hour and MONTH -/
example : ¬ SimpleDateCode [mi] ∧ ¬ SimpleDateCode [hh, lit ' ', mi] ∧ SimpleDateCode [hh, lit ' ', mm] := by
  decide

open Tok in
/-- non-vacuity of `C18_date_display_convert` and a concrete reading of its conclusion: exact rational
    arithmetic, 2021-06-02T05:04:02 under `yyyy-mm-dd hh:mm:ss` -/
example : ∃ ts : Rat, convertDateF Rat 2021 6 2 5 4 2 = some ts ∧
    formatAsDateChecked "yyyy-mm-dd hh:mm:ss".toList "44349.21113425926".toList ts =
      some "2021-06-02 05:04:02".toList := by
  obtain ⟨ts, e1, e2⟩ := C18_date_display_convert stdModel_rat
    [yyyy, lit '-', mm, lit '-', dd, lit ' ', hh, lit ':', mi, lit ':', ss] C18_simple_codes.2.1 (by decide)
    "44349.21113425926".toList 2021 6 2 5 4 2 (by decide) (by decide) (Or.inl exactRepr_rat)
  refine ⟨ts, e1, ?_⟩
  have e : codeText [yyyy, lit '-', mm, lit '-', dd, lit ' ', hh, lit ':', mi, lit ':', ss] =
      "yyyy-mm-dd hh:mm:ss".toList := by decide
  rw [e] at e2
  rw [e2]; decide +kernel

open Tok in
/-- and with rounding errors (`QUp`), built-in format 15 -/
example : ∃ ts : QUp, convertDateF QUp 2024 5 23 23 59 59 = some ts ∧
    formatAsDateChecked (codeText [d, lit '-', mmm, lit '-', yy]) [] ts = some "23-May-24".toList := by
  obtain ⟨ts, e1, e2⟩ := C18_date_display_convert stdModel_qup [d, lit '-', mmm, lit '-', yy]
    C18_simple_codes.2.2.2.2.2.1 (by decide) [] 2024 5 23 23 59 59 (by decide) (by decide) (Or.inr (by decide))
  exact ⟨ts, e1, by rw [e2]; decide +kernel⟩

/-! ## month names, weekday names, the 12-hour clock -/

open Tok in
/-- codes with names and with `AM/PM` in the class (kernel evaluation of the tables), built-in ids 18 and 19 among them -/
theorem C18_simple_codes_names :
    SimpleDateCode [h12, lit ':', mi, lit ' ', ampm] ∧                                   -- 18  h:mm AM/PM
    SimpleDateCode [h12, lit ':', mi, lit ':', ss, lit ' ', ampm] ∧                      -- 19  h:mm:ss AM/PM
    SimpleDateCode [hh12, lit ':', mi, lit ' ', ampm] ∧                                  -- hh:mm AM/PM
    SimpleDateCode [dddd, lit ',', lit ' ', mmmm, lit ' ', d, lit ',', lit ' ', yyyy] ∧  -- dddd, mmmm d, yyyy
    SimpleDateCode [ddd, lit ' ', d, lit ' ', mmm, lit ' ', yyyy] ∧                      -- ddd d mmm yyyy
    SimpleDateCode [mmmm, lit ' ', yyyy] ∧                                               -- mmmm yyyy
    SimpleDateCode [d, lit ' ', mmmm, lit ' ', yyyy] ∧                                   -- d mmmm yyyy
    SimpleDateCode [d, lit '-', mmm, lit '-', yy, lit ' ', h12, lit ':', mi, lit ' ', ampm] ∧  -- d-mmm-yy h:mm AM/PM
    SimpleDateCode [ddd, lit ' ', hh, lit ':', mi] := by                                 -- ddd hh:mm
  decide

open Tok in
/-- the code reads `h` as the 24-hour clock without the marker and as the 12-hour clock with it: the lists
    that say otherwise are not in the class -/
example : ¬ SimpleDateCode [h, lit ':', mi, lit ' ', ampm] ∧ ¬ SimpleDateCode [h12, lit ':', mi] := by decide

open Tok in
example : codeText [h12, lit ':', mi, lit ' ', ampm] = "h:mm AM/PM".toList ∧
    codeText [dddd, lit ',', lit ' ', mmmm, lit ' ', d, lit ',', lit ' ', yyyy] = "dddd, mmmm d, yyyy".toList := by
  decide

open Tok in
/-- non-vacuity / concrete reading: Thursday 2024-05-23 under `dddd, mmmm d, yyyy` (Excel's text) -/
example : ∃ ts : Rat, convertDateF Rat 2024 5 23 0 0 0 = some ts ∧
    formatAsDateChecked "dddd, mmmm d, yyyy".toList [] ts = some "Thursday, May 23, 2024".toList := by
  obtain ⟨ts, e1, e2⟩ := C18_date_display_convert stdModel_rat
    [dddd, lit ',', lit ' ', mmmm, lit ' ', d, lit ',', lit ' ', yyyy] C18_simple_codes_names.2.2.2.1 (by decide)
    [] 2024 5 23 0 0 0 (by decide) (by decide) (Or.inl exactRepr_rat)
  refine ⟨ts, e1, ?_⟩
  have e : codeText [dddd, lit ',', lit ' ', mmmm, lit ' ', d, lit ',', lit ' ', yyyy] =
      "dddd, mmmm d, yyyy".toList := by decide
  rw [e] at e2
  rw [e2]; decide +kernel

open Tok in
/-- **Refutation of the full display statement for the `AM/PM` marker.**  Built-in format 18 `h:mm AM/PM`,
    2024-05-23 12:00:00 (exact arithmetic): the cell shows `12:00 pm`; Excel's rule (`showToks`) says `12:00 PM`.
    The harness replays this witness (`ampm.witness-lowercase`). -/
theorem C18_ampm_case_fails : ∃ ts : Rat, convertDateF Rat 2024 5 23 12 0 0 = some ts ∧
    formatAsDateChecked "h:mm AM/PM".toList [] ts = some "12:00 pm".toList ∧
    trimBlanks (showToks ⟨2024, 5, 23, 12, 0, 0, daysFromCivil 2024 5 23⟩ [h12, lit ':', mi, lit ' ', ampm]) =
      "12:00 PM".toList := by
  obtain ⟨ts, e1, e2⟩ := C18_date_display_ampm_convert_partial stdModel_rat
    [h12, lit ':', mi, lit ' ', ampm] C18_simple_codes_names.1
    [] 2024 5 23 12 0 0 (by decide) (by decide) (Or.inl exactRepr_rat)
  refine ⟨ts, e1, ?_, by decide +kernel⟩
  have e : codeText [h12, lit ':', mi, lit ' ', ampm] = "h:mm AM/PM".toList := by decide
  rw [e] at e2
  rw [e2]; decide +kernel

end Umya.Thm.C18
