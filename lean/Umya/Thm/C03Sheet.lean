/-
  C03 at sheet and workbook level — property theorems only (namespace `Umya.Thm.C03`, continuing
  `Umya/Thm/C03Cell.lean`; gathered by `Umya/Thm/C03.lean`); helper lemmas in `Umya/Lemmas/ReaderSheet.lean`, `Umya/Lemmas/ReaderBook.lean`.

  Model: `Umya/Model/ReaderSheet.lean` (the `<sheetData>` loop with `last_row_num`, `last_col_num` and
  `formula_shared_list`; the shared-strings part; hyperlinks through the relationships; merged ranges; the sheet
  list and the defined names of the workbook part).  Spec: `Spec.Sml.decodeSheet` / `decode`.

  What is proved and what is not.
    * C03_sheet              for EVERY list of `<row>` elements with `validSheetData` (any number of rows, cells,
                             shared groups) and EVERY translator `T`: the reader model yields, in document order,
                             exactly the (column, row, kind, value text, formula text, style index) of the decoder's
                             cell list (`rowNumbers` + `fillRefs` + shared-formula expansion), panics included
                             (`none` on both sides only where `T` panics).
    * C03_sheet_decoder      the instance `T` = the spec's translator: no panic, and the cells are those of
                             `Spec.Sml.decodeSheet` (`C03_sheet_is_decodeSheet`).
    * C03_sheet_code         the instance `T` = the code's translator (`codeTr`).
      NOT proved: that the code's translator and the spec's give the same TEXT for every master formula (they do
      not: known finding C03-shared-formula-blanks-dropped).  `C03_shared_formula_tokens` lifts
      `C03_shared_formula` from one reference to a whole token list (from `C09_translate_partial`); that the
      tokenizer cuts a text into that list is validated per file only (C09_identity_partial).
    * C03_sst, C03_hyperlinks, C03_merges, C03_sheet_list, C03_defined_names: see below.
-/
import Umya.Lemmas.ReaderSheet
import Umya.Lemmas.ReaderBook
namespace Umya.Thm.C03
open Umya.Reader Umya.Reader.Lemmas Umya.Spec.Xml Umya.Spec.Sml

/-! ## the `<sheetData>` of one worksheet -/
section Sheet

/-- only the master of a shared group carries `ref` (18.3.1.40): an `f t="shared"` has `ref` exactly when it
    has text.  (Not needed by the proof — neither side reads `ref` —; part of what the standard requires.) -/
def mastersCarryRef (rows : List Node) : Bool :=
  rows.all fun r => (r.kids "c").all fun c =>
    match c.kid? "f" with
    | some f =>
      if f.attr? "t".toList = some "shared".toList then (f.attr? "ref".toList).isSome = !f.ownText.isEmpty else true
    | none => true

/-- **the valid `<sheetData>`**, relative to the `si` elements `sis` of the shared-string table; `rows` are
    its `<row>` children:
    * every `<c>` is a `validCell` (`C03_cell`);
    * `validPositions` (`C03_positions`): `r` of rows / cells, when present, well-formed; the positions lie in
      the grid; nothing is asked about order;
    * `groupsOk`: shared groups are well-formed — walking the cells in document order, the first
      `f t="shared"` of an `si` carries the formula text (the master), every later one carries none (a child);
      hence each `si` has exactly one master, which precedes its children (ECMA-376 18.3.1.40; Excel's master
      is the top-left cell of the group);
    * `mastersCarryRef`. -/
def validSheetData (sis : List Node) (rows : List Node) : Bool :=
  rows.all (fun r => (r.kids "c").all (validCell sis)) && validPositions (sis.map rstText) rows &&
  groupsOk [] (specFilled (sis.map rstText) 0 rows) && mastersCarryRef rows

/-- **The whole `<sheetData>`, every translator.**  For every shared-string table `sis`, every list `rows` of
    `<row>` elements with `validSheetData` — unbounded numbers of rows, cells and shared groups; rows and cells
    with and without `r`; children left of, above, right of or below their master — and every shared-formula
    translator `T`: the model of the reader's event loop (`readRows`: `Row::set_attributes`,
    `Cell::set_attributes`, `CellFormula::set_attributes` with `formula_shared_list` keyed by `si`, started with
    `last_row_num = 0` and an empty list) and the decoder's cell list (`specFilled` = `rowNumbers` + `decodeCell`
    + `fillRefs`, then `expandSharedT T` = `Spec.Sml.expandShared` with `T` as the translator) agree: both panic
    (only possible inside `T`) or both yield, in document order, the same
    (column, row, kind, value text, formula text, style index) for every cell (`outView` / `specView`; kinds
    through `shownKind` as in `C03_cell`). -/
theorem C03_sheet (T : Tr) (sis rows : List Node) (h : validSheetData sis rows = true) :
    (readRows T (sis.map (stringItem false)) 0 [] rows).map (·.map outView) =
      (expandSharedT T [] (specFilled (sis.map rstText) 0 rows)).map (·.map specView) := by
  simp only [validSheetData, validPositions, Bool.and_eq_true] at h
  obtain ⟨⟨⟨hc, ⟨hr, hcr⟩, hg⟩, hgr⟩, _⟩ := h
  exact rows_sheet T sis rows 0 [] hr hcr hg hc hgr

/-- **… against the decoder.**  With the spec's translator in the reader model, the model does not panic and
    the cells are exactly those of the decoder (`specSheetCells` = the `cells` field of `Spec.Sml.decodeSheet`,
    `C03_sheet_is_decodeSheet`). -/
theorem C03_sheet_decoder (sis rows : List Node) (h : validSheetData sis rows = true) :
    ∃ outs, readRows specTr (sis.map (stringItem false)) 0 [] rows = some outs ∧
      outs.map outView = (specSheetCells (sis.map rstText) rows).map specView := by
  have := C03_sheet specTr sis rows h
  rw [expandSharedT_spec] at this
  cases hx : readRows specTr (sis.map (stringItem false)) 0 [] rows with
  | none => rw [hx] at this; simp at this
  | some outs =>
    rw [hx] at this
    simp only [Option.map_some, Option.some.injEq] at this
    exact ⟨outs, rfl, this⟩

/-- `specSheetCells` is what `Spec.Sml.decodeSheet` returns as the cells of a worksheet part whose root is
    `root` (the `<row>` children of its `<sheetData>`), for any package, path, and style counts -/
theorem C03_sheet_is_decodeSheet (p : Package) (path : String) (sst : List Text) (nXf nDxf : Nat) (root : Node)
    (hp : (p.part? path).bind (·.xml) = some root) :
    (decodeSheet p path sst nXf nDxf).1.cells =
      specSheetCells sst (((root.kid? "sheetData").map (·.kids "row")).getD []) := by
  unfold decodeSheet
  simp only [hp, specSheetCells, specFilled_eq, List.flatMap_map]

/-- **… with the code's translator** (`readSheetData`): whenever the model of the reader yields cells, the
    decoder's walk with the code's translator yields the same views; and the model panics only if that walk
    does (a tokenizer / translation panic on a master formula: `C09_no_panic` excludes it for every text the
    scanner `Spec.Clean` accepts). -/
theorem C03_sheet_code (sis rows : List Node) (h : validSheetData sis rows = true) :
    (readSheetData (sis.map (stringItem false)) rows).map (·.map outView) =
      (expandSharedT codeTr [] (specFilled (sis.map rstText) 0 rows)).map (·.map specView) :=
  C03_sheet codeTr sis rows h

/-- the shared-string table of the example: `<si><t>x</t></si>`, `<si/>`,
    `<si><r><t>a</t></r><r><t>b</t></r><rPh><t>y</t></rPh></si>` -/
def sheetSis : List Node :=
  [.elem ['s', 'i'] [] [.elem ['t'] [] [.text ['x']]],
   .elem ['s', 'i'] [] [],
   .elem ['s', 'i'] [] [.elem ['r'] [] [.elem ['t'] [] [.text ['a']]], .elem ['r'] [] [.elem ['t'] [] [.text ['b']]],
                        .elem ['r', 'P', 'h'] [] [.elem ['t'] [] [.text ['y']]]]]

def cE (attrs : List (String × String)) (kids : List Node) : Node :=
  .elem ['c'] (attrs.map fun a => ⟨a.1.toList, a.2.toList⟩) kids
def fE (attrs : List (String × String)) (text : String) : Node :=
  .elem ['f'] (attrs.map fun a => ⟨a.1.toList, a.2.toList⟩) (if text = "" then [] else [.text text.toList])
def vE (text : String) : Node := .elem ['v'] [] [.text text.toList]
def rowE (attrs : List (String × String)) (kids : List Node) : Node :=
  .elem ['r', 'o', 'w'] (attrs.map fun a => ⟨a.1.toList, a.2.toList⟩) kids

/-- the example sheet: two shared groups (`si` 0 with master C2 and children D2 — right — and B3, A3 — below
    left —; `si` 7 with master B3's neighbour C3 and a child in the row WITHOUT `r`), a row without `r`, cells
    without `r`, an inline string, a `<si/>` cell, a rich shared string:
    ```
    <row r="2"><c r="C2"><f t="shared" ref="A2:D3" si="0">A1+$B$1</f><v>1</v></c>
               <c><f t="shared" si="0"/><v>2</v></c></row>                              (D2)
    <row><c t="s"><f t="shared" si="0"/><v>1</v></c>                                     (A3, `<si/>`)
         <c t="inlineStr"><f t="shared" si="0"/><is><t>12</t></is></c>                   (B3)
         <c s="1" t="s"><f t="shared" ref="C3:C4" si="7">SUM(A$1:B2)</f><v>2</v></c></row>   (C3)
    <row><c r="C4"><f t="shared" si="7"/></c></row>                                      (row 4)
    ``` -/
def exampleSheet : List Node :=
  [rowE [("r", "2")]
     [cE [("r", "C2")] [fE [("t", "shared"), ("ref", "A2:D3"), ("si", "0")] "A1+$B$1", vE "1"],
      cE [] [fE [("t", "shared"), ("si", "0")] "", vE "2"]],
   rowE []
     [cE [("t", "s")] [fE [("t", "shared"), ("si", "0")] "", vE "1"],
      cE [("t", "inlineStr")] [fE [("t", "shared"), ("si", "0")] "", .elem ['i', 's'] [] [.elem ['t'] [] [.text ['1', '2']]]],
      cE [("s", "1"), ("t", "s")] [fE [("t", "shared"), ("ref", "C3:C4"), ("si", "7")] "SUM(A$1:B2)", vE "2"]],
   rowE [] [cE [("r", "C4")] [fE [("t", "shared"), ("si", "7")] ""]]]

/-- non-vacuity of `validSheetData` -/
theorem exampleSheet_valid : validSheetData sheetSis exampleSheet = true := by decide +kernel

/-- … and what the example means with the code's translator (`readSheetData`; the spec's translator is defined
    by well-founded recursion and does not evaluate in the kernel — `#eval` gives the same list): positions C2 D2 / A3 B3 C3 / C4; the children of
    group 0 right of (`B1+$B$1`), below left of (`#REF!+$B$1`: column A - 2 leaves the grid) and below left
    of (`#REF!+$B$1`) the master; the child of group 7 one row down (`SUM(A$1:B3)`); the `<si/>` cell has no
    value; the inline string `12` is text; the rich string is `ab` with style 1 -/
example :
    (readSheetData (sheetSis.map (stringItem false)) exampleSheet).map (·.map outView) =
      some [⟨3, 2, "n", ['1'], some "A1+$B$1".toList, 0⟩, ⟨4, 2, "n", ['2'], some "B1+$B$1".toList, 0⟩,
            ⟨1, 3, "", [], some "#REF!+$B$1".toList, 0⟩, ⟨2, 3, "s", ['1', '2'], some "#REF!+$B$1".toList, 0⟩,
            ⟨3, 3, "s", ['a', 'b'], some "SUM(A$1:B2)".toList, 1⟩, ⟨3, 4, "", [], some "SUM(A$1:B3)".toList, 0⟩] := by
  decide +kernel

end Sheet

/-! ## shared formulas: from one reference to a token list -/
section Tokens
open Umya.Formula Umya.Spec Umya.Thm.C09

/-- what the spec's shared-formula translator prints for a token of the list -/
def SpecTok.specText (dc dr : Int) : SpecTok → List Char
  | .other t _ => renderTok t
  | .ref r _ => Spec.SharedF.renderPiece dc dr (pieceOfRef r)

/-- **Shared-formula expansion, token-list level** (PARTIAL towards the text level).  Full statement wanted:
    `codeTr.tr m dc dr = some (Spec.SharedF.translateText m dc dr)` for every master text `m` of a grammar.
    Proved: for every token list made of arbitrary non-reference tokens and of the tokens of well-formed
    references, and every offset, `adjustment_formula_coordinate` does not panic and `render` of its result is
    the concatenation of what the spec's translator prints piece by piece (non-references unchanged, references
    by `Spec.trArea`, `#REF!` outside the grid).  Missing: `parse ('=' :: m)` is such a list whose pieces are
    `Spec.SharedF.pieces m` (tokenizer vs scanner; false in general — blanks are dropped, known finding
    C03-shared-formula-blanks-dropped —; validated per file by the oracle). -/
theorem C03_shared_formula_tokens (l : List SpecTok) (dc dr : Int) :
    ∃ toks', adjustFormulaCoordinate (l.map SpecTok.tok) dc dr = .ok toks' ∧
      render toks' = l.flatMap (SpecTok.specText dc dr) := by
  refine ⟨_, C09_translate_partial l dc dr, ?_⟩
  unfold render
  rw [List.flatMap_map]
  apply Umya.Reader.Lemmas.flatMap_congr_mem
  intro t _
  cases t with
  | other t h => rfl
  | ref r hw =>
    obtain ⟨t', h1, h2⟩ := C03_shared_formula r hw dc dr
    rw [C09_translate_ref r hw dc dr] at h1
    injection h1 with h1
    simp only [SpecTok.translated, SpecTok.specText, h1, h2]

/-- non-vacuity: `SUM(` `'It''s'!$B3:XFD$1048576` `)` -/
example : ∃ l : List SpecTok, l.length = 3 :=
  ⟨[.other ⟨"SUM".toList, .function, .start, .none⟩ (by decide), .ref exampleRef exampleRef_wf,
    .other ⟨[], .function, .stop, .none⟩ (by decide)], rfl⟩

end Tokens

/-! ## the shared-strings part -/
section Sst

/-- every `<si>` of the table is a valid string item (`C03_string_item`; the part is read without trimming) -/
def validSst (sst : Node) : Bool := (sst.kids "si").all (validRst false)

/-- **The shared-strings part as a whole.**  For every `<sst>` element whose items are valid string items —
    any number of them; `<si/>`, `<si><t/></si>`, plain `t`, rich runs, phonetic runs in any mixture — the table
    the library builds (`SharedStringTable::set_attributes`: one item per `<si>` child in document order, the
    empty-element form included, fix a64a0eb) holds at EVERY index the text the decoder assigns to the item at
    that index (`Spec.Sml.sharedStrings` = `rstText` per `<si>`; an item without text stands for the empty
    text), and nothing beyond the last index. -/
theorem C03_sst (sst : Node) (h : validSst sst = true) :
    (readSst sst).map (·.getD []) = (sst.kids "si").map rstText ∧
    ∀ i : Nat, ((readSst sst)[i]?).map (fun o => o.getD []) = ((sst.kids "si").map rstText)[i]? := by
  have h1 : (readSst sst).map (·.getD []) = (sst.kids "si").map rstText := by
    simp only [readSst, List.map_map]
    apply List.map_congr_left
    intro si hsi
    exact stringItem_valid false si (List.all_eq_true.mp h si hsi)
  refine ⟨h1, fun i => ?_⟩
  rw [← h1, List.getElem?_map]

/-- `(root.kids "si").map rstText` is what the decoder takes for the table of a package -/
theorem C03_sst_is_decoder (p : Package) (path : String) (root : Node) (hp : (p.part? path).bind (·.xml) = some root) :
    sharedStrings p path = (root.kids "si").map rstText := by
  unfold sharedStrings
  simp only [hp]

/-- **… composed with the cells that index it** (`C03_cell_shared_string`): a `t="s"` cell whose `<v>` is a
    valid index into a valid table is read, against the table AS THE LIBRARY BUILT IT (`readSst`), with the
    value text and kind the decoder gives against its own table. -/
theorem C03_sst_cell (sst c : Node) (ht : c.attr? "t".toList = some "s".toList) (hv : (c.kids "v").length ≤ 1)
    (h : valueOk (sst.kids "si") c = true) :
    ∃ raw, rawOf (readSst sst) c = some raw ∧
      raw.text = (decodeCell ((sst.kids "si").map rstText) c).1.value ∧
      shownKind raw.kind raw.text =
        shownKind (decodeCell ((sst.kids "si").map rstText) c).1.kind (decodeCell ((sst.kids "si").map rstText) c).1.value :=
  C03_cell_shared_string (sst.kids "si") c ht hv h

/-- non-vacuity: `<sst><si><t>x</t></si><si/><si><t/></si><si><r><t>a</t></r><r><t> b</t></r><rPh><t>y</t></rPh></si></sst>`
    is valid and means `x`, (empty), (empty), `a b`; the cell `<c t="s"><v>3</v></c>` reads `a b` -/
def exampleSst : Node :=
  .elem ['s', 's', 't'] []
    [.elem ['s', 'i'] [] [.elem ['t'] [] [.text ['x']]], .elem ['s', 'i'] [] [], .elem ['s', 'i'] [] [.elem ['t'] [] []],
     .elem ['s', 'i'] [] [.elem ['r'] [] [.elem ['t'] [] [.text ['a']]], .elem ['r'] [] [.elem ['t'] [] [.text [' ', 'b']]],
                          .elem ['r', 'P', 'h'] [] [.elem ['t'] [] [.text ['y']]]]]

example : validSst exampleSst = true ∧
    (readSst exampleSst).map (·.getD []) = [['x'], [], [], ['a', ' ', 'b']] ∧
    (rawOf (readSst exampleSst) (.elem ['c'] [⟨['t'], ['s']⟩] [.elem ['v'] [] [.text ['3']]])).map (·.text) = some ['a', ' ', 'b'] := by
  refine ⟨by decide, by decide, by decide⟩

end Sst

/-! ## hyperlinks, merged ranges -/
section Links

/-- **Hyperlinks.**  For every list of `<hyperlink>` elements with `validHyperlinks` (an external link's
    relationship exists and the link has no `location`; an internal link has `location`), any relationship
    list `rs` of the worksheet part as the library read it and the decoder's list `srels` naming the same ids
    and targets (`RelsAgree`; `C03_rels` gives it for every valid relationships part): the model of
    `get_hyperlink` (attribute lookup, `get_relationship_by_rid` = the first relationship with that id) does not
    panic and yields, link by link, the decoder's anchor, external/internal, target (the relationship's Target,
    resp. the `location`) and tooltip (`specLink` = the link of `decodeSheet`, `C03_hyperlinks_is_decodeSheet`).
    The attribute values are what `get_attribute` returns (`C03_attr`). -/
theorem C03_hyperlinks (rs : Option (List RelR)) (srels : List Rel) (hag : RelsAgree (rs.getD []) srels)
    (hs : List Node) (hv : validHyperlinks rs hs = true) :
    ∃ ls, readHyperlinks rs hs = some ls ∧ ls.map linkViewR = (hs.map (specLink srels)).map linkViewS := by
  induction hs with
  | nil => exact ⟨[], rfl, rfl⟩
  | cons h rest ih =>
    simp only [validHyperlinks, List.all_cons, Bool.and_eq_true] at hv
    obtain ⟨l, hl, hlv⟩ := hyperlink_agrees rs srels hag h (by simpa [validHyperlinks] using hv.1)
    obtain ⟨ls, hls, hlsv⟩ := ih (by simpa [validHyperlinks] using hv.2)
    refine ⟨l :: ls, ?_, by simp only [List.map_cons, hlv, hlsv]⟩
    unfold readHyperlinks at hls ⊢
    simp only [List.mapM_cons, hl, hls]
    rfl

/-- **Relationships part.**  For every relationships part whose `<Relationship>` elements carry `Id`, `Type`
    and `Target`, the list the library reads and the decoder's (`relsOf`) name the same ids and targets in the
    same order. -/
theorem C03_rels (root : Node) (h : validRels root = true) :
    ∃ rs, readRels root = some rs ∧ RelsAgree rs (specRels root) := readRels_spec root h

theorem C03_hyperlinks_is_decodeSheet (p : Package) (path : String) (sst : List Text) (nXf nDxf : Nat) (root : Node)
    (hp : (p.part? path).bind (·.xml) = some root) :
    (decodeSheet p path sst nXf nDxf).1.links =
      (((root.kid? "hyperlinks").map (·.kids "hyperlink")).getD []).map (specLink (relsOf p path)) := by
  unfold decodeSheet
  simp only [hp, List.map_map]
  apply List.map_congr_left
  intro h _
  simp only [Function.comp, specLink]
  cases h.attr? "r:id".toList with
  | none => rfl
  | some rid =>
    simp only []
    cases (relsOf p path).find? (fun (r : Rel) => r.id = str rid) <;> rfl

/-- The "no `location` next to `r:id`" clause of `validHyperlinks` is needed (known finding
    C03-hyperlink-location-with-rid): for `<hyperlink ref="A1" r:id="rId1" location="S!B2"/>` with
    `rId1 → http://x/` the library keeps the url `http://x/` with the flag "location" set (an internal link)
    and loses `S!B2`; the decoder says: external link to `http://x/`, location `S!B2`. -/
theorem C03_hyperlink_location_with_rid_fails :
    let h : Node := .elem "hyperlink".toList
      [⟨"ref".toList, "A1".toList⟩, ⟨"r:id".toList, "rId1".toList⟩, ⟨"location".toList, "S!B2".toList⟩] []
    let rs : List RelR := [⟨"rId1".toList, "t".toList, "http://x/".toList⟩]
    let srels : List Rel := [⟨"rId1", "t", "http://x/", true⟩]
    (readHyperlink (some rs) h).map linkViewR = some ⟨"A1".toList, false, "http://x/".toList, []⟩ ∧
    linkViewS (specLink srels h) = ⟨"A1".toList, true, "http://x/".toList, []⟩ ∧
    (specLink srels h).location = some "S!B2".toList := by
  refine ⟨by decide, by decide, by decide⟩

/-- non-vacuity: an external and an internal link -/
example :
    let hs : List Node :=
      [.elem "hyperlink".toList [⟨"ref".toList, "A1".toList⟩, ⟨"r:id".toList, "rId2".toList⟩, ⟨"tooltip".toList, "tip".toList⟩] [],
       .elem "hyperlink".toList [⟨"ref".toList, "B2".toList⟩, ⟨"location".toList, "'S 2'!A1".toList⟩] []]
    let rs : List RelR := [⟨"rId1".toList, "t".toList, "a".toList⟩, ⟨"rId2".toList, "t".toList, "http://x/?a=1&b=2".toList⟩]
    validHyperlinks (some rs) hs = true ∧
    (readHyperlinks (some rs) hs).map (·.map linkViewR) =
      some [⟨"A1".toList, true, "http://x/?a=1&b=2".toList, "tip".toList⟩, ⟨"B2".toList, false, "'S 2'!A1".toList, []⟩] := by
  refine ⟨by decide, by decide⟩

/-- **Merged ranges, PARTIAL.**  Full statement wanted: `get_merge_cells()` shows, range by range, the `ref`
    texts of the decoder.  Proved: the loop of `MergeCells::set_attributes` collects the `ref` of every
    `<mergeCell>` in document order (= the decoder's `merges`) and does not panic when each has one.  Missing:
    `add_range` parses the text into a `Range` and `get_range` prints it again; that round trip (identity on
    plain `A1:B2` texts) is not modelled — validated per file by the oracle and the `c03 model` request. -/
theorem C03_merges_partial (ms : List Node) (h : ms.all (fun m => (m.attr? "ref".toList).isSome) = true) :
    readMerges ms = some (ms.filterMap (·.attr? "ref".toList)) := by
  induction ms with
  | nil => rfl
  | cons m rest ih =>
    simp only [List.all_cons, Bool.and_eq_true, Option.isSome_iff_exists] at h
    obtain ⟨⟨v, hv⟩, hr⟩ := h
    have := ih hr
    unfold readMerges at this ⊢
    simp only [List.mapM_cons, hv, this, List.filterMap_cons]
    rfl

theorem C03_merges_is_decodeSheet (p : Package) (path : String) (sst : List Text) (nXf nDxf : Nat) (root : Node)
    (hp : (p.part? path).bind (·.xml) = some root) :
    (decodeSheet p path sst nXf nDxf).1.merges =
      (((root.kid? "mergeCells").map (·.kids "mergeCell")).getD []).filterMap (·.attr? "ref".toList) := by
  unfold decodeSheet
  simp only [hp]

example : readMerges [.elem "mergeCell".toList [⟨"ref".toList, "A1:B2".toList⟩] [],
                      .elem "mergeCell".toList [⟨"ref".toList, "C3:XFD1048576".toList⟩] []] =
    some ["A1:B2".toList, "C3:XFD1048576".toList] := by decide

end Links

/-! ## the workbook part: sheet list, defined names -/
section Book

/-- every `<sheet>` carries `name`, `sheetId` and `r:id` (all required by CT_Sheet; the library unwraps them) -/
def validSheetList (sheets : List Node) : Bool :=
  sheets.all fun s => (s.attr? "name".toList).isSome && (s.attr? "sheetId".toList).isSome && (s.attr? "r:id".toList).isSome

/-- **Sheet list.**  For every list of `<sheet>` elements with `validSheetList` the model of the `b"sheet"` arm
    of reader/xlsx/workbook.rs does not panic and yields, in document order, the decoder's names (the attribute
    values as `get_attribute` returns them: unescaped, `C03_attr`) and `state` attributes; and for every
    relationship list of the workbook part that agrees with the decoder's (`RelsAgree`, `C03_rels`), each sheet's
    `r:id` selects on both sides the same relationship target (the first one with that id).
    NOT covered: that `join_paths("xl", target)` and the decoder's `resolveTarget` normalise that target to the
    same part name (validated per file). -/
theorem C03_sheet_list (sheets : List Node) (h : validSheetList sheets = true) :
    ∃ l, readSheetList sheets = some l ∧
      l.map (·.name) = sheets.map (fun s => (s.attr? "name".toList).getD []) ∧
      l.map (·.state) = sheets.map (fun s => s.attr? "state".toList) ∧
      l.map (fun s => some s.rid) = sheets.map (fun s => s.attr? "r:id".toList) ∧
      ∀ (rs : List RelR) (srels : List Rel), RelsAgree rs srels → ∀ s ∈ l,
        (srels.find? (fun r => r.id = str s.rid)).map (·.target) = (rs.find? (·.id = s.rid)).map (fun r => str r.target) := by
  refine ⟨sheets.map fun s => ⟨(s.attr? "name".toList).getD [], (s.attr? "sheetId".toList).getD [],
    (s.attr? "r:id".toList).getD [], s.attr? "state".toList⟩, ?_, ?_, ?_, ?_, ?_⟩
  · unfold readSheetList
    apply mapM_some
    intro s hs
    have := List.all_eq_true.mp h s hs
    simp only [Bool.and_eq_true, Option.isSome_iff_exists] at this
    obtain ⟨⟨⟨n, hn⟩, ⟨i, hi⟩⟩, ⟨r, hr⟩⟩ := this
    simp only [hn, hi, hr, Option.getD_some]
  · simp only [List.map_map]; rfl
  · simp only [List.map_map]; rfl
  · simp only [List.map_map]
    apply List.map_congr_left
    intro s hs
    have := List.all_eq_true.mp h s hs
    simp only [Bool.and_eq_true, Option.isSome_iff_exists] at this
    obtain ⟨_, ⟨r, hr⟩⟩ := this
    simp only [Function.comp, hr, Option.getD_some]
  · intro rs srels hag s _
    exact find_rel rs srels s.rid hag

example : validSheetList [.elem "sheet".toList [⟨"name".toList, "R&D".toList⟩, ⟨"sheetId".toList, "1".toList⟩,
    ⟨"r:id".toList, "rId7".toList⟩, ⟨"state".toList, "hidden".toList⟩] []] = true := by decide

/-- **Defined names, PARTIAL.**  Full statement wanted: `get_defined_names()` (workbook and sheets) shows the
    decoder's (name, `localSheetId`, text) for every `<definedName>`.  Proved: for every list of
    `<definedName>` elements with `validDefinedName` (`localSheetId` an unsigned decimal fitting `u32`; content
    character data without blanks at its ends) the model of `DefinedName::set_attributes` does not panic and
    yields the decoder's name, scope and text, in document order.  Missing: `set_address` splits the text into
    address objects and `get_address` joins them again (not modelled; C06 / the oracle compare the texts), and
    the re-homing of names to sheets in workbook.rs (`get_sheet_mut(localSheetId).unwrap()` panics for an id
    outside the sheet list: the driver's model does the same). -/
theorem C03_defined_names_partial (ds : List Node) (h : ds.all validDefinedName = true) :
    readDefinedNames ds = some (ds.map fun d => ⟨(specName d).name, (specName d).scope, (specName d).text⟩) := by
  unfold readDefinedNames
  apply mapM_some
  intro d hd
  exact definedName_agrees d (List.all_eq_true.mp h d hd)

example : validDefinedName (.elem "definedName".toList [⟨"name".toList, "n".toList⟩, ⟨"localSheetId".toList, "1".toList⟩]
    [.text "'R&D'!$A$1:$B$2".toList]) = true := by decide

end Book

end Umya.Thm.C03
