/-
  C18 — Date serial numbers and calendar dates convert exactly in both directions.

  Property theorems only; helper lemmas are in `Umya/Lemmas/Calendar.lean` (reference calendar)
  and `Umya/Lemmas/Date.lean` (evaluation of the model of `convert_date_crate`).

  What is proved, and about what:
    * `Umya.Spec.Calendar` (independent reference: leap rule, month table, Hinnant's closed forms):
      mutual inverses, validity, strict monotonicity.
    * the model `Umya.Date.convertDate` of `convert_date` (checked `i32` arithmetic, literal
      `to_string()[0..2]` slicing): its day count equals the reference day count minus the day
      number of 1899-12-30 (minus one before 1900-03-01), it does not panic on the domain, and
      (day, second) is strictly increasing.
    * the model of `excel_to_date_time_object` instantiated with EXACT arithmetic (`Fix`, unit
      1/86400 day): serial ↦ date-time is the inverse, to the second.
  In other modules of this namespace: `Umya/Thm/C18Float.lean` (the same round trip and strict
  monotonicity for every float instance that satisfies the standard model of binary64 arithmetic,
  `StdModel`), `Umya/Thm/C18Display.lean` (display of date-formatted cells for `SimpleDateCode`s).
  What is NOT proved: anything about the IEEE-754 `Float` instance that the driver executes and
  that corresponds to the Rust `f64` code — that it satisfies `StdModel` is an assumption
  (see tools/props.d/C18.py); chrono's calendar and `strftime` (represented by the reference
  calendar and `Umya.Date.strftime`).
-/
import Umya.Lemmas.Date
import Umya.Lemmas.TablesGen
namespace Umya.Thm.C18
open Umya.Date Umya.Spec.Calendar Umya.Lemmas.Calendar Umya.Lemmas.Date

/-! ## the reference calendar -/

/-- day number → civil date → day number is the identity, for **every** integer day number. -/
theorem C18_civil_roundtrip (n : Int) :
    daysFromCivil (civilFromDays n).1 (civilFromDays n).2.1 (civilFromDays n).2.2 = n :=
  daysFromCivil_civilFromDays n

example : civilFromDays 19866 = (2024, 5, 23) ∧ daysFromCivil 2024 5 23 = 19866 := by decide

/-- civil date → day number → civil date is the identity, for **every** valid proleptic
    Gregorian date (any year, also negative). -/
theorem C18_civil_roundtrip_inv (y m d : Int) (hv : ValidDate y m d) :
    civilFromDays (daysFromCivil y m d) = (y, m, d) :=
  civilFromDays_daysFromCivil y m d hv

example : ValidDate 2000 2 29 ∧ ValidDate 1900 2 28 ∧ ¬ ValidDate 1900 2 29 := by decide

/-- every day number decodes to a date that exists (month 1..12, day within the month length
    given by the leap rule) -/
theorem C18_civil_valid (n : Int) :
    ValidDate (civilFromDays n).1 (civilFromDays n).2.1 (civilFromDays n).2.2 :=
  civilFromDays_valid n

/-- the closed-form day count is strictly increasing in calendar order on valid dates -/
theorem C18_civil_monotone (y1 m1 d1 y2 m2 d2 : Int) (h1 : ValidDate y1 m1 d1)
    (h2 : ValidDate y2 m2 d2) (hlt : dateLt (y1, m1, d1) (y2, m2, d2)) :
    daysFromCivil y1 m1 d1 < daysFromCivil y2 m2 d2 :=
  daysFromCivil_strictMono y1 m1 d1 y2 m2 d2 h1 h2 hlt

example : ValidDate 1900 2 28 ∧ ValidDate 1900 3 1 ∧ dateLt (1900, 2, 28) (1900, 3, 1) := by decide

/-! ## date → serial (model of `convert_date` = `convert_date_windows_1900`) -/

/-- dates of the 1900 system: valid, 1900-01-01 … 9999-12-31 -/
def InDomain (y m d : Int) : Prop := ValidDate y m d ∧ 1900 ≤ y ∧ y ≤ 9999

instance (y m d : Int) : Decidable (InDomain y m d) := by unfold InDomain; infer_instance

def ValidTime (h mi s : Int) : Prop := 0 ≤ h ∧ h < 24 ∧ 0 ≤ mi ∧ mi < 60 ∧ 0 ≤ s ∧ s < 60

instance (h mi s : Int) : Decidable (ValidTime h mi s) := by unfold ValidTime; infer_instance

/-- General form: on the whole domain the model does not panic and returns
    (reference day count − day number of 1899-12-30 − 1 + leap flag, seconds of day). -/
theorem C18_convert (y m d h mi s : Int) (hd : InDomain y m d) (ht : ValidTime h mi s) :
    convertDate y m d h mi s =
      some (daysFromCivil y m d - daysFromCivil 1899 12 30 - 1 + (if y = 1900 ∧ m ≤ 2 then 0 else 1),
            h * 3600 + mi * 60 + s) := by
  obtain ⟨hv, hy0, hy1⟩ := hd
  obtain ⟨hh0, hh1, hm0, hm1, hs0, hs1⟩ := ht
  obtain ⟨hd1, _⟩ := valid_cases y m d hv
  have hd31 : d ≤ 31 := by
    have := hv.2.2.2
    have h31 : daysInMonth y m ≤ 31 := by
      unfold daysInMonth; split
      · omega
      · split
        · omega
        · split
          · split <;> omega
          · omega
    omega
  obtain ⟨c1, c2⟩ := march_conv y m
  have hYb : 1000 ≤ marchYear y m ∧ marchYear y m ≤ 9999 := by
    unfold marchYear; split <;> omega
  unfold convertDate
  rw [convertDateCrate_eq y m d h mi s (marchYear y m) (marchMonth m) ⟨hv.1, hv.2.1⟩ ⟨hd1, hd31⟩ c1 hYb c2
    ⟨hh0, hh1⟩ ⟨hm0, hm1⟩ ⟨hs0, hs1⟩, rawDate_eq]

/-- **Serial day.** For every valid date from 1900-03-01 to 9999-12-31 the day count computed by
    `convert_date` is the proleptic-Gregorian day difference to 1899-12-30. -/
theorem C18_days (y m d : Int) (hv : ValidDate y m d) (hlo : dateLe (1900, 3, 1) (y, m, d))
    (hhi : dateLe (y, m, d) (9999, 12, 31)) :
    serialDays y m d = some (daysFromCivil y m d - daysFromCivil 1899 12 30) := by
  have hdom : InDomain y m d := by
    refine ⟨hv, ?_, ?_⟩
    · rcases hlo with h | h
      · have : y = 1900 := by injection h with h1 _; omega
        omega
      · unfold dateLt at h; simp only at h; omega
    · rcases hhi with h | h
      · have : y = 9999 := by injection h with h1 _
        omega
      · unfold dateLt at h; simp only at h; omega
  have hleap : ¬ (y = 1900 ∧ m ≤ 2) := by
    rcases hlo with h | h
    · have : m = 3 := by injection h with _ h2; injection h2 with h3 _; omega
      omega
    · unfold dateLt at h; simp only at h; omega
  unfold serialDays
  rw [C18_convert y m d 0 0 0 hdom (by decide), if_neg hleap]
  simp only [Option.map_some]; congr 1; omega

example : ValidDate 2024 5 23 ∧ dateLe (1900, 3, 1) (2024, 5, 23) ∧ dateLe (2024, 5, 23) (9999, 12, 31) := by
  decide
example : serialDays 2024 5 23 = some 45435 := by
  rw [C18_days 2024 5 23 (by decide) (by decide) (by decide)]; decide
example : serialDays 1900 3 1 = some 61 ∧ serialDays 9999 12 31 = some 2958465 := by
  rw [C18_days 1900 3 1 (by decide) (by decide) (by decide),
    C18_days 9999 12 31 (by decide) (by decide) (by decide)]; decide

/-- **The 1900 leap-day window.** For 1900-01-01 … 1900-02-28 the day count is one less
    (Excel's fictitious 1900-02-29 is serial 60). -/
theorem C18_days_1900 (m d : Int) (hv : ValidDate 1900 m d) (hm : m ≤ 2) :
    serialDays 1900 m d = some (daysFromCivil 1900 m d - daysFromCivil 1899 12 30 - 1) := by
  unfold serialDays
  rw [C18_convert 1900 m d 0 0 0 ⟨hv, by decide, by decide⟩ (by decide), if_pos ⟨rfl, hm⟩]
  simp only [Option.map_some]; congr 1; omega

example : ValidDate 1900 1 1 ∧ ValidDate 1900 2 28 := by decide
example : serialDays 1900 1 1 = some 1 ∧ serialDays 1900 2 28 = some 59 := by
  rw [C18_days_1900 1 1 (by decide) (by decide), C18_days_1900 2 28 (by decide) (by decide)]; decide

/-- **Strictly increasing.** Over the whole domain, if (date, time of day) is earlier then
    (serial day, second of day) is lexicographically smaller, i.e. the exact serial
    `day + second/86400` is strictly smaller (stated on the common scale of seconds). -/
theorem C18_monotone (y1 m1 d1 h1 i1 s1 y2 m2 d2 h2 i2 s2 : Int)
    (hd1 : InDomain y1 m1 d1) (ht1 : ValidTime h1 i1 s1)
    (hd2 : InDomain y2 m2 d2) (ht2 : ValidTime h2 i2 s2)
    (hlt : dateLt (y1, m1, d1) (y2, m2, d2) ∨
      ((y1, m1, d1) = (y2, m2, d2) ∧ h1 * 3600 + i1 * 60 + s1 < h2 * 3600 + i2 * 60 + s2)) :
    ∃ D1 T1 D2 T2, convertDate y1 m1 d1 h1 i1 s1 = some (D1, T1) ∧
      convertDate y2 m2 d2 h2 i2 s2 = some (D2, T2) ∧
      0 ≤ T1 ∧ T1 < 86400 ∧ 0 ≤ T2 ∧ T2 < 86400 ∧
      86400 * D1 + T1 < 86400 * D2 + T2 := by
  refine ⟨_, _, _, _, C18_convert _ _ _ _ _ _ hd1 ht1, C18_convert _ _ _ _ _ _ hd2 ht2, ?_⟩
  obtain ⟨a0, a1, b0, b1, c0, c1⟩ := ht1
  obtain ⟨e0, e1, f0, f1, g0, g1⟩ := ht2
  refine ⟨by omega, by omega, by omega, by omega, ?_⟩
  rcases hlt with hlt | ⟨heq, hs⟩
  · have hmono := daysFromCivil_strictMono _ _ _ _ _ _ hd1.1 hd2.1 hlt
    -- the leap flag can only go up along the calendar
    have hflag : (if y1 = 1900 ∧ m1 ≤ 2 then (0 : Int) else 1) ≤ (if y2 = 1900 ∧ m2 ≤ 2 then (0 : Int) else 1) ∨
        ((if y1 = 1900 ∧ m1 ≤ 2 then (0 : Int) else 1) = 1 ∧ (if y2 = 1900 ∧ m2 ≤ 2 then (0 : Int) else 1) = 0) := by
      split <;> split <;> omega
    rcases hflag with hf | ⟨hf1, hf2⟩
    · omega
    · -- impossible: date 2 in Jan/Feb 1900, date 1 earlier but not in Jan/Feb 1900
      exfalso
      have hy1 := hd1.2.1
      have hm1 := hd1.1.1
      unfold dateLt at hlt; simp only at hlt
      split at hf1
      · omega
      · split at hf2
        · omega
        · omega
  · have : y1 = y2 ∧ m1 = m2 ∧ d1 = d2 := by
      injection heq with a b; injection b with b c; exact ⟨a, b, c⟩
    obtain ⟨rfl, rfl, rfl⟩ := this
    omega

example : InDomain 1900 2 28 ∧ ValidTime 23 59 59 ∧ InDomain 1900 3 1 ∧ ValidTime 0 0 0 ∧
    dateLt (1900, 2, 28) (1900, 3, 1) := by decide
example : convertDate 1900 2 28 23 59 59 = some (59, 86399) ∧ convertDate 1900 3 1 0 0 0 = some (61, 0) := by
  rw [C18_convert 1900 2 28 23 59 59 (by decide) (by decide), C18_convert 1900 3 1 0 0 0 (by decide) (by decide)]
  decide

/-! ## serial → date-time (model of `excel_to_date_time_object`) in exact arithmetic -/

/-- **Day/time split, exact arithmetic.** For a serial `D + T/86400` (`D ≥ 1` whole days,
    `0 ≤ T < 86400` whole seconds) the floor/fraction/round chain of
    `excel_to_date_time_object`, run in exact fixed-point arithmetic, yields base date + `D`
    days + exactly `T` seconds; the base date is 1899-12-31 for `D < 60` and 1899-12-30 after. -/
theorem C18_time_exact (D T : Int) (hD : 1 ≤ D) (hT : 0 ≤ T ∧ T < 86400) :
    excelToEpochSeconds (serialOf Fix D T) =
      ((if D < 60 then daysFromCivil 1899 12 31 else daysFromCivil 1899 12 30) + D) * 86400 + T := by
  obtain ⟨hn, _⟩ := fix_secs D T 0 hT (by omega)
  have hbase : baseFor (serialOf Fix D T) =
      (if D < 60 then daysFromCivil 1899 12 31 else daysFromCivil 1899 12 30) := by
    unfold baseFor
    simp only [FloatOps.lt, FloatOps.ofInt, hn, base18991231, base18991230]
    rw [if_neg (by simp only [decide_eq_true_eq]; omega)]
    by_cases h : D < 60
    · rw [if_pos (by simp only [decide_eq_true_eq]; omega), if_pos h]
    · rw [if_neg (by simp only [decide_eq_true_eq]; omega), if_neg h]
  unfold excelToEpochSeconds
  rw [hbase]
  exact (fix_secs D T _ hT (by omega)).2

example : excelToEpochSeconds (serialOf Fix 45435 18242) = 1716440642 := by decide

/-- no rounding is hidden in the fixed-point instance on these inputs: the serial is exactly
    `86400·D + T` units of 1/86400 day -/
theorem C18_time_exact_no_loss (D T : Int) (hD : 0 ≤ D) (hT : 0 ≤ T ∧ T < 86400) :
    (serialOf Fix D T).n = 86400 * D + T :=
  (fix_secs D T 0 hT hD).1

/-- **Round trip to the second, exact arithmetic.** For every date of the 1900 system and every
    time of day, `excel_to_date_time_object (convert_date …)`, with the float operations replaced
    by exact arithmetic and chrono's calendar by the reference calendar, returns the same
    year, month, day, hour, minute, second. -/
theorem C18_roundtrip_exact (y m d h mi s : Int) (hd : InDomain y m d) (ht : ValidTime h mi s) :
    (convertDateF Fix y m d h mi s).map excelToDateTime =
      some ⟨y, m, d, h, mi, s, daysFromCivil y m d⟩ := by
  unfold convertDateF
  rw [C18_convert y m d h mi s hd ht]
  simp only [Option.map_some]
  obtain ⟨a0, a1, b0, b1, c0, c1⟩ := ht
  have hmono : daysFromCivil 1900 1 1 ≤ daysFromCivil y m d := by
    by_cases h : (1900, 1, 1) = (y, m, d)
    · injection h with a b; injection b with b c; subst a b c; omega
    · have : dateLt (1900, 1, 1) (y, m, d) := by
        unfold dateLt; simp only
        have := hd.1.1; have := hd.1.2.2.1; have := hd.2.1
        by_cases hy : 1900 < y
        · exact Or.inl hy
        · refine Or.inr ⟨by omega, ?_⟩
          by_cases hm : 1 < m
          · exact Or.inl hm
          · refine Or.inr ⟨by omega, ?_⟩
            have hne : ¬ (y = 1900 ∧ m = 1 ∧ d = 1) := by
              intro ⟨e1, e2, e3⟩; subst e1 e2 e3; exact h rfl
            omega
      exact Int.le_of_lt (daysFromCivil_strictMono _ _ _ _ _ _ (by decide) hd.1 this)
  have e1900 : daysFromCivil 1900 1 1 = -25567 := by decide
  have e1230 : daysFromCivil 1899 12 30 = -25569 := by decide
  have e1231 : daysFromCivil 1899 12 31 = -25568 := by decide
  -- the serial day and its base date recombine to the reference day number
  have hfeb : (y = 1900 ∧ m ≤ 2) → daysFromCivil y m d < daysFromCivil 1900 3 1 := by
    intro ⟨hy, hm⟩
    subst hy
    exact daysFromCivil_strictMono _ _ _ _ _ _ hd.1 (by decide) (Or.inr ⟨rfl, Or.inl (by show m < 3; omega)⟩)
  have hmar : ¬ (y = 1900 ∧ m ≤ 2) → daysFromCivil 1900 3 1 ≤ daysFromCivil y m d := by
    intro hn
    by_cases h : (1900, 3, 1) = (y, m, d)
    · injection h with a b; injection b with b c; subst a b c; omega
    · have : dateLt (1900, 3, 1) (y, m, d) := by
        unfold dateLt; simp only
        have := hd.1.1; have := hd.1.2.2.1; have := hd.2.1
        by_cases hy : 1900 < y
        · exact Or.inl hy
        · refine Or.inr ⟨by omega, ?_⟩
          by_cases hm : 3 < m
          · exact Or.inl hm
          · refine Or.inr ⟨by omega, ?_⟩
            have hne : ¬ (y = 1900 ∧ m = 3 ∧ d = 1) := by
              intro ⟨e1, e2, e3⟩; subst e1 e2 e3; exact h rfl
            omega
      exact Int.le_of_lt (daysFromCivil_strictMono _ _ _ _ _ _ (by decide) hd.1 this)
  have e0301 : daysFromCivil 1900 3 1 = -25508 := by decide
  have hsecs : excelToEpochSeconds (serialOf Fix
      (daysFromCivil y m d - daysFromCivil 1899 12 30 - 1 + (if y = 1900 ∧ m ≤ 2 then 0 else 1))
      (h * 3600 + mi * 60 + s)) = daysFromCivil y m d * 86400 + (h * 3600 + mi * 60 + s) := by
    have hD1 : 1 ≤ daysFromCivil y m d - daysFromCivil 1899 12 30 - 1 + (if y = 1900 ∧ m ≤ 2 then 0 else 1) := by
      by_cases hw : y = 1900 ∧ m ≤ 2
      · rw [if_pos hw]; omega
      · have := hmar hw
        rw [if_neg hw]; omega
    rw [C18_time_exact _ _ hD1 ⟨by omega, by omega⟩]
    by_cases hw : y = 1900 ∧ m ≤ 2
    · have := hfeb hw
      rw [if_pos hw, if_pos (by omega)]; omega
    · have := hmar hw
      rw [if_neg hw, if_neg (by omega)]; omega
  unfold excelToDateTime
  rw [hsecs]
  unfold ofEpochSeconds
  have q1 : (daysFromCivil y m d * 86400 + (h * 3600 + mi * 60 + s)) / 86400 = daysFromCivil y m d := by omega
  have q2 : (daysFromCivil y m d * 86400 + (h * 3600 + mi * 60 + s)) % 86400 = h * 3600 + mi * 60 + s := by omega
  simp only [q1, q2, civilFromDays_daysFromCivil y m d hd.1]
  have r1 : (h * 3600 + mi * 60 + s) / 3600 = h := by omega
  have r2 : (h * 3600 + mi * 60 + s) % 3600 / 60 = mi := by omega
  have r3 : (h * 3600 + mi * 60 + s) % 60 = s := by omega
  rw [r1, r2, r3]

example : InDomain 2021 6 2 ∧ ValidTime 5 4 2 := by decide
example : (convertDateF Fix 2021 6 2 5 4 2).map excelToDateTime =
    some ⟨2021, 6, 2, 5, 4, 2, daysFromCivil 2021 6 2⟩ :=
  C18_roundtrip_exact 2021 6 2 5 4 2 (by decide) (by decide)

/-! ## display: the strftime string derived from the format (concrete instances only) -/

example : strftimeOf "yyyy-mm-dd hh:mm:ss".toList = some "%Y-%m-%d %H:%M:%S".toList := by decide
example : strftimeOf "d-mmm-yy h:mm AM/PM".toList = some "%-d-%b-%y %-I:%M %P".toList := by decide


/-- **Tie to the source (T).**  The date-format token tables of the model are
    `DATE_FORMAT_REPLACEMENTS`, `…_24`, `…_12` of date_formater.rs as regenerated on this run (order included). -/
theorem C18_tables_match_source :
    Umya.Gen.date_format_replacements = Umya.Date.dateReplacements ∧
    Umya.Gen.date_format_replacements_24 = Umya.Date.dateReplacements24 ∧
    Umya.Gen.date_format_replacements_12 = Umya.Date.dateReplacements12 :=
  Umya.Gen.gen_date_replacements

end Umya.Thm.C18
