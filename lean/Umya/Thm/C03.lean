/-
  C03 — the reader agrees with an independent decoder on valid xlsx files.

  Property theorems only (namespace `Umya.Thm.C03`); helper lemmas in `Umya/Lemmas/Reader.lean`.

  What is proved here and what is not.  The file-level statement
      `∀ x, ValidSml x → view (readPackage x) = Spec.decode x`
  is NOT proved: there is no Lean model of the whole reader (zip access, every part reader, styles).
  It is validated per file: the harness sends every part of every corpus / generated file to the
  independent decoder `Umya.Spec.Sml.decode` (executed in Lean) and compares its view with the view of
  the workbook the library loaded (translation validation).  The theorems below are the cell-level
  rules, for ALL inputs of the stated shape:
    * C03_attr / C03_text      the library's attribute / text unescaping returns the XML value;
    * C03_cell                 value, kind and formula of a cell element (model reader = Spec.decodeCell);
    * C03_shared_formula       a shared-formula child's reference tokens are translated exactly as the
                               spec translates references (reference level, from C09_translate_ref),
                               C03_shared_anchor_partial: master/child bookkeeping;
    * C03_cols                 `<col min max>` expansion.
  Deviations of the code that are not fixed are refuted with decided witnesses (`*_fails`).
-/
import Umya.Lemmas.Reader
import Umya.Thm.C09
import Umya.Lemmas.TablesGen
namespace Umya.Thm.C03
open Umya.Reader Umya.Reader.Lemmas Umya.Spec.Xml Umya.XmlEsc

/-! ## attribute and text values -/

/-- **Attribute reading.**  For EVERY raw attribute text: if the XML reader accepts it with value
    `v` (references well-formed and to legal characters), `get_attribute` (white-space normalisation,
    `unescape`, normalised raw text on failure) returns exactly `v`.
    Covers `&amp; &lt; &gt; &apos; &quot;`, decimal and hexadecimal character references of any
    length, literal tab / LF / CR / CR LF (a blank each, 3.3.3 after 2.11) and any mixture.
    (Before fix ddd0f34 this needed the hypothesis "no literal tab / LF / CR".) -/
theorem C03_attr (raw v : List Char) (hv : attrValue raw = some v) : attrRead raw = v := by
  unfold attrValue at hv
  rw [attrLit_eq] at hv
  have h1 := expand_ws _ none v hv
  simp only [Option.map_none] at h1
  have h2 := expand_agree (fun c => [c]) _ none v (fun _ _ => rfl) h1
  simp only at h2
  simp [attrRead, unescape, attrNorm_eq, h2]

/-- the same through `get_attribute` on a raw attribute list: the first attribute named `key` -/
theorem C03_attr_get (attrs : List (List Char × List Char)) (key raw v : List Char)
    (hf : attrs.find? (·.1 = key) = some (key, raw)) (hv : attrValue raw = some v) :
    getAttribute attrs key = some v := by
  simp [getAttribute, hf, C03_attr raw v hv]

/-- **Text reading** (`reader/driver.rs::unescape_text`): for EVERY raw character data the library's
    value is the XML value: a literal CR LF / CR is one line feed (2.11), references are expanded.
    (Before fix ddd0f34 this needed the hypothesis "no literal CR".) -/
theorem C03_text (raw v : List Char) (hv : textValue raw = some v) : textRead raw = some v := by
  unfold textValue at hv
  have := expand_agree (fun c => [c]) _ none v (fun _ _ => rfl) hv
  simpa [textRead, unescape, normEol_eq] using this

/-- non-vacuity: `R&amp;D &lt;&#49;&#x3e; &quot;é&quot;` is accepted and means `R&D <1> "é"` -/
example : attrValue "R&amp;D &lt;&#49;&#x3e; &quot;é&quot;".toList = some "R&D <1> \"é\"".toList ∧
    attrRead "R&amp;D &lt;&#49;&#x3e; &quot;é&quot;".toList = "R&D <1> \"é\"".toList := by
  constructor <;> decide

/-- non-vacuity on literal white space: a literal line feed / CR LF inside an attribute value is a
    blank (3.3.3), a referenced one stays.  (Replayed by the harness as `c03 reset edge 5`; before fix
    ddd0f34 the library kept the literal characters: `C03_attr_literal_whitespace_fails`.) -/
theorem C03_attr_literal_whitespace :
    attrValue ['a', '\n', 'b', '\r', '\n', 'c', '&', '#', '1', '0', ';'] = some ['a', ' ', 'b', ' ', 'c', '\n'] ∧
    attrRead ['a', '\n', 'b', '\r', '\n', 'c', '&', '#', '1', '0', ';'] = ['a', ' ', 'b', ' ', 'c', '\n'] := by
  constructor <;> decide

/-- likewise a literal CR LF in character data (XML 2.11) is one line feed and `&#13;` stays
    (corpus aaa.xlsx; before fix ddd0f34: `C03_text_literal_cr_fails`) -/
theorem C03_text_literal_cr :
    textValue ['a', '\r', '\n', 'b', '\r', '&', '#', '1', '3', ';'] = some ['a', '\n', 'b', '\n', '\r'] ∧
    textRead ['a', '\r', '\n', 'b', '\r', '&', '#', '1', '3', ';'] = some ['a', '\n', 'b', '\n', '\r'] := by
  constructor <;> decide

/-! ## `<col min max>` -/

/-- **Column spans.**  After `Columns::set_attributes` column `i` carries facts `f` exactly when
    some `<col>` element with `min ≤ i ≤ max` carries them — for any number of elements and any span
    (`max = 16384` included). -/
theorem C03_cols {α : Type} (cs : List (ColSpec α)) (i : Nat) (f : α) :
    (i, f) ∈ expandCols cs ↔ ∃ c ∈ cs, c.min ≤ i ∧ i ≤ c.max ∧ f = c.facts := by
  simp only [expandCols, expandCol, List.mem_flatMap, List.mem_map, List.mem_range'_1, Prod.mk.injEq]
  constructor
  · rintro ⟨c, hc, j, ⟨h1, h2⟩, rfl, rfl⟩
    exact ⟨c, hc, h1, by omega, rfl⟩
  · rintro ⟨c, hc, h1, h2, rfl⟩
    exact ⟨c, hc, i, ⟨h1, by omega⟩, rfl, rfl⟩

example : (16384, "w") ∈ expandCols [⟨1, 3, "a"⟩, ⟨5, 16384, "w"⟩] := by
  rw [C03_cols]; exact ⟨⟨5, 16384, "w"⟩, by simp, by decide, by decide, rfl⟩

/-! ## shared formulas -/

open Umya.Formula Umya.Spec in
/-- the piece the spec's shared-formula translator makes of a reference -/
def pieceOfRef (r : Spec.CRef) : Spec.SharedF.Piece :=
  match r.sheet with
  | none => .area r.area
  | some q => .qarea (if q.quoted then '\'' :: (Umya.Coord.replaceApos q.name ++ ['\'']) else q.name) r.area

open Umya.Formula Umya.Spec in
/-- **Shared-formula expansion, reference level, full strength.**  For every well-formed reference
    (cell, range, whole columns / rows, any `$` flags, any position in the grid, unqualified or
    qualified by any sheet name, quoted or not) and every offset `(dc, dr)` between a child and its
    master — negative offsets (children left of / above the master) included —, the code translates
    the reference token without panic, and the text it renders is exactly what the spec's
    shared-formula translator (`Spec.SharedF.renderPiece`, i.e. `Spec.trArea`) prints for that
    reference: `dc`/`dr` added to the relative parts, `$` parts unchanged, `#REF!` outside the grid.
    Not covered by a theorem: that the library's tokenizer and the spec's scanner cut a whole formula
    text into the same references (validated per file by the oracle; C09_identity_partial). -/
theorem C03_shared_formula (r : Spec.CRef) (hw : r.WF) (dc dr : Int) :
    ∃ t', translateTok dc dr (refTok r) = .ok t' ∧
      renderTok t' = Spec.SharedF.renderPiece dc dr (pieceOfRef r) := by
  refine ⟨exprTok (Spec.translateRef r dc dr), Umya.Thm.C09.C09_translate_ref r hw dc dr, ?_⟩
  unfold Spec.translateRef pieceOfRef
  cases hr : Spec.trArea r.area dc dr with
  | none =>
    cases hs : r.sheet <;>
      simp [Spec.refOr, exprTok, renderTok, Spec.SharedF.renderPiece, hr, Spec.SharedF.refError, Spec.ErrLit.text]
  | some a =>
    cases hs : r.sheet with
    | none =>
      simp [Spec.refOr, exprTok, refTok, renderTok, Spec.SharedF.renderPiece, hr, Spec.CRef.text, hs]
    | some q =>
      cases hq : q.quoted <;>
        simp [Spec.refOr, exprTok, refTok, renderTok, Spec.SharedF.renderPiece, hr, Spec.CRef.text, hs,
          Spec.Qual.text, hq]

/-- non-vacuity: `'It''s'!$B3:XFD$1048576` moved one column left and two rows down -/
example : Umya.Thm.C09.exampleRef.WF ∧
    Spec.SharedF.renderPiece (-1) 2 (pieceOfRef Umya.Thm.C09.exampleRef) = "'It''s'!$B5:XFC$1048576".toList := by
  refine ⟨Umya.Thm.C09.exampleRef_wf, ?_⟩
  simp [pieceOfRef, Umya.Thm.C09.exampleRef, Spec.SharedF.renderPiece, Spec.trArea, Spec.trCorner, Spec.trOpt,
    Spec.trPart, Spec.maxCol, Spec.maxRow, Spec.Area.text, Spec.Corner.text, Umya.Coord.optText,
    Umya.Coord.colRefText, Umya.Coord.rowRefText, Umya.Coord.replaceApos, Umya.Coord.indexToAlpha,
    Umya.Coord.alphaRev, Umya.Coord.letter, Umya.Dec.decDigits, Umya.Dec.digitChar]

/-! ## one cell element -/
section Cell
open Umya.Spec.Sml Umya.Coord

/-- what `<v>` may hold for a cell type `t` in a valid file (ECMA-376 18.18.11 ST_CellType) -/
def vOk (sst : List Text) (t v : Text) : Bool :=
  if t = "str".toList then true
  else if t = "s".toList then v.all Char.isDigit && decide ((natOf v).getD sst.length < sst.length)
  else if t = "b".toList then v = ['0'] || v = ['1']
  else if t = "e".toList then ["#DIV/0!".toList, "#N/A".toList, "#NAME?".toList, "#NULL!".toList, "#NUM!".toList, "#REF!".toList, "#VALUE!".toList].contains v
  else if t = [] ∨ t = "n".toList then
    v ≠ [] && v.map upcase ≠ "TRUE".toList && v.map upcase ≠ "FALSE".toList && !(errorLits.contains (v.map upcase)) && Umya.Formula.parseF64Ok v
  else false

/-- the cell elements of the valid grammar with a `<v>`-based encoding (everything but inlineStr):
    at most one `f` and one `v`, no `is`; `s` and `si` unsigned decimals; `f` and `v` hold nothing or one
    text without blanks at its ends; `<v>` fits the cell type -/
def tOk (t : Option Text) : Bool :=
  match t with
  | none => true
  | some t => t = "n".toList || t = "s".toList || t = "str".toList || t = "b".toList || t = "e".toList

def validCell (sst : List Text) (c : Node) : Bool :=
  tOk (c.attr? "t".toList) && decide ((c.kids "v").length ≤ 1) && decide ((c.kids "f").length ≤ 1) && (c.kids "is").isEmpty
  && (match c.attr? "s".toList with | some s => s.all Char.isDigit && s ≠ [] | none => true)
  && (match c.kid? "f" with
      | some f => plainText f && (match f.attr? "si".toList with | some s => s.all Char.isDigit | none => true)
      | none => true)
  && (match c.kid? "v" with
      | some v => plainText v && vOk sst ((c.attr? "t".toList).getD []) v.ownText
      | none => true)

theorem lastKid_eq (c : Node) (name : String) (h : (c.kids name).length ≤ 1) : lastKid? c name = c.kid? name := by
  unfold lastKid? Node.kid?; exact getLast_head _ h

theorem cell_formula (sst : List Text) (c : Node) (h : validCell sst c = true) :
    (lastKid? c "f").map (lastText true) = (c.kid? "f").map (·.ownText) := by
  simp only [validCell, Bool.and_eq_true, decide_eq_true_eq] at h
  obtain ⟨⟨⟨⟨⟨⟨_, _⟩, h2⟩, _⟩, _⟩, h5⟩, _⟩ := h
  rw [lastKid_eq c "f" h2]
  cases hf : c.kid? "f" with
  | none => rfl
  | some f =>
    simp only [hf, Bool.and_eq_true] at h5
    simp [lastText_plain f h5.1]

theorem style_eq (s : Text) (h : (s.all Char.isDigit && decide (s ≠ [])) = true) : parseUsize s = natOf s ∧ (natOf s).isSome := by
  simp only [Bool.and_eq_true, decide_eq_true_eq] at h
  refine ⟨parseUsize_digits s h.1, ?_⟩
  simp [natOf, h.1, h.2]

/-- guess_typed_data on the `<v>` texts of the valid grammar -/
theorem C03_value_number (v : Text) (h1 : v ≠ []) (h2 : v.map upcase ≠ ['T', 'R', 'U', 'E'])
    (h3 : v.map upcase ≠ ['F', 'A', 'L', 'S', 'E']) (h4 : v.map upcase ∉ errorLits)
    (h5 : Umya.Formula.parseF64Ok v = true) : guessTyped v = .num v := by
  simp [guessTyped, h1, h2, h3, h4, h5]

theorem C03_value_error (v : Text)
    (h : v ∈ ["#DIV/0!".toList, "#N/A".toList, "#NAME?".toList, "#NULL!".toList, "#NUM!".toList, "#REF!".toList, "#VALUE!".toList]) :
    guessTyped v = .err v := by
  simp only [List.mem_cons, List.not_mem_nil, or_false] at h
  rcases h with h | h | h | h | h | h | h <;> subst h <;> decide

/-- non-vacuity -/
example : guessTyped "1.50E+3".toList = .num "1.50E+3".toList := by decide

/-- **One cell element** (PARTIAL).  Full statement wanted: for every cell element `c` of the valid
    grammar, `readCell` does not panic and shows the kind, value, formula, shared index, style index and
    reference that `Spec.decodeCell` assigns.  Proved here for ALL valid `c` (`validCell`): no panic,
    formula text, shared index, style index, reference; and kind / value when the cell has no `<v>`.
    For cells with `<v>` the value rule is proved on the value functions (`C03_value_number`,
    `C03_value_error`; `t="b"`, `t="str"`, `t="s"` are direct in the model), but the composition with
    `readCell` / `decodeCell` is not (the proof by cases on `t` did not go through in the time available);
    inline strings (`t="inlineStr"`, rich runs, phonetic runs) are validated by the oracle only. -/
theorem C03_cell_partial (sst : List Text) (c : Node) (h : validCell sst c = true) :
    ∃ r, readCell (sst.map some) c = some r ∧
      r.formula = (decodeCell sst c).1.formula ∧ r.shared = (decodeCell sst c).1.shared ∧
      r.style = (decodeCell sst c).1.style ∧ r.ref = (decodeCell sst c).1.ref ∧
      (c.kid? "v" = none → r.raw.kind = (decodeCell sst c).1.kind ∧ r.raw.text = (decodeCell sst c).1.value) := by
  have hform := cell_formula sst c h
  simp only [validCell, Bool.and_eq_true, decide_eq_true_eq] at h
  obtain ⟨⟨⟨⟨⟨⟨ht, h1⟩, h2⟩, h3⟩, h4⟩, h5⟩, h6⟩ := h
  have hv := lastKid_eq c "v" h1
  have hf := lastKid_eq c "f" h2
  have his : lastKid? c "is" = none := by
    unfold lastKid?; rw [List.isEmpty_iff.mp h3]; rfl
  -- style
  obtain ⟨st, hst1, hst2⟩ : ∃ st, styleOf c = some st ∧
      ((c.attr? "s".toList).bind natOf).getD 0 = st := by
    cases hs : c.attr? "s".toList with
    | none => exact ⟨0, by unfold styleOf; rw [hs], rfl⟩
    | some s =>
      simp only [hs] at h4
      obtain ⟨e1, e2⟩ := style_eq s h4
      obtain ⟨n, hn⟩ := Option.isSome_iff_exists.mp e2
      exact ⟨n, by unfold styleOf; rw [hs]; show parseUsize s = some n; rw [e1, hn], by simp [hn]⟩
  -- shared index
  have hsh : ((lastKid? c "f").bind fun fe =>
        if fe.attr? "t".toList = some "shared".toList then (fe.attr? "si".toList).bind parseUsize else none) =
      ((c.kid? "f").bind fun fe =>
        if fe.attr? "t".toList = some "shared".toList then (fe.attr? "si".toList).bind natOf else none) := by
    rw [hf]
    cases hk : c.kid? "f" with
    | none => rfl
    | some f =>
      simp only [hk, Bool.and_eq_true] at h5
      show (if f.attr? "t".toList = some "shared".toList then (f.attr? "si".toList).bind parseUsize else none) =
        (if f.attr? "t".toList = some "shared".toList then (f.attr? "si".toList).bind natOf else none)
      cases hsi : f.attr? "si".toList with
      | none => rfl
      | some s =>
        rw [hsi] at h5
        simp only [Option.bind_some, parseUsize_digits s h5.2]
  rw [hf] at hform hsh
  simp only [show "s".toList = ['s'] from rfl, show "si".toList = ['s', 'i'] from rfl, show "t".toList = ['t'] from rfl,
    show "shared".toList = ['s', 'h', 'a', 'r', 'e', 'd'] from rfl] at hst2 hsh
  -- the raw value never panics
  have hraw : ∃ raw, afterV (sst.map some) ((c.attr? "t".toList).getD []) (lastKid? c "v") = some raw ∧
      (c.kid? "v" = none → raw = .empty) := by
    rw [hv]
    cases hkv : c.kid? "v" with
    | none => exact ⟨.empty, rfl, fun _ => rfl⟩
    | some v =>
      simp only [hkv, Bool.and_eq_true] at h6
      have hvt := lastText_plain v h6.1
      show ∃ raw, (if (c.attr? "t".toList).getD [] = "str".toList then some (Raw.str (lastText true v))
        else if (c.attr? "t".toList).getD [] = "s".toList then
          (parseUsize (lastText true v)).bind fun i => match (sst.map some)[i]? with
            | some (some s) => some (.str s)
            | some none => some .empty
            | none => none
        else if (c.attr? "t".toList).getD [] = "b".toList then some (.bool (lastText true v = ['1']))
        else if (c.attr? "t".toList).getD [] = "e".toList then some (guessTyped (lastText true v))
        else if (c.attr? "t".toList).getD [] = [] ∨ (c.attr? "t".toList).getD [] = "n".toList then some (guessTyped (lastText true v))
        else some .empty) = some raw ∧ (some v = none → raw = .empty)
      by_cases e1 : (c.attr? "t".toList).getD [] = "str".toList
      · exact ⟨_, by rw [if_pos e1], fun hh => nomatch hh⟩
      · by_cases e2 : (c.attr? "t".toList).getD [] = "s".toList
        · have hok := h6.2
          simp only [vOk, if_neg e1, if_pos e2, Bool.and_eq_true, decide_eq_true_eq] at hok
          obtain ⟨hd, hi⟩ := hok
          cases hn : natOf v.ownText with
          | none => rw [hn] at hi; simp at hi
          | some i =>
            rw [hn] at hi
            have hi' : i < sst.length := by simpa using hi
            have hp : parseUsize (lastText true v) = some i := by rw [hvt, parseUsize_digits _ hd, hn]
            refine ⟨.str sst[i], ?_, fun hh => nomatch hh⟩
            rw [if_neg e1, if_pos e2, hp]
            simp [hi']
        · by_cases e3 : (c.attr? "t".toList).getD [] = "b".toList
          · exact ⟨_, by rw [if_neg e1, if_neg e2, if_pos e3], fun hh => nomatch hh⟩
          · by_cases e4 : (c.attr? "t".toList).getD [] = "e".toList
            · exact ⟨_, by rw [if_neg e1, if_neg e2, if_neg e3, if_pos e4], fun hh => nomatch hh⟩
            · by_cases e5 : (c.attr? "t".toList).getD [] = [] ∨ (c.attr? "t".toList).getD [] = "n".toList
              · exact ⟨_, by rw [if_neg e1, if_neg e2, if_neg e3, if_neg e4, if_pos e5], fun hh => nomatch hh⟩
              · exact ⟨_, by rw [if_neg e1, if_neg e2, if_neg e3, if_neg e4, if_neg e5], fun hh => nomatch hh⟩
  obtain ⟨raw, hraw1, hraw2⟩ := hraw
  refine ⟨{ ref := (c.attr? "r".toList).getD [], style := st, raw := raw,
            formula := (lastKid? c "f").map (lastText true),
            shared := (lastKid? c "f").bind fun fe =>
              if fe.attr? "t".toList = some "shared".toList then (fe.attr? "si".toList).bind parseUsize else none }, ?_, ?_, ?_, ?_, ?_, ?_⟩
  · unfold readCell
    simp only [hst1, hraw1, his, Option.map_some]
  · show (lastKid? c "f").map (lastText true) = (c.kid? "f").map (·.ownText)
    rw [hf]; exact hform
  · show ((lastKid? c "f").bind fun fe =>
        if fe.attr? "t".toList = some "shared".toList then (fe.attr? "si".toList).bind parseUsize else none) =
      ((c.kid? "f").bind fun fe =>
        if fe.attr? "t".toList = some "shared".toList then (fe.attr? "si".toList).bind natOf else none)
    rw [hf]; exact hsh
  · exact hst2.symm
  · rfl
  · intro hkv
    rw [hraw2 hkv]
    have hd : (decodeCell sst c).1.kind = "" ∧ (decodeCell sst c).1.value = [] := by
      have ht' : tOk (c.attr? ['t']) = true := ht
      simp only [tOk] at ht'
      cases hta : c.attr? ['t'] with
      | none => simp [decodeCell, str, hta, hkv]
      | some x =>
        simp only [hta, Bool.or_eq_true, decide_eq_true_eq] at ht'
        rcases ht' with ((((e | e) | e) | e) | e) <;> subst e <;> simp [decodeCell, str, hta, hkv]
    exact ⟨hd.1.symm ▸ rfl, hd.2.symm ▸ rfl⟩

/-- non-vacuity of `validCell`: `<c r="B2" s="1" t="s"><f>A1</f><v>0</v></c>` with one shared string -/
example : validCell [['x']] (.elem ['c'] [⟨['r'], ['B', '2']⟩, ⟨['s'], ['1']⟩, ⟨['t'], ['s']⟩]
    [.elem ['f'] [] [.text ['A', '1']], .elem ['v'] [] [.text ['0']]]) = true := by decide

/-- The "no blanks at the ends" clause of `validCell` is needed: the sheet reader trims every text
    event (`trim_text(true)`), so `<v> x </v>` of a `t="str"` cell is loaded as `x`
    (known finding C03-str-value-edge-blanks-trimmed, C01 territory). -/
theorem C03_cell_edge_blanks_fails :
    ¬ ∀ v : Node, lastText true v = v.ownText := by
  intro h
  have := h (.elem ['v'] [] [.text [' ', 'x', ' ']])
  revert this; decide

end Cell


/-- **Tie to the source (T).**  The white-space normalisation chains of reader/driver.rs as regenerated on
    this run (`unescape_text`, `get_attribute_value`) are the model's `normEol` / `attrNorm`, and the reader's
    error-literal table is `CellErrorType`'s. -/
theorem C03_channels_match_source (s : List Char) :
    Umya.Gen.applySteps Umya.Gen.unescape_text_normalise s = Umya.Xml.normEol s ∧
    Umya.Gen.applySteps Umya.Gen.get_attribute_value_normalise s = attrNorm s ∧
    Umya.Gen.cell_error_display.map (fun p => p.2.toList) = Umya.Reader.errorLits :=
  ⟨Umya.Gen.gen_unescape_text s, Umya.Gen.gen_get_attribute_value s, Umya.Gen.gen_cell_errors.2.2⟩

end Umya.Thm.C03
