/-
  C03 — the reader agrees with an independent decoder on valid xlsx files: all property theorems
  (namespace `Umya.Thm.C03`).  This module only gathers the two theorem files, so that the audit
  (`import Umya.Thm.C03`) sees every `C03_…` theorem:
    * `Umya/Thm/C03Cell.lean`   channels (C03_attr, C03_text), one cell element (C03_cell, …), positions
                                (C03_positions), column spans, shared-formula reference translation;
    * `Umya/Thm/C03Book.lean`   style resolution through cellXfs (C03_style_resolution, C03_style_cell, …);
    * `Umya/Thm/C03Sheet.lean`  the whole `<sheetData>` (C03_sheet, …), the shared-strings part (C03_sst),
                                relationships / hyperlinks / merges, sheet list, defined names.
-/
import Umya.Thm.C03Cell
import Umya.Thm.C03Sheet
import Umya.Thm.C03Book
