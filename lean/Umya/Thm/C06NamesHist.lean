/-
  C06 (defined names: where they live, continued) — appended sheets, histories of appends and
  removals, and the sheet of the first area derived from the address text.
  Model: Umya/Model/AnnotNames.lean, Umya/Model/AnnotNamesText.lean.
-/
import Umya.Model.AnnotNamesText
import Umya.Lemmas.AnnotNamesHome
import Umya.Thm.C06
import Umya.Thm.C06Names
namespace Umya.Thm.C06
open Umya.AnnotNames

/-! ### appending a sheet -/

theorem indexOf_append_some (t x : Text) : ∀ (l : List Text) (k : Nat), indexOf t l = some k → indexOf t (l ++ [x]) = some k
  | [], _, h => by simp [indexOf] at h
  | y :: r, k, h => by
    unfold indexOf at h
    simp only [List.cons_append, indexOf]
    split
    · rename_i hy; simp [hy] at h; exact congrArg some h
    · rename_i hy; simp only [hy, if_false] at h
      cases hr : indexOf t r with
      | none => rw [hr] at h; simp at h
      | some j => rw [hr] at h; rw [indexOf_append_some t x r j hr]; exact h

theorem indexOf_append_none (t x : Text) (hx : x ≠ t) : ∀ (l : List Text), indexOf t l = none → indexOf t (l ++ [x]) = none
  | [], _ => by simp [indexOf, hx]
  | y :: r, h => by
    unfold indexOf at h
    simp only [List.cons_append, indexOf]
    split
    · rename_i hy; simp [hy] at h
    · rename_i hy; simp only [hy, if_false] at h
      cases hr : indexOf t r with
      | none => rw [indexOf_append_none t x hx r hr]; rfl
      | some j => rw [hr] at h; simp at h

theorem target_append (T : List Text) (x : Text) (d : DN) (k : Nat) (h : target T d = some k) :
    target (T ++ [x]) d = some k := by
  unfold target at h ⊢
  cases hl : d.lsid with
  | some j => rw [hl] at h; exact h
  | none =>
    rw [hl] at h; unfold byName at h ⊢
    cases hf : d.first with
    | none => rw [hf] at h; cases h
    | some t => rw [hf] at h; exact indexOf_append_some t x T k h

theorem stableFrom_append (tg tg' : DN → Option Nat) (hm : ∀ d k, tg d = some k → tg' d = some k) (s : Sheet) :
    ∀ (ss : List Sheet) (k : Nat), StableFrom tg k ss → (∀ d ∈ s.names, tg' d = some (k + ss.length)) →
      StableFrom tg' k (ss ++ [s])
  | [], k, _, hs => ⟨fun d hd => by simpa using hs d hd, trivial⟩
  | x :: r, k, h, hs =>
    ⟨fun d hd => hm d k (h.1 d hd),
     stableFrom_append tg tg' hm s r (k + 1) h.2 (fun d hd => by
       have := hs d hd; simp only [List.length_cons] at this; rw [this]; congr 1; omega)⟩

/-- C06 (defined names, appended sheet): Spreadsheet::new_sheet / add_sheet put the sheet at the end;
    a stable book stays stable exactly when no workbook-level name's first area names the new title
    and the new sheet's own names have the new position as destination (`AppendOK`; an empty new
    sheet — what new_sheet makes — satisfies the second half). -/
theorem C06_defined_names_append_sheet_stable (b : Book) (s : Sheet) (h : Stable b) (ha : AppendOK b s) :
    Stable (appendSheet s b) := by
  have ht : (appendSheet s b).titles = b.titles ++ [s.title] := by simp [appendSheet, Book.titles]
  refine ⟨?_, ?_⟩
  · intro d hd
    refine ⟨(h.1 d hd).1, ?_⟩
    rw [ht]
    have hb := (h.1 d hd).2
    unfold byName at hb ⊢
    cases hf : d.first with
    | none => rfl
    | some t =>
      rw [hf] at hb
      exact indexOf_append_none t s.title (fun e => ha.1 d hd (by rw [hf, e])) _ hb
  · rw [ht]
    exact stableFrom_append (target b.titles) (target (b.titles ++ [s.title]))
      (fun d k hk => target_append b.titles s.title d k hk) s b.sheets 0 h.2
      (fun d hd => by simpa using ha.2 d hd)

/-- the hypothesis is needed: a workbook-level name whose first area names the new title moves onto
    the appended sheet. -/
theorem C06_defined_names_append_sheet_needs_hyp :
    let d : DN := ⟨"N".toList, none, "New!$A$1".toList, some "New".toList⟩
    let b : Book := ⟨[d], [⟨"S1".toList, []⟩]⟩
    Stable b ∧ read (appendSheet ⟨"New".toList, []⟩ b).titles (write (appendSheet ⟨"New".toList, []⟩ b))
      = some ⟨[], [⟨"S1".toList, []⟩, ⟨"New".toList, [d]⟩]⟩ := by
  refine ⟨⟨?_, ?_⟩, by decide⟩
  · intro d hd; revert d; decide
  · exact ⟨fun d hd => by simp at hd, trivial⟩

/-- C06 (defined names after a history): after any history of appended sheets and remove_sheet calls
    on a stable book — every appended sheet satisfying `AppendOK` for the book it is appended to —
    save + reload returns the book as it stands. -/
theorem C06_defined_names_after_history (b : Book) (ops : List HistOp) (h : Stable b) (hok : HistOK b ops) :
    let b' := ops.foldl applyOp b
    read b'.titles (write b') = some b' := by
  intro b'
  refine C06_defined_names_rehome_roundtrip _ ?_
  have : ∀ (ops : List HistOp) (b : Book), Stable b → HistOK b ops → Stable (ops.foldl applyOp b) := by
    intro ops; induction ops with
    | nil => intro b h _; exact h
    | cons o r ih =>
      intro b h hok
      cases o with
      | append s => exact ih _ (C06_defined_names_append_sheet_stable b s h hok.1) hok.2
      | remove i => exact ih _ (C06_defined_names_remove_sheet_stable b i h) hok
  exact this ops b h hok

/-- non-vacuity: exBook, first sheet removed, a sheet with a scoped and a homed name appended,
    the (new) first sheet removed, an empty sheet appended. -/
def exHist : List HistOp :=
  [.remove 0,
   .append ⟨"S4".toList, [⟨"D".toList, some 2, "S1!$A$1".toList, some "S1".toList⟩, ⟨"E".toList, none, "S4!$B$2".toList, some "S4".toList⟩]⟩,
   .remove 0, .append ⟨"S5".toList, []⟩]

example : HistOK exBook exHist := by
  refine ⟨⟨?_, ?_⟩, ⟨?_, ?_⟩, trivial⟩ <;> (intro d hd; revert d; decide)
example : (let b' := exHist.foldl applyOp exBook
           read b'.titles (write b') = some b' ∧ b'.titles = ["S3".toList, "S4".toList, "S5".toList]) := by decide

/-! ### the sheet of the first area, from the address text -/

/-- C06 (first area): for the address text the library prints for areas a₁,…,aₙ (n ≥ 1) —
    `DefinedName::get_address` = the `get_address_ptn2` texts joined by ',' — the reader's
    `get_address_obj().get(0).get_sheet_name()` is the sheet of a₁, un-quoted and un-doubled.
    Quoting hypothesis = `AreaOK` of every area (Umya/Lemmas/AnnotNames.lean): the sheet name is legal
    (non-empty, not starting with an apostrophe, none of `: \ ? [ ] / *`), the range is a cell or
    cell:cell with column ≤ ZZZ and row < 2^32; the writer quotes every sheet name and doubles its
    apostrophes (addressText .. true), so blanks, `!`, `,`, `"`, apostrophes inside are covered. -/
theorem C06_defined_names_first_area (a : Umya.Annot.Address) (r : List Umya.Annot.Address)
    (h : ∀ x ∈ a :: r, Umya.Annot.AreaOK x) :
    firstAreaSheet (Umya.Annot.DefName.text { areas := a :: r }) = .ok (some a.sheet) := by
  unfold firstAreaSheet
  rw [C06_defined_name_roundtrip (a :: r) h]
  rfl

/-- any other text (formula, constant, whole rows / columns, a list with such a part): no address
    object, so no first area — such a name is homed by its localSheetId only. -/
theorem C06_defined_names_first_area_text (v : List Char) (h : (Umya.Annot.splitStr v).all Umya.Annot.isAddress = false) :
    firstAreaSheet v = .ok none := by
  unfold firstAreaSheet
  rw [(C06_defined_name_text_kept v h).1]
  rfl

example : firstAreaSheet "'It''s, a!b'!$A$1,'S2'!$B$2:$C$3".toList = .ok (some "It's, a!b".toList)
    ∧ firstAreaSheet "'S 1'!$A:$B".toList = .ok none ∧ firstAreaSheet "SUM(1,2)".toList = .ok none := by decide

theorem mapM_parse_forget : ∀ (l : List DN), (∀ d ∈ l, Derived d) → (l.map DN.forget).mapM DNT.parse = some l
  | [], _ => rfl
  | d :: r, h => by
    have hd : DNT.parse (DN.forget d) = some d := by
      have := h d (List.mem_cons_self)
      unfold Derived at this
      simp [DNT.parse, DN.forget, this]
    simp [List.mapM_cons, hd, mapM_parse_forget r (fun x hx => h x (List.mem_cons_of_mem _ hx))]

/-- C06 (defined names, scope — from the elements): the round trip restated for the reader that
    works from the `<definedName>` elements alone (name, localSheetId, text) and derives the first
    area from the text: for a stable book all of whose names have `first = firstAreaSheet addr`
    (`Derived`), reading the written elements returns the same book.  With
    C06_defined_names_first_area / _first_area_text, `Derived` holds for every name whose address is
    a printed list of `AreaOK` areas (first = the first area's sheet) or a text is_address rejects
    (first = none). -/
theorem C06_defined_names_rehome_roundtrip_text (b : Book) (h : Stable b)
    (hd : (∀ d ∈ b.wb, Derived d) ∧ ∀ s ∈ b.sheets, ∀ d ∈ s.names, Derived d) :
    readText b.titles (writeText b) = some b := by
  have hall : ∀ d ∈ write b, Derived d := by
    intro d hm
    rcases List.mem_append.mp hm with hm | hm
    · exact hd.1 d hm
    · simp only [flat, List.mem_flatten, List.mem_map] at hm
      obtain ⟨l, ⟨s, hs, rfl⟩, hdl⟩ := hm
      exact hd.2 s hs d hdl
  unfold readText writeText
  rw [mapM_parse_forget (write b) hall]
  exact C06_defined_names_rehome_roundtrip b h

instance (d : DN) : Decidable (Derived d) := by unfold Derived; exact inferInstance

/-- non-vacuity: exBook's names are all derived from their texts -/
example : (∀ d ∈ exBook.wb, Derived d) ∧ ∀ s ∈ exBook.sheets, ∀ d ∈ s.names, Derived d := by
  refine ⟨?_, ?_⟩
  · intro d hd; revert d; decide
  · intro s hs; revert s; decide

end Umya.Thm.C06
