/-
  C05 — the XML codecs of the style components, concretely.

  Model: Umya/Model/StyleCodec.lean (`write` = the element tree `write_to` emits, `read` = `set_attributes`;
  `none` = a Rust panic).  Parameter `cf : Tok → Tok`: "parse a float attribute (`parse::<f64>().unwrap_or_default()`),
  display it again"; a token `t` is a float text iff `cf t = t` (trusted: Rust's f64 Display/FromStr round trip).
  `Range` predicates say that numbers fit their Rust types and float fields hold float texts (every value a Rust
  struct can hold satisfies them, NaN / -0 aside); `OneForm` / `WF` say that colours are in one of the forms the
  public setters produce.  For every component:  `read (write x) = some (norm x)` with `norm` explicit and
  idempotent, and `eff (norm x) = eff x` where `eff` lists the attributes the property names as the getters
  show them.  (The one codec that changed an attribute — fill none + fgColor reloading as solid — was repaired in the
  crate by 90daeac; its refutation `C05_fill_none_fg_fails` is gone and `C05_fill_codec` holds without exception.)
-/
import Umya.Lemmas.StyleCodecFill
import Umya.Lemmas.StyleCodecBorder
import Umya.Lemmas.StyleCodecMisc
import Umya.Lemmas.StyleCodecRange
import Umya.Lemmas.StyleCodecGen
import Umya.Lemmas.StyleCodecBridge
import Umya.Thm.C05
namespace Umya.Thm.C05
open Umya.StyleCodec
open Umya.Spec.Xml (Node Attr)

/-- every enum string table is inverted by its `FromStr`: `from_str(get_value_string(v)) = Ok(v)` for every constructor
    (underline, font scheme, vertAlign, pattern, border style, horizontal and vertical alignment) -/
theorem C05_enum_codec :
    (∀ v : Underline, Underline.fromStr v.toStr.toList = some v) ∧
    (∀ v : FontScheme, FontScheme.fromStr v.toStr.toList = some v) ∧
    (∀ v : VertRun, VertRun.fromStr v.toStr.toList = some v) ∧
    (∀ v : Pattern, Pattern.fromStr v.toStr.toList = some v) ∧
    (∀ v : BorderStyle, BorderStyle.fromStr v.toStr.toList = some v) ∧
    (∀ v : HAlign, HAlign.fromStr v.toStr.toList = some v) ∧
    (∀ v : VAlign, VAlign.fromStr v.toStr.toList = some v) :=
  ⟨Underline.fromStr_toStr, FontScheme.fromStr_toStr, VertRun.fromStr_toStr, Pattern.fromStr_toStr,
   BorderStyle.fromStr_toStr, HAlign.fromStr_toStr, VAlign.fromStr_toStr⟩

/-- an unknown word is rejected (the reader then keeps the previous value) -/
example : BorderStyle.fromStr "Thin".toList = none ∧ Pattern.fromStr "".toList = none := by decide

/-! ### colour -/

/-- colour: what `Color::write_to` writes (theme, else indexed, else rgb; tint) is read back as the colour itself when
    it is in one of the forms the setters produce; in general as `norm` (only the written form survives) -/
theorem C05_color_codec (cf : Tok → Tok) (c : Color) (h : c.Range cf) :
    Color.readInto cf {} c.attrs = some c.norm ∧ c.norm.norm = c.norm ∧
    (c.OneForm = true → c.norm = c ∧ c.norm.eff = c.eff) :=
  ⟨Color.read_attrs cf c h, Color.norm_idem c, fun h1 => ⟨Color.norm_of_oneForm c h1, by rw [Color.norm_of_oneForm c h1]⟩⟩

theorem position_get (x : Tok) : ∀ (l : List Tok) (i : Nat), position x l = some i → l[i]? = some x
  | [], _, h => by simp [position] at h
  | y :: l, i, h => by
    unfold position at h
    by_cases hy : y = x
    · simp [hy] at h; subst h; simp [hy]
    · simp only [hy, if_false, Option.map_eq_some_iff] at h
      obtain ⟨j, hj, rfl⟩ := h
      simpa using position_get x l j hj

/-- `set_argb` (with its conversion of the 56 indexed colours to `indexed`) is invisible through `get_argb`, and its
    result, like that of `set_indexed` / `set_theme_index`, is in one form -/
theorem C05_color_set_argb (c : Color) (s : Tok) :
    (c.setArgb s).getArgb = s ∧ (c.setArgb s).OneForm = true ∧
    (∀ i, (c.setIndexed i).OneForm = true) ∧ (∀ i, (c.setTheme i).OneForm = true) := by
  refine ⟨?_, ?_, fun _ => rfl, fun _ => rfl⟩
  · unfold Color.setArgb
    cases hp : position s indexedToks with
    | none => simp [Color.getArgb]
    | some i => simp [Color.getArgb, position_get s _ i hp]
  · unfold Color.setArgb
    cases position s indexedToks <;> simp [Color.OneForm]

example : (({} : Color).setArgb "FFFF8080".toList).indexed = some 29 := by decide
example : ((({} : Color).setArgb "F34F8080".toList).setTint "-0.5".toList).attrs =
    [mkAttr "rgb" "F34F8080".toList, mkAttr "tint" "-0.5".toList] := by decide
example : Color.Range id ((({} : Color).setTheme 4).setTint "0.25".toList) := Color.range_id _ (by decide)

/-! ### font -/

/-- font: name, size, family, bold, italic, underline, strike, colour, charset, scheme, vertAlign.
    `norm` turns bold / italic `Some(false)` into "unset" (no `<b val="0"/>` is written) and the colour into its written form. -/
theorem C05_font_codec (cf : Tok → Tok) (f : Font) (h : f.Range cf) :
    Font.read cf f.write = some f.norm ∧ f.norm.norm = f.norm ∧ (f.color.OneForm = true → f.norm.eff = f.eff) :=
  ⟨Font.read_write cf f h, Font.norm_idem f, Font.eff_norm f⟩

def fontA : Font :=
  { name := some "Arial & <Co>".toList, size := some "10.5".toList, family := some 2, bold := some true,
    italic := some false, underline := some .doubleAccounting, strike := some false,
    color := (({} : Color).setArgb "FF00FF00".toList).setTint "0.4".toList, charset := some (-1), scheme := some .minor,
    vertAlign := some .superscript }
theorem fontA_range : fontA.Range id := Font.range_id _ (by decide)
example : Font.read id fontA.write = some fontA.norm := (C05_font_codec id fontA fontA_range).1
example : fontA.norm ≠ fontA ∧ fontA.norm.eff = fontA.eff := by decide
example : fontA.write.children.length = 10 := by decide

/-! ### fill -/

/-- fill (pattern fill with fg / bg colours, gradient fill with its stops).  `norm` keeps the pattern type as it is
    (since fix 90daeac the reader stores `fgColor` without `auto_set_pattern_type`); what it still does: colours in
    written form, a colour without any attribute (never written) comes back absent, a gradient gets degree /
    positions 0 when unset.  None of this is visible through the getters for fills the setters produce (`Fill.WF`:
    colours in one form; pattern fill or gradient, not both). -/
theorem C05_fill_codec (cf : Tok → Tok) (hz : cf zeroTok = zeroTok) (f : Fill) (h : f.Range cf) :
    Fill.read cf f.write = some f.norm ∧ f.norm.norm = f.norm ∧ (f.WF = true → f.norm.eff = f.eff) :=
  ⟨Fill.read_write cf hz f h, Fill.norm_idem f, Fill.eff_norm f⟩

/-- for a pattern fill whose colours are in one form and carry at least one attribute the codec is the identity -/
theorem C05_pattern_fill_codec_exact (cf : Tok → Tok) (p : PatternFill) (h : p.Range cf) (h1 : p.OneForm = true)
    (hfg : ∀ c, p.fg = some c → c.attrs ≠ []) (hbg : ∀ c, p.bg = some c → c.attrs ≠ []) :
    PatternFill.read cf p.write = some p := by
  rw [PatternFill.read_write cf p h]
  obtain ⟨ty, fg, bg⟩ := p
  simp only [PatternFill.OneForm, Bool.and_eq_true] at h1
  have e : ∀ o : Option Color, optOneForm o = true → (∀ c, o = some c → c.attrs ≠ []) → normOptColor o = o := by
    intro o ho hne
    cases o with
    | none => rfl
    | some c =>
      have : c.attrs.isEmpty = false := by
        have := hne c rfl
        cases hc : c.attrs <;> simp_all
      simp [normOptColor, this, Color.norm_of_oneForm c ho]
  simp [PatternFill.norm, e fg h1.1 hfg, e bg h1.2 hbg]

/-- the former counter-example (known finding C05-fill-none-with-fg-reloads-solid, repaired by 90daeac): pattern `none`
    with a foreground colour now comes back as it was -/
def fillNoneFg : Fill :=
  { pattern := some { patternType := some .none, fg := some (({} : Color).setArgb "FF112233".toList) } }
theorem fillNoneFg_range : fillNoneFg.Range id := Fill.range_id _ (by decide)
example : Fill.read id fillNoneFg.write = some fillNoneFg := by
  rw [(C05_fill_codec id rfl fillNoneFg fillNoneFg_range).1]; decide
example : fillNoneFg.WF = true := by decide
-- the public setter still turns none + colour into solid (in memory, before any save); the codec does not
example : (({ patternType := some .none } : PatternFill).setFg {}).patternType = some Pattern.solid := by decide

/-- the pattern type seen by the token-level pattern-fill model of Umya/Model/Style.lean (`effPattern`, theorems
    `C05_pattern_fill_reload` / `C05_pattern_fill_no_merge`) is the one `eff` shows here -/
theorem pattern_views_agree (p : PatternFill) :
    Umya.Style.PatternFill.effPattern (patternToTok p) = p.eff.patternType.toStr.toList := by
  cases h : p.patternType <;> simp [Umya.Style.PatternFill.effPattern, patternToTok, PatternFill.eff, h] <;> rfl

def fillB : Fill :=
  { pattern := some { patternType := some .darkTrellis, fg := some (({} : Color).setTheme 3),
                      bg := some ((({} : Color).setIndexed 64).setTint "-0.25".toList) } }
example : fillB.WF = true ∧ fillB.norm = fillB := by decide
example : fillB.Range id := Fill.range_id _ (by decide)
def gradA : Fill :=
  { gradient := some { degree := some "90".toList,
                       stops := [{ position := some "0".toList, color := ({} : Color).setArgb "FF123456".toList },
                                 { position := some "1".toList, color := ({} : Color).setTheme 4 }] } }
example : gradA.WF = true ∧ gradA.norm = gradA := by decide
example : gradA.Range id := Fill.range_id _ (by decide)

/-! ### borders -/

/-- borders: every edge (left, right, top, bottom, diagonal, vertical, horizontal: style and colour) and the two diagonal
    flags.  `norm`: colours in written form; a vertical / horizontal edge that hashes like `Border::default()` is not written. -/
theorem C05_border_codec (cf : Tok → Tok) (b : Borders) (h : b.Range cf) :
    Borders.read cf b.write = some b.norm ∧
    (b.WF = true → b.norm.norm = b.norm ∧ b.norm.eff = b.eff) :=
  ⟨Borders.read_write cf b h, fun hw => ⟨Borders.norm_idem b hw, Borders.eff_norm b hw⟩⟩

def bordersA : Borders :=
  { left := { style := some .thin, color := ({} : Color).setArgb "FFFF0000".toList },
    right := { style := some .mediumDashDotDot }, top := { color := ({} : Color).setTheme 2 },
    diagonal := { style := some .double, color := (({} : Color).setIndexed 10).setTint "0.5".toList },
    vertical := { style := some .none }, horizontal := { style := some .hair },
    diagonalDown := some true, diagonalUp := some false }
example : bordersA.WF = true := by decide
example : bordersA.Range id := Borders.range_id _ (by decide)
example : bordersA.norm.vertical = {} ∧ bordersA.norm.horizontal = bordersA.horizontal ∧ bordersA.norm.eff = bordersA.eff := by decide
example : bordersA.write.children.length = 6 := by decide
/-- why `NoMark` is part of `Borders.WF`: the colour text `empty!!` hashes like "no colour" -/
example : (Border.normSkippable { color := { argb := some "empty!!".toList } }).eff ≠
    (Border.eff { color := { argb := some "empty!!".toList } }) := by decide

/-! ### alignment, protection, number format -/

theorem C05_alignment_codec (a : Alignment) (h : a.Range) : Alignment.read a.write = some a :=
  Alignment.read_write a h
example : Alignment.Range { horizontal := some .centerContinuous, vertical := some .justify, wrapText := some false, textRotation := some 255 } := by
  intro n hn; cases hn; decide

theorem C05_protection_codec (p : Protection) : Protection.read p.write = some p := Protection.read_write p
example : (Protection.write { locked := some false, hidden := some true }).attrs =
    [mkAttr "locked" "0".toList, mkAttr "hidden" "1".toList] := by decide

/-- a custom number format: id and format code (any text: the attribute channel is C02_attr_channel / C03_attr) -/
theorem C05_numfmt_codec (v : NumFmt) (h : u32Range v.id) : NumFmt.read v.write = some v := NumFmt.read_write v h
example : u32Range (NumFmt.id { id := 176, code := "0.0\"x\" & <y>".toList }) := by decide

/-! ### rows and columns -/

/-- row: number, height (`ht`, not written when 0), customHeight, hidden, thickBot, descent and the style index `s`
    (written, with customFormat, when the row style's xf index is > 0) -/
theorem C05_row_codec (cf : Tok → Tok) (r : Row) (h : r.Range cf) (xf : Nat) (hxf : u32Range xf) (spans : Option Tok)
    (kids : List Node) (last : Nat) :
    Row.read cf last (r.write xf spans kids) = some (r.norm, if xf > 0 then some xf else none) ∧
    r.norm.norm = r.norm ∧ r.norm.eff = r.eff :=
  ⟨Row.read_write cf r h xf hxf spans kids last, Row.norm_idem r, Row.eff_norm r⟩

def rowA : Row := { num := 7, height := some "22.5".toList, customHeight := some true, hidden := some false }
example : rowA.Range id := ⟨by decide, fun _ _ => rfl, by intro t ht; cases ht⟩
example : (rowA.write 3 (some "1:4".toList) []).attrs.length = 6 ∧ rowA.norm.hidden = none ∧ rowA.norm.eff = rowA.eff := by decide

/-- column run: min, max, width, hidden, bestFit and the style index -/
theorem C05_column_codec (cf : Tok → Tok) (c : Col) (hw : cf c.width = c.width) (mn mx xf : Nat)
    (h1 : u32Range mn) (h2 : u32Range mx) (h3 : u32Range xf) :
    Col.read cf (c.write mn mx xf) = some (c.norm, mn, mx, if xf > 0 then some xf else none) ∧
    c.norm.norm = c.norm ∧ c.norm.eff = c.eff :=
  ⟨Col.read_write cf c hw mn mx xf h1 h2 h3, Col.norm_idem c, Col.eff_norm c⟩

example : (Col.write { width := "12.5".toList, hidden := some true } 2 5 0).attrs.length = 5 := by decide


/-! ### the enum tables are the source's (T) -/

/-- **Tie to the source (T).**  The string tables of the seven style enums the model uses (`get_value_string`, the arms of
    `from_str` in their order, the `Default` variant) are the ones `tools/extract_tables.py` regenerated from
    `src/structs/*_values.rs` on this run; `all` lists every constructor. -/
theorem C05_enum_tables_match_source :
    Umya.Gen.enum_underline_values = enumSpec Underline.all Underline.ctor Underline.toStr Underline.fromTable .single ∧
    Umya.Gen.enum_font_scheme_values = enumSpec FontScheme.all FontScheme.ctor FontScheme.toStr FontScheme.fromTable .none ∧
    Umya.Gen.enum_vertical_alignment_run_values = enumSpec VertRun.all VertRun.ctor VertRun.toStr VertRun.fromTable .baseline ∧
    Umya.Gen.enum_pattern_values = enumSpec Pattern.all Pattern.ctor Pattern.toStr Pattern.fromTable .none ∧
    Umya.Gen.enum_border_style_values = enumSpec BorderStyle.all BorderStyle.ctor BorderStyle.toStr BorderStyle.fromTable .none ∧
    Umya.Gen.enum_horizontal_alignment_values = enumSpec HAlign.all HAlign.ctor HAlign.toStr HAlign.fromTable .general ∧
    Umya.Gen.enum_vertical_alignment_values = enumSpec VAlign.all VAlign.ctor VAlign.toStr VAlign.fromTable .bottom :=
  gen_style_enums

/-! ### the concrete codecs instantiate the parameters of the interning theorems -/

/-- `concreteCodecs cf hz : Umya.Style.Codecs` is a value of the parameter type of `C05_get_set`, … (so "round trip =
    `some ∘ norm`, `norm` idempotent" is discharged, not assumed), and on the token record of every typed value in range
    it IS the modelled `read ∘ write`, with the modelled `norm`.  (Fills carrying a gradient — one opaque token in
    Umya/Model/Style.lean — and records no Rust struct can hold are left unchanged by these codecs.) -/
theorem C05_codecs_instantiate (cf : Tok → Tok) (hz : cf zeroTok = zeroTok) :
    (∀ f : Font, f.Range cf →
      (concreteCodecs cf hz).font.rt (fontToTok f) = (Font.read cf f.write).map fontToTok ∧
      (concreteCodecs cf hz).font.norm (fontToTok f) = fontToTok f.norm) ∧
    (∀ f : Fill, f.Range cf → f.gradient = none →
      (concreteCodecs cf hz).fill.rt (fillToTok f) = (Fill.read cf f.write).map fillToTok ∧
      (concreteCodecs cf hz).fill.norm (fillToTok f) = fillToTok f.norm) ∧
    (∀ b : Borders, b.Range cf → b.WF = true →
      (concreteCodecs cf hz).borders.rt (bordersToTok b) = (Borders.read cf b.write).map bordersToTok ∧
      (concreteCodecs cf hz).borders.norm (bordersToTok b) = bordersToTok b.norm) ∧
    (∀ a : Alignment, a.Range →
      (concreteCodecs cf hz).alignment.rt (alignmentToTok a) = (Alignment.read a.write).map alignmentToTok ∧
      (concreteCodecs cf hz).alignment.norm (alignmentToTok a) = alignmentToTok a) ∧
    (∀ p : Protection,
      (concreteCodecs cf hz).protection.rt (protectionToTok p) = (Protection.read p.write).map protectionToTok ∧
      (concreteCodecs cf hz).protection.norm (protectionToTok p) = protectionToTok p) ∧
    (∀ c : Tok, (concreteCodecs cf hz).code.rt c = some c ∧ (concreteCodecs cf hz).code.norm c = c) := by
  refine ⟨fun f h => ⟨?_, ?_⟩, fun f h hg => ⟨?_, ?_⟩, fun b h hw => ⟨?_, ?_⟩, fun a h => ⟨?_, ?_⟩, fun p => ⟨?_, ?_⟩, fun c => ⟨?_, rfl⟩⟩
  · exact fontCodec_rt cf f h
  · exact fontCodec_norm cf f h
  · exact fillCodec_rt cf hz f ⟨h, hg⟩
  · exact fillCodec_norm cf hz f ⟨h, hg⟩
  · exact bordersCodec_rt cf b ⟨h, hw⟩
  · exact bordersCodec_norm cf b ⟨h, hw⟩
  · exact alignmentCodec_rt a h
  · exact alignmentCodec_norm a h
  · exact protectionCodec_rt p
  · exact protectionCodec_norm p
  · exact (concreteCodecs cf hz).code.rt_eq c

/-- the attributes the property names, read off a style of the interning model (token records): each component is decoded
    to the typed value it denotes and shown through `eff` after the codec's normal form (`none` = not the text of any
    value the Rust struct can hold); absent font / fill / border = entry 0 of its table, absent number format = General -/
structure EffView where
  font : Option FontEff
  fill : Option FillEff
  borders : Option BordersEff
  alignment : Option (Option AlignmentEff)
  code : Tok
  protection : Option (Option Protection)

def effView (cf : Tok → Tok) (ss : Umya.Style.Sheet) (s : Umya.Style.Style) : Option EffView :=
  match ss.fonts[0]?, ss.fills[0]?, ss.borders[0]? with
  | some f0, some fi0, some b0 =>
    some { font := (fontBridge cf).effTok Font.norm Font.eff (s.font.getD f0),
           fill := (fillBridge cf).effTok Fill.norm Fill.eff (s.fill.getD fi0),
           borders := (bordersBridge cf).effTok Borders.norm Borders.eff (s.borders.getD b0),
           alignment := s.alignment.map (alignmentBridge.effTok id Alignment.eff),
           code := (s.numFmt.map (·.code)).getD Umya.Style.general,
           protection := s.protection.map (protectionBridge.effTok id id) }
  | _, _, _ => none

/-- equal effective formatting in the sense of the interning theorems (`Umya.Style.eff` under the concrete codecs)
    is equal effective attribute values -/
theorem effView_of_eff (cf : Tok → Tok) (hz : cf zeroTok = zeroTok) (ss : Umya.Style.Sheet) (s t : Umya.Style.Style)
    (h : Umya.Style.eff (concreteCodecs cf hz) ss s = Umya.Style.eff (concreteCodecs cf hz) ss t)
    (hs : (Umya.Style.eff (concreteCodecs cf hz) ss s).isSome = true) :
    effView cf ss s = effView cf ss t := by
  unfold Umya.Style.eff at h hs
  unfold effView
  cases h1 : ss.fonts[0]? with
  | none => simp [h1] at hs
  | some f0 =>
    cases h2 : ss.fills[0]? with
    | none => simp [h1, h2] at hs
    | some fi0 =>
      cases h3 : ss.borders[0]? with
      | none => simp [h1, h2, h3] at hs
      | some b0 =>
        simp only [h1, h2, h3, Option.some.injEq, Umya.Style.Eff.mk.injEq] at h
        obtain ⟨e1, e2, e3, e4, e5, e6⟩ := h
        have g1 := fontCodec_eff cf _ _ e1
        have g2 := fillCodec_eff cf hz _ _ e2
        have g3 := bordersCodec_eff cf _ _ e3
        have g4 : s.alignment.map (alignmentBridge.effTok id Alignment.eff) = t.alignment.map (alignmentBridge.effTok id Alignment.eff) := by
          cases ha : s.alignment <;> cases hb : t.alignment <;> simp [ha, hb] at e4 ⊢
          exact alignmentCodec_eff _ _ e4
        have g6 : s.protection.map (protectionBridge.effTok id id) = t.protection.map (protectionBridge.effTok id id) := by
          cases ha : s.protection <;> cases hb : t.protection <;> simp [ha, hb] at e6 ⊢
          exact protectionCodec_eff _ _ e6
        have g5 : (s.numFmt.map (·.code)).getD Umya.Style.general = (t.numFmt.map (·.code)).getD Umya.Style.general := e5
        simp only [g1, g2, g3, g4, g5, g6]

/-- **Composite.**  With the concrete codecs in place of the codec parameters: after ANY sequence of `set_style` calls on a
    style sheet satisfying the invariant, every style of the sequence, read back after save + reload through the index it
    was given, shows the same effective attribute values (font name, size, bold, italic, underline, strike, colour, …;
    fill; every border edge; alignment; format code; protection) as the style that was set.  No codec hypothesis is left;
    what remains assumed is listed in the props file (md5 injective `hkey`, float texts `cf`, the invariant for the
    initial sheet, `Style.WF`).  The view is taken after the codecs' normal forms; by `C05_font_codec`, `C05_fill_codec`,
    `C05_border_codec` a normal form shows the same getter values as the value itself for everything the public setters
    produce (`OneForm` / `Fill.WF` / `Borders.WF`). -/
theorem C05_effective_formatting_survives (cf : Tok → Tok) (hz : cf zeroTok = zeroTok)
    (key : Umya.Style.Tok → Umya.Style.Tok) (hkey : ∀ a b, key a = key b → a = b)
    (ss : Umya.Style.Sheet) (h : Umya.Style.Inv (concreteCodecs cf hz) ss) (l : List Umya.Style.Style)
    (hl : ∀ s ∈ l, s.WF) (k : Nat) (s : Umya.Style.Style) (hk : l[k]? = some s) :
    ∃ i st, (Umya.Style.setAll key ss l).2[k]? = some i ∧
      Umya.Style.styleAt (concreteCodecs cf hz) (Umya.Style.setAll key ss l).1 i = some st ∧
      effView cf (Umya.Style.setAll key ss l).1 st = effView cf (Umya.Style.setAll key ss l).1 s ∧
      (effView cf (Umya.Style.setAll key ss l).1 s).isSome = true := by
  obtain ⟨i, st, e, hi, hst, he1, he2⟩ := C05_get_set_all (concreteCodecs cf hz) key hkey ss h l hl k s hk
  refine ⟨i, st, hi, hst, effView_of_eff cf hz _ st s (by rw [he1, he2]) (by rw [he1]; rfl), ?_⟩
  unfold Umya.Style.eff at he2
  unfold effView
  cases h1 : (Umya.Style.setAll key ss l).1.fonts[0]? <;> cases h2 : (Umya.Style.setAll key ss l).1.fills[0]? <;>
    cases h3 : (Umya.Style.setAll key ss l).1.borders[0]? <;> simp [h1, h2, h3] at he2 ⊢

-- the invariant holds for the style sheet of `new_file()` under the concrete codecs; `cf := id` fixes `0`
example : Umya.Style.Inv (concreteCodecs id rfl) (Umya.Style.initSheet id) := C05_init (concreteCodecs id rfl) id
-- the token record of a typed font is decoded back, and its normal form is the typed one
example : (concreteCodecs id rfl).font.norm (fontToTok fontA) = fontToTok fontA.norm :=
  ((C05_codecs_instantiate id rfl).1 fontA fontA_range).2
example : (fontBridge id).effTok Font.norm Font.eff (fontToTok fontA) = some fontA.eff := by
  have h := fontOfTok_toTok id fontA fontA_range
  have e : fontA.norm.eff = fontA.eff := by decide
  simp [Bridge.effTok, fontBridge, h, e]

end Umya.Thm.C05
