/-
  C17 — tie to the source (T), the object-level glue: `Coordinate::set_coordinate` / `get_coordinate` of
  src/structs/coordinate.rs, compiled from the CURRENT source on every run (`Umya/Model/Gen/Fns.lean`; `&mut self` as state passing
  over the two component records `ColumnReference_rec` / `RowReference_rec`, themselves generated from the struct declarations, the
  component setters / getters resolved by reading their bodies), equal the hand model's (`CoordObj` in `Umya/Model/Coord.lean`)
  for all arguments and all prior states.
-/
import Umya.Thm.C17Gen
import Umya.Thm.C17Parse
namespace Umya.Thm.C17
open Umya.Coord Umya.Gen

/-- the hand model's object read out of the two generated component records -/
def objOf (c : ColumnReference_rec) (r : RowReference_rec) : CoordObj := { col := ⟨c.num, c.is_lock⟩, row := ⟨r.num, r.is_lock⟩ }

/-- **Tie to the source (T).**  `Coordinate::set_coordinate` as compiled from the source (with `index_from_coordinate` instantiated by
    the model's), on ANY prior state `(c, r)` and ANY text: it panics exactly when the model does, and otherwise the object read out of
    the new state is the model's. -/
theorem C17_set_coordinate_matches_source (c : ColumnReference_rec) (r : RowReference_rec) (t : List Char) :
    (coordinate_set_coordinate indexFromCoordinate c r t).map (fun p => objOf p.1 p.2) = (objOf c r).setCoordinate t := by
  simp only [coordinate_set_coordinate, CoordObj.setCoordinate]
  rcases indexFromCoordinate t with ⟨_ | a, _ | b, _ | la, _ | lb⟩ <;> simp [objOf]

/-- both outcomes occur: a full reference is stored, a bare column panics -/
example : coordinate_set_coordinate indexFromCoordinate ⟨7, true⟩ ⟨9, true⟩ "$B3".toList = some (⟨2, true⟩, ⟨3, false⟩) ∧
    coordinate_set_coordinate indexFromCoordinate ⟨7, true⟩ ⟨9, true⟩ "B".toList = none := by decide

/-- **Tie to the source (T).**  `Coordinate::get_coordinate` as compiled from the source, calling the compiled
    `coordinate_from_index_with_lock` and `string_from_column_index`, is the model's for every state (`none` = the assertion
    `col >= 1` of `coordinate_from_index_with_lock` fails). -/
theorem C17_get_coordinate_matches_source (c : ColumnReference_rec) (r : RowReference_rec) :
    coordinate_get_coordinate (coordinate_from_index_with_lock string_from_column_index) c r = (objOf c r).getCoordinate := by
  simp only [coordinate_get_coordinate, CoordObj.getCoordinate, objOf, C17_codec_matches_source.2.2.2.2.2.2.2.2.2.2.2.1]
  cases coordinateFromIndexWithLock? c.num r.num c.is_lock r.is_lock <;> rfl

example : (coordinate_get_coordinate (coordinate_from_index_with_lock string_from_column_index) ⟨28, false⟩ ⟨10, true⟩).isSome = true ∧
    coordinate_get_coordinate (coordinate_from_index_with_lock string_from_column_index) ⟨0, false⟩ ⟨1, false⟩ = none := by decide

/-- **`set_coordinate` overwrites.**  Whatever the object held before (`c r` against any other `c0 r0`): the outcome of the compiled
    `set_coordinate(t)` is the same; when it returns, all four fields of the new state are exactly the four results of
    `index_from_coordinate(t)`; and the compiled `get_coordinate` on the new state prints exactly those four. -/
theorem C17_set_coordinate_overwrites (c c0 : ColumnReference_rec) (r r0 : RowReference_rec) (t : List Char) :
    coordinate_set_coordinate indexFromCoordinate c r t = coordinate_set_coordinate indexFromCoordinate c0 r0 t ∧
    ∀ c' r', coordinate_set_coordinate indexFromCoordinate c r t = some (c', r') →
      indexFromCoordinate t = (some c'.num, some r'.num, some c'.is_lock, some r'.is_lock) ∧
      coordinate_get_coordinate (coordinate_from_index_with_lock string_from_column_index) c' r' =
        coordinateFromIndexWithLock? c'.num r'.num c'.is_lock r'.is_lock := by
  refine ⟨?_, fun c' r' h => ⟨?_, ?_⟩⟩
  · simp only [coordinate_set_coordinate]
  · simp only [coordinate_set_coordinate] at h
    generalize indexFromCoordinate t = q at h ⊢
    rcases q with ⟨_ | a, _ | b, _ | la, _ | lb⟩ <;> simp at h ⊢
    obtain ⟨rfl, rfl⟩ := h
    simp
  · rw [C17_get_coordinate_matches_source]; rfl

/-- **Round trip at the object level.**  For EVERY text `t` of the coordinate grammar (`canonCellB`, see `C17_coord_parse_print`) and
    every prior state: the compiled `set_coordinate(t)` returns, and the compiled `get_coordinate` of the new state is `t`. -/
theorem C17_set_get_coordinate (c : ColumnReference_rec) (r : RowReference_rec) (t : List Char) (h : canonCellB t = true) :
    ∃ c' r', coordinate_set_coordinate indexFromCoordinate c r t = some (c', r') ∧
      coordinate_get_coordinate (coordinate_from_index_with_lock string_from_column_index) c' r' = some t := by
  obtain ⟨a, b, la, lb, h1, _, _, h2, _⟩ := C17_coord_parse_print t h
  refine ⟨⟨a, la⟩, ⟨b, lb⟩, ?_, ?_⟩
  · simp [coordinate_set_coordinate, h1]
  · rw [C17_get_coordinate_matches_source]; exact h2

example : canonCellB "$XFD$1048576".toList = true := by decide

end Umya.Thm.C17
