/-
  C03, the SORTED enumeration of the cell store (`get_cell_collection_sorted`; model `Store.sorted`,
  `Umya/Model/CellStore.lean`: a merge sort of the store's entries by (row, column)) — property theorems only
  (namespace `Umya.Thm.C03`).

    * C03_store_sorted_perm     the sorted entries are a permutation of the store's entries (nothing lost, nothing twice)
    * C03_store_sorted_strict   with no position twice (`C03_store_is_map`) their positions are STRICTLY increasing
                                 (`strictlySorted`, the model's Boolean)
    * C03_store_sorted_key_injective   the order is antisymmetric on positions: the sort key IS the position, nothing is
                                 identified, so no side condition on the order is needed
    * C03_store_sorted_eq       two stores (any value types, compared through any `f`, `g`) with the same look-up at
                                 every position and no position twice have EQUAL sorted lists (and equal positions)
    * C03_sheet_store_sorted    under the hypotheses of `C03_sheet_store`: the two sides' sorted cell lists show the same
                                 views, as LISTS
    * C03_book_store_sorted     under the hypotheses of `C03_book_store`: the same for every sheet of the workbook
-/
import Umya.Lemmas.CellStoreSorted
import Umya.Thm.C03Store
namespace Umya.Thm.C03
open Umya.Spec.Xml Umya.Spec.Sml Umya.Reader Umya.Reader.Lemmas Umya.Coord
open Umya.Reader.Lemmas.StoreSorted
open Umya.Annot (canonText nameTextAnyB)

/-- `Store.sorted` is the value column of the entries merge-sorted by position, and these are a permutation of the
    store: every entry exactly as often as in the store -/
theorem C03_store_sorted_perm {α : Type} (s : Store α) :
    s.sorted = (sortedEntries s).map (·.2) ∧ (sortedEntries s).Perm s :=
  ⟨rfl, sortedEntries_perm s⟩

/-- with no position twice, the positions of the sorted entries are strictly increasing by (row, column) -/
theorem C03_store_sorted_strict {α : Type} (s : Store α) (h : (s.map (·.1)).Nodup) :
    strictlySorted ((sortedEntries s).map (·.1)) = true := by
  apply strictlySorted_of_pairwise
  rw [List.pairwise_map]
  exact sortedEntries_pairwise_lt s h

/-- the order of the sort is a total order on POSITIONS themselves (antisymmetric: `≤` both ways only between equal
    positions; total): the key is not a projection that could identify two positions -/
theorem C03_store_sorted_key_injective (a b : Pos) :
    (posLe a b = true → posLe b a = true → a = b) ∧ (posLe a b || posLe b a) = true :=
  ⟨posLe_antisymm a b, posLe_total a b⟩

/-- **Equal maps have equal sorted enumerations.**  For any two stores `s`, `t` (value types `α`, `β`, compared through
    `f`, `g`), no position twice among the entries of either, and the same thing shown by the look-ups at EVERY position:
    the sorted enumerations show the same LIST — same length, same order, same shown value at every index, and the same
    position at every index. -/
theorem C03_store_sorted_eq {α β γ : Type} (f : α → γ) (g : β → γ) (s : Store α) (t : Store β)
    (hs : (s.map (·.1)).Nodup) (ht : (t.map (·.1)).Nodup)
    (h : ∀ k, (s.get? k).map f = (t.get? k).map g) :
    s.sorted.map f = t.sorted.map g ∧ (sortedEntries s).map (·.1) = (sortedEntries t).map (·.1) := by
  have hu := strict_unique f g (sortedEntries s) (sortedEntries t) (sortedEntries_pairwise_lt s hs)
    (sortedEntries_pairwise_lt t ht) (fun k => by rw [get?_sortedEntries s hs, get?_sortedEntries t ht]; exact h k)
  constructor
  · have := congrArg (List.map (·.2)) hu
    simpa only [sorted_eq, List.map_map, Function.comp_def] using this
  · have := congrArg (List.map (·.1)) hu
    simpa only [List.map_map, Function.comp_def] using this

/-- the special case of one value type: equal look-ups, no position twice ⇒ the same sorted list -/
theorem C03_store_sorted_eq_same {α : Type} (s t : Store α)
    (hs : (s.map (·.1)).Nodup) (ht : (t.map (·.1)).Nodup) (h : ∀ k, s.get? k = t.get? k) :
    s.sorted = t.sorted := by
  have := (C03_store_sorted_eq id id s t hs ht (fun k => by rw [h k])).1
  simpa using this

/-- **The sheet's sorted enumeration, every translator.**  Under the hypotheses of `C03_sheet_store`: what
    `get_cell_collection_sorted()` returns for the store the reader model fills and the sorted enumeration of the store
    filled from the decoder's cells show the same views, as lists (both sides panic together). -/
theorem C03_sheet_store_sorted (T : Tr) (sis rows : List Node) (h : validSheetData sis rows = true) :
    (readRows T (sis.map (stringItem false)) 0 [] rows).map (fun outs => (fillStore outKey outs).sorted.map outView) =
      (expandSharedT T [] (specFilled (sis.map rstText) 0 rows)).map
        (fun cs => (fillStore specKey cs).sorted.map specView) := by
  have hk := fun k => (C03_sheet_store T sis rows h k).1
  cases hx : readRows T (sis.map (stringItem false)) 0 [] rows with
  | none =>
    cases hy : expandSharedT T [] (specFilled (sis.map rstText) 0 rows) with
    | none => rfl
    | some cs => have := hk (0, 0); rw [hx, hy] at this; simp at this
  | some outs =>
    cases hy : expandSharedT T [] (specFilled (sis.map rstText) 0 rows) with
    | none => have := hk (0, 0); rw [hx, hy] at this; simp at this
    | some cs =>
      simp only [Option.map_some, Option.some.injEq]
      refine (C03_store_sorted_eq outView specView _ _ (C03_store_is_map outKey outs) (C03_store_is_map specKey cs) ?_).1
      intro k
      have := hk k
      rw [hx, hy] at this
      simpa only [Option.map_some, Option.some.injEq] using this

/-- **The whole workbook, every sheet's sorted enumeration.**  Under the hypotheses of `C03_book_store`: for every sheet
    index the sorted cell list of the library's store and that of the store filled from the decoder's cells show the same
    views, as lists. -/
theorem C03_book_store_sorted (cf : Umya.StyleCodec.Tok → Umya.StyleCodec.Tok) (p : Package) (mr : Rel) (wb wr sstRoot sroot : Node)
    (h1 : (relsOf p "").find? (fun r => r.type.endsWith "/officeDocument") = some mr)
    (hwbp : resolveTarget "" mr.target = "xl/workbook.xml")
    (hwb : lookupOf p "xl/workbook.xml".toList = some wb)
    (hwr : lookupOf p "xl/_rels/workbook.xml.rels".toList = some wr)
    (hss : lookupOf p "xl/sharedStrings.xml".toList = some sstRoot)
    (hsst : specSst p "xl/workbook.xml" = (sstRoot.kids "si").map rstText)
    (hsr : lookupOf p "xl/styles.xml".toList = some sroot)
    (hsty : specStylesRoot p "xl/workbook.xml" = some sroot)
    (hvr : validRels wr = true) (hvs : validStyles sroot = true)
    (hvl : validSheetList (((wb.kid? "sheets").map (·.kids "sheet")).getD []) = true)
    (hsheets : ∀ wrs, readRels wr = some wrs → ∀ se ∈ ((wb.kid? "sheets").map (·.kids "sheet")).getD [],
      SheetValid p (sstRoot.kids "si") sroot wrs se)
    (hvn : (((wb.kid? "definedNames").map (·.kids "definedName")).getD []).all validDefinedName = true)
    (hnt : ∀ d ∈ ((wb.kid? "definedNames").map (·.kids "definedName")).getD [], nameTextAnyB d.ownText = true)
    (hns : ∀ d ∈ ((wb.kid? "definedNames").map (·.kids "definedName")).getD [], ∀ i, (specName d).scope = some i →
      i < (((wb.kid? "sheets").map (·.kids "sheet")).getD []).length) :
    ∃ b bv, readBook specTr cf (lookupOf p) = some b ∧ (decode p).1 = some bv ∧ b.sheets.length = bv.sheets.length ∧
      ∀ (i : Nat) (h1 : i < b.sheets.length) (h2 : i < bv.sheets.length),
        (fillStore outKey (b.sheets[i]).cells).sorted.map outView =
          (fillStore specKey (bv.sheets[i]).cells).sorted.map specView := by
  obtain ⟨b, bv, hb, hd, hlen, hall⟩ :=
    C03_book_store cf p mr wb wr sstRoot sroot h1 hwbp hwb hwr hss hsst hsr hsty hvr hvs hvl hsheets hvn hnt hns
  refine ⟨b, bv, hb, hd, hlen, fun i hi1 hi2 => ?_⟩
  exact (C03_store_sorted_eq outView specView _ _ (C03_store_is_map _ _) (C03_store_is_map _ _)
    (fun k => (hall i hi1 hi2 k).1)).1

/-- non-vacuity of `C03_store_sorted_eq`: a store whose entries are NOT in order (C1 first) and the store with the same
    entries in order: no position twice in either (decided), the same look-up at every position, hence the same sorted
    list, which is "a", "b", "c" (the ordered store is a fixed point of the merge sort); and the positions of the sorted
    entries are strictly increasing -/
def exUnordered : Store String := [((2, 1), "c"), ((1, 1), "a"), ((1, 2), "b")]
def exOrdered : Store String := [((1, 1), "a"), ((1, 2), "b"), ((2, 1), "c")]

example :
    (exUnordered.map (·.1)).Nodup ∧ (exOrdered.map (·.1)).Nodup ∧ exUnordered ≠ exOrdered ∧
    (∀ k, exUnordered.get? k = exOrdered.get? k) ∧
    exUnordered.sorted = ["a", "b", "c"] ∧
    strictlySorted ((sortedEntries exUnordered).map (·.1)) = true := by
  have hn1 : (exUnordered.map (·.1)).Nodup := by decide
  have hn2 : (exOrdered.map (·.1)).Nodup := by decide
  have hp : exUnordered.Perm exOrdered := (List.Perm.swap _ _ _).trans ((List.Perm.swap _ _ _).cons _)
  have hg : ∀ k, exUnordered.get? k = exOrdered.get? k := get?_perm _ _ hp hn2
  have ho : exOrdered.sorted = ["a", "b", "c"] := by
    have : sortedEntries exOrdered = exOrdered := List.mergeSort_of_pairwise (by decide)
    rw [sorted_eq, this]; rfl
  exact ⟨hn1, hn2, by decide, hg, (C03_store_sorted_eq_same _ _ hn1 hn2 hg).trans ho, C03_store_sorted_strict _ hn1⟩

/-- non-vacuity of `C03_sheet_store_sorted`: the valid sheet of `C03Store.lean` with A1 three times; the reader model
    delivers 4 cells, the store keeps two entries (A1, written last, in front; then B1), no position twice -/
example :
    validSheetData sheetSis dupRows = true ∧
    ((readRows specTr (sheetSis.map (stringItem false)) 0 [] dupRows).map fun outs =>
      (outs.length, (fillStore outKey outs).map (·.1))) = some (4, [(1, 1), (1, 2)]) := by
  refine ⟨by decide +kernel, by decide +kernel⟩

end Umya.Thm.C03
