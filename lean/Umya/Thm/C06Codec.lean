/-
  C06 — data validations and conditional formatting: the element-level codecs round-trip.

  Models: `Umya/Model/AnnotDv.lean`, `Umya/Model/AnnotCf.lean` (element trees as an XML 1.0 reader delivers
  them; the escape / unescape channel below them is `C06_codec_channel`).  The models are of the code after
  fix_1 … fix_4 (`none` spelled `none`; formula text read untrimmed; the icon set written as `<iconSet>`; dxf
  table searched by equality); each repaired defect is refuted for the model of the unfixed code by a `…_unfixed_fails`
  theorem with a `decide`d witness, replayed on the implementation by the harness witnesses of the same name.
  Tied to the code on every run by the `c06 dv` / `c06 dvs` / `c06 cf` requests (`harness/src/c06codec.rs`,
  `Umya/Driver/C06Codec.lean`): the real `<dataValidation(s)>`, `<conditionalFormatting>` and `<dxfs>` elements of
  the written package, parsed by the independent XML reader, are compared with `write` of the model value the
  harness built through the public setters, and the getters of the reloaded workbook with `read`.
-/
import Umya.Lemmas.AnnotDv
import Umya.Lemmas.AnnotCf
import Umya.Lemmas.XmlEsc
import Umya.Lemmas.XmlChannel
import Umya.Lemmas.TablesGen
import Umya.Lemmas.AnnotTablesGen
namespace Umya.Thm.C06
open Umya.Coord Umya.Annot Umya.AnnotDv Umya.AnnotCf Umya.Thm.C17
open Umya.Spec.Xml (Node Attr)

/-! ### the channel below the trees -/

/-- What `write_start_tag` / `write_text_node` put into the file for a text `s` is read as `s` again both by an
    XML 1.0 reader (the trees of the models) and by the library's own `get_attribute` / `unescape_text`: the
    models may carry unescaped text in attributes and character data.  (`C02_attr_channel`, `C02_text_channel`,
    `attrRead_attrWrite` restated.) -/
theorem C06_codec_channel (s : List Char) :
    Umya.Spec.Xml.attrValue (Umya.XmlEsc.attrEscape s) = some s ∧
    Umya.XmlEsc.attrRead (Umya.XmlEsc.attrWrite s) = s ∧
    Umya.Spec.Xml.textValue (Umya.XmlEsc.escape s) = some s ∧
    Umya.XmlEsc.unescape (Umya.XmlEsc.escape s) = some s :=
  ⟨Umya.XmlChannel.attrValue_attrEscape s, Umya.XmlEsc.attrRead_attrWrite s, Umya.XmlChannel.textValue_escape s,
   Umya.XmlEsc.unescape_escape s⟩

/-! ### enum tables -/

/-- Every constructor of every enum of the two codecs reads back from its own spelling. -/
theorem C06_dvcf_enum_tables :
    (∀ v, DvType.fromStr (DvType.toStr v) = some v) ∧ (∀ v, DvOp.fromStr (DvOp.toStr v) = some v) ∧
    (∀ v, CfType.fromStr (CfType.toStr v) = some v) ∧ (∀ v, CfOp.fromStr (CfOp.toStr v) = some v) ∧
    (∀ v, TimePeriod.fromStr (TimePeriod.toStr v) = some v) ∧ (∀ v, CfvoType.fromStr (CfvoType.toStr v) = some v) :=
  ⟨dvType_table, dvOp_table, cfType_table, cfOp_table, timePeriod_table, cfvoType_table⟩

/-- **Tie to the source (T).**  The six enum string tables of the two codecs are the source's, as regenerated from
    `src/structs/*_values.rs` on this run: same variants, same spellings, in the same order; the source's `from_str`
    arms are its `get_value_string` arms turned round; the model's `fromStr` maps every `from_str` text to that arm's
    constructor. -/
theorem C06_enum_tables_match_source :
    Umya.Gen.EnumMatches Umya.Gen.dv_type_table
      ["Custom", "Date", "Decimal", "List", "None", "TextLength", "Time", "Whole"] DvType.all DvType.toStr DvType.fromStr ∧
    Umya.Gen.EnumMatches Umya.Gen.dv_operator_table
      ["Between", "Equal", "GreaterThan", "GreaterThanOrEqual", "LessThan", "LessThanOrEqual", "NotBetween", "NotEqual"]
      DvOp.all DvOp.toStr DvOp.fromStr ∧
    Umya.Gen.EnumMatches Umya.Gen.cf_type_table
      ["AboveAverage", "BeginsWith", "CellIs", "ColorScale", "ContainsBlanks", "ContainsErrors", "ContainsText", "DataBar",
       "DuplicateValues", "EndsWith", "Expression", "IconSet", "NotContainsBlanks", "NotContainsErrors", "NotContainsText",
       "TimePeriod", "Top10", "UniqueValues"] CfType.all CfType.toStr CfType.fromStr ∧
    Umya.Gen.EnumMatches Umya.Gen.cf_operator_table
      ["BeginsWith", "Between", "ContainsText", "EndsWith", "Equal", "GreaterThan", "GreaterThanOrEqual", "LessThan",
       "LessThanOrEqual", "NotBetween", "NotContains", "NotEqual"] CfOp.all CfOp.toStr CfOp.fromStr ∧
    Umya.Gen.EnumMatches Umya.Gen.time_period_table
      ["Last7Days", "LastMonth", "LastWeek", "NextMonth", "NextWeek", "ThisMonth", "ThisWeek", "Today", "Tomorrow", "Yesterday"]
      TimePeriod.all TimePeriod.toStr TimePeriod.fromStr ∧
    Umya.Gen.EnumMatches Umya.Gen.cfvo_type_table
      ["Formula", "Max", "Min", "Number", "Percent", "Percentile"] CfvoType.all CfvoType.toStr CfvoType.fromStr :=
  ⟨Umya.Gen.gen_dv_type, Umya.Gen.gen_dv_operator, Umya.Gen.gen_cf_type, Umya.Gen.gen_cf_operator,
   Umya.Gen.gen_time_period, Umya.Gen.gen_cfvo_type⟩

/-- Before fix_1 the writer spelled `DataValidationValues::None` as `iso_8859_8_i`, which `from_str` rejects (and
    which is not a value of ST_DataValidationType): a validation of type `none` was written with an attribute no
    reader of the format accepts, and reloaded with the type unset. -/
theorem C06_dv_type_unfixed_fails : DvType.fromStr (DvType.toStrOld .none) = none := by decide

example : (DvType.all.map fun v => DvType.fromStr (DvType.toStrOld v)) ≠ DvType.all.map some := by decide

/-! ### data validations -/

/-- One validation: for every value of the twelve fields (each set or unset; any text in prompts, titles, error
    texts and formulas — XML-special characters, blanks at either end, the empty text; any number of ranges of the
    four printable shapes) the reader applied to the written element returns the validation itself. -/
theorem C06_data_validation_codec (x : Dv) (h : x.WF) : AnnotDv.read (AnnotDv.write x) = .ok x :=
  read_write x h

/-- The whole list: the reloaded list IS the list — same validations, same order, same ranges, none lost,
    duplicated or moved — for any number of validations. -/
theorem C06_data_validations_roundtrip (l : List Dv) (h : ∀ x ∈ l, x.WF) : readList (writeList l) = .ok l := by
  simp only [writeList, readList]
  exact readAll_written l h

/-- no validation takes a sibling's place: position by position -/
theorem C06_data_validations_positions (l : List Dv) (h : ∀ x ∈ l, x.WF) :
    ∃ back, readList (writeList l) = .ok back ∧ back.length = l.length ∧ ∀ i : Nat, back[i]? = l[i]? :=
  ⟨l, C06_data_validations_roundtrip l h, rfl, fun _ => rfl⟩

/-- Before fix_2 the formulas were read with `trim_text(true)`: blanks at the ends were lost. -/
theorem C06_dv_formula_unfixed_fails : formulaReadOld " \"a, b\" ".toList = some "\"a, b\"".toList := by decide

private theorem rangesOK_witness :
    RangesOK [⟨some ⟨1, false⟩, some ⟨1, false⟩, some ⟨3, true⟩, some ⟨1048576, true⟩⟩, ⟨some ⟨16384, false⟩, some ⟨7, false⟩, none, none⟩,
              ⟨none, some ⟨2, false⟩, none, some ⟨5, false⟩⟩] := by
  intro ρ hρ
  simp only [List.mem_cons, List.mem_nil_iff, or_false] at hρ
  rcases hρ with rfl | rfl | rfl
  · exact ⟨Or.inr (Or.inl (by simp)), by refine ⟨?_, ?_, ?_, ?_⟩ <;> intro x hx <;> injection hx with hx <;> subst hx <;> simp⟩
  · exact ⟨Or.inl (by simp), by refine ⟨?_, ?_, ?_, ?_⟩ <;> intro x hx <;> first | (injection hx with hx; subst hx; simp) | cases hx⟩
  · exact ⟨Or.inr (Or.inr (Or.inl (by simp))), by refine ⟨?_, ?_, ?_, ?_⟩ <;> intro x hx <;> first | (injection hx with hx; subst hx; simp) | cases hx⟩

/-- non-vacuity: a validation with every field set, special characters, outer blanks, three ranges -/
example : Dv.WF
    { type := some .list, operator := some .notBetween, allowBlank := some true, showInput := some false,
      showError := some true, promptTitle := some " R&D <1> ".toList, prompt := some "\"q\"\r\n".toList,
      errorTitle := some [], error := some "it's".toList,
      sqref := [⟨some ⟨1, false⟩, some ⟨1, false⟩, some ⟨3, true⟩, some ⟨1048576, true⟩⟩,
                ⟨some ⟨16384, false⟩, some ⟨7, false⟩, none, none⟩, ⟨none, some ⟨2, false⟩, none, some ⟨5, false⟩⟩],
      formula1 := some " \"a, b\" ".toList, formula2 := some [] } := rangesOK_witness

example : AnnotDv.read (AnnotDv.write
    { type := some .none, allowBlank := some false, prompt := some " <p> ".toList, formula1 := some " 1 ".toList,
      formula2 := some [] })
    = .ok { type := some .none, allowBlank := some false, prompt := some " <p> ".toList, formula1 := some " 1 ".toList,
            formula2 := some [] } := by decide

/-! ### conditional formatting -/

/-- The dxf table: the index handed out for a style denotes that style, and every earlier index keeps denoting
    what it denoted (the table only grows at the end). -/
theorem C06_cf_dxf_table (t : List Sty) (s : Sty) :
    (internSty t s).1[(internSty t s).2]? = some s ∧ ∀ (i : Nat) (x : Sty), t[i]? = some x → (internSty t s).1[i]? = some x :=
  ⟨internSty_get t s, fun _ _ hx => Ext.get (internSty_ext t s) hx⟩

/-- One rule, written when the dxf table is `t` and read against any later state `t'` of the table (`t'` extends
    the table after the rule): the rule itself comes back — type, operator, text, priority, rank, flags, time
    period, the three scale-like children, the formula, and its OWN style. -/
theorem C06_cf_rule_codec (t t' : List Sty) (r : Rule) (h : RuleWF r) (hx : Ext (writeRule t r).1 t')
    (hT : t'.length ≤ 18446744073709551616) : readRule t' (writeRule t r).2 = .ok r :=
  readRule_written t t' r h hx hT

/-- Blocks × rules, any number of each — a block may have no range and may have no rule, a colour of a scale may
    have no attribute —, starting from any dxf table `t0` (the table the workbook was loaded with; empty for a new
    workbook): reading the written blocks against the final table returns the blocks that have a rule
    (`writtenBlocks`: a block without rules holds no conditional format and is not written, fix bc044095) — same
    blocks in the same order, same ranges (none included, fix 13062503), same rules in the same order with the same
    priorities, the colours of every scale in their places (fix 8f9bb711), every `dxfId` resolving to its own rule's
    style (no swap between siblings, whichever styles coincide or differ); when every block has a rule, all of them. -/
theorem C06_conditional_formatting_roundtrip (t0 : List Sty) (bs : List Block) (h : ∀ b ∈ bs, BlockOK b)
    (hT : (writeBlocks t0 bs).1.length ≤ 18446744073709551616) :
    readBlocks (writeBlocks t0 bs).1 (writeBlocks t0 bs).2 = .ok (writtenBlocks bs) ∧
    ((∀ b ∈ bs, b.rules ≠ []) → readBlocks (writeBlocks t0 bs).1 (writeBlocks t0 bs).2 = .ok bs) := by
  have h1 := readBlocks_written_norm bs t0 _ h (Ext.refl _) hT
  exact ⟨h1, fun hr => by rw [h1, writtenBlocks_self bs hr]⟩

/-- `writtenBlocks` only leaves out the blocks without rules: the others stay, in order, untouched; the rules that
    come back are all the rules there were. -/
theorem C06_cf_written_blocks (bs : List Block) :
    (∀ b, b ∈ writtenBlocks bs ↔ b ∈ bs ∧ b.rules ≠ []) ∧
    (writtenBlocks bs).flatMap (·.rules) = bs.flatMap (·.rules) ∧
    writtenBlocks (writtenBlocks bs) = writtenBlocks bs := by
  refine ⟨fun b => ?_, ?_, ?_⟩
  · simp only [writtenBlocks, List.mem_filter, Bool.not_eq_eq_eq_not, Bool.not_true, List.isEmpty_eq_false_iff]
  · induction bs with
    | nil => rfl
    | cons b r ih =>
      cases hr : b.rules with
      | nil => simpa [writtenBlocks, List.filter_cons, hr] using ih
      | cons x xs =>
        simp only [writtenBlocks, List.filter_cons, hr, List.isEmpty_cons, Bool.not_false, if_true, List.flatMap_cons]
        simp only [writtenBlocks] at ih
        rw [ih]
  · simp [writtenBlocks, List.filter_filter]

/-- the formula text is what `get_address_str` returned before -/
theorem C06_cf_formula_text (f : Fml) (h : FmlWF f) :
    readFmlKids (if f.text = [] then [] else [Node.text f.text]) {} = .ok f := readFml_written f h

/-- Before fix_4 the table was searched by a hash of field texts concatenated without separators (`key` drops the
    separators here): the second rule got the first rule's `dxfId` and reloaded with its sibling's style. -/
theorem C06_cf_dxf_hash_unfixed_fails :
    let key : Sty → List Char := fun s => s.filter (· ≠ '|')
    let a := internStyKey key [] "Arial1|1".toList
    let b := internStyKey key a.1 "Arial|11".toList
    b.2 = a.2 ∧ b.1[b.2]? = some "Arial1|1".toList := by decide

/-- Before fix_3 an icon set was written as `<dataBar>`: it reloaded as a data bar, the icon set was gone. -/
theorem C06_cf_iconset_unfixed_fails :
    readRuleKids (ruleKidsOld { iconSet := some ⟨[⟨some .percent, some ['0']⟩, ⟨some .percent, some ['3', '3']⟩], []⟩ }) {}
      = .ok { dataBar := some ⟨[⟨some .percent, some ['0']⟩, ⟨some .percent, some ['3', '3']⟩], []⟩, iconSet := none } := by
  decide

/-- Before fix 8f9bb711 a colour without any attribute was not written, so the colours after it moved up. -/
theorem C06_cf_blank_color_unfixed_fails :
    readScaleKids (Node.children (writeScaleOld "colorScale".toList ⟨[], [{}, { argb := some "FFFF0000".toList }]⟩)) {}
      = .ok ⟨[], [{ argb := some "FFFF0000".toList }]⟩ := by decide

/-- now: the colour without attributes keeps its place (was the witness of the refutation; `c06 reset codecw cf-blank-color`) -/
example : readScaleKids (Node.children (writeScale "colorScale".toList ⟨[], [{}, { argb := some "FFFF0000".toList }]⟩)) {}
      = .ok ⟨[], [{}, { argb := some "FFFF0000".toList }]⟩ := by decide

/-- Before fix 13062503 the `sqref=""` a block without ranges is written with reloaded as one empty range
    (`"".split(' ')` yields one piece); `get_sqref` is the empty text before and after. -/
theorem C06_cf_empty_sqref_unfixed_fails :
    setSqrefOld [] (sqrefText []) = .ok [{}] ∧ sqrefText [{}] = sqrefText [] := by decide

/-- now: no range (`c06 reset codecw cf-empty-sqref`) -/
example : readBlock ["s".toList] (blockElem [] ⟨[], [{ priority := some 1 }]⟩) = .ok ⟨[], [{ priority := some 1 }]⟩ := by
  decide +kernel

/-- Before fix bc044095 a block without rules was written as an empty element (`blockElem`), which the worksheet
    reader (an `Event::Start` arm) does not see: the block was gone after reload all the same, and the file held
    an element that is not valid (CT_ConditionalFormatting requires a cfRule). -/
theorem C06_cf_no_rules_unfixed_fails :
    readBlocks [] [blockElem [] ⟨[⟨some ⟨1, false⟩, some ⟨1, false⟩, none, none⟩], []⟩,
                   blockElem [] ⟨[⟨some ⟨2, false⟩, some ⟨2, false⟩, none, none⟩], [{ priority := some 1 }]⟩]
      = .ok [⟨[⟨some ⟨2, false⟩, some ⟨2, false⟩, none, none⟩], [{ priority := some 1 }]⟩] := by decide +kernel

/-- now: nothing is written for it (`c06 reset codecw cf-no-rules`) -/
example : (writeBlocks [] [⟨[⟨some ⟨1, false⟩, some ⟨1, false⟩, none, none⟩], []⟩,
                           ⟨[⟨some ⟨2, false⟩, some ⟨2, false⟩, none, none⟩], [{ priority := some 1 }]⟩]).2
      = [blockElem [] ⟨[⟨some ⟨2, false⟩, some ⟨2, false⟩, none, none⟩], [{ priority := some 1 }]⟩] := by rfl

/-- Outside `FmlWF`: a text `is_address` accepts is re-printed from the parsed address (`A01` → `A1`,
    `'S'!A1` → `S!A1`): the same reference in canonical spelling. -/
example : (readFmlKids [Node.text ['A', '0', '1']] {}).bind (fun f => .ok f.text) = .ok ['A', '1'] := by decide +kernel

private theorem areaOK_witness : AreaOK ⟨"It's a".toList, ⟨some ⟨1, true⟩, some ⟨1, true⟩, none, none⟩⟩ := by
  refine ⟨⟨⟨by simp, by simp⟩, by decide⟩, Or.inl ⟨by simp, by simp, by simp, by simp⟩, ?_⟩
  refine ⟨?_, ?_, ?_, ?_⟩ <;> intro x hx <;> first | (injection hx with hx; subst hx; simp) | cases hx

/-- non-vacuity: two blocks, rules sharing and not sharing styles, a scale, formulas of each kind -/
example : ∀ b ∈ ([⟨[⟨some ⟨1, false⟩, some ⟨1, false⟩, some ⟨3, true⟩, some ⟨1048576, true⟩⟩],
      [{ type := some .cellIs, operator := some .greaterThan, style := some "s1".toList, priority := some 2,
         formula := some ⟨⟨[], {}⟩, some " 1+1 ".toList⟩ },
       { type := some .top10, style := some "s2".toList, priority := some (-1), rank := some 10, percent := some true, bottom := some false },
       { type := some .colorScale, priority := some 3,
         colorScale := some ⟨[⟨some .min, none⟩, ⟨some .max, none⟩], [{ argb := some "FFF8696B".toList }, { theme := some 4, tint := some "0.5".toList }]⟩ }]⟩,
     ⟨[⟨some ⟨16384, false⟩, some ⟨7, false⟩, none, none⟩],
      [{ type := some .expression, style := some "s1".toList, priority := some 1,
         formula := some ⟨⟨"It's a".toList, ⟨some ⟨1, true⟩, some ⟨1, true⟩, none, none⟩⟩, none⟩ }]⟩] : List Block), BlockWF b := by
  intro b hb
  simp only [List.mem_cons, List.mem_nil_iff, or_false] at hb
  rcases hb with rfl | rfl
  · refine ⟨fun ρ hρ => rangesOK_witness ρ (by simp only [List.mem_singleton] at hρ; subst hρ; simp), by simp, ?_⟩
    intro r hr
    simp only [List.mem_cons, List.mem_nil_iff, or_false] at hr
    rcases hr with rfl | rfl | rfl
    · refine ⟨by simp [I32], by simp, by simp, by simp, by simp, by simp, ?_⟩
      intro f hf; injection hf with hf; subst hf
      exact FmlWF.text _ (by simp) (by decide)
    · exact ⟨by simp [I32], by simp, by simp, by simp, by simp, by simp, by simp⟩
    · refine ⟨by simp [I32], by simp, by simp, ?_, by simp, by simp, by simp⟩
      intro s hs; injection hs with hs; subst hs
      refine ⟨fun c hc => ?_⟩
      simp only [List.mem_cons, List.mem_nil_iff, or_false] at hc
      rcases hc with rfl | rfl
      · exact ⟨by simp, by simp, by simp⟩
      · exact ⟨by simp, by simp, by simp⟩
  · refine ⟨fun ρ hρ => rangesOK_witness ρ (by simp only [List.mem_singleton] at hρ; subst hρ; simp), by simp, ?_⟩
    intro r hr
    simp only [List.mem_singleton] at hr; subst hr
    refine ⟨by simp [I32], by simp, by simp, by simp, by simp, by simp, ?_⟩
    intro f hf; injection hf with hf; subst hf
    exact FmlWF.area _ areaOK_witness

/-- non-vacuity of `BlockOK` beyond `BlockWF`, executed: a block without ranges whose colour scale has a colour
    without attributes between two others, a block without rules, a block with both: the first and the third come
    back, as they were -/
example :
    let bs : List Block := [⟨[],
      [{ type := some .colorScale, priority := some 1,
         colorScale := some ⟨[⟨some .min, none⟩, ⟨some .percentile, some "50".toList⟩, ⟨some .max, none⟩],
           [{ argb := some "FFF8696B".toList }, {}, { theme := some 4 }]⟩ }]⟩,
      ⟨[⟨some ⟨1, false⟩, some ⟨1, false⟩, some ⟨3, true⟩, some ⟨1048576, true⟩⟩], []⟩,
      ⟨[⟨some ⟨16384, false⟩, some ⟨7, false⟩, none, none⟩], [{ style := some "s1".toList, priority := some 2 }]⟩]
    (∀ b ∈ bs, BlockOK b) ∧ writtenBlocks bs = [bs[0], bs[2]] ∧
    readBlocks (writeBlocks [] bs).1 (writeBlocks [] bs).2 = .ok [bs[0], bs[2]] := by
  intro bs
  have hok : ∀ b ∈ bs, BlockOK b := by
    intro b hb
    simp only [bs, List.mem_cons, List.mem_nil_iff, or_false] at hb
    rcases hb with rfl | rfl | rfl
    · refine ⟨fun ρ hρ => by simp at hρ, ?_⟩
      intro r hr
      simp only [List.mem_singleton] at hr; subst hr
      refine ⟨by simp [I32], by simp, by simp, ?_, by simp, by simp, by simp⟩
      intro s hs; injection hs with hs; subst hs
      refine ⟨fun c hc => ?_⟩
      simp only [List.mem_cons, List.mem_nil_iff, or_false] at hc
      rcases hc with rfl | rfl | rfl
      · exact ⟨by simp, by simp, by simp⟩
      · exact ⟨by simp, by simp, by simp⟩
      · exact ⟨by simp, by simp, by simp⟩
    · exact ⟨fun ρ hρ => rangesOK_witness ρ (by simp only [List.mem_singleton] at hρ; subst hρ; simp), fun r hr => by simp at hr⟩
    · refine ⟨fun ρ hρ => rangesOK_witness ρ (by simp only [List.mem_singleton] at hρ; subst hρ; simp), ?_⟩
      intro r hr
      simp only [List.mem_singleton] at hr; subst hr
      exact ⟨by simp [I32], by simp, by simp, by simp, by simp, by simp, by simp⟩
  refine ⟨hok, by decide, ?_⟩
  rw [(C06_conditional_formatting_roundtrip [] bs hok (by decide +kernel)).1]
  decide

/-- the same value, executed: the second block's rule gets `dxfId` 0 again and reads its own style -/
example :
    let bs : List Block := [⟨[⟨some ⟨1, false⟩, some ⟨1, false⟩, none, none⟩],
      [{ style := some "s1".toList, priority := some 2 }, { style := some "s2".toList, priority := some 1 }]⟩,
      ⟨[⟨some ⟨2, false⟩, some ⟨2, false⟩, none, none⟩], [{ style := some "s1".toList, priority := some 3 }]⟩]
    (writeBlocks [] bs).1 = ["s1".toList, "s2".toList] ∧ readBlocks (writeBlocks [] bs).1 (writeBlocks [] bs).2 = .ok bs := by
  decide +kernel

end Umya.Thm.C06
