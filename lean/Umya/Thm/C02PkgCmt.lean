/-
  C02, package level — workbooks whose sheets may carry COMMENTS.

  `Umya/Model/PackageNodeCmt.lean` extends the package model of `Umya/Model/PackageNode.lean` (n plain sheets) by what
  `make_buffer` adds for a sheet with comments: the VML part `xl/drawings/vmlDrawing{v}.vml` and the comments part
  `xl/comments{c}.xml`, numbered per family by `WriterManager`'s smallest-free-index loop in sheet order; the sheet's
  relationships part with the vmlDrawing and comments relationships AFTER the hyperlink ones (ids continuing the
  hyperlink counter); the `<legacyDrawing r:id>` child of the sheet carrying the id of the vmlDrawing relationship; the
  `vml` Default and one comments Override in `[Content_Types].xml`.  The theorems are the analogues of those of
  `Thm/C02Pkg.lean`, for every number of sheets with and without comments in any mixture:

    C02_cmt_free_index_smallest     the fuelled loop returns the smallest unregistered index, for every set of registered numbers
    C02_cmt_numbers_own_pair        sheet i gets (m+1, m+1), m = the number of earlier sheets with comments (nothing without)
    C02_cmt_content_types_cover     every part has a content type; C02_cmt_content_types_parts says which for the new parts
    C02_cmt_package_rels_resolve    every internal relationship target of every `.rels` part is a part of the package
    C02_cmt_sheet_rels_own_parts    the sheet's vmlDrawing / comments relationships lead to ITS VML / comments parts
    C02_cmt_rel_ids_unique          relationship ids are unique within every `.rels` part
    C02_cmt_legacy_drawing_resolves the `r:id` of `<legacyDrawing>` is the id of the vmlDrawing relationship, whose target is the sheet's VML part
    C02_cmt_hyperlinks_unchanged    the hyperlink relationships are read first, as in a plain sheet (same ids, same targets)
    C02_cmt_package_no_diagnostics  (decode pkg).2 = []
    C02_cmt_book_decodes            decode pkg = (some book, []) with the sheet list, bodies, names, active tab of the workbook
    C02_cmt_plain_same              without any comment the package is the one of the plain model

  Comments are not part of the decoder's `BookV`; the theorems say their parts do not disturb anything.  The comments /
  VML TREES are those of `Umya/Model/AnnotComment.lean` (C06); here only their names, types, relationships, numbers.
  Hypotheses (`BookC.WF`, decidable per workbook): as `BookP.WF`, with the frame conditions on the WRITTEN frame (the one
  that contains `legacyDrawing`) and `ridsOk` on the opaque children only: the `r:id` of `legacyDrawing` is proved.
  Outside the model: custom properties, macros, ribbon, pivot caches, raw sheets, drawings, charts, images, OLE objects,
  printer settings, tables.
-/
import Umya.Lemmas.PackageNodeCmtDecode
import Umya.Thm.C02Pkg
namespace Umya.Thm.C02
open Umya.CellXml Umya.CellNode Umya.SheetNode Umya.WorkbookNode Umya.PackageNode Umya.Num
open Umya.Spec.Sml
open Umya.Spec.Xml (Node Attr)
open Umya.AnnotComment (Comment writeVml writeComments)

/-- `writePackageC` succeeded: the pieces -/
theorem writePackageC_anatomy (F : NumFmt) (b : BookC F.Num) (pkg : Package) (h : writePackageC F b = some pkg) :
    ∃ tbl roots cmt sst, renderSheetsP F [] (b.sheets.map (·.toP)) = some (tbl, roots) ∧ Built F b cmt tbl sst ∧
      pkg = assembleC F b (!tbl.isEmpty) roots cmt sst := by
  unfold writePackageC at h
  cases hr : renderSheetsP F [] (b.sheets.map (·.toP)) with
  | none => rw [hr] at h; cases h
  | some q =>
    obtain ⟨tbl, roots⟩ := q
    rw [hr] at h
    simp only at h
    cases hc : cmtPartsC (annotate b.sheets) with
    | none => rw [hc] at h; cases h
    | some cmt =>
      rw [hc] at h
      simp only [Option.map_eq_some_iff] at h
      obtain ⟨sst, hs, rfl⟩ := h
      exact ⟨tbl, roots, cmt, sst, rfl, ⟨hc, sstPartsP_shape tbl sst hs⟩, rfl⟩

theorem roots_length (F : NumFmt) (b : BookC F.Num) (tbl : Table) (roots : List Node)
    (hr : renderSheetsP F [] (b.sheets.map (·.toP)) = some (tbl, roots)) : roots.length = b.sheets.length := by
  rw [(renderSheetsP_nth F _ [] tbl roots hr).1, List.length_map]

theorem mem_of_getElem? {α} (l : List α) (i : Nat) (a : α) (h : l[i]? = some a) : a ∈ l := List.mem_of_getElem? h

/-! ### numbers -/

/-- **NUMBERS.**  The smallest-free-index rule, run over the sheets in order, gives the sheet at position `i` a pair
    exactly when it has comments, and then the pair `(m + 1, m + 1)` where `m` is the number of earlier sheets with
    comments: every sheet with comments has its own VML part and its own comments part, whatever the mixture. -/
theorem C02_cmt_numbers_own_pair {N : Type} (ss : List (SheetC N)) (i : Nat) (s : SheetC N) (num : Option (Nat × Nat))
    (h : (annotate ss)[i]? = some (s, num)) :
    num = (if s.has then some (countTrue ((ss.take i).map (·.has)) + 1, countTrue ((ss.take i).map (·.has)) + 1) else none) ∧
    NumsDistinct (annotate ss) :=
  ⟨annotate_num ss i s num h, annotate_distinct ss⟩

/-- **THE LOOP.**  `add_file_at_vml_drawing` / `add_file_at_comment` (`index = 0; loop { index += 1; if !exists { return } }`),
    modelled on fuel, returns for EVERY set of registered numbers the smallest index ≥ 1 that is not registered:
    `used.length` tests suffice. -/
theorem C02_cmt_free_index_smallest (used : List Nat) :
    1 ≤ firstFree used ∧ firstFree used ∉ used ∧ ∀ j, 1 ≤ j → j < firstFree used → j ∈ used :=
  firstFree_spec used

example : firstFree [1, 2, 4] = 3 ∧ firstFree [2, 3] = 1 ∧ firstFree [] = 1 := by decide

/-! ### content types -/

theorem cmt_ne_closed (nm : List Char) (h : nm ∈ [nApp, nCore, nRootRels, nTheme, nSst, nStyles, nWorkbookPart, nWorkbookRels, nContentTypes]) :
    ∀ i, commentsPartL i ≠ nm := by
  intro i e
  simp only [List.mem_cons, List.not_mem_nil, or_false] at h
  rcases h with rfl | rfl | rfl | rfl | rfl | rfl | rfl | rfl | rfl <;>
    simp [commentsPartL, nApp, nCore, nRootRels, nTheme, nSst, nStyles, nWorkbookPart, nWorkbookRels, nContentTypes] at e

/-- the content type the decoder finds for a part of the model package, by kind of part -/
theorem contentType_of_partC {F : NumFmt} {b : BookC F.Num} {cmt : List Part} {tbl : Table} {sst : List Part} (hb : Built F b cmt tbl sst)
    (roots : List Node) (hlen : roots.length = b.sheets.length)
    (part : Part) (hp : part ∈ assembleC F b (!tbl.isEmpty) roots cmt sst) (hne : part.name ≠ "[Content_Types].xml") :
    ∃ ct, contentTypeOf (assembleC F b (!tbl.isEmpty) roots cmt sst) part.name = some ct := by
  rcases parts_classifiedC hb _ roots part hp with ⟨nm, r, rfl, hnm⟩ | ⟨r, ht, rfl⟩ | ⟨j, r, h1, h2, rfl⟩ | ⟨j, p, rr, h1, _, _, rfl⟩ |
    ⟨s, v, c, hm, rfl | ⟨root, _, rfl⟩⟩
  · simp only [List.mem_cons, List.not_mem_nil, or_false] at hnm
    rcases hnm with rfl | rfl | rfl | rfl | rfl | rfl | rfl | rfl
    · exact ⟨_, ctC_plain_hit hb _ roots nApp ctApp (cmt_ne_closed _ (by simp)) (ov_app _ _)⟩
    · exact ⟨_, ctC_plain_hit hb _ roots nCore ctCore (cmt_ne_closed _ (by simp)) (ov_core _ _)⟩
    · exact ⟨_, ctC_default_rels hb _ roots nRootRels (cmt_ne_closed _ (by simp))
        (ov_none _ _ _ (by decide) (by decide) (by decide) (by decide) (by decide) (by decide) (by intro i; simp [sheetPartL, nRootRels])) (by decide)⟩
    · exact ⟨_, ctC_plain_hit hb _ roots nTheme ctTheme (cmt_ne_closed _ (by simp)) (ov_theme _ _)⟩
    · exact ⟨_, ctC_plain_hit hb _ roots nStyles ctStyles (cmt_ne_closed _ (by simp)) (ov_styles _ _)⟩
    · exact ⟨_, ctC_plain_hit hb _ roots nWorkbookPart ctWorkbook (cmt_ne_closed _ (by simp)) (ov_workbook _ _)⟩
    · exact ⟨_, ctC_default_rels hb _ roots nWorkbookRels (cmt_ne_closed _ (by simp))
        (ov_none _ _ _ (by decide) (by decide) (by decide) (by decide) (by decide) (by decide) (by intro i; simp [sheetPartL, nWorkbookRels])) (by decide)⟩
    · exact absurd rfl hne
  · -- the shared-string part is in the package only when the table is not empty, and then its Override is written
    have he : (!tbl.isEmpty) = true := by cases tbl with | nil => exact absurd rfl ht | cons _ _ => rfl
    rw [he]
    exact ⟨_, ctC_plain_hit hb true roots nSst ctSst (cmt_ne_closed _ (by simp)) (ov_sst _)⟩
  · exact ⟨_, ctC_plain_hit hb _ roots (sheetPartL j) sheetContentType (fun i e => sheetPart_ne_comments j i e.symm) (ov_sheet _ _ j h1 (by omega))⟩
  · exact ⟨_, ctC_default_rels hb _ roots (sheetRelsL j) (fun i e => sheetRels_ne_comments j i e.symm)
      (ov_none _ _ _ (by simp [sheetRelsL, nApp]) (by simp [sheetRelsL, nCore]) (by simp [sheetRelsL, nSst]) (by simp [sheetRelsL, nStyles])
        (by simp [sheetRelsL, nTheme]) (by simp [sheetRelsL, nWorkbookPart]) (fun i => sheetPart_ne_sheetRels i j)) (ext_sheetRels j)⟩
  · exact ⟨_, ctC_default_vml hb _ roots v (List.ne_nil_of_mem (mem_vmlNums _ s v c hm).1)⟩
  · exact ⟨_, ctC_comments hb _ roots c (mem_vmlNums _ s v c hm).2⟩

/-- **CONTENT TYPES.**  Every part of the package the model writes — any number of sheets, with and without comments,
    with or without a shared-string part — has a content type under the decoder's look-up (`Override` by part name,
    else `Default` by extension): the VML parts through `Default vml`, the comments parts through their Overrides. -/
theorem C02_cmt_content_types_cover (F : NumFmt) (b : BookC F.Num) (pkg : Package) (h : writePackageC F b = some pkg) :
    ∀ part ∈ pkg, part.name ≠ "[Content_Types].xml" → (contentTypeOf pkg part.name).isSome = true := by
  obtain ⟨tbl, roots, cmt, sst, hr, hb, rfl⟩ := writePackageC_anatomy F b pkg h
  intro part hp hne
  obtain ⟨ct, hct⟩ := contentType_of_partC hb roots (roots_length F b tbl roots hr) part hp hne
  rw [hct]; rfl

/-- … and which: the VML type for the VML part of every sheet with comments, the comments type for its comments part,
    the worksheet type for every `sheetK.xml`, the relationships type for every sheet relationships part -/
theorem C02_cmt_content_types_parts (F : NumFmt) (b : BookC F.Num) (pkg : Package) (h : writePackageC F b = some pkg)
    (k : Nat) (h1 : 1 ≤ k) (s : SheetC F.Num) (v c : Nat) (hk : (annotate b.sheets)[k - 1]? = some (s, some (v, c))) :
    contentTypeOf pkg (String.ofList (vmlPartL v)) = some (str ctVml) ∧
    contentTypeOf pkg (String.ofList (commentsPartL c)) = some (str ctComments) ∧
    contentTypeOf pkg (String.ofList (sheetPartL k)) = some (str sheetContentType) ∧
    contentTypeOf pkg (String.ofList (sheetRelsL k)) = some (str ctRels) := by
  obtain ⟨tbl, roots, cmt, sst, hr, hb, rfl⟩ := writePackageC_anatomy F b pkg h
  have hm := mem_of_getElem? _ _ _ hk
  have hlt : k - 1 < b.sheets.length := by
    have := (List.getElem?_eq_some_iff.1 hk).1
    rwa [annotate_length] at this
  exact ⟨ctC_default_vml hb _ roots v (List.ne_nil_of_mem (mem_vmlNums _ s v c hm).1),
    ctC_comments hb _ roots c (mem_vmlNums _ s v c hm).2,
    ctC_plain_hit hb _ roots (sheetPartL k) sheetContentType (fun i e => sheetPart_ne_comments k i e.symm) (ov_sheet _ _ k h1 (by omega)),
    ctC_default_rels hb _ roots (sheetRelsL k) (fun i e => sheetRels_ne_comments k i e.symm)
      (ov_none _ _ _ (by simp [sheetRelsL, nApp]) (by simp [sheetRelsL, nCore]) (by simp [sheetRelsL, nSst]) (by simp [sheetRelsL, nStyles])
        (by simp [sheetRelsL, nTheme]) (by simp [sheetRelsL, nWorkbookPart]) (fun i => sheetPart_ne_sheetRels i k)) (ext_sheetRels k)⟩

/-! ### relationships -/

theorem mem_cmtRecs (k : Nat) (num : Option (Nat × Nat)) (r : Rel) (h : r ∈ cmtRecs k num) :
    ∃ v c, num = some (v, c) ∧ (r = relRec k tVml (vmlTarget v) ∨ r = relRec (k + 1) tComments (commentsTarget c)) := by
  cases num with
  | none => simp [cmtRecs] at h
  | some vc =>
    obtain ⟨v, c⟩ := vc
    simp only [cmtRecs, List.mem_cons, List.not_mem_nil, or_false] at h
    exact ⟨v, c, rfl, h⟩

theorem relsDiag_pkgC {F : NumFmt} {b : BookC F.Num} {cmt : List Part} {tbl : Table} {sst : List Part} (hb : Built F b cmt tbl sst)
    (roots : List Node) (hlen : roots.length = b.sheets.length)
    (part : Part) (hp : part ∈ assembleC F b (!tbl.isEmpty) roots cmt sst) :
    relsDiag (assembleC F b (!tbl.isEmpty) roots cmt sst) part = [] := by
  have hnot : ∀ (nm : List Char) (r : Node), isRelsNameL nm = false → relsDiag (assembleC F b (!tbl.isEmpty) roots cmt sst) (xmlPart nm r) = [] := by
    intro nm r h
    unfold relsDiag
    simp only [xmlPart, String.toList_ofList, h, Bool.false_eq_true, if_false]
  rcases parts_classifiedC hb _ roots part hp with ⟨nm, r, rfl, hnm⟩ | ⟨r, ht, rfl⟩ | ⟨j, r, h1, h2, rfl⟩ | ⟨j, p, rr, h1, hpj, hrr, rfl⟩ |
    ⟨s, v, c, hm, rfl | ⟨root, _, rfl⟩⟩
  · simp only [List.mem_cons, List.not_mem_nil, or_false] at hnm
    rcases hnm with rfl | rfl | rfl | rfl | rfl | rfl | rfl | rfl
    · exact hnot _ _ (by decide)
    · exact hnot _ _ (by decide)
    · -- _rels/.rels
      apply relsDiag_nil_of _ _ "" (by simp only [xmlPart, String.toList_ofList]; exact congrArg String.ofList (show relsSourceL nRootRels = [] by decide))
      · rw [relsOfC_root hb _ roots]
        apply eraseDups_len_of_nodup
        simp only [List.map_cons, List.map_nil, relRec, List.nodup_cons, List.mem_cons, List.not_mem_nil, or_false, not_or, List.nodup_nil, and_true]
        exact ⟨⟨rid_ne 3 2 (by omega), rid_ne 3 1 (by omega)⟩, rid_ne 2 1 (by omega), not_false⟩
      · rw [relsOfC_root hb _ roots]
        intro r hr _
        simp only [List.mem_cons, List.not_mem_nil, or_false] at hr
        rcases hr with rfl | rfl | rfl
        · simp only [relRec]; rw [resolve_root nApp nApp (by decide), partC_app hb _ roots]; rfl
        · simp only [relRec]; rw [resolve_root nCore nCore (by decide), partC_core hb _ roots]; rfl
        · simp only [relRec]; rw [resolve_root nWorkbookPart nWorkbookPart (by decide), partC_workbook hb _ roots]; rfl
    · exact hnot _ _ (by decide)
    · exact hnot _ _ (by decide)
    · exact hnot _ _ (by decide)
    · -- xl/_rels/workbook.xml.rels
      apply relsDiag_nil_of _ _ (String.ofList nWorkbookPart) (by simp only [xmlPart, String.toList_ofList]; exact congrArg String.ofList (show relsSourceL nWorkbookRels = nWorkbookPart by decide))
      · rw [relsOfC_wb hb _ roots]
        obtain ⟨m, hm⟩ := wb_ids b.sheets.length (!tbl.isEmpty)
        exact rids_unique 1 m _ hm
      · rw [relsOfC_wb hb _ roots]
        intro r hr _
        rcases List.mem_append.1 hr with hr | hr
        · obtain ⟨j, j1, j2, rfl⟩ := wsRecs_mem _ 1 r hr
          have : ∃ root, roots[j - 1]? = some root := by
            have : j - 1 < roots.length := by omega
            exact ⟨roots[j - 1], List.getElem?_eq_getElem this⟩
          obtain ⟨root, hroot⟩ := this
          simp only
          rw [resolve_wb (sheetTarget j) (sheetPartL j) (resolve_sheetTarget j), partC_sheet hb _ roots j j1 root hroot]; rfl
        · have hsst := hb.sst
          cases hsst with
          | absent ht =>
            subst ht
            simp only [wbRestRecs, List.isEmpty_nil, Bool.not_true, Bool.false_eq_true, if_false, List.append_nil, List.mem_cons, List.not_mem_nil, or_false] at hr
            rcases hr with rfl | rfl
            · simp only [relRec]; rw [resolve_wb tStylesTarget nStyles (by decide), partC_styles hb _ roots]; rfl
            · simp only [relRec]; rw [resolve_wb tThemeTarget nTheme (by decide), partC_theme hb _ roots]; rfl
          | present root hne hroot =>
            have he : (!tbl.isEmpty) = true := by cases tbl with | nil => exact absurd rfl hne | cons _ _ => rfl
            rw [he] at hr ⊢
            simp only [wbRestRecs, if_true, List.cons_append, List.nil_append, List.mem_cons, List.not_mem_nil, or_false] at hr
            rcases hr with rfl | rfl | rfl
            · simp only [relRec]; rw [resolve_wb tStylesTarget nStyles (by decide), partC_styles hb _ roots]; rfl
            · simp only [relRec]; rw [resolve_wb tThemeTarget nTheme (by decide), partC_theme hb _ roots]; rfl
            · simp only [relRec]; rw [resolve_wb tSstTarget nSst (by decide), partC_sst hb _ roots]; rfl
    · exact hnot _ _ (by decide)
  · exact hnot _ _ (by decide)
  · exact hnot _ _ (isRels_sheetPart j)
  · -- a sheet relationships part: hyperlink relationships (external), then vmlDrawing and comments
    unfold relsInput at hpj
    rw [List.getElem?_map] at hpj
    cases han : (annotate b.sheets)[j - 1]? with
    | none => rw [han] at hpj; cases hpj
    | some sn =>
      obtain ⟨s, num⟩ := sn
      obtain ⟨_, hrel⟩ := relsOfC_sheet hb _ roots j h1 s num han
      apply relsDiag_nil_of _ _ (String.ofList (sheetPartL j)) (by simp only [xmlPart, String.toList_ofList, relsSource_sheetRels])
      · rw [hrel]
        obtain ⟨m, hm⟩ := sheet_ids s.sheet.links num
        exact rids_unique 1 m _ hm
      · rw [hrel]
        intro r hr he
        rcases List.mem_append.1 hr with hr | hr
        · rw [relRecs_external s.sheet.links 1 r hr] at he; cases he
        · obtain ⟨v, c, rfl, rfl | rfl⟩ := mem_cmtRecs _ _ r hr
          · simp only [relRec]
            rw [resolve_sheet j _ _ (resolve_vmlTarget j v), partC_vml hb _ roots s v c (mem_of_getElem? _ _ _ han)]; rfl
          · simp only [relRec]
            obtain ⟨root, _, hpc⟩ := partC_comments hb (!tbl.isEmpty) roots s v c (mem_of_getElem? _ _ _ han)
            rw [resolve_sheet j _ _ (resolve_commentsTarget j c), hpc]; rfl
  · exact hnot _ _ (isRels_vmlPart v)
  · exact hnot _ _ (isRels_commentsPart c)

/-- **RELATIONSHIP TARGETS.**  Every internal relationship of every relationships part of the model package
    (`_rels/.rels`, `xl/_rels/workbook.xml.rels`, every `xl/worksheets/_rels/sheetK.xml.rels` — whose internal
    relationships are the vmlDrawing and comments ones) resolves, by the decoder's `resolveTarget` on the concrete
    names relative to the source part, to a part that is in the package. -/
theorem C02_cmt_package_rels_resolve (F : NumFmt) (b : BookC F.Num) (pkg : Package) (h : writePackageC F b = some pkg) :
    ∀ part ∈ pkg, isRelsNameL part.name.toList = true →
      ∀ r ∈ relsOf pkg (String.ofList (relsSourceL part.name.toList)), r.external = false →
        (pkg.part? (resolveTarget (String.ofList (relsSourceL part.name.toList)) r.target)).isSome = true := by
  obtain ⟨tbl, roots, cmt, sst, hr, hb, rfl⟩ := writePackageC_anatomy F b pkg h
  intro part hp hrels r hrr hext
  have hd := relsDiag_pkgC hb roots (roots_length F b tbl roots hr) part hp
  unfold relsDiag at hd
  rw [if_pos hrels] at hd
  have h2 := (List.append_eq_nil_iff.1 hd).2
  have := List.filterMap_eq_nil_iff.1 h2 r hrr
  simp only [hext, Bool.false_eq_true, if_false] at this
  by_cases hs : (Package.part? (assembleC F b (!tbl.isEmpty) roots cmt sst) (resolveTarget (String.ofList (relsSourceL part.name.toList)) r.target)).isSome = true
  · exact hs
  · simp [hs] at this

/-- **THE SHEET'S OWN PARTS.**  For the K-th sheet, given the numbers `(v, c)`: its relationships, as the decoder
    reads them, are its hyperlink relationships followed by `rId{r}` vmlDrawing and `rId{r+1}` comments (r = the
    counter after the hyperlink loop); their targets resolve from the sheet part to `xl/drawings/vmlDrawing{v}.vml` and
    `xl/comments{c}.xml`; and these parts hold the VML tree and the comments tree of THIS sheet's comments. -/
theorem C02_cmt_sheet_rels_own_parts (F : NumFmt) (b : BookC F.Num) (pkg : Package) (h : writePackageC F b = some pkg)
    (k : Nat) (h1 : 1 ≤ k) (s : SheetC F.Num) (v c : Nat) (hk : (annotate b.sheets)[k - 1]? = some (s, some (v, c))) :
    relsOf pkg (String.ofList (sheetPartL k)) =
      relRecs 1 s.sheet.links ++ [relRec (hlNext 1 s.sheet.links) tVml (vmlTarget v), relRec (hlNext 1 s.sheet.links + 1) tComments (commentsTarget c)] ∧
    resolveTarget (String.ofList (sheetPartL k)) (str (vmlTarget v)) = String.ofList (vmlPartL v) ∧
    resolveTarget (String.ofList (sheetPartL k)) (str (commentsTarget c)) = String.ofList (commentsPartL c) ∧
    pkg.part? (String.ofList (vmlPartL v)) = some (xmlPart (vmlPartL v) (writeVml s.comments)) ∧
    ∃ root, writeComments s.authors s.comments = some root ∧
      pkg.part? (String.ofList (commentsPartL c)) = some (xmlPart (commentsPartL c) root) := by
  obtain ⟨tbl, roots, cmt, sst, hr, hb, rfl⟩ := writePackageC_anatomy F b pkg h
  have hm := mem_of_getElem? _ _ _ hk
  exact ⟨(relsOfC_sheet hb _ roots k h1 s _ hk).2, resolve_sheet k _ _ (resolve_vmlTarget k v), resolve_sheet k _ _ (resolve_commentsTarget k c),
    partC_vml hb _ roots s v c hm, partC_comments hb _ roots s v c hm⟩

/-- **RELATIONSHIP IDS.**  Within every relationships part of the model package the ids are pairwise different. -/
theorem C02_cmt_rel_ids_unique (F : NumFmt) (b : BookC F.Num) (pkg : Package) (h : writePackageC F b = some pkg) :
    ∀ part ∈ pkg, isRelsNameL part.name.toList = true →
      ((relsOf pkg (String.ofList (relsSourceL part.name.toList))).map (·.id)).eraseDups.length =
        ((relsOf pkg (String.ofList (relsSourceL part.name.toList))).map (·.id)).length := by
  obtain ⟨tbl, roots, cmt, sst, hr, hb, rfl⟩ := writePackageC_anatomy F b pkg h
  intro part hp hrels
  have hd := relsDiag_pkgC hb roots (roots_length F b tbl roots hr) part hp
  unfold relsDiag at hd
  rw [if_pos hrels] at hd
  have h1 := (List.append_eq_nil_iff.1 hd).1
  by_cases hq : ((relsOf (assembleC F b (!tbl.isEmpty) roots cmt sst) (String.ofList (relsSourceL part.name.toList))).map (·.id)).eraseDups.length =
        ((relsOf (assembleC F b (!tbl.isEmpty) roots cmt sst) (String.ofList (relsSourceL part.name.toList))).map (·.id)).length
  · exact hq
  · rw [if_neg hq] at h1; cases h1

/-- **LEGACY DRAWING.**  In the K-th sheet part of a sheet with comments the `<legacyDrawing>` child the model writes
    carries `r:id = rId{r}`; the relationship the decoder finds under that id in the sheet's relationships part is the
    vmlDrawing one (no hyperlink relationship has that id: the two counters agree), and its target, resolved from the
    sheet part, is the sheet's own VML part, which is in the package. -/
theorem C02_cmt_legacy_drawing_resolves (F : NumFmt) (b : BookC F.Num) (pkg : Package) (h : writePackageC F b = some pkg)
    (k : Nat) (h1 : 1 ≤ k) (s : SheetC F.Num) (v c : Nat) (hk : (annotate b.sheets)[k - 1]? = some (s, some (v, c))) :
    ∃ root, (pkg.part? (String.ofList (sheetPartL k))).bind (·.xml) = some root ∧
      legacyEl (hlNext 1 s.sheet.links) ∈ root.children ∧
      (legacyEl (hlNext 1 s.sheet.links)).attr? ['r', ':', 'i', 'd'] = some (rIdText (hlNext 1 s.sheet.links)) ∧
      (relsOf pkg (String.ofList (sheetPartL k))).find? (fun (r : Rel) => r.id = str (rIdText (hlNext 1 s.sheet.links))) =
        some (relRec (hlNext 1 s.sheet.links) tVml (vmlTarget v)) ∧
      pkg.part? (resolveTarget (String.ofList (sheetPartL k)) (relRec (hlNext 1 s.sheet.links) tVml (vmlTarget v)).target) =
        some (xmlPart (vmlPartL v) (writeVml s.comments)) := by
  obtain ⟨tbl, roots, cmt, sst, hr, hb, rfl⟩ := writePackageC_anatomy F b pkg h
  obtain ⟨_, _, hnth⟩ := renderSheetsP_nth F _ [] tbl roots hr
  have hs := annotate_fst _ _ _ hk
  obtain ⟨t0, t1, root, hroot, hrend, _⟩ := hnth (k - 1) s.toP (by rw [List.getElem?_map, hs]; rfl)
  have hhas : s.has = true := by
    have := annotate_isSome _ _ _ _ hk
    simpa using this.symm
  refine ⟨root, by rw [partC_sheet hb _ roots k h1 root hroot]; rfl, ?_, legacy_attr _, ?_, ?_⟩
  · apply renderSheet_children F _ _ _ _ _ _ hrend
    show legacyEl (hlNext 1 s.sheet.links) ∈ s.frame.post ++ s.legacy ++ s.postB
    simp [SheetC.legacy, hhas]
  · rw [(relsOfC_sheet hb _ roots k h1 s _ hk).2]
    exact find_vml_rec s.sheet.links v c
  · simp only [relRec]
    rw [resolve_sheet k _ _ (resolve_vmlTarget k v)]
    exact partC_vml hb _ roots s v c (mem_of_getElem? _ _ _ hk)

/-- **HYPERLINKS UNCHANGED.**  The relationships a sheet with comments adds come AFTER the hyperlink ones: the decoder
    reads the hyperlink relationships first, with the ids and targets they have in a plain sheet. -/
theorem C02_cmt_hyperlinks_unchanged (F : NumFmt) (b : BookC F.Num) (pkg : Package) (h : writePackageC F b = some pkg)
    (k : Nat) (h1 : 1 ≤ k) (s : SheetC F.Num) (num : Option (Nat × Nat)) (hk : (annotate b.sheets)[k - 1]? = some (s, num)) :
    ∃ more, relsOf pkg (String.ofList (sheetPartL k)) = relRecs 1 s.sheet.links ++ more ∧ (num = none → more = []) := by
  obtain ⟨tbl, roots, cmt, sst, hr, hb, rfl⟩ := writePackageC_anatomy F b pkg h
  exact ⟨_, (relsOfC_sheet hb _ roots k h1 s num hk).2, fun e => by rw [e]; rfl⟩

/-! ### the whole package -/

/-- the workbooks the theorems are about (all conditions decidable for a given workbook): `BookP.WF` with the frame
    conditions on the written frame and `ridsOk` only on the opaque children -/
structure _root_.Umya.PackageNode.BookC.WF {F : NumFmt} (b : BookC F.Num) : Prop where
  sheetsWF : ∀ s ∈ b.sheets, s.sheet.WF
  frames : ∀ s ∈ b.sheets, s.frameW.ok = true ∧ s.frameW.colsOk (nXfOf b.styles) = true ∧ s.frameW.dxfOk (nDxfOf b.styles) = true ∧
    s.frameU.ridsOk (relIds (relWalk 1 s.sheet.links)) = true
  xfs : 0 < nXfOf b.styles ∧ ∀ s ∈ b.sheets, ∀ ref, s.xf ref < nXfOf b.styles
  wbFrame : b.wbFrame.ok = true
  names : namesDistinct (b.sheets.map (·.entry)) = true
  scopes : ∀ d ∈ b.names, ∀ i, d.localSheetId = some i → i < b.sheets.length
  active : b.sheets = [] ∨ b.wbFrame.active < b.sheets.length

theorem pkg_decode_coreC (F : NumFmt) (b : BookC F.Num) (hwf : b.WF) (pkg : Package) (h : writePackageC F b = some pkg) :
    ∃ bk : BookV, decode pkg = (some bk, []) ∧
      bk.sheets = sheetVs (bodyOf b.toP) 1 (b.sheets.map (·.entry)) ∧ bk.names = b.names.map nameView ∧ bk.active = b.wbFrame.active := by
  obtain ⟨tbl, roots, cmt, sst, hr, hb, rfl⟩ := writePackageC_anatomy F b pkg h
  obtain ⟨hlen', _, hnth⟩ := renderSheetsP_nth F _ [] tbl roots hr
  have hlen : roots.length = b.sheets.length := roots_length F b tbl roots hr
  have h1 := mainRelC hb (!tbl.isEmpty) roots
  have hwbp : resolveTarget "" (relRec 1 tOfficeDoc nWorkbookPart).target = String.ofList nWorkbookPart := resolve_root_workbook
  have h2 : ((assembleC F b (!tbl.isEmpty) roots cmt sst).part? (resolveTarget "" (relRec 1 tOfficeDoc nWorkbookPart).target)).bind (·.xml) =
      some (workbookNode b.wbFrame (b.sheets.map (·.entry)) b.names) := by
    rw [hwbp, partC_workbook hb _ roots]; rfl
  have h3 : ((assembleC F b (!tbl.isEmpty) roots cmt sst).part? (relsNameOf (resolveTarget "" (relRec 1 tOfficeDoc nWorkbookPart).target))).bind (·.xml) =
      some (workbookRelsNode (b.sheets.map (·.entry)).length (wbRelsRest b.sheets.length (!tbl.isEmpty))) := by
    rw [hwbp, relsName_workbook, partC_workbookRels hb _ roots, List.length_map]; rfl
  have hpath : ∀ k, 1 ≤ k → k ≤ (b.sheets.map (·.entry)).length →
      resolveTarget (resolveTarget "" (relRec 1 tOfficeDoc nWorkbookPart).target) (str (sheetTarget k)) = String.ofList (sheetPartL k) := by
    intro k _ _
    rw [hwbp]; exact resolve_wb _ _ (resolve_sheetTarget k)
  have hsheet : ∀ k, 1 ≤ k → k ≤ (b.sheets.map (·.entry)).length →
      decodeSheet (assembleC F b (!tbl.isEmpty) roots cmt sst) (String.ofList (sheetPartL k))
        (dSst (assembleC F b (!tbl.isEmpty) roots cmt sst) (resolveTarget "" (relRec 1 tOfficeDoc nWorkbookPart).target))
        (dNXf (assembleC F b (!tbl.isEmpty) roots cmt sst) (resolveTarget "" (relRec 1 tOfficeDoc nWorkbookPart).target))
        (dNDxf (assembleC F b (!tbl.isEmpty) roots cmt sst) (resolveTarget "" (relRec 1 tOfficeDoc nWorkbookPart).target)) = (bodyOf b.toP k, []) := by
    intro k k1 k2
    rw [List.length_map] at k2
    rw [hwbp, dSstC roots hb, (dNXfC hb _ roots).1, (dNXfC hb _ roots).2]
    have hk : k - 1 < b.sheets.length := by omega
    have hs : b.sheets[k - 1]? = some b.sheets[k - 1] := List.getElem?_eq_getElem hk
    obtain ⟨num, han⟩ := annotate_get b.sheets (k - 1) _ hs
    obtain ⟨t0, t1, root, hroot, hrend, ext, hext⟩ := hnth (k - 1) (b.sheets[k - 1]).toP (by rw [List.getElem?_map, hs]; rfl)
    have hmem : b.sheets[k - 1] ∈ b.sheets := List.getElem_mem hk
    obtain ⟨f1, f2, f3, f4⟩ := hwf.frames _ hmem
    have hp := partC_sheet hb (!tbl.isEmpty) roots k k1 root hroot
    obtain ⟨hr', _⟩ := relsOfC_sheet hb (!tbl.isEmpty) roots k k1 _ _ han
    have := C02_sheet_decodes F (b.sheets[k - 1]).xf (b.sheets[k - 1]).frameW t0 (b.sheets[k - 1]).sheet (hwf.sheetsWF _ hmem) t1 root hrend
      (nXfOf b.styles) (nDxfOf b.styles) hwf.xfs.1 (hwf.xfs.2 _ hmem) (restOf (b.sheets[k - 1]).sheet.links num)
      f1 f2 f3 (frameW_ridsOk _ num (annotate_isSome _ _ _ _ han) f4)
      (assembleC F b (!tbl.isEmpty) roots cmt sst) (String.ofList (sheetPartL k)) (by rw [hp]; rfl) hr' tbl
      (by rw [hext]; exact fun _ _ hi => Umya.InternC01.getElem?_append_left' hi)
    rw [this]
    simp only [bodyOf, BookC.toP, List.getElem?_map, hs, Option.map_some, SheetC.toP]
  obtain ⟨bk, hdec, hsh, hnm⟩ := C02_book_decodes_partial _ _ b.wbFrame (b.sheets.map (·.entry)) b.names _ h1 h2 h3 hwf.wbFrame hwf.names
    (by intro d hd i hi; rw [List.length_map]; exact hwf.scopes d hd i hi) (fun k => String.ofList (sheetPartL k)) (bodyOf b.toP) hpath hsheet
  obtain ⟨bk', hdec', _, _, hact⟩ := decode_anatomy _ _ _ h1 h2
  have hbk : bk' = bk := by
    have := hdec.symm.trans hdec'
    exact (Option.some.inj (Prod.mk.inj this).1).symm
  subst hbk
  refine ⟨bk', ?_, hsh, hnm, by rw [hact, dActive_workbook]⟩
  rw [hdec, C02_active_tab_in_range b.wbFrame _ b.names hwf.wbFrame (by
    rcases hwf.active with h | h
    · left; rw [h]; rfl
    · right; rw [List.length_map]; exact h), List.append_nil, dEPkg_eq]
  have e1 : ∀ part ∈ assembleC F b (!tbl.isEmpty) roots cmt sst, part.isXml = true ∧ part.xml.isSome = true := by
    intro part hp
    rcases parts_classifiedC hb _ roots part hp with ⟨nm, r, rfl, _⟩ | ⟨r, _, rfl⟩ | ⟨j, r, _, _, rfl⟩ | ⟨j, p, rr, _, _, _, rfl⟩ |
      ⟨s, v, c, _, rfl | ⟨root, _, rfl⟩⟩ <;> exact ⟨rfl, rfl⟩
  have a1 : (assembleC F b (!tbl.isEmpty) roots cmt sst).filterMap (fun part =>
        if part.name = "[Content_Types].xml" then none
        else if (contentTypeOf (assembleC F b (!tbl.isEmpty) roots cmt sst) part.name).isNone then some s!"part {part.name} has no content type" else none) = [] := by
    apply List.filterMap_eq_nil_iff.2
    intro part hp
    by_cases hn : part.name = "[Content_Types].xml"
    · rw [if_pos hn]
    · rw [if_neg hn]
      obtain ⟨ct, hct⟩ := contentType_of_partC hb roots hlen part hp hn
      rw [hct]; rfl
  have a2 : (assembleC F b (!tbl.isEmpty) roots cmt sst).filterMap (fun part =>
      if part.isXml ∧ part.xml.isNone then some s!"part {part.name} is not well-formed XML" else none) = [] := by
    apply List.filterMap_eq_nil_iff.2
    intro part hp
    have := (e1 part hp).2
    rw [if_neg (by intro hh; rw [Option.isNone_iff_eq_none] at hh; rw [hh.2] at this; cases this)]
  have a3 : (assembleC F b (!tbl.isEmpty) roots cmt sst).flatMap (relsDiag (assembleC F b (!tbl.isEmpty) roots cmt sst)) = [] := by
    apply List.flatMap_eq_nil_iff.2
    intro part hp
    exact relsDiag_pkgC hb roots hlen part hp
  rw [a1, a2, a3]; rfl

/-- **NO DIAGNOSTICS.**  On the package the model writes for a well-formed workbook whose sheets may carry comments
    (`BookC.WF`) the independent reader reports NOTHING: every part — the VML and comments parts included — has a
    content type and is a parsed tree, relationship ids are unique, every relationship target exists, sheet names
    and sheetIds are unique, every `r:id` of every sheet (hyperlinks, `legacyDrawing`) resolves, every sheet body is
    in order and in range with all indexes inside their tables, `legacyDrawing` stands at its schema position. -/
theorem C02_cmt_package_no_diagnostics (F : NumFmt) (b : BookC F.Num) (hwf : b.WF) (pkg : Package) (h : writePackageC F b = some pkg) :
    (decode pkg).2 = [] := by
  obtain ⟨bk, hd, _⟩ := pkg_decode_coreC F b hwf pkg h
  rw [hd]

/-- **THE WORKBOOK.**  … and what it returns is the workbook: the sheet list in order — name, visibility, and for the
    K-th sheet exactly its non-blank cells, merged ranges, hyperlinks (each on its own cell with its own target: the
    relationships the comments add do not disturb the pairing), row table —, the defined names and the active tab.
    Comments are not part of what this decoder returns. -/
theorem C02_cmt_book_decodes (F : NumFmt) (b : BookC F.Num) (hwf : b.WF) (pkg : Package) (h : writePackageC F b = some pkg) :
    ∃ bk : BookV, decode pkg = (some bk, []) ∧
      bk.sheets = sheetVs (bodyOf b.toP) 1 (b.sheets.map (·.entry)) ∧ bk.names = b.names.map nameView ∧ bk.active = b.wbFrame.active :=
  pkg_decode_coreC F b hwf pkg h

/-- what the K-th sheet means does not mention its comments, nor `legacyDrawing` -/
theorem bodyOf_toP {F : NumFmt} (b : BookC F.Num) (k : Nat) (s : SheetC F.Num) (h : b.sheets[k - 1]? = some s) :
    bodyOf b.toP k = { cells := cellViews F s.xf s.sheet.cells, merges := s.sheet.merges, links := s.sheet.links.map linkView,
                       cols := colVsOf s.frame.colNodes, rows := s.sheet.rows.map rowView, tables := [], noR := false } := by
  simp only [bodyOf, BookC.toP, List.getElem?_map, h, Option.map_some, SheetC.toP]
  rfl

/-! ### totality, and the plain case -/

theorem cmtPartsC_some {N : Type} : ∀ (an : List (SheetC N × Option (Nat × Nat))),
    (∀ p ∈ an, (writeComments p.1.authors p.1.comments).isSome = true) → ∃ cmt, cmtPartsC an = some cmt := by
  intro an
  induction an with
  | nil => intro _; exact ⟨[], rfl⟩
  | cons a an ih =>
    intro h
    obtain ⟨s, num⟩ := a
    obtain ⟨ps, hps⟩ := ih (fun p hp => h p (List.mem_cons_of_mem _ hp))
    cases num with
    | none => exact ⟨ps, by simp only [cmtPartsC]; exact hps⟩
    | some vc =>
      obtain ⟨v, c⟩ := vc
      have := h (s, some (v, c)) List.mem_cons_self
      obtain ⟨root, hroot⟩ := Option.isSome_iff_exists.1 this
      have hroot' : writeComments s.authors s.comments = some root := hroot
      refine ⟨xmlPart (vmlPartL v) (writeVml s.comments) :: xmlPart (commentsPartL c) root :: ps, ?_⟩
      simp only [cmtPartsC, hroot', hps]

/-- the model of `make_buffer` does not panic on cells with a column ≥ 1 and comments whose coordinates print -/
theorem C02_cmt_package_written (F : NumFmt) (b : BookC F.Num) (hc : ∀ s ∈ b.sheets, ∀ c ∈ s.sheet.cells, 1 ≤ c.col)
    (hm : ∀ s ∈ b.sheets, (writeComments s.authors s.comments).isSome = true) :
    ∃ pkg, writePackageC F b = some pkg := by
  have hall : ∀ (ss : List (SheetP F.Num)), (∀ s ∈ ss, ∀ c ∈ s.sheet.cells, 1 ≤ c.col) → ∀ tbl, ∃ t roots, renderSheetsP F tbl ss = some (t, roots) := by
    intro ss
    induction ss with
    | nil => intro _ tbl; exact ⟨tbl, [], rfl⟩
    | cons s ss ih =>
      intro hss tbl
      obtain ⟨t1, root, h1⟩ := C02_sheet_written F s.xf s.frame tbl s.sheet (hss s (by simp))
      obtain ⟨t2, roots, h2⟩ := ih (fun s' hs' => hss s' (by simp [hs'])) t1
      exact ⟨t2, root :: roots, by simp [renderSheetsP, h1, h2]⟩
  obtain ⟨t, roots, hr⟩ := hall (b.sheets.map (·.toP)) (by
    intro s hs c hcc
    obtain ⟨s', hs', rfl⟩ := List.mem_map.1 hs
    exact hc s' hs' c hcc) []
  obtain ⟨cmt, hcmt⟩ := cmtPartsC_some (annotate b.sheets) (by
    intro p hp
    exact hm p.1 (List.of_mem_zip hp).1)
  obtain ⟨root, hroot, _⟩ := sstNode_texts t
  unfold writePackageC
  rw [hr]
  simp only [hcmt]
  by_cases ht : t = []
  · exact ⟨assembleC F b (!t.isEmpty) roots cmt [], by simp [sstPartsP, ht]⟩
  · exact ⟨assembleC F b (!t.isEmpty) roots cmt [xmlPart nSst root], by simp [sstPartsP, ht, hroot]⟩

theorem numSpec_allFalse (flags : List Bool) (h : ∀ f ∈ flags, f = false) : ∀ c, numSpec c flags = flags.map (fun _ => none) := by
  induction flags with
  | nil => intro _; rfl
  | cons f r ih =>
    intro c
    have hf := h f (by simp)
    subst hf
    simp only [numSpec, List.map_cons, ih (fun g hg => h g (by simp [hg])) c]

theorem annotate_plain {N : Type} (ss : List (SheetC N)) (h : ∀ s ∈ ss, s.has = false) : annotate ss = ss.map (fun s => (s, none)) := by
  unfold annotate
  rw [numbering_nil, numSpec_allFalse _ (by
    intro f hf
    obtain ⟨s, hs, rfl⟩ := List.mem_map.1 hf
    exact h s hs) 0, List.map_map]
  induction ss with
  | nil => rfl
  | cons s ss ih => simp only [List.map_cons, List.zip_cons_cons, Function.comp]; rw [ih (fun s' hs' => h s' (by simp [hs']))]

theorem cmtPartsC_plain {N : Type} (ss : List (SheetC N)) : cmtPartsC (ss.map (fun s => (s, (none : Option (Nat × Nat))))) = some [] := by
  induction ss with
  | nil => rfl
  | cons s ss ih => simp only [List.map_cons, cmtPartsC, ih]

theorem relsPartsG_plain (F : NumFmt) (ss : List (SheetC F.Num)) : ∀ k,
    relsPartsG k (relsInput (ss.map (fun s => (s, (none : Option (Nat × Nat)))))) = sheetRelsParts F k (ss.map (·.toP)) := by
  induction ss with
  | nil => intro _; rfl
  | cons s ss ih =>
    intro k
    have := ih (k + 1)
    simp only [relsInput, List.map_cons, List.map_map, relsPartsG, sheetRelsParts, restOf, SheetC.toP] at this ⊢
    exact congrArg (HAppend.hAppend _) this

theorem nums_plain {N : Type} (ss : List (SheetC N)) :
    vmlNums (ss.map (fun s => (s, (none : Option (Nat × Nat))))) = [] ∧ cmtNums (ss.map (fun s => (s, (none : Option (Nat × Nat))))) = [] := by
  unfold vmlNums cmtNums
  induction ss with
  | nil => exact ⟨rfl, rfl⟩
  | cons s ss ih => simp only [List.map_cons, List.filterMap_cons, Option.map_none, ih.1, ih.2, and_self]

theorem contentTypesNodeC_plain (n : Nat) (hs : Bool) : contentTypesNodeC n hs [] [] = contentTypesNode n hs := by
  cases hs <;> rfl

/-- **THE PLAIN CASE.**  For a workbook none of whose sheets has a comment the model of this file writes exactly
    the package of the plain model (`writePackage` on the same sheets): the extension is conservative. -/
theorem C02_cmt_plain_same (F : NumFmt) (b : BookC F.Num) (h : ∀ s ∈ b.sheets, s.comments = []) :
    writePackageC F b = writePackage F b.toP := by
  have hh : ∀ s ∈ b.sheets, s.has = false := by
    intro s hs; simp [SheetC.has, h s hs]
  have han := annotate_plain b.sheets hh
  unfold writePackageC writePackage
  have e0 : b.toP.sheets = b.sheets.map (·.toP) := rfl
  rw [e0]
  cases hr : renderSheetsP F [] (b.sheets.map (·.toP)) with
  | none => rfl
  | some q =>
    obtain ⟨tbl, roots⟩ := q
    simp only [han, cmtPartsC_plain]
    congr 1
    funext sst
    simp only [assembleC, assemble, han, relsPartsG_plain, (nums_plain _).1, (nums_plain _).2, contentTypesNodeC_plain, List.append_nil,
      BookC.toP, List.length_map, List.map_map]
    rfl

/-! ### non-vacuity: three sheets — the first with one comment and no link; a hidden empty sheet without comments;
    the demo sheet of Thm/C02Sheet.lean (four links of which three are external) with two comments by two authors, a
    `pageMargins` before and an `extLst` after `legacyDrawing` —, two defined names, `activeTab="2"` -/

def demoCmtBook : BookC demoFS.Num :=
  { sheets := [{ entry := { name := ['R', '&', 'D'] }, sheet := { rows := [{ num := 3 }], cells := [{ col := 2, row := 3, raw := .str ['x'] }] },
                 comments := [{ cell := { col := 2, row := 3 }, author := ['m', 'e'], text := Umya.AnnotComment.CommentText.plain ['h', 'i'] }],
                 authors := [['m', 'e']] },
               { entry := { name := ['I', 't', '\'', 's'], state := some ['h', 'i', 'd', 'd', 'e', 'n'] }, sheet := {} },
               { entry := { name := ['A', '1'] }, sheet := demoSheet, xf := fun _ => 2,
                 frame := { post := [.elem ['p', 'a', 'g', 'e', 'M', 'a', 'r', 'g', 'i', 'n', 's'] [] []] },
                 postB := [.elem ['e', 'x', 't', 'L', 's', 't'] [] []],
                 comments := [{ cell := { col := 1, row := 1 }, author := ['a'], text := Umya.AnnotComment.CommentText.plain ['<', '&'] },
                              { cell := { col := 16384, row := 7 }, author := ['b'], text := [] }],
                 authors := [['b'], ['a']] }],
    names := demoNames, wbFrame := demoPkgWbFrame,
    app := .elem ['P', 'r', 'o', 'p', 'e', 'r', 't', 'i', 'e', 's'] [] [], core := .elem ['c', 'p', ':', 'c', 'o', 'r', 'e'] [] [],
    theme := .elem ['a', ':', 't', 'h', 'e', 'm', 'e'] [] [], styles := demoPkgStyles }

/-- sheets 1 and 3 get the pairs (1, 1) and (2, 2), sheet 2 nothing; the third sheet's `legacyDrawing` is `rId4` -/
example : (annotate demoCmtBook.sheets).map (·.2) = [some (1, 1), none, some (2, 2)] ∧
    demoCmtBook.sheets.map (fun s => s.legacy.map (fun k => k.attr? ['r', ':', 'i', 'd'])) =
      [[some ['r', 'I', 'd', '1']], [], [some ['r', 'I', 'd', '4']]] := by
  decide +kernel

theorem demoCmtBook_wf : demoCmtBook.WF where
  sheetsWF := by
    intro s hs
    simp only [demoCmtBook, List.mem_cons, List.not_mem_nil, or_false] at hs
    rcases hs with rfl | rfl | rfl <;> exact ⟨by decide, by decide, by decide, by decide, by decide⟩
  frames := by
    intro s hs
    simp only [demoCmtBook, List.mem_cons, List.not_mem_nil, or_false] at hs
    rcases hs with rfl | rfl | rfl <;> exact ⟨by decide, by decide, by decide, by decide⟩
  xfs := by
    rw [show nXfOf demoCmtBook.styles = 3 from demoPkgBook_nXf.1]
    refine ⟨by omega, ?_⟩
    intro s hs
    simp only [demoCmtBook, List.mem_cons, List.not_mem_nil, or_false] at hs
    rcases hs with rfl | rfl | rfl <;> intro ref <;> simp
  wbFrame := by decide
  names := namesDistinct_of_nodup _ (by decide)
  scopes := by decide
  active := Or.inr (by decide)

example : ∃ pkg, writePackageC demoFS demoCmtBook = some pkg ∧ (decode pkg).2 = [] := by
  obtain ⟨pkg, h⟩ := C02_cmt_package_written demoFS demoCmtBook (by decide) (by decide)
  exact ⟨pkg, h, C02_cmt_package_no_diagnostics demoFS demoCmtBook demoCmtBook_wf pkg h⟩

/-- what the decoder must return on it is not trivial -/
example : (sheetVs (bodyOf demoCmtBook.toP) 1 (demoCmtBook.sheets.map (·.entry))).map (fun v => (String.ofList v.name, v.state, v.cells.length, v.merges.length, v.links.length)) =
    [("R&D", "visible", 1, 0, 0), ("It's", "hidden", 0, 0, 0), ("A1", "visible", 4, 2, 4)] := by
  decide

/-- the skeleton of the model package for these sheets: 18 parts (two VML parts, two comments parts, two sheet relationship parts, a shared-string part) -/
example : (skeletonC (demoCmtBook.sheets.map (·.sheet.links)) (demoCmtBook.sheets.map (·.has)) true).map (fun p => String.ofList p.name) =
    ["docProps/app.xml", "docProps/core.xml", "_rels/.rels", "xl/theme/theme1.xml",
     "xl/worksheets/sheet1.xml", "xl/worksheets/sheet2.xml", "xl/worksheets/sheet3.xml",
     "xl/drawings/vmlDrawing1.vml", "xl/comments1.xml", "xl/drawings/vmlDrawing2.vml", "xl/comments2.xml",
     "xl/worksheets/_rels/sheet1.xml.rels", "xl/worksheets/_rels/sheet3.xml.rels",
     "xl/sharedStrings.xml", "xl/styles.xml", "xl/workbook.xml", "xl/_rels/workbook.xml.rels", "[Content_Types].xml"] := by
  decide +kernel

/-- `C02_cmt_plain_same` applies to the demo workbook of Thm/C02Pkg.lean read as a workbook without comments -/
example : ∃ b : BookC demoFS.Num, b.toP.sheets.length = 3 ∧ (∀ s ∈ b.sheets, s.comments = []) ∧ writePackageC demoFS b = writePackage demoFS b.toP :=
  ⟨{ demoCmtBook with sheets := demoCmtBook.sheets.map (fun s => { s with comments := [] }) }, by decide, by decide,
   C02_cmt_plain_same _ _ (by decide)⟩

end Umya.Thm.C02
