/-
  C08 — `C08_insert_text` / `C08_remove_text` with the leftover hypothesis of `LexOk` discharged
  (`LexOk'`: references well-formed instead of "their text is a Range operand"; see
  `Umya/Thm/C09LexWF.lean`, `Umya/Lemmas/FormulaLexRef.lean`).

  Property theorems only (namespace `Umya.Thm.C08`).
-/
import Umya.Thm.C08Lex
import Umya.Thm.C09LexWF
namespace Umya.Thm.C08
open Umya.Coord Umya.Dec Umya.Formula

/-- **Insert, whole text**, hypothesis `LexOk'`: as `C08_insert_text`, for every expression whose
    references are well-formed (nothing assumed about how pass 3 classifies their text). -/
theorem C08_insert_text_wf (e : Spec.Expr) (h : LexOk' e) (hr : RefsOk e) (ax : Spec.Axis) (at_ n : Nat)
    (edited self : List Char) (hed : edited ≠ []) (hn : n ≠ 0) :
    editFormula .insert e.print (axisArgs ax at_ n).1 (axisArgs ax at_ n).2.1 (axisArgs ax at_ n).2.2.1
        (axisArgs ax at_ n).2.2.2 edited self
      = .ok (Spec.shiftInsert e self edited ax at_ n).print :=
  C08_insert_text e (lexOk_of_wf e h) hr ax at_ n edited self hed hn

/-- **Remove, whole text**, hypothesis `LexOk'`: as `C08_remove_text`. -/
theorem C08_remove_text_wf (e : Spec.Expr) (h : LexOk' e) (hr : RefsOk e) (ax : Spec.Axis) (at_ n : Nat)
    (edited self : List Char) (hed : edited ≠ []) (h1 : 1 ≤ at_) (hn : n ≠ 0)
    (ho : at_ + n ≤ 4294967295) :
    editFormula .remove e.print (axisArgs ax at_ n).1 (axisArgs ax at_ n).2.1 (axisArgs ax at_ n).2.2.1
        (axisArgs ax at_ n).2.2.2 edited self
      = .ok (Spec.shiftRemove e self edited ax at_ n).print :=
  C08_remove_text e (lexOk_of_wf e h) hr ax at_ n edited self hed h1 hn ho

/-- non-vacuity of `C08_insert_text_wf`: `SUM(A1:$B$2,,"a""b")<=-x%` on sheet `S`, two columns
    inserted at B -/
example : LexOk' Umya.Thm.C09.lexExample ∧ RefsOk Umya.Thm.C09.lexExample ∧
    editFormula .insert "SUM(A1:$B$2,,\"a\"\"b\")<=-x%".toList 2 2 0 0 ['S'] ['S']
      = .ok (Spec.shiftInsert Umya.Thm.C09.lexExample ['S'] ['S'] .col 2 2).print := by
  have h1 := C08_insert_text_wf _ Umya.Thm.C09.lexExample_ok' Umya.Thm.C09.lexExample_refs .col 2 2 ['S'] ['S']
    (by simp) (by simp)
  rw [Umya.Thm.C09.lexExample_print] at h1
  exact ⟨Umya.Thm.C09.lexExample_ok', Umya.Thm.C09.lexExample_refs, h1⟩

/-- non-vacuity of `C08_remove_text_wf`: rows 1..2 removed -/
example : LexOk' Umya.Thm.C09.lexExample ∧ RefsOk Umya.Thm.C09.lexExample ∧
    editFormula .remove "SUM(A1:$B$2,,\"a\"\"b\")<=-x%".toList 0 0 1 2 ['S'] ['S']
      = .ok (Spec.shiftRemove Umya.Thm.C09.lexExample ['S'] ['S'] .row 1 2).print := by
  have h2 := C08_remove_text_wf _ Umya.Thm.C09.lexExample_ok' Umya.Thm.C09.lexExample_refs .row 1 2 ['S'] ['S']
    (by simp) (by simp) (by simp) (by simp)
  rw [Umya.Thm.C09.lexExample_print] at h2
  exact ⟨Umya.Thm.C09.lexExample_ok', Umya.Thm.C09.lexExample_refs, h2⟩

end Umya.Thm.C08
