/-
  C06 — Sheet list and annotations survive save/reload on the same cells.

  Theorems about the model `Umya.Annot` (string-level codecs of the annotations as written by the
  code after the C06 fixes); the model is tied to the code on every run by the correspondence
  stream of `harness/src/c06.rs` (raw `<sheet name>`, `<definedName>` texts, `<mergeCell ref>`,
  `<hyperlink>` + relationship pairs, authors table / `authorId`s of every generated package).
  Data validations, conditional-format rules, panes / selections, page setup, header / footer and
  the protection records are NOT modelled: they are covered by the harness oracle only.
-/
import Umya.Model.Annot
import Umya.Lemmas.XmlEsc
import Umya.Lemmas.Annot
import Umya.Lemmas.AnnotNames
import Umya.Thm.C17
import Umya.Lemmas.TablesGen
import Umya.Thm.C06View
namespace Umya.Thm.C06
open Umya.Annot Umya.XmlEsc Umya.Coord

/-! ### sheet list -/

/-- The sheet list reloads with the same entries in the same order: names (any text) and states. -/
theorem C06_sheet_list (l : List SheetEntry) : sheetListReload l = l := by
  induction l with
  | nil => rfl
  | cons s r ih =>
    simp only [sheetListReload, List.map_cons] at ih ⊢
    rw [ih]
    simp [sheetRead, sheetWrite, attrRead_attrWrite]

example : sheetListReload [⟨"R&D <1>".toList, "hidden".toList⟩, ⟨"It's \"q\"".toList, "veryHidden".toList⟩]
    = [⟨"R&D <1>".toList, "hidden".toList⟩, ⟨"It's \"q\"".toList, "veryHidden".toList⟩] := by decide

/-! ### merged ranges, auto-filter range -/

/-- A merged range (or the auto-filter range) reads back as the same range: all four shapes,
    every column up to ZZZ, every `u32` row, any locks. -/
theorem C06_merge_roundtrip (ρ : Range) (hs : Umya.Thm.C17.Range.IsShape ρ) (hb : Umya.Thm.C17.Range.InBounds ρ) :
    rangeRead (rangeWrite ρ) = .ok ρ := by
  simp only [rangeRead, rangeWrite, attrRead_attrWrite]
  exact Umya.Thm.C17.C17_range ρ hs hb

example : rangeRead (rangeWrite ⟨some ⟨2, false⟩, some ⟨20, false⟩, some ⟨16384, false⟩, some ⟨1048576, false⟩⟩)
    = .ok ⟨some ⟨2, false⟩, some ⟨20, false⟩, some ⟨16384, false⟩, some ⟨1048576, false⟩⟩ :=
  C06_merge_roundtrip _ (by right; left; simp)
    (by refine ⟨?_, ?_, ?_, ?_⟩ <;> intro x hx <;> injection hx with hx <;> subst hx <;> simp)

/-! ### comments: authors table and `authorId` -/

/-- Whatever order the writer's hash set gives the authors table (`tbl`: any list containing every
    author used, duplicates allowed), every comment reloads on its own cell with its own author,
    in the same order: no swap, no loss, no duplicate — for any number of comments and authors,
    the empty author included. -/
theorem C06_comment_authors (tbl : List Text) (cs : List Cmt) (h : ∀ c ∈ cs, c.author ∈ tbl) :
    reloadComments true tbl cs = .ok cs := by
  simp only [reloadComments, readAuthors_fixed]
  exact readCmts_written tbl cs h

/-- The reader before the fix (`reset = false`): a comment with an empty author came back with the
    text event seen last — the newline after the XML declaration … -/
theorem C06_comment_authors_unfixed_fails :
    reloadComments false [[]] [⟨['A', '1'], []⟩] = .ok [⟨['A', '1'], ['\r', '\n']⟩] := by decide

/-- … or the previous author of the table, i.e. another comment's author. -/
theorem C06_comment_authors_unfixed_swap_fails :
    reloadComments false ["Ann".toList, []] [⟨['A', '1'], "Ann".toList⟩, ⟨['B', '2'], []⟩]
      = .ok [⟨['A', '1'], "Ann".toList⟩, ⟨['B', '2'], "Ann".toList⟩] := by decide

example : (∀ c ∈ ([⟨['A', '1'], "B&C".toList⟩, ⟨['B', '2'], []⟩, ⟨['C', '3'], "B&C".toList⟩] : List Cmt), c.author ∈ [[], "B&C".toList]) ∧
    reloadComments true [[], "B&C".toList] [⟨['A', '1'], "B&C".toList⟩, ⟨['B', '2'], []⟩, ⟨['C', '3'], "B&C".toList⟩]
      = .ok [⟨['A', '1'], "B&C".toList⟩, ⟨['B', '2'], []⟩, ⟨['C', '3'], "B&C".toList⟩] := by decide

/-! ### hyperlinks -/

/-- Both parts walk the same ordered collection: the reloaded list of links IS the list of links —
    every link on its own cell with its own target, kind and tooltip, none lost, none duplicated —
    for any number of links, any mixture of external and internal ones, any first relationship id. -/
theorem C06_hyperlink_reload (ls : List Link) (k0 : Nat) : reloadLinks ls k0 = .ok ls :=
  reloadLinks_id ls k0

/-- the corollary in the form of the property: each link of the sheet (in whatever order the cells
    are stored) comes back, and nothing else does -/
theorem C06_hyperlink_pairing (ls : List Link) :
    ∃ back, reloadLinks (walkOrder ls) 1 = .ok back ∧ back.Perm ls ∧ ∀ l, l ∈ back ↔ l ∈ ls := by
  refine ⟨walkOrder ls, reloadLinks_id _ 1, walkOrder_perm ls, fun l => (walkOrder_perm ls).mem_iff⟩

example : reloadLinks (walkOrder [⟨['B', '2'], true, "http://x/?a=1&b=2".toList, "t<ip".toList⟩, ⟨['A', '1', '0'], false, "'It''s'!A1".toList, []⟩,
      ⟨['A', '2'], true, "http://y/".toList, []⟩]) 1
    = .ok [⟨['A', '1', '0'], false, "'It''s'!A1".toList, []⟩, ⟨['A', '2'], true, "http://y/".toList, []⟩,
      ⟨['B', '2'], true, "http://x/?a=1&b=2".toList, "t<ip".toList⟩] := by decide

/-! ### defined names -/

/-- `str::replace("''", "'")` undoes `replace("'", "''")`, whatever follows. -/
theorem C06_undouble_double (s t : Text) : undouble (replaceApos s ++ t) = s ++ undouble t :=
  undouble_double s t

/-- A defined name made of cell areas: reading the written text gives back the same areas —
    same sheets (quoted or not, with apostrophes, blanks, `!`, `"`, `,`, parentheses, non-ASCII),
    same corners and `$` locks, same order — for any number of areas.
    `AreaOK a`: the sheet name is legal (non-empty, not starting with an apostrophe, none of
    `: \ ? [ ] / *`), the range is a cell or cell:cell, columns ≤ ZZZ, rows < 2^32. -/
theorem C06_defined_name_roundtrip (as : List Address) (h : ∀ a ∈ as, AreaOK a) :
    DefName.setAddress {} (DefName.text { areas := as }) = .ok { areas := as } := by
  cases as with
  | nil => decide
  | cons a r =>
    have hsplit : splitStr (joinComma ((a :: r).map Address.text)) = (a :: r).map Address.text :=
      splitStr_join _ (by simp) (by
        intro t ht
        obtain ⟨x, hx, rfl⟩ := List.mem_map.1 ht
        exact neutral_area x (h x hx))
    have hall : ((a :: r).map Address.text).all isAddress = true := by
      rw [List.all_eq_true]
      intro t ht
      obtain ⟨x, hx, rfl⟩ := List.mem_map.1 ht
      exact isAddress_area x (h x hx)
    simp only [DefName.setAddress, DefName.text, hsplit, hall, if_true, addAll_areas (a :: r) [] h, List.nil_append]

/-- Any other text (a formula, a constant, whole rows / columns, a list with such a part) is kept
    as it stands, and is what `get_address` returns. -/
theorem C06_defined_name_text_kept (v : Text) (h : (splitStr v).all isAddress = false) :
    DefName.setAddress {} v = .ok { areas := [], str := some v } ∧
    DefName.text { areas := [], str := some v } = v := by
  simp [DefName.setAddress, DefName.text, h]

/-- Through the XML text node (`partial_escape` on write; trimmed and unescaped on read): the name
    reloads, provided the written text has no outer blank (the reader trims text events). -/
theorem C06_defined_name_channel (d : DefName) (hb : trimXml (dnWrite d) = dnWrite d)
    (h : DefName.setAddress {} d.text = .ok d) : dnRead (dnWrite d) = .ok d := by
  unfold dnRead
  simp only [hb]
  simp only [dnWrite, unescape_partialEscape, h]

/-- Before the fix: a string constant lost its double quotes … -/
theorem C06_defined_name_unfixed_quotes_fails :
    DefName.setAddressOld {} "\"a\"&\"b\"".toList = .ok { areas := [], str := some "a&b".toList } := by decide

/-- … and a Print_Titles list kept only its last part. -/
theorem C06_defined_name_unfixed_list_fails :
    DefName.setAddressOld {} "S1!$A:$B,S1!$1:$2".toList = .ok { areas := [], str := some "S1!$1:$2".toList } := by decide

/-- whole rows are not accepted by `is_address`: such a name takes the text path -/
example : (splitStr "'My Sheet'!$1:$3".toList).all isAddress = false := by decide

/-- Print_Titles: a list whose parts are whole columns / rows is kept whole -/
example : (DefName.setAddress {} "S1!$A:$B,S1!$1:$2".toList) = .ok { areas := [], str := some "S1!$A:$B,S1!$1:$2".toList } := by decide

example : undouble (replaceApos "It's a ''test''".toList ++ "'!$A$1".toList) = "It's a ''test''".toList ++ "'!$A$1".toList := by decide

example : AreaOK ⟨"It's (a) \"q\", b!".toList, ⟨some ⟨3, true⟩, some ⟨7, false⟩, some ⟨16384, false⟩, some ⟨1048576, true⟩⟩⟩ := by
  refine ⟨⟨⟨by simp, by simp⟩, by decide⟩, Or.inr ⟨by simp, by simp, by simp, by simp⟩, ?_⟩
  refine ⟨?_, ?_, ?_, ?_⟩ <;> intro x hx <;> injection hx with hx <;> subst hx <;> simp


/-- **Tie to the source (T).**  The attribute channel every annotation goes through is the source's, as
    regenerated on this run (see `C04_channels_match_source`). -/
theorem C06_channels_match_source (s : List Char) :
    Umya.Gen.write_start_tag_escape.run Umya.XmlEsc.escapeOld Umya.XmlEsc.partialEscapeOld s = Umya.XmlEsc.attrWrite s ∧
    Umya.Gen.applySteps Umya.Gen.get_attribute_value_normalise s = Umya.XmlEsc.attrNorm s :=
  ⟨Umya.Gen.gen_write_start_tag s, Umya.Gen.gen_get_attribute_value s⟩

end Umya.Thm.C06
