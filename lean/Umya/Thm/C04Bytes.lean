/-
  C04 — at character level, reading a written part and writing the tree again gives the same characters:
  for an element tree in the reader's normal form, `render ∘ parse ∘ render = render`.
  Instance of `Umya.Thm.C02.C02_bytes_parse_tree` (`Umya/Thm/C02Bytes.lean`).
-/
import Umya.Thm.C02Bytes
namespace Umya.Thm.C04
open Umya.XmlWrite
open Umya.Spec.Xml (Node Attr parse)

theorem C04_bytes_resave_stable (selfClose : Bool) (n : List Char) (as : List Attr) (ks : List Node)
    (hwf : wfNodes [.elem n as ks] = true) (hnf : isNFKids ks = true) :
    (parse (renderDoc (ofNode selfClose (.elem n as ks)))).map (fun t => renderDoc (ofNode selfClose t))
      = some (renderDoc (ofNode selfClose (.elem n as ks))) := by
  rw [Umya.Thm.C02.C02_bytes_parse_tree selfClose n as ks hwf hnf]; rfl

example : wfNodes [Umya.Thm.C02.demoT] = true ∧ isNF Umya.Thm.C02.demoT = true := Umya.Thm.C02.demoT_ok

end Umya.Thm.C04
