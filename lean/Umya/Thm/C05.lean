/-
  C05 — styles and dimensions survive save/reload; interning never merges styles.

  Model: Umya/Model/Style.lean (the style sheet AFTER fix_1: the font / fill / border tables are
  searched with `==`), Umya/Model/Interning.lean.  Parameters, hypothesised and not modelled:
  * `key` — md5, still used by `NumberingFormats::set_style` (key = md5 of the format code) and by
    `Columns::write_to` (key = md5 of width ‖ hidden ‖ bestFit): assumed injective (`hkey`);
  * `cs : Codecs` — the XML codecs of font / fill / border / alignment / protection / format code:
    "write, then read" is `some ∘ norm` for an idempotent `norm` (part of the `Codec` structure).
    That `norm` preserves the effective value of every attribute is checked by the harness only —
    except for the pattern fill, whose codec is also modelled concretely (after fix 90daeac):
    `C05_pattern_fill_reload`, `C05_pattern_fill_no_merge`.
  `Inv cs ss` is the invariant of a style sheet (Umya/Lemmas/Style.lean); it holds for the style
  sheet of `new_file()` (`C05_init`) and is preserved by `set_style`.
-/
import Umya.Lemmas.Style
import Umya.Lemmas.StyleCols
import Umya.Lemmas.StyleReload
import Umya.Lemmas.TablesGen
namespace Umya.Thm.C05
open Umya.Style Umya.Interning

/-- the style sheet of `new_file()` satisfies the invariant (base case of every induction below) -/
theorem C05_init (cs : Codecs) (key : Tok → Tok) : Inv cs (initSheet key) := init_inv cs key

/-- set → get: the index `set_style` returns, read back after save + reload
    (`styleAt` = `get_style_by_cell_format` on the reloaded tables), shows the same effective
    formatting as the style that was set; and `set_style` keeps the invariant. -/
theorem C05_get_set (cs : Codecs) (key : Tok → Tok) (hkey : ∀ a b, key a = key b → a = b)
    (ss : Sheet) (h : Inv cs ss) (s : Style) (hs : s.WF) :
    Inv cs (setStyle key ss s).1 ∧
    ∃ st e, styleAt cs (setStyle key ss s).1 (setStyle key ss s).2 = some st ∧
      eff cs (setStyle key ss s).1 st = some e ∧ eff cs (setStyle key ss s).1 s = some e := by
  obtain ⟨h1, _, r⟩ := setStyle_step hkey h hs
  exact ⟨h1, RT_styleAt r⟩

/-- the whole-sheet reader model (`reload`: every table through its codec, then `make_style`) does not
    panic on a style sheet satisfying the invariant, and `get_style(i)` on the result is `styleAt i` -/
theorem C05_reload (cs : Codecs) (ss : Sheet) (h : Inv cs ss) :
    ∃ r, reload cs ss = some r ∧ ∀ i, getStyle r i = styleAt cs ss i := by
  obtain ⟨r, hr⟩ := reload_succeeds cs ss h
  exact ⟨r, hr, reload_getStyle cs ss r hr⟩

/-- `C05_get_set` in the form of DESIGN.md: save, reload, `get_style` through the allocated index -/
theorem C05_get_set_reload (cs : Codecs) (key : Tok → Tok) (hkey : ∀ a b, key a = key b → a = b)
    (ss : Sheet) (h : Inv cs ss) (s : Style) (hs : s.WF) :
    ∃ r st e, reload cs (setStyle key ss s).1 = some r ∧ getStyle r (setStyle key ss s).2 = some st ∧
      eff cs (setStyle key ss s).1 st = some e ∧ eff cs (setStyle key ss s).1 s = some e := by
  obtain ⟨h1, st, e, hst, he, hs'⟩ := C05_get_set cs key hkey ss h s hs
  obtain ⟨r, hr, hg⟩ := C05_reload cs _ h1
  exact ⟨r, st, e, hr, by rw [hg]; exact hst, he, hs'⟩

/-- the same for a whole workbook: after ANY sequence of `set_style` calls (any order, any number
    of styles, any table size — induction over the list) every style of the sequence is read back,
    through the index it was given, with its own effective formatting: later insertions never
    change what an earlier index denotes. -/
theorem C05_get_set_all (cs : Codecs) (key : Tok → Tok) (hkey : ∀ a b, key a = key b → a = b)
    (ss : Sheet) (h : Inv cs ss) (l : List Style) (hl : ∀ s ∈ l, s.WF) (k : Nat) (s : Style)
    (hk : l[k]? = some s) :
    ∃ i st e, (setAll key ss l).2[k]? = some i ∧ styleAt cs (setAll key ss l).1 i = some st ∧
      eff cs (setAll key ss l).1 st = some e ∧ eff cs (setAll key ss l).1 s = some e := by
  obtain ⟨_, _, r⟩ := setAll_spec hkey l ss h hl
  obtain ⟨i, hi, hr⟩ := r k s hk
  obtain ⟨st, e, h1, h2, h3⟩ := RT_styleAt hr
  exact ⟨i, st, e, hi, h1, h2, h3⟩

/-- no merge: two styles of the sequence with different effective formatting never get the same
    xf index — for any order of insertion and any number of styles. -/
theorem C05_no_merge (cs : Codecs) (key : Tok → Tok) (hkey : ∀ a b, key a = key b → a = b)
    (ss : Sheet) (h : Inv cs ss) (l : List Style) (hl : ∀ s ∈ l, s.WF) (k j : Nat) (s t : Style)
    (hk : l[k]? = some s) (hj : l[j]? = some t)
    (hst : eff cs (setAll key ss l).1 s ≠ eff cs (setAll key ss l).1 t) :
    (setAll key ss l).2[k]? ≠ (setAll key ss l).2[j]? := by
  obtain ⟨_, _, r⟩ := setAll_spec hkey l ss h hl
  obtain ⟨i, hi, hr⟩ := r k s hk
  obtain ⟨i', hi', hr'⟩ := r j t hj
  intro heq
  rw [hi, hi'] at heq
  cases heq
  exact hst (RT_unique hr hr')

/-- no growth: setting the same style again returns the same index and changes no table
    (so a style used by many cells, or a second save of the same workbook, adds nothing) -/
theorem C05_no_growth (key : Tok → Tok) (ss : Sheet) (s : Style) :
    setStyle key (setStyle key ss s).1 s = setStyle key ss s ∧
    sizes (setStyle key (setStyle key ss s).1 s).1 = sizes (setStyle key ss s).1 := by
  have := setStyle_idem key ss s
  exact ⟨this, by rw [this]⟩

/-- save → reload → save: a reloaded cell carries one of the styles of `maked_style_list`;
    setting such a style leaves the style sheet unchanged -/
theorem C05_no_growth_resave (key : Tok → Tok) (ss : Sheet) (s : Style) (hm : s ∈ ss.made) :
    (setStyle key ss s).1 = ss := setStyle_of_mem key ss s hm

/-- columns: expanding (reader) the merged `<col min max>` runs (writer) of the sorted column list
    gives back the sorted column list — widths, hidden / bestFit flags and styles of every column
    number.  (Holds for any list, sorted or not, duplicates or not.) -/
theorem C05_cols {σ : Type} [DecidableEq σ] (key : Tok → Tok) (hkey : ∀ a b, key a = key b → a = b)
    (cs : List (Col σ)) : expand (mergeCols key (sortCols cs)) = sortCols cs :=
  expand_mergeCols hkey _

/-- the column key (width ‖ hidden ‖ bestFit) is injective even without separators -/
theorem C05_col_key_injective {σ : Type} (c d : Col σ) (h : c.keyText = d.keyText) :
    c.width = d.width ∧ c.hidden = d.hidden ∧ c.bestFit = d.bestFit := Col.keyText_inj h

/-! ### the UNFIXED code: the concatenated keys are not injective -/

def arial1_1 : Font := { name := some "Arial1".toList, size := some "1".toList }
def arial_11 : Font := { name := some "Arial".toList, size := some "11".toList }

/-- `Font::get_hash_code` hashes name ‖ size ‖ … without separators: ("Arial1", 1) and ("Arial", 11)
    are different fonts with the same key text (whatever the colour hash `h` is) -/
theorem C05_font_key_fails : ¬ (∀ (h : Tok → Tok) (f g : Font), Font.keyText h f = Font.keyText h g → f = g) := by
  intro hinj
  have : arial1_1 = arial_11 := hinj id arial1_1 arial_11 (by decide)
  exact absurd this (by decide)

def size1_family12 : Font := { name := some "Arial".toList, size := some "1".toList, family := some "12".toList }
def size11_family2 : Font := { name := some "Arial".toList, size := some "11".toList, family := some "2".toList }
def noName : Font := { size := some "11".toList }
def namedEmpty : Font := { name := some "empty!!".toList, size := some "11".toList }

example : Font.keyText id size1_family12 = Font.keyText id size11_family2 ∧ size1_family12 ≠ size11_family2 := by decide
example : Font.keyText id noName = Font.keyText id namedEmpty ∧ noName ≠ namedEmpty := by decide

def argb7_tint61 : Color := { argb := some "FF12345".toList, tint := some "61".toList }
def argb8_tint1 : Color := { argb := some "FF123456".toList, tint := some "1".toList }

/-- `Color::get_hash_code`: indexed ‖ theme ‖ argb ‖ tint -/
theorem C05_color_key_fails : ¬ (∀ c d : Color, c.keyText = d.keyText → c = d) := by
  intro hinj
  exact absurd (hinj argb7_tint61 argb8_tint1 (by decide)) (by decide)

/-- consequence for the unfixed table (look-up by key): the second font is not added, it is given the
    index of an entry that was already in the table — two cells, one font -/
theorem C05_key_lookup_merges_fails (h : Tok → Tok) (t : List Font) :
    (internKey (Font.keyText h) (internKey (Font.keyText h) t arial1_1).1 arial_11).1 =
      (internKey (Font.keyText h) t arial1_1).1 :=
  (internKey_merges (Font.keyText h) t arial1_1 arial_11 (by
    show Font.keyText h arial1_1 = Font.keyText h arial_11
    simp [Font.keyText, arial1_1, arial_11, hs])).1

/-- with look-up by equality (the fixed code) the two fonts get different indices, whatever the table -/
theorem C05_eq_lookup_separates (t : List Font) :
    (internEq t arial1_1).2 ≠ (internEq (internEq t arial1_1).1 arial_11).2 :=
  internEq_no_merge t arial1_1 arial_11 (by decide)

/-! ### non-vacuity -/

def idCodec (α : Type) : Codec α := { rt := some, norm := id, rt_eq := fun _ => rfl, idem := fun _ => rfl }
def idCodecs : Codecs :=
  { font := idCodec _, fill := idCodec _, borders := idCodec _, alignment := idCodec _,
    protection := idCodec _, code := idCodec _ }

def sA : Style := { font := some arial1_1 }
def sB : Style := { font := some arial_11 }
def sC : Style := { font := some arial_11, numFmt := some (NumFmt.ofCode "0.000".toList),
                    alignment := some { horizontal := some "center".toList } }
def sD : Style := { numFmt := some (NumFmt.ofCode "0.00".toList) }

-- the hypotheses of the theorems are satisfiable: `key := id` is injective, the style sheet of
-- `new_file()` satisfies `Inv`, the styles are well-formed
example : ∀ a b : Tok, id a = id b → a = b := fun _ _ h => h
example : Inv idCodecs (initSheet id) := C05_init idCodecs id
theorem wf_list : ∀ s ∈ [sA, sB, sC, sD, sA], s.WF := by
  intro s hs v hv
  simp only [List.mem_cons, List.mem_nil_iff, or_false] at hs
  rcases hs with rfl | rfl | rfl | rfl | rfl <;> simp [sA, sB, sC, sD] at hv <;> subst hv <;>
    unfold NumFmt.WF <;> decide

-- the colliding fonts get two different xf indices and two font entries; a repeat adds nothing
example : (setAll id (initSheet id) [sA, sB, sC, sD, sA]).2 = [2, 3, 4, 5, 2] := by decide
example : sizes (setAll id (initSheet id) [sA, sB, sC, sD, sA]).1 = (1, 3, 2, 1, 6, 6) := by decide
example : eff idCodecs (initSheet id) sA ≠ eff idCodecs (initSheet id) sB := by decide
-- custom number formats are numbered from 176; a built-in code keeps its built-in id
example : ((setAll id (initSheet id) [sC, sD]).1.xfs.map (·.numFmtId)) = [0, 0, 176, 2] := by decide

-- columns: three adjacent equal columns and a different one become two runs and expand back
def cols4 : List (Col Nat) :=
  [⟨3, "10".toList, false, false, 7⟩, ⟨1, "10".toList, false, false, 7⟩, ⟨2, "10".toList, false, false, 7⟩,
   ⟨4, "10".toList, true, false, 7⟩]
example : (mergeCols id (sortCols cols4)).map (fun r => (r.min, r.max)) = [(1, 3), (4, 4)] := by decide
example : expand (mergeCols id (sortCols cols4)) = sortCols cols4 := by decide


/-! ### the pattern-fill codec (after fix 90daeac) -/

/-- **A pattern fill survives save + reload.**  For EVERY pattern fill — any patternType (set or unset,
    `none` included), any foreground / background colour — what the reader builds from what the writer
    wrote has the same `patternType` (hence the same effective pattern: no none → solid), and each colour
    is the colour that was written (`Color.rt`: the attribute the writer prefers, `theme` over `indexed`
    over `rgb`, and the tint; a colour without any attribute is not written and comes back absent).
    Before the fix this failed for patternType none / unset with a foreground colour (known findings
    C05-fill-none-with-fg-reloads-solid, …-merges-with-solid).  The model of `write_to` /
    `set_attributes` is tied to the code by the harness' save / reload oracle (every attribute compared
    through the public getters), not by the driver's dump. -/
theorem C05_pattern_fill_reload (p : PatternFill) :
    p.norm.patternType = p.patternType ∧ p.norm.effPattern = p.effPattern ∧
    p.norm.fg = p.fg.bind Color.rt ∧ p.norm.bg = p.bg.bind Color.rt := by
  simp [PatternFill.norm, PatternFill.read, PatternFill.write, PatternFill.effPattern]

/-- no merge through the codec: two pattern fills that differ in their effective pattern still differ
    after save + reload (none + colour and solid + the same colour stay apart) -/
theorem C05_pattern_fill_no_merge (p q : PatternFill) (h : p.effPattern ≠ q.effPattern) :
    p.norm ≠ q.norm := by
  intro e
  apply h
  have hp := (C05_pattern_fill_reload p).2.1
  have hq := (C05_pattern_fill_reload q).2.1
  rw [← hp, ← hq, e]

/-- the concrete codec is a `Codec` in the sense of the interning theorems (`rt = some ∘ norm`, `norm`
    idempotent): the hypothesis those theorems make about the fill codec holds for this component -/
def patternFillCodec : Codec PatternFill :=
  { rt := fun p => some p.norm, norm := PatternFill.norm, rt_eq := fun _ => rfl, idem := PatternFill.norm_idem }

def redFg : Color := { argb := some "FFFF0000".toList }
def noneRed : PatternFill := { patternType := some "none".toList, fg := some redFg }
def unsetRed : PatternFill := { fg := some redFg }
def solidRed : PatternFill := { patternType := some "solid".toList, fg := some redFg }

-- the inputs of the two former findings
example : noneRed.norm = noneRed ∧ unsetRed.norm = unsetRed ∧ solidRed.norm = solidRed := by decide
example : noneRed.effPattern ≠ solidRed.effPattern ∧ noneRed.norm ≠ solidRed.norm := by decide
-- a colour with several attributes comes back with the one the writer prefers; a blank colour is dropped
example : ({ fg := some { theme := some "1".toList, argb := some "FF000000".toList }, bg := some {} } : PatternFill).norm
    = { fg := some { theme := some "1".toList } } := by decide

/-- the public setter still applies the auto rule (unchanged API): this is why the reader must not go
    through it — a reader built on it turns none + colour into solid -/
theorem C05_setter_auto_solid (c : Color) :
    (PatternFill.setForegroundColor { patternType := some "none".toList } c).effPattern = "solid".toList ∧
    (PatternFill.setForegroundColor {} c).effPattern = "solid".toList ∧
    (PatternFill.setForegroundColor { patternType := some "gray125".toList } c).effPattern = "gray125".toList := by
  refine ⟨?_, ?_, ?_⟩ <;> simp [PatternFill.setForegroundColor, PatternFill.effPattern] <;> decide

example : (PatternFill.setForegroundColor { patternType := some "none".toList } redFg) = solidRed := by decide

/-- **Tie to the source (T).**  The built-in number-format table the model uses is the one
    `tools/extract_tables.py` regenerated from `FILL_BUILT_IN_FORMAT_CODES` on this run. -/
theorem C05_tables_match_source :
    Umya.Gen.builtin_format_codes.map (fun p => (p.1, p.2.toList)) = Umya.Style.builtinCodes :=
  Umya.Gen.gen_builtin_formats

end Umya.Thm.C05
