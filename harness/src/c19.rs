//! C19 — number formatting: fixed-decimal / percentage patterns show the correctly rounded number,
//! General shows numbers and text unchanged, built-in format codes never panic.
//!
//! ops
//!   c19 fmt <hex value text> <hex pattern>   numeric cell (value text = shortest decimal form of a finite f64) with that
//!                                            number format -> Cell::get_formatted_value; also checked equal to
//!                                            helper::number_format::to_formatted_string(value text, pattern)
//!   c19 txt <hex text> <hex pattern>         text cell -> Cell::get_formatted_value
//!   c19 cellk <kind> <hex value> <hex code|none>
//!                                            a cell of every kind of CellRawValue -> Cell::get_formatted_value, the public data
//!                                            type and whether get_value_number() is Some: `<hex text> <s|n|b|e|-> <num|text>`.
//!                                            kind = str | rich | lazy | num | bool | err | empty, a trailing `f` = with a formula,
//!                                            a leading `L` = the cell is saved into a workbook, the workbook read back with
//!                                            reader::xlsx::lazy_read and the cell taken from the lazily deserialized sheet.
//!                                            `none` = the cell never got a number format.  Compared with the model's
//!                                            getFormattedValue (Umya/Model/NumFmtCell.lean).  Oracle: every kind that is not
//!                                            a number shows get_value() unchanged; a number under General / none its text
//!   c19 str <hex text> <hex pattern>         helper::number_format::to_formatted_string on an arbitrary string
//!   c19 id <n> <hex value text>              numeric cell with built-in format id n -> get_formatted_value
//!   c19 date <n> <f64 bits> <hex value text> the same with the value given by its bit pattern too (the model runs the date
//!                                            conversion on the double); value text must be the Display text of the double.
//!                                            Oracle: no panic; under a date/time id a serial beyond chrono's years shows
//!                                            the General text of the number (fix e1ce7c1)
//!   c19 edt <f64 bits>                       helper::date::excel_to_date_time_object_checked -> "Y M D h m s" | none;
//!                                            oracle: the panicking public excel_to_date_time_object agrees (same value,
//!                                            panics exactly where the checked one is None)
//!   c19 disp <n> <f64 bits> <hex value text> <hex rem> <hex hours> <hex hoursAbs>
//!                                            numeric cell with built-in format id n -> `ok <hex text>` | `ok ~` | `panic`,
//!                                            against the dispatcher model (Umya/Model/NumFmtDispatch.lean).  rem / hours /
//!                                            hoursAbs = Display texts of `abs % 1`, `* 24`, `abs * 24` (what the code
//!                                            computes with the double; re-checked here).  The FULL text is compared except
//!                                            where the model does not compute it (fraction formatter on a non-usize value:
//!                                            `ok ~`, the text travels as information).  Oracle: no panic.
//!   c19 dispc <hex code> <f64 bits> <hex value text> <hex rem> <hex hours> <hex hoursAbs>
//!                                            the same for a custom format code (exploration beyond the built-in table;
//!                                            replays the quoted-literal witness of C19_quoted_literal_code_panics)
//!
//! The oracle (`reference`) is written from the property text: exact integer arithmetic (u128) on the
//! decimal text of the value; it shares no code with the library or with the Lean model.
use crate::common::*;
use chrono::{Datelike, Timelike};
use umya_spreadsheet::helper::date::{excel_to_date_time_object, excel_to_date_time_object_checked};
use umya_spreadsheet::helper::number_format::to_formatted_string;
use umya_spreadsheet::structs::Cell;

// ---------------------------------------------------------------------------------------------
// independent reference

/// `(#,##)?0(.0+)?%?`  ->  (thousands, decimals, percent)
pub fn parse_pattern(p: &str) -> Option<(bool, usize, bool)> {
    let (p, percent) = match p.strip_suffix('%') {
        Some(r) => (r, true),
        None => (p, false),
    };
    let (p, thousands) = match p.strip_prefix("#,##") {
        Some(r) => (r, true),
        None => (p, false),
    };
    let p = p.strip_prefix('0')?;
    if p.is_empty() {
        return Some((thousands, 0, percent));
    }
    let z = p.strip_prefix('.')?;
    if !z.is_empty() && z.bytes().all(|b| b == b'0') {
        Some((thousands, z.len(), percent))
    } else {
        None
    }
}

/// `-?D+(.D+)?`  ->  (negative, integer digits, fraction digits)
fn split_decimal(t: &str) -> Option<(bool, &str, &str)> {
    let (neg, body) = match t.strip_prefix('-') {
        Some(r) => (true, r),
        None => (false, t),
    };
    let (i, f) = match body.split_once('.') {
        Some((i, f)) => {
            if f.is_empty() {
                return None;
            }
            (i, f)
        }
        None => (body, ""),
    };
    if i.is_empty() || !i.bytes().all(|b| b.is_ascii_digit()) || !f.bytes().all(|b| b.is_ascii_digit()) {
        return None;
    }
    Some((neg, i, f))
}

fn pow10(e: usize) -> Option<u128> {
    10u128.checked_pow(e as u32)
}

fn group3(mut n: u128) -> String {
    let mut parts: Vec<String> = vec![];
    while n >= 1000 {
        parts.push(format!("{:03}", n % 1000));
        n /= 1000;
    }
    parts.push(n.to_string());
    parts.reverse();
    parts.join(",")
}

/// The correctly rounded rendering required by the property, or None when the numbers do not fit u128.
/// value = N / 10^k (N, k read off the decimal text); R = floor((2·N·10^(n+s) + 10^k) / (2·10^k));
/// text = sign, R div 10^n (grouped), '.', R mod 10^n on n digits.  Sign rule: '-' iff the value's
/// decimal text starts with '-' (so -0.001 under 0.00 is "-0.00", as Excel shows it).
pub fn reference(text: &str, thousands: bool, decimals: usize, percent: bool) -> Option<String> {
    let (neg, i, f) = split_decimal(text)?;
    let digits = format!("{}{}", i, f);
    let digits = digits.trim_start_matches('0');
    if digits.len() > 36 {
        return None;
    }
    let n: u128 = if digits.is_empty() { 0 } else { digits.parse().ok()? };
    let k = f.len();
    let s = if percent { 2 } else { 0 };
    let num = n.checked_mul(2)?.checked_mul(pow10(decimals + s)?)?.checked_add(pow10(k)?)?;
    let den = pow10(k)?.checked_mul(2)?;
    let r = num / den;
    let unit = pow10(decimals)?;
    let ip = r / unit;
    let fp = r % unit;
    let mut o = String::new();
    if neg {
        o.push('-');
    }
    if thousands {
        o.push_str(&group3(ip));
    } else {
        o.push_str(&ip.to_string());
    }
    if decimals > 0 {
        o.push('.');
        o.push_str(&format!("{:0width$}", fp, width = decimals));
    }
    if percent {
        o.push('%');
    }
    Some(o)
}

/// text is the shortest decimal form of a finite f64 (fixed point of parse -> Display)
fn canonical_number(text: &str) -> Option<f64> {
    let f = text.parse::<f64>().ok()?;
    if f.is_finite() && f.to_string() == text {
        Some(f)
    } else {
        None
    }
}

fn sig_digits(text: &str) -> usize {
    let d: String = text.chars().filter(|c| c.is_ascii_digit()).collect();
    let d = d.trim_start_matches('0').trim_end_matches('0');
    d.len().max(1)
}

// ---------------------------------------------------------------------------------------------
// the implementation under test

fn cell_with(text: &str, num: Option<f64>) -> Cell {
    let mut c = Cell::default();
    match num {
        Some(f) => {
            c.set_value_number(f);
        }
        None => {
            c.set_value_string(text);
        }
    }
    c
}

fn count_rounding_branches(out: &mut Out, text: &str, th: bool, dec: usize, pc: bool, want: &str) {
    out.count(&format!("pattern.{}{}dec{}", if th { "thousands." } else { "" }, if pc { "percent." } else { "" }, dec));
    let plain = reference(text, false, dec, pc).unwrap();
    let frac_len = text.split_once('.').map(|x| x.1.len()).unwrap_or(0);
    let need = dec + if pc { 2 } else { 0 };
    out.count(if frac_len < need {
        "branch.pad"
    } else if frac_len == need {
        "branch.exact"
    } else {
        "branch.round"
    });
    if plain.trim_start_matches('-').trim_end_matches('%').chars().all(|c| c == '0' || c == '.')
        && text.trim_start_matches('-') != "0"
    {
        out.count("branch.rounds-to-zero");
    }
    if want.contains(',') {
        out.count("branch.separators");
    }
    // the integer part grew by a digit through the carry
    let int_in = text.trim_start_matches('-').split('.').next().unwrap().len();
    let int_out = plain.trim_start_matches('-').split('.').next().unwrap().trim_end_matches('%').len();
    if !pc && int_out > int_in {
        out.count("branch.carry-new-digit");
    }
}

pub fn exec(out: &mut Out, line: &str) -> (String, bool) {
    let a: Vec<&str> = line.split(' ').collect();
    match a[1] {
        // numeric cell (value = shortest decimal text of a finite f64) with a number format
        "fmt" if a.len() == 4 => {
            let text = String::from_utf8(unhex(a[2])).unwrap();
            let pat = String::from_utf8(unhex(a[3])).unwrap();
            let num = match canonical_number(&text) {
                Some(f) => f,
                None => return ("bad-op".into(), false),
            };
            let via_cell = guard(|| {
                let mut c = cell_with(&text, Some(num));
                c.get_style_mut().get_number_format_mut().set_format_code(pat.clone());
                c.get_formatted_value()
            });
            let helper = guard(|| to_formatted_string(&text, &pat));
            let grammar = parse_pattern(&pat);
            out.count(&format!("sig.{:02}", sig_digits(&text).min(18)));
            if text.starts_with('-') {
                out.count("value.negative");
            }
            // the two public entry points must agree on numbers
            if helper != via_cell {
                out.oracle_fail(
                    Fail::new("api-disagree")
                        .with("op", line)
                        .with("value", &text)
                        .with("pattern", &pat)
                        .with("helper", format!("{:?}", helper))
                        .with("cell", format!("{:?}", via_cell)),
                );
            }
            let mut nontrivial = false;
            if let Some((th, dec, pc)) = grammar {
                out.count("fmt.grammar");
                match reference(&text, th, dec, pc) {
                    Some(want) => {
                        nontrivial = true;
                        count_rounding_branches(out, &text, th, dec, pc, &want);
                        match &via_cell {
                            Ok(got) if *got == want => out.oracle_ok(),
                            Ok(got) => out.oracle_fail(
                                Fail::new("wrong-rounding")
                                    .with("op", line)
                                    .with("value", &text)
                                    .with("pattern", &pat)
                                    .with("got", got)
                                    .with("want", &want),
                            ),
                            Err(_) => out.oracle_fail(
                                Fail::new("format-panic").with("op", line).with("value", &text).with("pattern", &pat),
                            ),
                        }
                    }
                    None => out.count("oracle.skipped-too-large"),
                }
            } else if pat == "General" || pat == "@" {
                out.count("fmt.general");
                nontrivial = true;
                match &via_cell {
                    Ok(got) if *got == text => out.oracle_ok(),
                    Ok(got) => out.oracle_fail(
                        Fail::new("general-number-changed")
                            .with("op", line)
                            .with("value", &text)
                            .with("pattern", &pat)
                            .with("got", got)
                            .with("want", &text),
                    ),
                    Err(_) => out.oracle_fail(
                        Fail::new("format-panic").with("op", line).with("value", &text).with("pattern", &pat),
                    ),
                }
            } else {
                // outside the property's quantifier: exploration only
                out.count("fmt.other-pattern");
                if via_cell.is_err() {
                    out.count("explore.panic.other-pattern");
                }
            }
            match via_cell {
                Ok(s) => (hex(&s), nontrivial),
                Err(_) => ("panic".into(), false),
            }
        }
        // text cell: shown unchanged whatever the format
        // txt = a plain text cell; txtf = a formula cell whose cached result is that text (t="str");
        // txtr = a rich-text cell with that text in one run: all three are text and shown unchanged
        "txt" | "txtf" | "txtr" if a.len() == 4 => {
            let text = String::from_utf8(unhex(a[2])).unwrap();
            let pat = String::from_utf8(unhex(a[3])).unwrap();
            let kind = a[1];
            out.count(&format!("text-cell.{}", kind));
            let r = guard(|| {
                let mut c = cell_with(&text, None);
                if kind == "txtf" {
                    c.set_formula("T(B1)");
                } else if kind == "txtr" {
                    let mut te = umya_spreadsheet::structs::TextElement::default();
                    te.set_text(text.clone());
                    let mut rt = umya_spreadsheet::structs::RichText::default();
                    rt.add_rich_text_elements(te);
                    c.set_rich_text(rt);
                }
                c.get_style_mut().get_number_format_mut().set_format_code(pat.clone());
                c.get_formatted_value()
            });
            out.count(if text.parse::<f64>().is_ok() { "txt.looks-numeric" } else { "txt.plain" });
            match &r {
                Ok(got) if *got == text => out.oracle_ok(),
                Ok(got) => out.oracle_fail(
                    Fail::new("text-cell-changed")
                        .with("op", line)
                        .with("value", &text)
                        .with("pattern", &pat)
                        .with("got", got)
                        .with("want", &text),
                ),
                Err(_) => out.oracle_fail(
                    Fail::new("format-panic").with("op", line).with("value", &text).with("pattern", &pat),
                ),
            }
            match r {
                Ok(s) => (hex(&s), !text.is_empty()),
                Err(_) => ("panic".into(), false),
            }
        }
        // a cell of every kind of CellRawValue (the decision of Cell::get_formatted_value)
        "cellk" if a.len() == 5 => {
            use umya_spreadsheet::structs::CellRawValue as RV;
            let kind_full = a[2];
            let text = String::from_utf8(unhex(a[3])).unwrap();
            let code: Option<String> = if a[4] == "none" { None } else { Some(String::from_utf8(unhex(a[4])).unwrap()) };
            let (loaded, kind) = match kind_full.strip_prefix('L') {
                Some(k) => (true, k),
                None => (false, kind_full),
            };
            let (base, formula) = match kind.strip_suffix('f') {
                Some(b) if !b.is_empty() => (b, true),
                _ => (kind, false),
            };
            let mut c = Cell::default();
            match base {
                "str" => {
                    c.set_value_string(text.clone());
                }
                "rich" => {
                    // two runs when the text has at least two characters: get_text() concatenates them
                    let chars: Vec<char> = text.chars().collect();
                    let cut = chars.len() / 2;
                    let mut rt = umya_spreadsheet::structs::RichText::default();
                    for part in [chars[..cut].iter().collect::<String>(), chars[cut..].iter().collect::<String>()] {
                        if part.is_empty() && !chars.is_empty() {
                            continue;
                        }
                        let mut te = umya_spreadsheet::structs::TextElement::default();
                        te.set_text(part);
                        rt.add_rich_text_elements(te);
                    }
                    c.set_rich_text(rt);
                }
                "lazy" => {
                    c.set_value_lazy(text.clone());
                }
                "num" => match canonical_number(&text) {
                    Some(f) => {
                        c.set_value_number(f);
                    }
                    None => return ("bad-op".into(), false),
                },
                "bool" => match text.as_str() {
                    "TRUE" => {
                        c.set_value_bool(true);
                    }
                    "FALSE" => {
                        c.set_value_bool(false);
                    }
                    _ => return ("bad-op".into(), false),
                },
                "err" => {
                    c.set_error(text.clone());
                }
                "empty" => {
                    if !text.is_empty() {
                        return ("bad-op".into(), false);
                    }
                    c.set_blank();
                }
                _ => return ("bad-op".into(), false),
            }
            if formula {
                c.set_formula("T(B1)");
            }
            if let Some(code) = &code {
                c.get_style_mut().get_number_format_mut().set_format_code(code.clone());
            }
            let variant = |c: &Cell| match c.get_raw_value() {
                RV::String(_) => "str",
                RV::RichText(_) => "rich",
                RV::Lazy(_) => "lazy",
                RV::Numeric(_) => "num",
                RV::Bool(_) => "bool",
                RV::Error(_) => "err",
                RV::Empty => "empty",
            };
            // the setters must have produced the kind the request names (set_error goes through guess_typed_data)
            if variant(&c) != base || c.is_formula() != formula {
                return ("bad-op".into(), false);
            }
            if loaded {
                // save, read back lazily, take the cell out of the lazily deserialized sheet
                let path = std::env::temp_dir().join(format!("c19_cellk_{}.xlsx", std::process::id()));
                let r = guard(|| {
                    let mut book = umya_spreadsheet::new_file();
                    let ws = book.get_sheet_mut(&0).unwrap();
                    let mut cc = c.clone();
                    cc.get_coordinate_mut().set_coordinate("B2");
                    ws.set_cell(cc);
                    umya_spreadsheet::writer::xlsx::write(&book, &path).unwrap();
                    let mut back = umya_spreadsheet::reader::xlsx::lazy_read(&path).unwrap();
                    let ws = back.get_sheet_mut(&0).unwrap();
                    ws.get_cell("B2").cloned()
                });
                let _ = std::fs::remove_file(&path);
                match r {
                    Ok(Some(cell)) => {
                        if variant(&cell) != base || cell.is_formula() != formula {
                            return (format!("reload-changed-kind {} formula={}", variant(&cell), cell.is_formula()), false);
                        }
                        c = cell;
                    }
                    Ok(None) => return ("reload-lost-cell".into(), false),
                    Err(_) => return ("panic".into(), false),
                }
            }
            let key = format!("cellk.{}", kind_full);
            out.count(&key);
            out.count(match &code {
                None => "cellk.code.none",
                Some(c) if c == "General" => "cellk.code.general",
                Some(_) => "cellk.code.other",
            });
            let value = c.get_value().to_string();
            let is_num = c.get_value_number().is_some();
            let dt = c.get_data_type().to_string();
            let r = guard(|| c.get_formatted_value());
            // oracle on the implementation: what is not a number is shown as get_value() says, whatever the code;
            // a number under General / no format shows its text
            let want_kind_text: Option<String> = match base {
                "str" | "rich" | "err" | "bool" => Some(text.clone()),
                "lazy" | "empty" => Some(String::new()),
                _ => None,
            };
            match (&r, &want_kind_text) {
                (Err(_), _) => out.oracle_fail(Fail::new("format-panic").with("op", line).with("value", &text).with("kind", kind_full)),
                (Ok(got), Some(want)) => {
                    if got == want && *got == value && !is_num {
                        out.oracle_ok()
                    } else {
                        out.oracle_fail(
                            Fail::new("text-cell-changed")
                                .with("op", line)
                                .with("kind", kind_full)
                                .with("value", &text)
                                .with("got", got)
                                .with("want", want),
                        )
                    }
                }
                (Ok(got), None) => {
                    let general = matches!(code.as_deref(), None | Some("General") | Some("@"));
                    if !is_num {
                        out.oracle_fail(Fail::new("number-cell-not-number").with("op", line).with("kind", kind_full));
                    } else if general && *got != text {
                        out.oracle_fail(
                            Fail::new("general-number-changed")
                                .with("op", line)
                                .with("kind", kind_full)
                                .with("value", &text)
                                .with("got", got)
                                .with("want", &text),
                        )
                    } else if general {
                        out.oracle_ok()
                    }
                }
            }
            match r {
                Ok(s) => (
                    format!("{} {} {}", hex(&s), if dt.is_empty() { "-" } else { dt.as_str() }, if is_num { "num" } else { "text" }),
                    true,
                ),
                Err(_) => ("panic".into(), false),
            }
        }
        // helper::number_format::to_formatted_string on an arbitrary string
        "str" if a.len() == 4 => {
            let text = String::from_utf8(unhex(a[2])).unwrap();
            let pat = String::from_utf8(unhex(a[3])).unwrap();
            let r = guard(|| to_formatted_string(&text, &pat));
            let numeric = text.parse::<f64>().is_ok();
            out.count(if numeric { "str.parses-as-f64" } else { "str.not-a-number" });
            if !numeric {
                // not a number: unchanged
                match &r {
                    Ok(got) if *got == text => out.oracle_ok(),
                    Ok(got) => out.oracle_fail(
                        Fail::new("text-changed")
                            .with("op", line)
                            .with("value", &text)
                            .with("pattern", &pat)
                            .with("got", got)
                            .with("want", &text),
                    ),
                    Err(_) => out.oracle_fail(
                        Fail::new("format-panic").with("op", line).with("value", &text).with("pattern", &pat),
                    ),
                }
            } else if r.is_err() {
                out.count("explore.panic.str");
            }
            match r {
                Ok(s) => (hex(&s), !numeric && !text.is_empty()),
                Err(_) => ("panic".into(), false),
            }
        }
        "id" if a.len() == 4 => {
            let id: u32 = a[2].parse().unwrap();
            let text = String::from_utf8(unhex(a[3])).unwrap();
            let num = match canonical_number(&text) {
                Some(f) => f,
                None => return ("bad-op".into(), false),
            };
            // ids without an entry in the crate's table cannot be selected at all (set_number_format_id
            // panics with "Not Found NumberFormatId."); that is not formatting, so it is reported apart
            let mut c = cell_with(&text, Some(num));
            if guard(|| {
                let mut probe = Cell::default();
                probe.get_style_mut().get_number_format_mut().set_number_format_id(id);
            })
            .is_err()
            {
                out.count(&format!("id.{:02}.not-in-table", id));
                return ("noid".into(), false);
            }
            c.get_style_mut().get_number_format_mut().set_number_format_id(id);
            let code = c.get_style().get_number_format().map(|f| f.get_format_code().to_string()).unwrap_or_default();
            let r = guard(|| c.get_formatted_value());
            match r {
                Ok(s) => {
                    out.count(&format!("id.{:02}.ok", id));
                    out.oracle_ok();
                    (format!("{} ## {}", hex(&s), hex(&code)), true)
                }
                Err(_) => {
                    out.count(&format!("id.{:02}.panic", id));
                    out.oracle_fail(
                        Fail::new("builtin-panic")
                            .with("op", line)
                            .with("id", id.to_string())
                            .with("code", &code)
                            .with("value", &text)
                            .with("magnitude", if num.abs() >= 9.5e7 { "serial-beyond-chrono-range" } else { "ordinary" }),
                    );
                    ("panic".into(), false)
                }
            }
        }
        "date" if a.len() == 5 => {
            let id: u32 = a[2].parse().unwrap();
            let bits: u64 = a[3].parse().unwrap();
            let text = String::from_utf8(unhex(a[4])).unwrap();
            let num = f64::from_bits(bits);
            if !num.is_finite() || num.to_string() != text {
                return ("bad-op".into(), false);
            }
            if guard(|| {
                let mut probe = Cell::default();
                probe.get_style_mut().get_number_format_mut().set_number_format_id(id);
            })
            .is_err()
            {
                out.count(&format!("id.{:02}.not-in-table", id));
                return ("noid".into(), false);
            }
            let mut c = cell_with(&text, Some(num));
            c.get_style_mut().get_number_format_mut().set_number_format_id(id);
            let code = c.get_style().get_number_format().map(|f| f.get_format_code().to_string()).unwrap_or_default();
            let in_range = excel_to_date_time_object_checked(&num, None).is_some();
            let date_id = DATE_IDS.contains(&id);
            out.count(&format!(
                "date.{}.{}",
                if date_id { "date-id" } else { "other-id" },
                if in_range { "in-chrono-range" } else { "beyond-chrono-range" }
            ));
            out.count(&format!("date.magnitude.1e{:03}", if num == 0.0 { 0 } else { num.abs().log10().floor() as i64 }));
            if num < 0.0 {
                out.count("date.negative");
            }
            let r = guard(|| c.get_formatted_value());
            match r {
                Ok(s) => {
                    out.count(&format!("id.{:02}.ok", id));
                    if date_id && !in_range && s != text {
                        out.oracle_fail(
                            Fail::new("date-out-of-range-not-general")
                                .with("op", line)
                                .with("id", id.to_string())
                                .with("code", &code)
                                .with("value", &text)
                                .with("got", &s),
                        );
                    } else {
                        out.oracle_ok();
                    }
                    (format!("{} ## {}", hex(&s), hex(&code)), true)
                }
                Err(_) => {
                    out.count(&format!("id.{:02}.panic", id));
                    out.oracle_fail(
                        Fail::new("builtin-panic")
                            .with("op", line)
                            .with("id", id.to_string())
                            .with("code", &code)
                            .with("value", &text)
                            .with("magnitude", if in_range { "ordinary" } else { "serial-beyond-chrono-range" }),
                    );
                    ("panic".into(), false)
                }
            }
        }
        "disp" | "dispc" if a.len() == 8 => {
            let builtin = a[1] == "disp";
            let bits: u64 = a[3].parse().unwrap();
            let num = f64::from_bits(bits);
            let text = String::from_utf8(unhex(a[4])).unwrap();
            let rem = String::from_utf8(unhex(a[5])).unwrap();
            let hours = String::from_utf8(unhex(a[6])).unwrap();
            let hours_abs = String::from_utf8(unhex(a[7])).unwrap();
            if !num.is_finite()
                || num.to_string() != text
                || (num.abs() % 1f64).to_string() != rem
                || (num * 24f64).to_string() != hours
                || (num.abs() * 24f64).to_string() != hours_abs
            {
                return ("bad-op".into(), false);
            }
            let mut c = cell_with(&text, Some(num));
            let (label, code) = if builtin {
                let id: u32 = a[2].parse().unwrap();
                if guard(|| {
                    let mut probe = Cell::default();
                    probe.get_style_mut().get_number_format_mut().set_number_format_id(id);
                })
                .is_err()
                {
                    out.count(&format!("disp.id.{:02}.not-in-table", id));
                    return ("noid".into(), false);
                }
                c.get_style_mut().get_number_format_mut().set_number_format_id(id);
                let code = c.get_style().get_number_format().map(|f| f.get_format_code().to_string()).unwrap_or_default();
                (format!("id.{:02}", id), code)
            } else {
                let code = String::from_utf8(unhex(a[2])).unwrap();
                c.get_style_mut().get_number_format_mut().set_format_code(code.clone());
                ("custom".to_string(), code)
            };
            let r = guard(|| c.get_formatted_value());
            // the branch the code is expected to take (information; the model reports the branch it followed)
            let in_range = excel_to_date_time_object_checked(&num, None).is_some();
            let single = !code.contains(';');
            // (with several sections the formatters see the absolute value)
            let whole = if single { text.parse::<usize>().is_ok() } else { text.trim_start_matches('-').parse::<usize>().is_ok() };
            let fraction_code = code.contains("?/?");
            let branch = if code == "General" {
                "general"
            } else if code == "@" {
                "text"
            } else if builtin && DATE_IDS.contains(&a[2].parse::<u32>().unwrap()) {
                if in_range { "date" } else { "date-out-of-range" }
            } else if fraction_code {
                if whole { "fraction-whole" } else { "fraction" }
            } else if single && code.ends_with('%') {
                "percent"
            } else if single && code.starts_with('"') && code.ends_with('"') {
                "literal"
            } else if code.contains('0') && !(code.contains(';') && num == 0.0 && code.matches(';').count() >= 2) {
                "number"
            } else {
                "number-raw"
            };
            // where the model computes no text (float printing inside the fraction formatter; a quoted numeric literal)
            let text_compared =
                !(branch == "fraction" || (branch == "literal" && code.trim_matches('"').parse::<f64>().is_ok()));
            out.count(&format!("disp.value.{}", value_kind(num, &text)));
            match r {
                Ok(s) => {
                    out.count(&format!("disp.{}.ok", label));
                    out.count(&format!("disp.branch.{}", branch));
                    out.count(if text_compared { "disp.text-compared" } else { "disp.class-compared" });
                    if builtin {
                        out.oracle_ok();
                    }
                    if text_compared {
                        (format!("ok {} ## {}", hex(&s), branch), true)
                    } else {
                        (format!("ok ~ ## {} {}", branch, hex(&s)), true)
                    }
                }
                Err(_) => {
                    out.count(&format!("disp.{}.panic", label));
                    out.count(&format!("disp.branch.{}.panic", branch));
                    if builtin {
                        out.oracle_fail(
                            Fail::new("builtin-panic")
                                .with("op", line)
                                .with("id", a[2])
                                .with("code", &code)
                                .with("value", &text)
                                .with("branch", branch)
                                .with("magnitude", if in_range { "ordinary" } else { "serial-beyond-chrono-range" }),
                        );
                    } else {
                        out.count("explore.panic.custom-code");
                    }
                    ("panic".into(), !builtin)
                }
            }
        }
        "edt" if a.len() == 3 => {
            let bits: u64 = a[2].parse().unwrap();
            let num = f64::from_bits(bits);
            let fields = |t: &chrono::NaiveDateTime| {
                format!("{} {} {} {} {} {}", t.year(), t.month(), t.day(), t.hour(), t.minute(), t.second())
            };
            let checked = guard(|| excel_to_date_time_object_checked(&num, None).map(|t| fields(&t)));
            let public = guard(|| fields(&excel_to_date_time_object(&num, None)));
            match (&checked, &public) {
                (Ok(Some(a)), Ok(b)) if a == b => {
                    out.count("edt.some");
                    out.oracle_ok()
                }
                (Ok(None), Err(_)) => {
                    out.count("edt.none");
                    out.oracle_ok()
                }
                _ => out.oracle_fail(
                    Fail::new("checked-public-disagree")
                        .with("op", line)
                        .with("value", num.to_string())
                        .with("checked", format!("{:?}", checked))
                        .with("public", format!("{:?}", public)),
                ),
            }
            match checked {
                Ok(Some(s)) => (s, true),
                Ok(None) => ("none".into(), true),
                Err(_) => ("panic".into(), false),
            }
        }
        _ => ("bad-op".into(), false),
    }
}

/// built-in ids whose code is a date/time code (goes through format_as_date)
const DATE_IDS: &[u32] = &[
    14, 15, 16, 17, 18, 19, 20, 21, 22, 27, 28, 29, 30, 31, 32, 33, 34, 35, 36, 45, 46, 47, 50, 51, 52, 53, 54, 55, 56, 57, 58,
];

/// serials at and around the edges of what chrono can hold (last day: serial 95051805 = +262142-12-31 counted from
/// 1899-12-30; first day: -96465292 = -262143-01-01 counted from 1970-01-01, the base for values below 1), around
/// TimeDelta's bound (i64::MAX / 1000 seconds = 106751991167.3 days), around i64 (the `as i64` casts saturate),
/// and the largest / smallest doubles
const SERIAL_EDGES: &[f64] = &[
    95051804.0, 95051804.5, 95051805.0, 95051805.25, 95051805.99998, 95051805.999995, 95051806.0, 95051807.0, 9.5e7, 9.6e7,
    1e8, 123456789.125, 1e9, 1e10, 106751991167.0, 106751991168.0, 1e12, 1e15, 9007199254740992.0, 1e16, 9.2e18,
    9223372036854775807.0, 1e19, 1e20, 1e22, 1e100, 1e300, f64::MAX, -96465291.0, -96465291.5, -96465292.0, -96465292.25,
    -96465293.0, -96465294.0, -9.6e7, -9.7e7, -1e8, -123456789.125, -1e9, -1e10, -106751991167.0, -106751991168.0,
    -1e12, -1e15, -1e16, -9.2e18, -9223372036854775808.0, -1e19, -1e20, -1e22, -1e100, -1e300, f64::MIN, 2958465.0,
    2958466.0, 3e6, 5e6, 1e7, 5e7, -1.0, -0.5, -2958465.0, -1e7, -5e7, 0.0, 0.999995, 59.0, 60.0, 61.0, 45435.25,
    f64::MIN_POSITIVE, 5e-324, -5e-324, 1e-300,
];

/// coarse class of a value of the `disp` stream (for the counters)
fn value_kind(num: f64, text: &str) -> &'static str {
    if num == 0.0 {
        if text.starts_with('-') { "minus-zero" } else { "zero" }
    } else if num.fract() == 0.0 {
        if num.abs() >= 18446744073709551616.0 {
            if num < 0.0 { "whole.negative.ge-2^64" } else { "whole.ge-2^64" }
        } else if num < 0.0 {
            "whole.negative"
        } else {
            "whole"
        }
    } else if num.abs() < 1e-6 {
        "tiny"
    } else if text.len() >= 17 {
        "long-fraction"
    } else if num < 0.0 {
        "fraction.negative"
    } else {
        "fraction"
    }
}

/// the value stream of the dispatcher tie: whole numbers, negative whole numbers, both zeros, halves, tiny and huge
/// magnitudes, the usize / u64 edge (the fraction codes test `parse::<usize>`), values at the rounding boundaries of
/// 0 / 1 / 2 decimals and of percentages, long fractions, serials at the edges of chrono's calendar
const DISP_VALUES: &[f64] = &[
    0.0, -0.0, 1.0, -1.0, 5.0, -5.0, 7.0, 10.0, -10.0, 59.0, 60.0, 61.0, 100.0, 999.0, 1000.0, -1000.0, 1234567.0, -1234567.0,
    45435.0, 2958465.0, 2958466.0, 4294967295.0, 4294967296.0, 9007199254740992.0, 9007199254740993.0,
    18446744073709549568.0, 18446744073709551616.0, -18446744073709551616.0, 36893488147419103232.0, 1e15, 1e16, 1e19, 1e20,
    -1e20, 1e22, 1e100, 1e300, -1e300, f64::MAX, f64::MIN, 0.5, -0.5, 1.5, -1.5, 2.5, 0.25, 0.75, 0.125, 0.1, 0.2, 0.3, 0.7,
    0.05, 0.005, 0.0005, 0.004, 0.0049999, 0.0050001, 0.045, 0.05000000000000001, 0.49, 0.4999999999999999, 0.5000000000000001,
    0.95, 0.995, 0.9995, 0.99995, 0.994, 0.9949999999999999, 9.5, 9.95, 99.5, 99.95, 999.5, 999.995, 9999.5, 999999.5,
    -0.001, -0.004, -0.005, -0.0000001, 1e-7, 4.9e-7, 5e-7, 1e-8, 1e-300, 5e-324, -5e-324, f64::MIN_POSITIVE, 2.2250738585072014e-308,
    1.005, 1.015, 1.045, 2.675, 8.325, 8.335, 1.115, 0.285, 0.015, 0.025, 0.035, 0.1234, 0.12345, 0.123456, 0.0012345,
    1234.5678, -1234.5678, 1234567.891, -1234567.891, 1234567.895, 12345.678901234, 33.333333333333336, 0.30000000000000004,
    1.7976931348623157, 0.1234567890123456, 123456789.12345678, 0.000123456789012345, 1.00000000000001, 44349.211134259262,
    45435.25, 45435.999994, 45435.999995, 0.999995, 0.99999, -45435.5, 95051805.0, 95051805.99998, 95051806.0, -96465292.0,
    -96465293.0, 1e8, -1e8, 106751991167.0, 106751991168.0, 9223372036854775807.0, -9223372036854775808.0,
];

/// custom format codes for `dispc` (exploration beyond the built-in table): the quoted-literal witness and its
/// neighbours, sections beyond five, colours, currency prefixes, scaling commas
const DISP_CUSTOM_CODES: &[&str] = &[
    "\"N/A\"", "\"12\"", "\"\"", "\"1e3\"", "0;0;0;0;0;[Red]0", "0;0;0;0;[Red]0", "[Red]0.00", "[Blue]#,##0;[Red]-#,##0", "$#,##0.00",
    "$#,##0_);($#,##0)", "0.0,,,,", "#,", "0.00 \"kg\"", "\\(0\\)", "0.0#", "#", "000.00", "# ?/?;-# ?/?", "[h]:mm", "yyyy-mm-dd",
    "yyyy\"T\"hh", "hh:mm:ss AM/PM", "[$-F800]dddd, mmmm dd, yyyy", "0.00%;[Red]-0.00%", "General;0",
];

fn disp_line(op: &str, key: &str, x: f64) -> String {
    format!(
        "c19 {} {} {} {} {} {} {}",
        op,
        key,
        x.to_bits(),
        hex(&x.to_string()),
        hex(&(x.abs() % 1f64).to_string()),
        hex(&(x * 24f64).to_string()),
        hex(&(x.abs() * 24f64).to_string())
    )
}

// ---------------------------------------------------------------------------------------------
// generators

pub fn patterns() -> Vec<String> {
    let mut v = vec![];
    for pc in ["", "%"] {
        for th in ["", "#,##"] {
            for d in 0..=6usize {
                let mut p = format!("{}0", th);
                if d > 0 {
                    p.push('.');
                    p.push_str(&"0".repeat(d));
                }
                p.push_str(pc);
                v.push(p);
            }
        }
    }
    v
}

/// A decimal text with `sig` significant digits and the point placed so that the magnitude is about 10^mag;
/// the digits are biased towards the cases that matter for rounding (runs of 9, a 5 / 4 / 49.. / 50.. tail,
/// zeros inside).  The text is then normalised through f64 so that it is a shortest form.
fn rand_value(rng: &mut Rng) -> String {
    let sig = match rng.below(10) {
        0 => 1,
        1 => rng.range(16, 17) as usize,
        _ => rng.range(1, 15) as usize,
    };
    let mut d: Vec<u8> = (0..sig).map(|_| b'0' + rng.below(10) as u8).collect();
    if d[0] == b'0' {
        d[0] = b'1' + rng.below(9) as u8;
    }
    match rng.below(8) {
        0 => {
            // run of nines ending the number, optionally with a rounding digit behind
            let from = rng.below(sig as u64) as usize;
            for x in d[from..].iter_mut() {
                *x = b'9';
            }
            if rng.chance(1, 2) {
                *d.last_mut().unwrap() = *rng.pick(&[b'4', b'5', b'6']);
            }
        }
        1 => *d.last_mut().unwrap() = b'5',
        2 => {
            // ...4999 / ...5000..1
            let from = rng.below(sig as u64) as usize;
            let hi = rng.chance(1, 2);
            for (j, x) in d[from..].iter_mut().enumerate() {
                *x = if j == 0 { if hi { b'5' } else { b'4' } } else if hi { b'0' } else { b'9' };
            }
            if hi {
                *d.last_mut().unwrap() = b'1';
            }
            if d[0] == b'0' {
                d[0] = b'1';
            }
        }
        3 => {
            for x in d.iter_mut().skip(1) {
                if rng.chance(1, 2) {
                    *x = b'0';
                }
            }
        }
        _ => {}
    }
    // position of the point: number of digits before it (may be <= 0: leading zeros after the point)
    let mag: i64 = match rng.below(6) {
        0 => rng.range(0, 7) as i64 - 7,       // 1e-7 .. 1
        1 => rng.range(8, 16) as i64,          // up to 1e15
        _ => rng.range(0, 7) as i64,
    };
    let digits = String::from_utf8(d).unwrap();
    let mut t = String::new();
    if rng.chance(3, 10) {
        t.push('-');
    }
    if mag <= 0 {
        t.push_str("0.");
        t.push_str(&"0".repeat((-mag) as usize));
        t.push_str(&digits);
    } else if (mag as usize) >= digits.len() {
        t.push_str(&digits);
        t.push_str(&"0".repeat(mag as usize - digits.len()));
    } else {
        t.push_str(&digits[..mag as usize]);
        t.push('.');
        t.push_str(&digits[mag as usize..]);
    }
    // shortest form of the nearest double
    t.parse::<f64>().unwrap().to_string()
}

const BOUNDARY_VALUES: &[&str] = &[
    "1.5", "1.7", "1.999", "1.005", "0.1234", // the five witnesses of DESIGN section 4 row 17
    "0", "-0", "1", "-1", "0.5", "-0.5", "1.5", "2.5", "-2.5", "0.05", "0.005", "0.0005", "0.00005", "0.0049999",
    "0.4", "0.49", "0.499999999999999", "0.500000000000001", "9.5", "99.5", "999.5", "9999.5", "999999.5", "999.9995",
    "-0.001", "-0.004", "-0.005", "-0.0000001", "0.0000001", "0.00000049", "0.0000005", "0.994", "0.995", "0.9995",
    "0.99995", "9.99", "9.999", "99.999", "999.999", "999999.999999", "999999999999999", "99999999999999.9",
    "0.999999999999999", "1000", "999", "1000000", "1234567.891", "-1234567.891", "123456789012345",
    "1000000000000000", "100000000000000", "12345.678901234", "0.000123456789012345", "1.00000000000001",
    "1.23456789012345", "0.015", "0.025", "0.035", "0.045", "1.045", "1.055", "8.325", "8.335", "2.675", "1.115",
    "0.285", "0.29", "0.07", "0.57", "0.58", "1.15", "4.35", "0.1", "0.2", "0.3", "0.7", "33.333333333333336",
    "0.30000000000000004", "1.7976931348623157", "4503599627370496", "9007199254740993", "0.1234567",
    "0.0012345", "12.345", "-12.345", "12.3456789", "100", "10", "0.01", "0.001", "0.009", "0.0099", "0.00999",
];

const HUGE_VALUES: &[&str] = &["1e21", "1e22", "-1e22", "1.7976931348623157e308", "5e-324", "2.2250738585072014e-308", "1e16", "1e-8", "123456789e-20"];

const TEXT_VALUES: &[&str] = &[
    "abc", " ", "a b", "1,5", "1.5.2", "--1", "1-", "1e", "e5", ".", "-", "+", "1_000", "0x10", "１２３", "١٢٣", "1 ", " 1",
    "TRUE", "#N/A", "12%", "$5", "1/2", "é", "日本", "😀", "a\tb", "&<>\"'", "nanx", "in", "infinit", "1e+", "1.e", "1d5", "1f",
];

/// texts that Rust parses as f64 but that are not shortest forms (outside the model; oracle: General only)
const NONCANON_VALUES: &[&str] = &[
    "1.50", "1e5", "1E5", "+3", "007", "1.", ".5", "-.5", "+.5", "1e-3", "1.5e+2", "NaN", "nan", "inf", "-inf", "Infinity",
    "-infinity", "+inf", "0.0", "-0.0", "00", "1e400", "1e-400", "123456789012345678901234567890", "0.10", "1.0",
];

const OTHER_PATTERNS: &[&str] = &[
    "", "%", "#", "#.##", "0.0#", "0,0", "00", "000.00", "0.", ".00", "0..0", "#,##0.", "#,###", "0.00;[Red]-0.00",
    "$#,##0", "$#,##0.00", "0.00E+00", "##0.0E+0", "# ?/?", "# ??/??", "yyyy", "\"x\"0", "0 \"kg\"", "0.00_)", "[Red]0.00",
    "[>100]0.0;0.00", "0.0,", "0,,", "#,##0.00_-", "0.00 %", "0 %", "%0", "0%%", "\\(0\\)", "*-0", "General;0", "@0",
];

pub fn gen(tier: Tier, seed: u64) -> Vec<String> {
    let mut rng = Rng::new(seed);
    let thorough = tier == Tier::Thorough;
    let mut v: Vec<String> = vec![];
    let pats = patterns();
    let fmt = |val: &str, pat: &str| format!("c19 fmt {} {}", hex(val), hex(pat));

    // 1. boundary values x every pattern of the quantifier
    for val in BOUNDARY_VALUES {
        let val = val.parse::<f64>().unwrap().to_string();
        for p in &pats {
            v.push(fmt(&val, p));
        }
        v.push(fmt(&val, "General"));
        v.push(fmt(&val, "@"));
    }
    // 2. random structured values x every pattern
    let n_values = if thorough { 30_000 } else { 560 };
    let mut values: Vec<String> = vec![];
    for _ in 0..n_values {
        let val = rand_value(&mut rng);
        for p in &pats {
            v.push(fmt(&val, p));
        }
        v.push(fmt(&val, "General"));
        values.push(val);
    }
    // 3. arbitrary doubles (17 significant digits), integers, very large / very small
    let n_any = if thorough { 20_000 } else { 400 };
    for i in 0..n_any {
        let f = match i % 4 {
            0 => (rng.f64_unit() - 0.5) * 10f64.powi(rng.range(0, 15) as i32),
            1 => rng.f64_unit() * 10f64.powi(-(rng.range(0, 7) as i32)),
            2 => (rng.below(2_000_000_000_000) as f64) - 1e12,
            _ => f64::from_bits(rng.next() & 0x7fef_ffff_ffff_ffff | (rng.next() & (1 << 63))),
        };
        if !f.is_finite() {
            continue;
        }
        let val = f.to_string();
        for _ in 0..3 {
            v.push(fmt(&val, rng.pick(&pats[..]).as_str()));
        }
        v.push(fmt(&val, "General"));
    }
    for val in HUGE_VALUES {
        let val = val.parse::<f64>().unwrap().to_string();
        for p in ["0", "0.00", "#,##0.000", "0.0%", "General"] {
            v.push(fmt(&val, p));
        }
    }
    // 4. text cells and the helper on arbitrary strings (text, non-canonical numeric text)
    let op2 = |op: &str, val: &str, pat: &str| format!("c19 {} {} {}", op, hex(val), hex(pat));
    for val in TEXT_VALUES.iter().chain(NONCANON_VALUES.iter()).chain(["1.5", "-0.001", "12345.678"].iter()) {
        for p in ["General", "@", "0", "0.00", "#,##0.0", "0%", "0.00E+00", "yyyy-mm-dd"] {
            v.push(op2("txt", val, p));
            v.push(op2("txtf", val, p));
            v.push(op2("txtr", val, p));
            v.push(op2("str", val, p));
        }
    }
    v.push(format!("c19 str - {}", hex("General")));
    v.push(format!("c19 str - {}", hex("0.00")));
    v.push(format!("c19 txt - {}", hex("General")));
    let talpha: Vec<char> = "0123456789..eE+-- ainfNty,%x".chars().collect();
    let n_text = if thorough { 40_000 } else { 1_500 };
    for _ in 0..n_text {
        let len = rng.range(1, 7);
        let s: String = (0..len).map(|_| *rng.pick(&talpha)).collect();
        let p = if rng.chance(1, 2) { "General".to_string() } else { rng.pick(&pats[..]).clone() };
        v.push(op2(if rng.chance(1, 3) { *rng.pick(&["txt", "txtf", "txtr"]) } else { "str" }, &s, &p));
    }
    // 4b. the cell-level decision: every kind of CellRawValue, with and without a formula, x codes (incl. no format at all);
    //     a part of them through a saved workbook read back lazily
    {
        let codes: [Option<&str>; 9] =
            [None, Some("General"), Some("@"), Some("0"), Some("0.00"), Some("#,##0.0"), Some("0%"), Some("0.00E+00"), Some("yyyy-mm-dd")];
        let ck = |kind: &str, val: &str, code: Option<&str>| {
            format!("c19 cellk {} {} {}", kind, hex(val), match code { Some(c) => hex(c), None => "none".to_string() })
        };
        let texts = ["1.50", "007", "abc", "12345.678", "-0.001", "1e5", "TRUE", "#DIV/0!", "inf", " 42 ", "", "héllo 1,5", "0"];
        let nums = ["0", "1.5", "-1234.5678", "0.05", "1234567.891", "45435.25", "-0", "2.675", "0.005", "999.995", "1e-7"];
        let errs = ["#DIV/0!", "#N/A", "#NAME?", "#NULL!", "#NUM!", "#REF!", "#VALUE!", "#DATA!"];
        for code in codes {
            for f in ["", "f"] {
                for t in texts {
                    for k in ["str", "rich", "lazy"] {
                        v.push(ck(&format!("{}{}", k, f), t, code));
                    }
                }
                for n in nums {
                    let n = n.parse::<f64>().unwrap().to_string();
                    v.push(ck(&format!("num{}", f), &n, code));
                }
                for b in ["TRUE", "FALSE"] {
                    v.push(ck(&format!("bool{}", f), b, code));
                }
                for e in errs {
                    v.push(ck(&format!("err{}", f), e, code));
                }
                v.push(ck(&format!("empty{}", f), "", code));
            }
        }
        for val in values.iter().take(if thorough { 2000 } else { 150 }) {
            let p = rng.pick(&pats[..]).clone();
            v.push(ck(if rng.chance(1, 2) { "num" } else { "numf" }, val, Some(&p)));
            v.push(ck(*rng.pick(&["str", "strf", "rich", "richf", "lazy", "lazyf"]), val, Some(&p)));
        }
        // lazily loaded workbook (kinds that survive a save unchanged; non-empty values)
        for code in [None, Some("General"), Some("0.00"), Some("#,##0.0"), Some("0%")] {
            for t in ["1.50", "007", "abc", "TRUE", "1e5"] {
                v.push(ck("Lstr", t, code));
                v.push(ck("Lstrf", t, code));
                v.push(ck("Lrich", t, code));
            }
            for n in ["1.5", "-1234.5678", "0.005", "45435.25"] {
                v.push(ck("Lnum", n, code));
                v.push(ck("Lnumf", n, code));
            }
            for b in ["TRUE", "FALSE"] {
                v.push(ck("Lbool", b, code));
                v.push(ck("Lboolf", b, code));
            }
            for e in ["#DIV/0!", "#N/A", "#REF!"] {
                v.push(ck("Lerr", e, code));
                v.push(ck("Lerrf", e, code));
            }
        }
    }
    // 5. patterns outside the grammar (exploration; the model answers `unmodelled`)
    for p in OTHER_PATTERNS {
        for val in ["0", "1.5", "-1234.5678", "0.05", "1234567.891", "45435.25"] {
            v.push(fmt(val, p));
        }
    }
    // 6. every built-in format id x values: panic-freedom (exploration)
    let n_idvals = if thorough { 1_000 } else { 200 };
    let mut idvals: Vec<String> = BOUNDARY_VALUES.iter().take(40).map(|s| s.parse::<f64>().unwrap().to_string()).collect();
    for s in ["45435", "44349.211134259262", "-45435.5", "2958465", "2958466", "60", "59", "0.99999", "1e15", "-1e15", "1e-7"] {
        idvals.push(s.parse::<f64>().unwrap().to_string());
    }
    while idvals.len() < n_idvals {
        idvals.push(values[rng.below(values.len() as u64) as usize].clone());
    }
    for id in 0..=49u32 {
        for val in &idvals {
            v.push(format!("c19 id {} {}", id, hex(val)));
        }
    }
    // 7. date/time codes and serials far outside the calendar: every id 0..=70 x the edge serials, then random
    //    magnitudes 1e0..1e308 of both signs x every id; the conversion itself on all of them
    let mut serials: Vec<f64> = SERIAL_EDGES.to_vec();
    let n_rand = if thorough { 600 } else { 60 };
    for i in 0..n_rand {
        let e = rng.range(0, 308) as i32;
        let m = 1.0 + rng.f64_unit() * 9.0;
        let m = if i % 3 == 0 { m.floor() } else { m };
        let x = m * 10f64.powi(e);
        if x.is_finite() {
            serials.push(if rng.chance(1, 2) { -x } else { x });
        }
    }
    // day-exact neighbours of the two calendar edges with random times of day
    for _ in 0..(if thorough { 400 } else { 40 }) {
        let edge = if rng.chance(1, 2) { 95051805.0 } else { -96465292.0 };
        let d = rng.range(0, 6) as f64 - 3.0;
        serials.push(edge + d + rng.f64_unit());
    }
    for x in &serials {
        v.push(format!("c19 edt {}", x.to_bits()));
    }
    for id in 0..=70u32 {
        for x in &serials {
            v.push(format!("c19 date {} {} {}", id, x.to_bits(), hex(&x.to_string())));
        }
    }
    // 8. the dispatcher tie: every id 0..=70 x the value stream (+ random structured values and arbitrary doubles);
    //    custom codes x a few values (exploration)
    let mut dvals: Vec<f64> = DISP_VALUES.to_vec();
    let n_drand = if thorough { 400 } else { 40 };
    for i in 0..n_drand {
        let x = if i % 2 == 0 {
            values[rng.below(values.len() as u64) as usize].parse::<f64>().unwrap()
        } else {
            f64::from_bits(rng.next() & 0x7fef_ffff_ffff_ffff | (rng.next() & (1 << 63)))
        };
        if x.is_finite() {
            dvals.push(x);
        }
    }
    for id in 0..=70u32 {
        for x in &dvals {
            v.push(disp_line("disp", &id.to_string(), *x));
        }
    }
    for code in DISP_CUSTOM_CODES {
        for x in [1.0, -1.0, 0.0, 1234.5678, -1234.5678, 0.5, 45435.25, 1e20] {
            v.push(disp_line("dispc", &hex(code), x));
        }
    }
    v
}

pub fn run(out: &mut Out, tier: Tier, seed: u64, replay: Option<Vec<String>>) {
    out.flush_each = false;
    let ops = match replay {
        Some(r) => r,
        None => gen(tier, seed),
    };
    for op in ops {
        let kind = op.split(' ').nth(1).unwrap_or("?").to_string();
        out.begin(&op);
        let (reply, nt) = exec(out, &op);
        out.count(&format!("op.{}", kind));
        if reply == "panic" {
            out.count(&format!("panic.{}", kind));
        }
        out.end(&op, &reply, nt);
    }
}
