//! C17 — coordinate / column / range / address codecs.
use crate::common::*;
use umya_spreadsheet::helper::address::{join_address, split_address};
use umya_spreadsheet::helper::coordinate::*;
use umya_spreadsheet::helper::range::get_start_and_end_point;
use umya_spreadsheet::structs::{Address, Range};

fn is_upper_1_3(s: &str) -> bool {
    (1..=3).contains(&s.len()) && s.bytes().all(|b| b.is_ascii_uppercase())
}

/// independent successor on bijective base-26 numerals
fn succ26(s: &str) -> String {
    let mut v: Vec<u8> = s.bytes().collect();
    let mut i = v.len();
    loop {
        if i == 0 {
            v.insert(0, b'A');
            break;
        }
        i -= 1;
        if v[i] == b'Z' {
            v[i] = b'A';
        } else {
            v[i] += 1;
            break;
        }
    }
    String::from_utf8(v).unwrap()
}

fn ref_str(n: Option<(u32, bool)>) -> String {
    match n {
        Some((n, l)) => format!("{}/{}", n, if l { 1 } else { 0 }),
        None => "-".into(),
    }
}
fn parse_ref(s: &str) -> Option<(u32, bool)> {
    if s == "-" {
        return None;
    }
    let (a, b) = s.split_once('/').unwrap();
    Some((a.parse().unwrap(), b == "1"))
}
type Corners = [Option<(u32, bool)>; 4];
fn dump_range(r: &Range) -> Corners {
    [
        r.get_coordinate_start_col().map(|v| (*v.get_num(), *v.get_is_lock())),
        r.get_coordinate_start_row().map(|v| (*v.get_num(), *v.get_is_lock())),
        r.get_coordinate_end_col().map(|v| (*v.get_num(), *v.get_is_lock())),
        r.get_coordinate_end_row().map(|v| (*v.get_num(), *v.get_is_lock())),
    ]
}
fn corners_str(c: &Corners) -> String {
    format!("{} {} {} {}", ref_str(c[0]), ref_str(c[1]), ref_str(c[2]), ref_str(c[3]))
}
/// the harness' own printer, used only to get a `Range` with given corners into existence
fn own_print(c: &Corners) -> String {
    let col = |r: (u32, bool)| format!("{}{}", if r.1 { "$" } else { "" }, own_alpha(r.0));
    let row = |r: (u32, bool)| format!("{}{}", if r.1 { "$" } else { "" }, r.0);
    let mut s = String::new();
    if let Some(r) = c[0] {
        s += &col(r);
    }
    if let Some(r) = c[1] {
        s += &row(r);
    }
    if c[2].is_some() || c[3].is_some() {
        s.push(':');
        if let Some(r) = c[2] {
            s += &col(r);
        }
        if let Some(r) = c[3] {
            s += &row(r);
        }
    }
    s
}
fn own_alpha(mut n: u32) -> String {
    let mut v = vec![];
    while n > 0 {
        let d = (n - 1) % 26;
        v.push(b'A' + d as u8);
        n = (n - 1) / 26;
    }
    v.reverse();
    String::from_utf8(v).unwrap()
}

pub fn legal_sheet_name(s: &str) -> bool {
    let n = s.chars().count();
    n >= 1
        && n <= 31
        && !s.chars().any(|c| matches!(c, ':' | '\\' | '/' | '?' | '*' | '[' | ']'))
        && !s.starts_with('\'')
        && !s.ends_with('\'')
}


// ---- the canonical grammars of Umya/Model/CoordCanon.lean, evaluated on the harness side (the driver evaluates the Lean
// predicates on the same text and both lead the reply with the result, so the two are compared on every request) ----
fn strip_dollar(s: &[u8]) -> &[u8] {
    if s.first() == Some(&b'$') {
        &s[1..]
    } else {
        s
    }
}
fn canon_letters(s: &[u8]) -> bool {
    (1..=3).contains(&s.len()) && s.iter().all(|b| b.is_ascii_uppercase())
}
fn canon_digits(s: &[u8]) -> bool {
    !s.is_empty()
        && s.iter().all(|b| b.is_ascii_digit())
        && (s == b"0" || s[0] != b'0')
        && s.len() <= 10
        && std::str::from_utf8(s).unwrap().parse::<u64>().unwrap() < (1u64 << 32)
}
fn canon_col(s: &[u8]) -> bool {
    canon_letters(strip_dollar(s))
}
fn canon_row(s: &[u8]) -> bool {
    canon_digits(strip_dollar(s))
}
fn canon_cell(s: &[u8]) -> bool {
    let r = strip_dollar(s);
    let k = r.iter().take_while(|b| b.is_ascii_uppercase()).count();
    canon_letters(&r[..k]) && canon_row(&r[k..])
}
/// 0 = outside, 1 = cell, 2 = cell:cell, 3 = col:col, 4 = row:row
fn canon_range_shape(t: &str) -> u8 {
    let p: Vec<&[u8]> = t.split(':').map(|x| x.as_bytes()).collect();
    match p.len() {
        1 => canon_cell(p[0]) as u8,
        2 => {
            if canon_cell(p[0]) && canon_cell(p[1]) {
                2
            } else if canon_col(p[0]) && canon_col(p[1]) {
                3
            } else if canon_row(p[0]) && canon_row(p[1]) {
                4
            } else {
                0
            }
        }
        _ => 0,
    }
}
fn forbidden(c: char) -> bool {
    matches!(c, ':' | '\\' | '?' | '[' | ']' | '/' | '*')
}
fn legal_b(n: &str) -> bool {
    !n.is_empty() && !n.starts_with('\'') && !n.chars().any(forbidden)
}
fn canon_qual(q: &str) -> bool {
    if let Some(r) = q.strip_prefix('\'') {
        match r.strip_suffix('\'') {
            Some(inner) => {
                let n = inner.replace("''", "'");
                n.replace('\'', "''") == inner && legal_b(&n)
            }
            None => false,
        }
    } else {
        legal_b(q) && !q.chars().any(|c| matches!(c, '\'' | '(' | ')' | '"' | ','))
    }
}
fn canon_area(t: &str) -> bool {
    match t.rsplit_once('!') {
        Some((q, a)) => canon_qual(q) && matches!(canon_range_shape(a), 1 | 2),
        None => false,
    }
}
/// mirror of `canonAddrB` (Umya/Model/CoordCanonMore.lean): a canonical qualifier and any of the four range shapes,
/// or a bare range of one of the four shapes
fn canon_total(t: &str) -> bool {
    match t.rsplit_once('!') {
        Some((q, a)) => canon_qual(q) && canon_range_shape(a) != 0,
        None => canon_range_shape(t) != 0,
    }
}
/// the model's `stripSheetQuote`
fn strip_quote(q: &str) -> &str {
    match q.strip_prefix('\'') {
        Some(r) => match r.strip_suffix('\'') {
            Some(m) => m,
            None => q,
        },
        None => q,
    }
}
fn addr_plain(t: &str) -> bool {
    match t.rsplit_once('!') {
        None => true,
        Some((q, _)) => !q.is_empty() && strip_quote(q) == q,
    }
}
fn bit(b: bool) -> &'static str {
    if b {
        "1"
    } else {
        "0"
    }
}
fn canon_count(out: &mut Out, what: &str, ok: bool) {
    out.count(&format!("pp.{}.canon.{}", what, if ok { "ok" } else { "outside" }));
}

/// parse-then-print requests: `print (parse t)` on the implementation, with the oracle of Umya/Thm/C17Parse.lean
fn exec_pp(out: &mut Out, line: &str, a: &[&str]) -> (String, bool) {
    let t = String::from_utf8(unhex(a[3])).unwrap();
    match a[2] {
        "coord" => {
            let canon = canon_cell(t.as_bytes());
            canon_count(out, "coord", canon);
            let r = guard(|| match index_from_coordinate(&t) {
                (Some(c), Some(r), Some(lc), Some(lr)) => Some(coordinate_from_index_with_lock(&c, &r, &lc, &lr)),
                _ => None,
            });
            match r {
                Ok(v) => {
                    if canon {
                        if v.as_deref() == Some(t.as_str()) {
                            out.oracle_ok();
                        } else {
                            out.oracle_fail(Fail::new("coord-parse-print").with("text", &t).with("printed", v.clone().unwrap_or("none".into())).with("op", line));
                        }
                    }
                    (format!("{} {}", bit(canon), v.as_deref().map(hex).unwrap_or("none".into())), v.is_some())
                }
                Err(_) => {
                    if canon {
                        out.oracle_fail(Fail::new("coord-parse-print").with("text", &t).with("printed", "panic").with("op", line));
                    }
                    (format!("{} panic", bit(canon)), false)
                }
            }
        }
        "range" => {
            let shape = canon_range_shape(&t);
            let canon = shape != 0;
            canon_count(out, "range", canon);
            out.count(&format!("pp.range.shape.{}", ["outside", "cell", "cell-cell", "col-col", "row-row"][shape as usize]));
            let r = guard(|| {
                let mut r = Range::default();
                r.set_range(t.clone());
                r.get_range()
            });
            match r {
                Ok(v) => {
                    if canon {
                        if v == t {
                            out.oracle_ok();
                        } else {
                            out.oracle_fail(Fail::new("range-parse-print").with("text", &t).with("printed", &v).with("op", line));
                        }
                    }
                    (format!("{} {}", bit(canon), hex(&v)), !v.is_empty())
                }
                Err(_) => {
                    if canon {
                        out.oracle_fail(Fail::new("range-parse-print").with("text", &t).with("printed", "panic").with("op", line));
                    }
                    (format!("{} panic", bit(canon)), false)
                }
            }
        }
        "addr" => {
            let canon = addr_plain(&t);
            canon_count(out, "addr", canon);
            match guard(|| {
                let (x, y) = split_address(&t);
                join_address(x, y)
            }) {
                Ok(v) => {
                    // clause 3 of C17_address_parse_print: `'n'!a` comes back as `n!a`
                    let expect = if canon {
                        Some(t.clone())
                    } else {
                        t.rsplit_once('!').and_then(|(q, a)| {
                            let n = strip_quote(q);
                            if n != q && !n.is_empty() {
                                Some(format!("{}!{}", n, a))
                            } else {
                                None
                            }
                        })
                    };
                    if let Some(e) = expect {
                        if v == e {
                            out.oracle_ok();
                        } else {
                            out.oracle_fail(Fail::new("address-parse-print").with("text", &t).with("printed", &v).with("op", line));
                        }
                    }
                    (format!("{} {}", bit(canon), hex(&v)), t.contains('!'))
                }
                Err(_) => (format!("{} panic", bit(canon)), false),
            }
        }
        "area" => {
            let canon = canon_area(&t);
            canon_count(out, "area", canon);
            let pr = |s: &str| {
                let s = s.to_string();
                guard(move || {
                    let mut ad = Address::default();
                    ad.set_address(s.replace("''", "'"));
                    (ad.verif_get_address_ptn2(), ad.get_sheet_name().to_string(), dump_range(ad.get_range()))
                })
            };
            match pr(&t) {
                Ok((v, sheet, corners)) => {
                    if canon {
                        // the re-quoted text means the same area and is a fixed point
                        match pr(&v) {
                            Ok((v2, sheet2, corners2)) if v2 == v && sheet2 == sheet && corners2 == corners && v.ends_with(t.rsplit_once('!').unwrap().1) => out.oracle_ok(),
                            _ => out.oracle_fail(Fail::new("area-parse-print").with("text", &t).with("printed", &v).with("op", line)),
                        }
                        out.count(if v == t { "pp.area.same-spelling" } else { "pp.area.requoted" });
                    }
                    (format!("{} {}", bit(canon), hex(&v)), true)
                }
                Err(_) => {
                    if canon {
                        out.oracle_fail(Fail::new("area-parse-print").with("text", &t).with("printed", "panic").with("op", line));
                    }
                    (format!("{} panic", bit(canon)), false)
                }
            }
        }
        "total" => {
            // C17_address_canon_total: qualified and unqualified areas of all four shapes
            let canon = canon_total(&t);
            canon_count(out, "total", canon);
            if canon {
                out.count(&format!("pp.total.{}.{}", if t.contains('!') { "qualified" } else { "unqualified" }, ["outside", "cell", "cell-cell", "col-col", "row-row"][canon_range_shape(t.rsplit_once('!').map(|x| x.1).unwrap_or(&t)) as usize]));
            }
            let pr = |s: &str| {
                let s = s.to_string();
                guard(move || {
                    let mut ad = Address::default();
                    ad.set_address(s.replace("''", "'"));
                    (ad.verif_get_address_ptn2(), ad.get_sheet_name().to_string(), dump_range(ad.get_range()))
                })
            };
            match pr(&t) {
                Ok((v, sheet, corners)) => {
                    if canon {
                        let tail = t.rsplit_once('!').map(|x| x.1).unwrap_or(&t);
                        let unq_ok = t.contains('!') || (v == t && sheet.is_empty());
                        match pr(&v) {
                            Ok((v2, sheet2, corners2)) if v2 == v && sheet2 == sheet && corners2 == corners && v.ends_with(tail) && unq_ok => out.oracle_ok(),
                            _ => out.oracle_fail(Fail::new("address-total-parse-print").with("text", &t).with("printed", &v).with("op", line)),
                        }
                    }
                    (format!("{} {}", bit(canon), hex(&v)), true)
                }
                Err(_) => {
                    if canon {
                        out.oracle_fail(Fail::new("address-total-parse-print").with("text", &t).with("printed", "panic").with("op", line));
                    }
                    (format!("{} panic", bit(canon)), false)
                }
            }
        }
        "name" => {
            let g = a[4] == "1";
            canon_count(out, "name", g);
            let pr = |s: &str| {
                let s = s.to_string();
                guard(move || {
                    let mut d = umya_spreadsheet::structs::DefinedName::default();
                    d.set_address(s);
                    d.get_address()
                })
            };
            match pr(&t) {
                Ok(v) => {
                    if g {
                        match pr(&v) {
                            Ok(v2) if v2 == v => out.oracle_ok(),
                            _ => out.oracle_fail(Fail::new("name-parse-print").with("text", &t).with("printed", &v).with("op", line)),
                        }
                        out.count(if v == t { "pp.name.same-spelling" } else { "pp.name.requoted" });
                    }
                    (format!("{} {}", if g { "1" } else { "?" }, hex(&v)), true)
                }
                Err(_) => {
                    if g {
                        out.oracle_fail(Fail::new("name-parse-print").with("text", &t).with("printed", "panic").with("op", line));
                    }
                    (format!("{} panic", if g { "1" } else { "?" }), false)
                }
            }
        }
        _ => ("bad-op".into(), false),
    }
}

pub fn exec(out: &mut Out, line: &str) -> (String, bool) {
    let a: Vec<&str> = line.split(' ').collect();
    match a[1] {
        "pp" => exec_pp(out, line, &a),
        "obj" => {
            // a Coordinate OBJECT re-pointed: set_coordinate(t1) then set_coordinate(t2); all four fields must be those of t2
            let t1 = String::from_utf8(unhex(a[2])).unwrap();
            let t2 = String::from_utf8(unhex(a[3])).unwrap();
            let r = guard(|| {
                let mut c = umya_spreadsheet::structs::Coordinate::default();
                c.set_coordinate(&t1);
                c.set_coordinate(&t2);
                (*c.get_col_num(), *c.get_row_num(), *c.get_is_lock_col(), *c.get_is_lock_row(), c.get_coordinate())
            });
            out.count(&format!("obj.locks.{}{}-then-{}{}", bit(t1.starts_with('$')), bit(t1[1..].contains('$')), bit(t2.starts_with('$')), bit(t2[1..].contains('$'))));
            match r {
                Ok((c, r, lc, lr, text)) => {
                    if canon_cell(t1.as_bytes()) && canon_cell(t2.as_bytes()) {
                        if text == t2 {
                            out.oracle_ok();
                        } else {
                            out.oracle_fail(Fail::new("coordinate-object-keeps-old-fields").with("first", &t1).with("second", &t2).with("printed", &text).with("op", line));
                        }
                    }
                    (format!("{} {} {} {} {}", c, r, bit(lc), bit(lr), hex(&text)), true)
                }
                Err(_) => ("panic".into(), false),
            }
        }
        "col2alpha" => {
            let n: u32 = a[2].parse().unwrap();
            let r = guard(|| string_from_column_index(&n));
            match r {
                Ok(s) => {
                    if (1..=18278).contains(&n) {
                        // oracle: inverse, and bijective-numeral order
                        let back = guard(|| column_index_from_string(&s));
                        let ok_inv = back == Ok(n);
                        let ok_ord = if n == 1 {
                            s == "A"
                        } else {
                            guard(|| string_from_column_index(&(n - 1))).map(|p| succ26(&p)) == Ok(s.clone())
                        };
                        if ok_inv && ok_ord {
                            out.oracle_ok();
                        } else {
                            out.oracle_fail(
                                Fail::new("col-roundtrip").with("n", n.to_string()).with("alpha", &s).with("op", line),
                            );
                        }
                    }
                    (hex(&s), n >= 1)
                }
                Err(_) => ("panic".into(), false),
            }
        }
        "alpha2col" => {
            let s = String::from_utf8(unhex(a[2])).unwrap();
            let r = guard(|| column_index_from_string(&s));
            match r {
                Ok(n) => {
                    if is_upper_1_3(&s) {
                        let back = guard(|| string_from_column_index(&n));
                        if back == Ok(s.clone()) {
                            out.oracle_ok();
                        } else {
                            out.oracle_fail(Fail::new("alpha-roundtrip").with("alpha", &s).with("op", line));
                        }
                    }
                    (n.to_string(), true)
                }
                Err(_) => ("panic".into(), false),
            }
        }
        "coord" => {
            let s = String::from_utf8(unhex(a[2])).unwrap();
            let r = guard(|| index_from_coordinate(&s));
            match r {
                Ok((c, r, lc, lr)) => (
                    format!("{} {} {} {}", opt_u32(c), opt_u32(r), opt_bool(lc), opt_bool(lr)),
                    c.is_some() || r.is_some(),
                ),
                Err(_) => ("panic".into(), false),
            }
        }
        "mkcoord" => {
            let c: u32 = a[2].parse().unwrap();
            let r: u32 = a[3].parse().unwrap();
            let lc = a[4] == "1";
            let lr = a[5] == "1";
            match guard(|| coordinate_from_index_with_lock(&c, &r, &lc, &lr)) {
                Ok(s) => {
                    if (1..=16384).contains(&c) {
                        let back = guard(|| index_from_coordinate(&s));
                        if back == Ok((Some(c), Some(r), Some(lc), Some(lr))) {
                            out.oracle_ok();
                        } else {
                            out.oracle_fail(Fail::new("coord-roundtrip").with("text", &s).with("op", line));
                        }
                    }
                    (hex(&s), true)
                }
                Err(_) => ("panic".into(), false),
            }
        }
        "rangeparse" => {
            let s = String::from_utf8(unhex(a[2])).unwrap();
            match guard(|| {
                let mut r = Range::default();
                r.set_range(s.clone());
                dump_range(&r)
            }) {
                Ok(c) => (corners_str(&c), c.iter().any(|x| x.is_some())),
                Err(_) => ("panic".into(), false),
            }
        }
        "rangeprint" => {
            let c: Corners = [parse_ref(a[2]), parse_ref(a[3]), parse_ref(a[4]), parse_ref(a[5])];
            let text = own_print(&c);
            let res = guard(|| {
                let mut r = Range::default();
                r.set_range(text.clone());
                let got = dump_range(&r);
                let printed = r.get_range();
                let mut r2 = Range::default();
                r2.set_range(printed.clone());
                (got, printed, dump_range(&r2))
            });
            match res {
                Ok((got, printed, again)) => {
                    if got != c {
                        // could not even construct the shape through the public API
                        out.oracle_fail(Fail::new("range-construct").with("text", &text).with("op", line));
                    } else if again != c {
                        out.oracle_fail(Fail::new("range-roundtrip").with("text", &printed).with("op", line));
                    } else {
                        out.oracle_ok();
                    }
                    (hex(&printed), true)
                }
                Err(_) => {
                    out.oracle_fail(Fail::new("range-panic").with("text", &text).with("op", line));
                    ("panic".into(), false)
                }
            }
        }
        "points" => {
            let s = String::from_utf8(unhex(a[2])).unwrap();
            match guard(|| get_start_and_end_point(&s)) {
                Ok((a, b, c, d)) => (format!("{} {} {} {}", a, b, c, d), true),
                Err(_) => ("panic".into(), false),
            }
        }
        "split" => {
            let s = String::from_utf8(unhex(a[2])).unwrap();
            match guard(|| {
                let (x, y) = split_address(&s);
                (x.to_string(), y.to_string())
            }) {
                Ok((x, y)) => (format!("{} {}", hex(&x), hex(&y)), !x.is_empty()),
                Err(_) => ("panic".into(), false),
            }
        }
        "join" => {
            let n = String::from_utf8(unhex(a[2])).unwrap();
            let r = String::from_utf8(unhex(a[3])).unwrap();
            match guard(|| join_address(&n, &r)) {
                Ok(j) => {
                    if legal_sheet_name(&n) && !r.contains('!') {
                        let back = guard(|| {
                            let (x, y) = split_address(&j);
                            (x.to_string(), y.to_string())
                        });
                        if back == Ok((n.clone(), r.clone())) {
                            out.oracle_ok();
                        } else {
                            out.oracle_fail(Fail::new("address-roundtrip").with("name", &n).with("joined", &j).with("op", line));
                        }
                    }
                    (hex(&j), !n.is_empty())
                }
                Err(_) => ("panic".into(), false),
            }
        }
        "addr" => {
            let ptn2 = a[2] == "2";
            let n = String::from_utf8(unhex(a[3])).unwrap();
            let r = String::from_utf8(unhex(a[4])).unwrap();
            match guard(|| {
                let mut ad = Address::default();
                ad.set_sheet_name(n.clone());
                let mut rg = Range::default();
                rg.set_range(r.clone());
                ad.set_range(rg);
                if ptn2 {
                    ad.verif_get_address_ptn2()
                } else {
                    ad.get_address()
                }
            }) {
                Ok(t) => {
                    if legal_sheet_name(&n) {
                        // the defined-name reader un-doubles apostrophes before splitting
                        let t2 = if ptn2 { t.replace("''", "'") } else { t.clone() };
                        let back = guard(|| {
                            let mut ad = Address::default();
                            ad.set_address(t2.clone());
                            (ad.get_sheet_name().to_string(), ad.get_range().get_range())
                        });
                        if back == Ok((n.clone(), r.clone())) {
                            out.oracle_ok();
                        } else {
                            out.oracle_fail(
                                Fail::new("address-roundtrip").with("name", &n).with("joined", &t).with("op", line),
                            );
                        }
                    }
                    (hex(&t), true)
                }
                Err(_) => ("panic".into(), false),
            }
        }
        _ => ("bad-op".into(), false),
    }
}

fn rand_string(rng: &mut Rng, alphabet: &[char], max: u64) -> String {
    let n = rng.below(max + 1);
    (0..n).map(|_| *rng.pick(alphabet)).collect()
}

pub fn gen(tier: Tier, seed: u64) -> Vec<String> {
    let mut rng = Rng::new(seed);
    let mut v: Vec<String> = vec![];
    let thorough = tier == Tier::Thorough;
    // a Coordinate object pointed at one reference and then at another: every lock combination on both sides
    {
        let mut texts: Vec<String> = vec![];
        for col in ["A", "Z", "AA", "XFD"] {
            for row in ["1", "10", "1048576"] {
                for (lc, lr) in [("", ""), ("$", ""), ("", "$"), ("$", "$")] {
                    texts.push(format!("{}{}{}{}", lc, col, lr, row));
                }
            }
        }
        for (i, t1) in texts.iter().enumerate() {
            for (j, t2) in texts.iter().enumerate() {
                if thorough || (i * 7 + j) % 3 == 0 {
                    v.push(format!("c17 obj {} {}", hex(t1), hex(t2)));
                }
            }
        }
    }
    // columns: exhaustive 1..=18278 plus boundary junk
    for n in 0..=18279u32 {
        v.push(format!("c17 col2alpha {}", n));
    }
    for n in [18280u32, 475254, 475255, 12356630, 12356631, 321272406, 321272407, 4294967295] {
        v.push(format!("c17 col2alpha {}", n));
    }
    // names: exhaustive 1..3 letters
    let letters: Vec<char> = ('A'..='Z').collect();
    for a in &letters {
        v.push(format!("c17 alpha2col {}", hex(&a.to_string())));
        for b in &letters {
            v.push(format!("c17 alpha2col {}", hex(&format!("{}{}", a, b))));
            for c in &letters {
                v.push(format!("c17 alpha2col {}", hex(&format!("{}{}{}", a, b, c))));
            }
        }
    }
    for s in ["", "0", "a", "xfd", "Xfd", "AAAA", "A1", "1", "$A", "[", "a{", "~~~", "A B", "00", "@", "A@"] {
        v.push(format!("c17 alpha2col {}", hex(s)));
    }
    // coordinates: rows x boundary columns x locks
    let stride = if thorough { 1 } else { 257 };
    let cols = [1u32, 26, 27, 702, 703, 16384];
    let mut r = 1u32;
    while r <= 1048576 {
        for c in cols {
            for l in 0..4 {
                v.push(format!("c17 mkcoord {} {} {} {}", c, r, l & 1, l >> 1));
            }
        }
        r += stride;
    }
    for r in [0u32, 1048575, 1048576, 1048577, 4294967295] {
        for c in [0u32, 1, 16384, 16385, 18278, 18279] {
            v.push(format!("c17 mkcoord {} {} {} {}", c, r, rng.below(2), rng.below(2)));
        }
    }
    let n_rand = if thorough { 200_000 } else { 30_000 };
    for _ in 0..n_rand {
        v.push(format!(
            "c17 mkcoord {} {} {} {}",
            rng.range(1, 16384),
            rng.range(1, 1048576),
            rng.below(2),
            rng.below(2)
        ));
    }
    // arbitrary strings against the regex model
    let alpha: Vec<char> = "$$$AAABZXFDabz0123456789:!'\" .".chars().collect();
    for _ in 0..n_rand {
        let s = rand_string(&mut rng, &alpha, 9);
        v.push(format!("c17 coord {}", hex(&s)));
    }
    for s in [
        "", "$", "$$A1", "A$", "$1", "AAAA1", "A4294967295", "A4294967296", "A99999999999999999999", "A007", "A0", "a1",
        "1A", "$A$", "A$1$", "XFD1048576", "ZZZ1", "é1", "A1:B2", "A１",
    ] {
        v.push(format!("c17 coord {}", hex(s)));
    }
    // range shapes
    let n_rng = if thorough { 100_000 } else { 15_000 };
    let bcols = [1u32, 2, 26, 27, 702, 703, 16383, 16384];
    let brows = [1u32, 2, 9, 10, 99, 100, 1048575, 1048576];
    for _ in 0..n_rng {
        let mut col = |rng: &mut Rng| {
            let n = if rng.chance(1, 2) { *rng.pick(&bcols) } else { rng.range(1, 16384) as u32 };
            format!("{}/{}", n, rng.below(2))
        };
        let c1 = col(&mut rng);
        let c2 = col(&mut rng);
        let mut row = |rng: &mut Rng| {
            let n = if rng.chance(1, 2) { *rng.pick(&brows) } else { rng.range(1, 1048576) as u32 };
            format!("{}/{}", n, rng.below(2))
        };
        let r1 = row(&mut rng);
        let r2 = row(&mut rng);
        let line = match rng.below(4) {
            0 => format!("c17 rangeprint {} {} - -", c1, r1),
            1 => format!("c17 rangeprint {} {} {} {}", c1, r1, c2, r2),
            2 => format!("c17 rangeprint - {} - {}", r1, r2),
            _ => format!("c17 rangeprint {} - {} -", c1, c2),
        };
        v.push(line);
    }
    let ralpha: Vec<char> = "$$AAZXFDaz01239:::!".chars().collect();
    for _ in 0..n_rng {
        let s = rand_string(&mut rng, &ralpha, 12);
        v.push(format!("c17 rangeparse {}", hex(&s)));
        v.push(format!("c17 points {}", hex(&s)));
    }
    for s in ["A1", "A1:B2", "1:5", "A:C", "$A$1:$XFD$1048576", "A1:B2:C3", "", ":", "A:", ":B", "a1:b2", "A1:5", "A:B2", "5:A"] {
        v.push(format!("c17 rangeparse {}", hex(s)));
        v.push(format!("c17 points {}", hex(s)));
    }
    // addresses
    let nalpha: Vec<char> = "AaZz09 _-.!!''\"\"&<>é日😀#@(),;=+$%".chars().collect();
    let n_addr = if thorough { 100_000 } else { 15_000 };
    let ranges = ["A1", "$A$1", "A1:B2", "$C$3:$XFD$1048576", "1:5", "A:C", "ZZ10"];
    for _ in 0..n_addr {
        let len = if rng.chance(1, 10) { 31 } else { rng.range(1, 8) };
        let mut name: String = (0..len).map(|_| *rng.pick(&nalpha)).collect();
        if rng.chance(1, 8) {
            name = (*rng.pick(&["A1", "XFD1", "Sheet1", "R1C1", "a", "1", "A", "'", "\"", "''", "\"x\"", "'x'", "a'b", "a!b", "x\""])).to_string();
        }
        let rg = *rng.pick(&ranges);
        match rng.below(4) {
            0 => v.push(format!("c17 join {} {}", hex(&name), hex(rg))),
            1 => v.push(format!("c17 addr 1 {} {}", hex(&name), hex(rg))),
            2 => v.push(format!("c17 addr 2 {} {}", hex(&name), hex(rg))),
            _ => {
                let q = if rng.chance(1, 2) { format!("'{}'", name) } else { name.clone() };
                v.push(format!("c17 split {}", hex(&format!("{}!{}", q, rg))));
            }
        }
    }
    for s in ["A1", "A1:B2", "sheet1!A1:B2", "'she!et1'!A1:B2", "'she\"et1'!A1:B2", "!", "!!", "'!'!", "\"\"!A1", "'\"'!x"] {
        v.push(format!("c17 split {}", hex(s)));
    }
    v.push(format!("c17 join - {}", hex("A1")));

    // ---- parse-then-print: canonical texts of every shape, near misses, arbitrary strings ----
    let n_pp = if thorough { 100_000 } else { 12_000 };
    let canon_col_txt = |rng: &mut Rng| {
        let n = match rng.below(4) {
            0 => *rng.pick(&[1u32, 26, 27, 702, 703, 16384, 16385, 18278]),
            _ => rng.range(1, 16384) as u32,
        };
        format!("{}{}", if rng.chance(1, 2) { "$" } else { "" }, own_alpha(n))
    };
    let canon_row_txt = |rng: &mut Rng| {
        let n = match rng.below(4) {
            0 => *rng.pick(&[0u64, 1, 9, 10, 1048576, 1048577, 4294967295]),
            _ => rng.range(1, 1048576),
        };
        format!("{}{}", if rng.chance(1, 2) { "$" } else { "" }, n)
    };
    let canon_cell_txt = |rng: &mut Rng| format!("{}{}", canon_col_txt(rng), canon_row_txt(rng));
    let canon_range_txt = |rng: &mut Rng| match rng.below(4) {
        0 => canon_cell_txt(rng),
        1 => format!("{}:{}", canon_cell_txt(rng), canon_cell_txt(rng)),
        2 => format!("{}:{}", canon_col_txt(rng), canon_col_txt(rng)),
        _ => format!("{}:{}", canon_row_txt(rng), canon_row_txt(rng)),
    };
    // a near miss: one edit of a canonical text
    let mutate = |rng: &mut Rng, t: &str| -> String {
        let cs: Vec<char> = t.chars().collect();
        let i = rng.below(cs.len() as u64 + 1) as usize;
        let ins: char = *rng.pick(&['0', '$', 'A', 'a', ':', '1', ' ', '!', '\'', 'Z', '9']);
        let mut v = cs.clone();
        match rng.below(3) {
            0 => v.insert(i, ins),
            1 if i < v.len() => {
                v.remove(i);
            }
            _ if i < v.len() => v[i] = ins,
            _ => v.push(ins),
        }
        v.into_iter().collect()
    };
    for _ in 0..n_pp {
        let t = canon_cell_txt(&mut rng);
        let t = if rng.chance(1, 4) { mutate(&mut rng, &t) } else { t };
        v.push(format!("c17 pp coord {}", hex(&t)));
        let t = canon_range_txt(&mut rng);
        let t = if rng.chance(1, 4) { mutate(&mut rng, &t) } else { t };
        v.push(format!("c17 pp range {}", hex(&t)));
    }
    for _ in 0..n_pp / 2 {
        let s = rand_string(&mut rng, &alpha, 9);
        v.push(format!("c17 pp coord {}", hex(&s)));
        let s = rand_string(&mut rng, &ralpha, 12);
        v.push(format!("c17 pp range {}", hex(&s)));
    }
    for s in [
        "A1", "A1B", "A01", "A0", "$A$1", "$XFD$1048576", "ZZZ4294967295", "ZZZ4294967296", "AAAA1", "a1", "A1 ", " A1", "A1:", "A$", "$1", "A", "1",
        "", "A1:B2", "A:C", "1:5", "$A:$XFD", "$1:$1048576", "A1:B", "A:B2", "A1:5", "a1:b2", "A1:B2:C3", ":", "A01:B2", "0:0", "A1:A1",
    ] {
        v.push(format!("c17 pp coord {}", hex(s)));
        v.push(format!("c17 pp range {}", hex(s)));
    }
    // qualified areas and name texts: qualifiers unquoted / quoted with doubling / badly quoted
    let spell = |rng: &mut Rng, name: &str| -> String {
        match rng.below(5) {
            0 | 1 => name.to_string(),
            2 | 3 => format!("'{}'", name.replace('\'', "''")),
            _ => format!("'{}'", name),
        }
    };
    let word_names = ["Sheet1", "sheet1", "Data", "data", "My_Sheet", "R1C1", "A1", "x1", "123", "99999999999", "T.1", "日本", "a", "Z", "It's", "a'b", "S 2", "a,b", "a(b)", "q\"r", "a!b", "'x", "x'"];
    let cell_ranges = ["A1", "$A$1", "A1:B2", "$C$3:$XFD$1048576", "ZZ10", "$A1:B$2", "A01", "a1", "A:C", "1:5", "A1:B2:C3", ""];
    for _ in 0..n_pp {
        let len = rng.range(1, 6);
        let name: String = if rng.chance(1, 2) { (*rng.pick(&word_names)).to_string() } else { (0..len).map(|_| *rng.pick(&nalpha)).collect() };
        let rg = if rng.chance(3, 4) { (*rng.pick(&cell_ranges[..6])).to_string() } else { (*rng.pick(&cell_ranges)).to_string() };
        let t = format!("{}!{}", spell(&mut rng, &name), rg);
        v.push(format!("c17 pp addr {}", hex(&t)));
        v.push(format!("c17 pp area {}", hex(&t)));
        {
            // all four range shapes, with and without a qualifier
            let shapes = ["A1", "$A$1", "A1:B2", "$C$3:$XFD$1048576", "A:C", "$A:$B", "1:5", "$1:$3", "XFD:XFD", "1048576:1048576", "A01", "a:c", "A1:B", ""];
            let rg2 = if rng.chance(5, 6) { (*rng.pick(&shapes[..10])).to_string() } else { (*rng.pick(&shapes)).to_string() };
            let t2 = if rng.chance(1, 3) { rg2 } else { format!("{}!{}", spell(&mut rng, &name), rg2) };
            v.push(format!("c17 pp total {}", hex(&t2)));
        }
        // a name text: 1-3 areas
        let k = rng.range(1, 3);
        let mut pieces = vec![t.clone()];
        for _ in 1..k {
            let nm = (*rng.pick(&word_names)).to_string();
            pieces.push(format!("{}!{}", spell(&mut rng, &nm), *rng.pick(&cell_ranges[..6])));
        }
        let g = pieces.iter().all(|p| canon_area(p));
        v.push(format!("c17 pp name {} {}", hex(&pieces.join(",")), if g { 1 } else { 0 }));
    }
    for _ in 0..n_pp / 4 {
        let s = rand_string(&mut rng, &nalpha, 10);
        v.push(format!("c17 pp addr {}", hex(&s)));
        v.push(format!("c17 pp area {}", hex(&format!("{}!A1", s))));
        v.push(format!("c17 pp name {} 0", hex(&s)));
    }
    for s in ["Sheet1!$A$1", "'Sheet1'!$A$1", "sheet1!$A$1", "'sheet1'!$A$1", "'It''s'!$A$1", "'It's'!$A$1", "99999999999!A1", "123!A1", "$A$1", "Sheet1!$A$01",
        "Sheet1!$A:$B", "''!A1", "!A1", "'!A1", "'a'b'!A1", "a!b!A1", "'a!b'!A1"] {
        v.push(format!("c17 pp addr {}", hex(s)));
        v.push(format!("c17 pp area {}", hex(s)));
        v.push(format!("c17 pp name {} {}", hex(s), if canon_area(s) { 1 } else { 0 }));
    }
    v.push(format!("c17 pp name {} 1", hex("Sheet1!$A$1:$B$2,'S 2'!C3,data!D4")));
    v.push(format!("c17 pp name {} 0", hex("SUM(Sheet1!A1:A2)")));
    v.push(format!("c17 pp name {} 0", hex("")));
    // join_address never quotes and never strips
    for (n, r) in [("'My Sheet'", "A1"), ("'a b'", "$A$1:$B$2"), ("My Sheet", "A1"), ("'x'", "A1")] {
        v.push(format!("c17 join {} {}", hex(n), hex(r)));
    }
    v
}

pub fn run(out: &mut Out, tier: Tier, seed: u64, replay: Option<Vec<String>>) {
    let ops = match replay {
        Some(r) => r,
        None => gen(tier, seed),
    };
    for op in ops {
        let kind = op.split(' ').nth(1).unwrap_or("?").to_string();
        out.begin(&op);
        let (reply, nt) = exec(out, &op);
        out.count(&format!("op.{}", kind));
        if reply == "panic" {
            out.count(&format!("panic.{}", kind));
        }
        out.end(&op, &reply, nt);
    }
}
