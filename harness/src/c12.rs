//! C12 — a saved file contains only content of the workbook being saved.
use crate::common::*;
use std::collections::BTreeSet;
use std::io::Cursor;
use umya_spreadsheet::structs::Spreadsheet;

pub struct Obj {
    pub book: Spreadsheet,
    /// per sheet: Some(expected texts in order) while the sheet is still raw (lazily opened)
    pub raw: Vec<Option<Vec<String>>>,
    /// the shared-string table of the file this object was read from
    pub loaded: Vec<String>,
}
pub struct State {
    pub objs: Vec<Option<Obj>>,
}
impl State {
    pub fn new() -> Self {
        State { objs: vec![Some(Obj { book: umya_spreadsheet::new_file(), raw: vec![None], loaded: vec![] }), None, None, None] }
    }
}

pub struct SavedView {
    pub sst: Vec<String>,
    pub count: String,
    pub unique: String,
    pub sheets: Vec<Vec<usize>>, // per sheet (by position): <v> of t="s" cells in document order
    pub stale_scan: Vec<String>, // every token-looking string found anywhere in the package
}

/// The text a token number stands for.  Ordinary tokens are `tK<n>`.  Tokens 900.. are "near-collision"
/// families of long texts of equal length that differ in a few characters only — at the very end behind a
/// 1100-character common head (900..909), at the very start before a common tail (910..919), in the
/// middle (920..929): an interning key that does not depend on the whole text merges them.
pub fn tok_text(n: usize) -> String {
    match n {
        900..=909 => format!("{}tK{}", "L".repeat(1100), n),
        910..=919 => format!("tK{}{}", n, "M".repeat(1100)),
        920..=929 => format!("{}tK{}{}", "A".repeat(700), n, "B".repeat(700)),
        _ => format!("tK{}", n),
    }
}

pub fn view_saved(buf: &[u8]) -> Result<SavedView, String> {
    let parts = unzip_all(buf)?;
    let mut sst = vec![];
    let mut count = "-".to_string();
    let mut unique = "-".to_string();
    let mut sheets: Vec<(u32, Vec<usize>)> = vec![];
    let mut tokens = BTreeSet::new();
    for (name, bytes) in &parts {
        let text = String::from_utf8_lossy(bytes);
        // tokens look like tK<digits>
        let mut rest: &str = &text;
        while let Some(i) = rest.find("tK") {
            let r = &rest[i + 2..];
            let n: String = r.chars().take_while(|c| c.is_ascii_digit()).collect();
            if !n.is_empty() {
                tokens.insert(tok_text(n.parse::<usize>().unwrap_or(0)));
            }
            rest = &rest[i + 2..];
        }
        if name == "xl/sharedStrings.xml" {
            if let Some(tag) = scan_between(&text, "<sst", ">").first() {
                count = attr_of(tag, "count").unwrap_or("-").to_string();
                unique = attr_of(tag, "uniqueCount").unwrap_or("-").to_string();
            }
            for si in scan_between(&text, "<si>", "</si>") {
                let t: Vec<&str> = scan_between(si, "<t>", "</t>");
                let t2: Vec<&str> = scan_between(si, "<t xml:space=\"preserve\">", "</t>");
                sst.push(format!("{}{}", t.concat(), t2.concat()));
            }
        }
        if let Some(n) = name.strip_prefix("xl/worksheets/sheet").and_then(|x| x.strip_suffix(".xml")) {
            if let Ok(no) = n.parse::<u32>() {
                let mut idx = vec![];
                for c in scan_between(&text, "<c ", "</c>") {
                    let tag_end = c.find('>').unwrap_or(0);
                    let tag = &c[..tag_end];
                    if format!(" {}", tag).contains(" t=\"s\"") {
                        if let Some(v) = scan_between(c, "<v>", "</v>").first() {
                            idx.push(v.parse::<usize>().unwrap_or(usize::MAX));
                        }
                    }
                }
                sheets.push((no, idx));
            }
        }
    }
    sheets.sort();
    Ok(SavedView { sst, count, unique, sheets: sheets.into_iter().map(|x| x.1).collect(), stale_scan: tokens.into_iter().collect() })
}

fn texts_of_sheet(o: &Obj, i: usize) -> Vec<String> {
    match &o.raw[i] {
        Some(v) => v.clone(),
        None => o
            .book
            .get_sheet(&i)
            .unwrap()
            .get_cell_collection_sorted()
            .iter()
            .filter(|c| c.get_data_type() == "s")
            .map(|c| c.get_value().to_string())
            .collect(),
    }
}

pub fn save_bytes(book: &Spreadsheet) -> Result<Vec<u8>, String> {
    let mut buf: Vec<u8> = Vec::new();
    umya_spreadsheet::writer::xlsx::write_writer(book, Cursor::new(&mut buf)).map_err(|e| format!("{:?}", e))?;
    Ok(buf)
}

pub fn exec(out: &mut Out, st: &mut State, line: &str) -> (String, bool) {
    let a: Vec<&str> = line.split(' ').collect();
    let n = |i: usize| -> usize { a[i].parse().unwrap() };
    match a[1] {
        "reset" => {
            *st = State::new();
            ("ok".into(), false)
        }
        "set" => {
            // set w s col row tok
            let (w, s) = (n(2), n(3));
            let r = guard(|| {
                let o = st.objs[w].as_mut().unwrap();
                o.book.get_sheet_mut(&s).unwrap().get_cell_mut((n(4) as u32, n(5) as u32)).set_value_string(tok_text(n(6)));
                o.raw[s] = None;
            });
            (if r.is_ok() { "ok" } else { "panic" }.into(), r.is_ok())
        }
        "del" => {
            let (w, s) = (n(2), n(3));
            let r = guard(|| {
                let o = st.objs[w].as_mut().unwrap();
                o.book.get_sheet_mut(&s).unwrap().remove_cell((n(4) as u32, n(5) as u32));
                o.raw[s] = None;
            });
            (if r.is_ok() { "ok" } else { "panic" }.into(), r.is_ok())
        }
        "remrow" => {
            let (w, s) = (n(2), n(3));
            let r = guard(|| {
                let o = st.objs[w].as_mut().unwrap();
                o.book.get_sheet_mut(&s).unwrap().remove_row(&(n(4) as u32), &(n(5) as u32));
                o.raw[s] = None;
            });
            (if r.is_ok() { "ok" } else { "panic" }.into(), r.is_ok())
        }
        "addsheet" => {
            let w = n(2);
            let r = guard(|| {
                let o = st.objs[w].as_mut().unwrap();
                let name = format!("N{}", o.raw.len() + n(3));
                if o.book.new_sheet(name).is_ok() {
                    o.raw.push(None);
                }
            });
            (if r.is_ok() { "ok" } else { "panic" }.into(), r.is_ok())
        }
        "rmsheet" => {
            let (w, s) = (n(2), n(3));
            let r = guard(|| {
                let o = st.objs[w].as_mut().unwrap();
                if o.raw.len() > 1 && s < o.raw.len() && o.book.remove_sheet(s).is_ok() {
                    o.raw.remove(s);
                }
            });
            (if r.is_ok() { "ok" } else { "panic" }.into(), r.is_ok())
        }
        "clone" => {
            let (w, w2) = (n(2), n(3));
            let r = guard(|| {
                let o = st.objs[w].as_ref().unwrap();
                Obj { book: o.book.clone(), raw: o.raw.clone(), loaded: o.loaded.clone() }
            });
            match r {
                Ok(o) => {
                    st.objs[w2] = Some(o);
                    ("ok".into(), true)
                }
                Err(_) => ("panic".into(), false),
            }
        }
        "diesave" => {
            // a save that does not run to its end: a copy of the workbook gets a chart whose series live on a sheet
            // that is removed again; the writer panics while it makes the chart part, AFTER the sheet parts (and
            // their strings) were processed.  The workbook itself is untouched.  What the next saves on this thread
            // write must not depend on it (C12: nothing registered by an earlier save appears).
            let w = n(2);
            let died = {
                let o = st.objs[w].as_ref().unwrap();
                let r = guard(|| {
                    use umya_spreadsheet::structs::drawing::spreadsheet::MarkerType;
                    use umya_spreadsheet::structs::{Chart, ChartType};
                    let mut book = o.book.clone();
                    book.read_sheet_collection();
                    let name = "DiesaveData";
                    if book.new_sheet(name).is_err() {
                        return true;
                    }
                    book.get_sheet_by_name_mut(name).unwrap().get_cell_mut((1u32, 1u32)).set_value_number(1);
                    let (mut from, mut to) = (MarkerType::default(), MarkerType::default());
                    from.set_coordinate("C1");
                    to.set_coordinate("H12");
                    let mut chart = Chart::default();
                    chart.new_chart(ChartType::LineChart, from, to, vec!["DiesaveData!$A$1:$A$1"]);
                    book.get_sheet_mut(&0).unwrap().add_chart(chart);
                    book.remove_sheet_by_name(name).unwrap();
                    let mut cur = std::io::Cursor::new(Vec::new());
                    umya_spreadsheet::writer::xlsx::write_writer(&book, &mut cur).is_ok()
                });
                !matches!(r, Ok(true))
            };
            out.count(if died { "diesave.died" } else { "diesave.completed" });
            (format!("ok ## {}", if died { "died" } else { "completed" }), true)
        }
        "touch" => {
            // materialise a raw sheet
            let (w, s) = (n(2), n(3));
            let r = guard(|| {
                let o = st.objs[w].as_mut().unwrap();
                o.book.get_sheet_mut(&s).unwrap();
                o.raw[s] = None;
            });
            (if r.is_ok() { "ok" } else { "panic" }.into(), r.is_ok())
        }
        "save" | "reload" | "lazyreload" => {
            // the request line carries the description of the book (added by the generator's second pass:
            // see `run`), so that the model can predict the output
            let w = n(2);
            let o = st.objs[w].as_ref().unwrap();
            let has_raw = o.raw.iter().any(|x| x.is_some());
            let want_sheets: Vec<Vec<String>> = (0..o.raw.len()).map(|i| texts_of_sheet(o, i)).collect();
            let res = guard(|| save_bytes(&o.book).and_then(|b| view_saved(&b).map(|v| (b, v))));
            let (bytes, v) = match res {
                Ok(Ok(x)) => x,
                _ => {
                    out.oracle_fail(Fail::new("save-failed").with("op", line));
                    return ("panic".into(), false);
                }
            };
            // ---- oracle on the implementation
            let reach: BTreeSet<String> = want_sheets.iter().flatten().cloned().collect();
            let sst_set: BTreeSet<String> = v.sst.iter().cloned().collect();
            let mut problems = vec![];
            if sst_set.len() != v.sst.len() {
                problems.push("duplicate entries in the shared-string part".to_string());
            }
            let allowed: BTreeSet<String> = if has_raw { reach.union(&o.loaded.iter().cloned().collect()).cloned().collect() } else { reach.clone() };
            for t in &v.stale_scan {
                if !allowed.contains(t) {
                    problems.push(format!("string {} is in the package but not reachable from the workbook", t));
                }
            }
            for t in &reach {
                if !sst_set.contains(t) {
                    problems.push(format!("reachable string {} missing from the shared-string part", t));
                }
            }
            if v.sheets.len() != want_sheets.len() {
                problems.push(format!("{} sheet parts for {} sheets", v.sheets.len(), want_sheets.len()));
            } else {
                for (i, idx) in v.sheets.iter().enumerate() {
                    let got: Vec<String> = idx.iter().map(|k| v.sst.get(*k).cloned().unwrap_or("<out of range>".into())).collect();
                    if got != want_sheets[i] {
                        problems.push(format!("sheet {} decodes to {:?}, workbook holds {:?}", i, got, want_sheets[i]));
                    }
                }
            }
            // saving twice gives the same content
            match guard(|| save_bytes(&o.book).and_then(|b| view_saved(&b))) {
                Ok(Ok(v2)) => {
                    if v2.sst != v.sst || v2.sheets != v.sheets || v2.count != v.count {
                        problems.push("a second save of the unchanged workbook differs".to_string());
                    }
                }
                _ => problems.push("second save failed".to_string()),
            }
            if problems.is_empty() {
                out.oracle_ok();
            } else {
                out.oracle_fail(Fail::new("foreign-or-missing-text").with("op", line).with("detail", problems.join("; ")).with("has_raw", has_raw.to_string()));
            }
            let reply = format!(
                "sst={};count={};unique={};idx={}",
                v.sst.join(","),
                v.count,
                v.unique,
                v.sheets.iter().map(|s| s.iter().map(|k| k.to_string()).collect::<Vec<_>>().join(",")).collect::<Vec<_>>().join("|")
            );
            if a[1] != "save" {
                let lazy = a[1] == "lazyreload";
                match guard(|| umya_spreadsheet::reader::xlsx::read_reader(Cursor::new(bytes), !lazy)) {
                    Ok(Ok(book)) => {
                        let raw = if lazy { want_sheets.iter().map(|t| Some(t.clone())).collect() } else { vec![None; want_sheets.len()] };
                        st.objs[w] = Some(Obj { book, raw, loaded: v.sst.clone() });
                    }
                    _ => {
                        out.oracle_fail(Fail::new("reload-failed").with("op", line));
                        return ("panic".into(), false);
                    }
                }
            }
            (reply, true)
        }
        _ => ("bad-op".into(), false),
    }
}

/// description of object `w` for the model: `L=<loaded>;S=<sheet>|<sheet>` with sheet = `c:<texts>` or `r:<indices into loaded>`
fn describe(st: &State, w: usize) -> String {
    let o = st.objs[w].as_ref().unwrap();
    let sheets: Vec<String> = (0..o.raw.len())
        .map(|i| match &o.raw[i] {
            Some(t) => format!(
                "r:{}",
                t.iter().map(|x| o.loaded.iter().position(|y| y == x).map(|k| k.to_string()).unwrap_or("?".into())).collect::<Vec<_>>().join(",")
            ),
            None => format!("c:{}", texts_of_sheet(o, i).join(",")),
        })
        .collect();
    format!("L={};S={}", o.loaded.join(","), sheets.join("|"))
}

pub fn run(out: &mut Out, tier: Tier, seed: u64, replay: Option<Vec<String>>) {
    let mut st = State::new();
    let mut rng = Rng::new(seed ^ 0xC12);
    let histories = if tier == Tier::Thorough { 10_000 } else { 1_000 };
    // ops are generated on the fly because a request depends on the state (which objects exist,
    // how many sheets) and save requests carry the workbook description for the model
    let mut pending: Vec<String> = vec![];
    let mut replay_iter = replay.map(|r| r.into_iter());
    let mut h = 0;
    let mut left_in_case = 0u64;
    loop {
        let op: String = if let Some(it) = replay_iter.as_mut() {
            match it.next() {
                Some(l) => {
                    // strip a stale description: it is recomputed from the replayed state
                    let core: Vec<&str> = l.split(' ').take_while(|x| !x.starts_with("L=")).collect();
                    core.join(" ")
                }
                None => break,
            }
        } else if let Some(p) = pending.pop() {
            p
        } else {
            if left_in_case == 0 {
                if h == histories {
                    break;
                }
                h += 1;
                left_in_case = rng.range(3, 30);
                "c12 reset".to_string()
            } else {
                left_in_case -= 1;
                let live: Vec<usize> = (0..4).filter(|i| st.objs[*i].is_some()).collect();
                let w = *rng.pick(&live);
                let ns = st.objs[w].as_ref().unwrap().raw.len();
                let s = rng.below(ns as u64) as usize;
                match rng.below(100) {
                    0..=30 => format!("c12 set {} {} {} {} {}", w, s, rng.range(1, 3), rng.range(1, 4), rng.range(1, 12)),
                    // long texts that differ only at the end / start / middle (see `tok_text`)
                    31..=34 => format!("c12 set {} {} {} {} {}", w, s, rng.range(1, 3), rng.range(1, 4), 900 + 10 * rng.below(3) + rng.below(3)),
                    35..=44 => format!("c12 del {} {} {} {}", w, s, rng.range(1, 3), rng.range(1, 4)),
                    45..=49 => format!("c12 remrow {} {} {} {}", w, s, rng.range(1, 4), rng.range(1, 2)),
                    50..=54 => format!("c12 addsheet {} {}", w, rng.below(1000)),
                    55..=58 => format!("c12 rmsheet {} {}", w, s),
                    59..=66 => format!("c12 clone {} {}", w, rng.below(4)),
                    67..=84 => format!("c12 save {}", w),
                    85..=86 => format!("c12 diesave {}", w),
                    87..=91 => format!("c12 reload {}", w),
                    92..=96 => format!("c12 lazyreload {}", w),
                    _ => format!("c12 touch {} {}", w, s),
                }
            }
        };
        let a: Vec<&str> = op.split(' ').collect();
        let kind = a.get(1).unwrap_or(&"?").to_string();
        let full = if matches!(kind.as_str(), "save" | "reload" | "lazyreload") {
            let w: usize = a[2].parse().unwrap();
            if st.objs[w].is_none() {
                continue;
            }
            format!("{} {}", op, describe(&st, w))
        } else {
            if kind != "reset" {
                let w: usize = a[2].parse().unwrap_or(0);
                if st.objs.get(w).map(|x| x.is_none()).unwrap_or(true) {
                    continue;
                }
            }
            op.clone()
        };
        out.begin(&full);
        let (reply, nt) = exec(out, &mut st, &full);
        out.count(&format!("op.{}", kind));
        if reply == "panic" {
            out.count(&format!("panic.{}", kind));
        }
        out.end(&full, &reply, nt);
    }
}
