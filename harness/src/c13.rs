//! C13 — saving to a path is all-or-nothing under I/O failure; a failing caller-supplied sink
//! yields an error, not a panic.
//!
//! Request lines
//!   c13 sink <kind> <wb> <size> <chunk> <fail|-> <err|zero> <ncalls>
//!       kind = xlsx|light|csv|pw ; the sink accepts at most <chunk> bytes per write call
//!       (0 = everything) and fails every call with index >= <fail> (`err`: Err, `zero`: Ok(0)).
//!       reply  `<ok|err|panic> calls=<n> accepted=<bytes>`   (pw: `<ok|err|panic> ## calls=.. accepted=..`)
//!   c13 path <kind> <wb> <size> <oldn> <fault>
//!       kind = xlsx|light|csv|pw|pwlight|setpw ; fault = none|devfull|limit:<k>|stale:<k>|createfail|renamefail
//!       runs the save in a child process; reply `<ok|err|panic> dest=<old|new|other> tmp=<absent|left>`
//!   c13 kill <n> <seed>     n SIGKILLs at random instants (exploration only); reply `ok ## ...`
//!
//! SAFETY: a destination / temp name may be a symlink to /dev/full after a faulty run.  Nothing in
//! here opens a path without `symlink_metadata` saying "regular file" first, and then only with
//! O_NOFOLLOW and a bounded read.  Children run under RLIMIT_AS = 2 GiB with a timeout.
use crate::common::*;
use std::fs;
use std::io::{self, Cursor, Read, Seek, SeekFrom, Write};
use std::os::unix::fs::OpenOptionsExt;
use std::os::unix::process::CommandExt;
use std::path::{Path, PathBuf};
use std::process::{Command, Stdio};
use std::time::{Duration, Instant};
use umya_spreadsheet::structs::{CsvWriterOption, Spreadsheet};

const CHILD_AS_LIMIT: u64 = 2 << 30;
const CHILD_TIMEOUT: Duration = Duration::from_secs(60);
const MAX_READ: u64 = 8 << 20;
const PASSWORD: &str = "pw";

// ------------------------------------------------------------------------------------ workbooks

/// `small`: `new_file()` plus three cells (xlsx ≈ 5 KiB, below BufWriter's 8 KiB);
/// `big`: 2600 cells of pseudo-random text (xlsx ≈ 40 KiB, csv ≈ 45 KiB);
/// `empty`: `new_file()` untouched (csv output is empty).
pub fn workbook(wb: &str) -> Spreadsheet {
    let mut book = umya_spreadsheet::new_file();
    match wb {
        "small" => {
            let s = book.get_sheet_mut(&0).unwrap();
            s.get_cell_mut((1, 1)).set_value("alpha");
            s.get_cell_mut((2, 1)).set_value("12.5");
            s.get_cell_mut((1, 2)).set_value("x,y");
        }
        "big" | "big2" => {
            let mut rng = Rng::new(if wb == "big" { 0xC13 } else { 0xC14 });
            let s = book.get_sheet_mut(&0).unwrap();
            for r in 1..=260u32 {
                for c in 1..=10u32 {
                    let mut t = String::new();
                    for _ in 0..16 {
                        t.push(*rng.pick(b"abcdefghijklmnopqrstuvwxyzABCDEFGHIJKLMNOPQRSTUVWXYZ0123456789") as char);
                    }
                    s.get_cell_mut((c, r)).set_value(t);
                }
            }
        }
        _ => {}
    }
    book
}

/// Output of a fault-free save of a FRESH workbook `wb` (a second save of the same `Spreadsheet`
/// value need not produce the same bytes: the shared-string table is mutated by saving, see C12).
fn reference_bytes(kind: &str, wb: &str) -> Vec<u8> {
    let book = &workbook(wb);
    match kind {
        "light" | "pwlight" => {
            let mut v = Vec::new();
            umya_spreadsheet::writer::xlsx::write_writer_light(book, &mut v).unwrap();
            v
        }
        "csv" => {
            let mut c = Cursor::new(Vec::new());
            umya_spreadsheet::writer::csv::write_writer(book, &mut c, &CsvWriterOption::default()).unwrap();
            c.into_inner()
        }
        _ => {
            let mut v = Vec::new();
            umya_spreadsheet::writer::xlsx::write_writer(book, &mut v).unwrap();
            v
        }
    }
}

// ------------------------------------------------------------------------------------ failing sink

pub struct FailSink {
    inner: Cursor<Vec<u8>>,
    calls: u64,
    accepted: u64,
    chunk: usize,
    fail_at: Option<u64>,
    zero: bool,
}
impl FailSink {
    fn new(chunk: usize, fail_at: Option<u64>, zero: bool) -> Self {
        FailSink { inner: Cursor::new(Vec::new()), calls: 0, accepted: 0, chunk, fail_at, zero }
    }
}
impl Write for FailSink {
    fn write(&mut self, buf: &[u8]) -> io::Result<usize> {
        let i = self.calls;
        self.calls += 1;
        if let Some(f) = self.fail_at {
            if i >= f {
                return if self.zero { Ok(0) } else { Err(io::Error::new(io::ErrorKind::Other, "injected sink failure")) };
            }
        }
        let n = if self.chunk == 0 { buf.len() } else { buf.len().min(self.chunk) };
        let n = self.inner.write(&buf[..n])?;
        self.accepted += n as u64;
        Ok(n)
    }
    fn flush(&mut self) -> io::Result<()> {
        Ok(())
    }
}
impl Read for FailSink {
    fn read(&mut self, buf: &mut [u8]) -> io::Result<usize> {
        self.inner.read(buf)
    }
}
impl Seek for FailSink {
    fn seek(&mut self, pos: SeekFrom) -> io::Result<u64> {
        self.inner.seek(pos)
    }
}

#[cfg(not(c13_pristine))]
fn encrypt_to_sink(sink: &mut FailSink, data: &[u8]) -> Result<(), ()> {
    umya_spreadsheet::helper::crypt::verif_encrypt_to(sink, data, PASSWORD).map_err(|_| ())
}
#[cfg(c13_pristine)]
fn encrypt_to_sink(_sink: &mut FailSink, _data: &[u8]) -> Result<(), ()> {
    Ok(())
}

/// (outcome, calls, accepted, bytes in the sink)
fn run_sink(kind: &str, wb: &str, chunk: usize, fail_at: Option<u64>, zero: bool) -> (String, u64, u64, Vec<u8>) {
    let mut sink = FailSink::new(chunk, fail_at, zero);
    let book = &workbook(wb);
    let r: Result<Result<(), ()>, ()> = guard(|| match kind {
        "xlsx" => umya_spreadsheet::writer::xlsx::write_writer(book, &mut sink).map_err(|_| ()),
        "light" => umya_spreadsheet::writer::xlsx::write_writer_light(book, &mut sink).map_err(|_| ()),
        "csv" => umya_spreadsheet::writer::csv::write_writer(book, &mut sink, &CsvWriterOption::default()).map_err(|_| ()),
        "pw" => {
            let data = reference_bytes("xlsx", wb);
            encrypt_to_sink(&mut sink, &data)
        }
        _ => Err(()),
    });
    let out = match r {
        Ok(Ok(())) => "ok",
        Ok(Err(())) => "err",
        Err(()) => "panic",
    };
    (out.to_string(), sink.calls, sink.accepted, sink.inner.into_inner())
}

/// structural completeness of an agile-encrypted compound file holding a package of `plain_len` bytes
fn cfb_complete(bytes: &[u8], plain_len: u64) -> Result<(), String> {
    let mut comp = cfb::CompoundFile::open(Cursor::new(bytes.to_vec())).map_err(|e| format!("cfb open: {}", e))?;
    let mut info = Vec::new();
    comp.open_stream("EncryptionInfo").map_err(|e| format!("EncryptionInfo: {}", e))?.read_to_end(&mut info).map_err(|e| e.to_string())?;
    if info.len() < 8 || !info.ends_with(b"</encryption>") {
        return Err(format!("EncryptionInfo incomplete ({} bytes)", info.len()));
    }
    let mut pkg = Vec::new();
    comp.open_stream("EncryptedPackage").map_err(|e| format!("EncryptedPackage: {}", e))?.read_to_end(&mut pkg).map_err(|e| e.to_string())?;
    if pkg.len() < 8 {
        return Err("EncryptedPackage shorter than its length prefix".into());
    }
    let l = u64::from_le_bytes(pkg[0..8].try_into().unwrap());
    let want = 8 + (plain_len + 15) / 16 * 16;
    if l != plain_len || pkg.len() as u64 != want {
        return Err(format!("EncryptedPackage prefix {} len {} (want prefix {} len {})", l, pkg.len(), plain_len, want));
    }
    Ok(())
}

// ------------------------------------------------------------------------------------ safe file observation

enum Seen {
    Absent,
    Symlink,
    Dir,
    File(Vec<u8>),
    Other(String),
}

/// Never follows a symlink; reads at most MAX_READ bytes of a regular file.
fn observe(p: &Path) -> Seen {
    match fs::symlink_metadata(p) {
        Err(_) => Seen::Absent,
        Ok(m) if m.file_type().is_symlink() => Seen::Symlink,
        Ok(m) if m.is_dir() => Seen::Dir,
        Ok(m) if m.is_file() => {
            if m.len() > MAX_READ {
                return Seen::Other(format!("huge:{}", m.len()));
            }
            match fs::OpenOptions::new().read(true).custom_flags(libc::O_NOFOLLOW | libc::O_NONBLOCK).open(p) {
                Ok(f) => {
                    let mut v = Vec::new();
                    match f.take(MAX_READ + 1).read_to_end(&mut v) {
                        Ok(_) => Seen::File(v),
                        Err(e) => Seen::Other(format!("read:{}", e)),
                    }
                }
                Err(e) => Seen::Other(format!("open:{}", e)),
            }
        }
        Ok(_) => Seen::Other("special".into()),
    }
}

/// remove whatever is at `p` without following symlinks
fn scrub(p: &Path) {
    if let Ok(m) = fs::symlink_metadata(p) {
        if m.is_dir() && !m.file_type().is_symlink() {
            let _ = fs::remove_dir_all(p);
        } else {
            let _ = fs::remove_file(p);
        }
    }
}

fn old_bytes(n: usize) -> Vec<u8> {
    (0..n).map(|i| b"OLD-content/"[i % 12]).collect()
}

// ------------------------------------------------------------------------------------ child process

fn set_rlimit(res: libc::__rlimit_resource_t, v: u64) {
    let r = libc::rlimit { rlim_cur: v as libc::rlim_t, rlim_max: v as libc::rlim_t };
    unsafe {
        libc::setrlimit(res, &r);
    }
}

fn save_call(kind: &str, book: &Spreadsheet, dest: &Path, from: &Path) -> Result<(), String> {
    use umya_spreadsheet::writer;
    let r = match kind {
        "xlsx" => writer::xlsx::write(book, dest),
        "light" => writer::xlsx::write_light(book, dest),
        "csv" => writer::csv::write(book, dest, None),
        "pw" => writer::xlsx::write_with_password(book, dest, PASSWORD),
        "pwlight" => writer::xlsx::write_with_password_light(book, dest, PASSWORD),
        "setpw" => writer::xlsx::set_password(from, dest, PASSWORD),
        _ => panic!("kind"),
    };
    r.map_err(|e| e.to_string())
}

/// `umya_harness c13 child 0 <dir> save <kind> <wb> <dest> <limit|-> <from|->`
/// `umya_harness c13 child 0 <dir> loop <kind> <wbA> <wbB> <dest>`
fn child_main(a: &[String]) -> ! {
    let stdout = io::stdout();
    match a[0].as_str() {
        "save" => {
            let (kind, wb, dest, limit, from) = (&a[1], &a[2], PathBuf::from(&a[3]), &a[4], PathBuf::from(&a[5]));
            let book = workbook(wb);
            unsafe {
                libc::signal(libc::SIGXFSZ, libc::SIG_IGN);
            }
            if let Ok(k) = limit.parse::<u64>() {
                set_rlimit(libc::RLIMIT_FSIZE, k);
            }
            let r = guard(|| save_call(kind, &book, &dest, &from));
            let s = match r {
                Ok(Ok(())) => "ok".to_string(),
                Ok(Err(e)) => format!("err {}", e.replace('\n', " ")),
                Err(()) => "panic".to_string(),
            };
            let _ = writeln!(stdout.lock(), "{}", s);
        }
        "loop" | "loopfresh" => {
            let (kind, dest) = (&a[1], PathBuf::from(&a[4]));
            let _ = writeln!(stdout.lock(), "ready");
            let _ = stdout.lock().flush();
            for i in 0..100000usize {
                // a fresh workbook each time: re-saving the same value is not byte-stable (C12)
                let book = workbook(&a[2 + i % 2]);
                if a[0] == "loopfresh" {
                    let _ = fs::remove_file(&dest);
                }
                let _ = guard(|| save_call(kind, &book, &dest, Path::new("-")));
            }
        }
        _ => {}
    }
    let _ = stdout.lock().flush();
    std::process::exit(0)
}

fn child_cmd(childdir: &Path, args: &[String]) -> Command {
    let exe = std::env::current_exe().unwrap();
    let mut cmd = Command::new(exe);
    cmd.arg("c13").arg("child").arg("0").arg(childdir);
    cmd.args(args);
    cmd.stdin(Stdio::null()).stdout(Stdio::piped()).stderr(Stdio::null());
    unsafe {
        cmd.pre_exec(|| {
            set_rlimit(libc::RLIMIT_AS, CHILD_AS_LIMIT);
            Ok(())
        });
    }
    cmd
}

/// Returns the child's first stdout line, or `timeout` / `crash:<status>`.
fn run_child(childdir: &Path, args: &[String]) -> String {
    let mut child = match child_cmd(childdir, args).spawn() {
        Ok(c) => c,
        Err(e) => return format!("spawn-failed:{}", e),
    };
    let t0 = Instant::now();
    loop {
        match child.try_wait() {
            Ok(Some(st)) => {
                let mut s = String::new();
                if let Some(mut o) = child.stdout.take() {
                    let _ = o.read_to_string(&mut s);
                }
                let line = s.lines().next().unwrap_or("").to_string();
                if line.is_empty() {
                    return format!("crash:{}", st);
                }
                return line;
            }
            Ok(None) => {
                if t0.elapsed() > CHILD_TIMEOUT {
                    let _ = child.kill();
                    let _ = child.wait();
                    return "timeout".into();
                }
                std::thread::sleep(Duration::from_micros(300));
            }
            Err(e) => return format!("wait-failed:{}", e),
        }
    }
}

// ------------------------------------------------------------------------------------ requests

fn ext_of(kind: &str) -> &'static str {
    if kind == "csv" {
        "csv"
    } else {
        "xlsx"
    }
}

/// final size of the file a fault-free save of this kind produces (the model's `size`)
fn fault_free_size(scratch: &Path, kind: &str, wb: &str) -> u64 {
    match kind {
        "xlsx" | "light" | "csv" => reference_bytes(kind, wb).len() as u64,
        _ => {
            let dir = scratch.join("ref");
            let _ = fs::create_dir_all(&dir);
            let dest = dir.join(format!("ref_{}_{}.xlsx", kind, wb));
            scrub(&dest);
            let from = dir.join(format!("from_{}.xlsx", wb));
            fs::write(&from, reference_bytes("xlsx", wb)).unwrap();
            let _ = save_call(kind, &workbook(wb), &dest, &from);
            let n = fs::symlink_metadata(&dest).map(|m| m.len()).unwrap_or(0);
            scrub(&dest);
            n
        }
    }
}

fn scratch_dir(out: &Out) -> PathBuf {
    let d = out.dir.join("scratch");
    let _ = fs::create_dir_all(&d);
    d
}

pub fn gen(out: &Out, tier: Tier, _seed: u64) -> Vec<String> {
    let scratch = scratch_dir(out);
    let thorough = tier == Tier::Thorough;
    let mut v = Vec::new();

    // ---- (a) caller-supplied sinks
    for kind in ["xlsx", "light", "csv", "pw"] {
        // light output is ~3x larger (stored, not deflated): `small` is already above the 8 KiB buffer
        let wbs: &[&str] = if kind == "pw" { &["small"] } else if kind == "light" { &["small", "empty"] } else { &["small", "big", "empty"] };
        for wb in wbs {
            let size = if kind == "pw" { 0 } else { reference_bytes(kind, wb).len() };
            // chunk 0 = the sink takes everything; small chunks only for small outputs (the model's cost is quadratic)
            let mut chunks: Vec<usize> = if kind == "pw" { vec![0, 300] } else { vec![0, 1000, 8192, 10000] };
            if kind != "pw" && size <= 9000 {
                chunks.push(100);
            }
            if kind != "pw" && size <= 64 {
                chunks.push(1);
            }
            for &chunk in chunks.iter() {
                let (_, ncalls, _, _) = run_sink(kind, wb, chunk, None, false);
                // every failing call index up to the number of calls of a fault-free save (+1 = no failure hit)
                // every index when the save makes few calls; otherwise evenly spaced indices plus the
                // boundaries (the model's cost per request is quadratic in the number of calls)
                let budget: u64 = if kind == "pw" {
                    if thorough { 1000 } else { 12 }
                } else if thorough {
                    160
                } else {
                    40
                };
                let stride = (ncalls / budget).max(1);
                let mut idx: Vec<u64> = (0..=ncalls + 1).step_by(stride as usize).collect();
                idx.extend([ncalls.saturating_sub(1), ncalls, ncalls + 1]);
                idx.sort();
                idx.dedup();
                for (n, i) in idx.into_iter().enumerate() {
                    for mode in ["err", "zero"] {
                        if kind == "pw" && mode == "zero" && n % 2 != 0 {
                            continue;
                        }
                        v.push(format!("c13 sink {} {} {} {} {} {} {}", kind, wb, size, chunk, i, mode, ncalls));
                    }
                }
                v.push(format!("c13 sink {} {} {} {} - err {}", kind, wb, size, chunk, ncalls));
            }
        }
    }

    // ---- (b) path saves in a child process
    for kind in ["xlsx", "light", "csv", "pw", "pwlight", "setpw"] {
        let slow = matches!(kind, "pw" | "pwlight" | "setpw");
        let wbs: &[&str] = if kind == "csv" { &["small", "big", "empty"] } else if (slow && kind != "pw") || kind == "light" { &["small"] } else { &["small", "big"] };
        for wb in wbs {
            let size = fault_free_size(&scratch, kind, wb);
            for (oldn, fault) in [(37, "none"), (70000, "none"), (37, "devfull"), (70000, "devfull"), (37, "createfail"), (37, "renamefail")] {
                if fault == "devfull" && size == 0 {
                    // an empty output makes no write call, so the /dev/full trick injects no fault
                    // (the save succeeds and the planted symlink itself is renamed over the destination)
                    continue;
                }
                v.push(format!("c13 path {} {} {} {} {}", kind, wb, size, oldn, fault));
            }
            // a destination that does not exist before the call: the data must still go to the temp name
            // (with the temp name symlinked to /dev/full the save fails and no file appears at the destination)
            for fault in ["none", "devfull", "createfail"] {
                if fault == "devfull" && size == 0 {
                    continue;
                }
                v.push(format!("c13 path {} {} {} absent {}", kind, wb, size, fault));
            }
            for k in [0u64, 1, size / 2, size.saturating_sub(1), size, size + 1] {
                v.push(format!("c13 path {} {} {} absent limit:{}", kind, wb, size, k));
            }
            // a regular file left at the temp name by an earlier save that was killed, longer or shorter than the
            // new output: the save must replace it entirely (File::create truncates), nothing of it may reach the
            // destination
            for k in [1u64, size + 1, 2 * size + 100_000] {
                v.push(format!("c13 path {} {} {} 37 stale:{}", kind, wb, size, k));
                v.push(format!("c13 path {} {} {} absent stale:{}", kind, wb, size, k));
            }
            // RLIMIT_FSIZE = k
            let step: u64 = if slow {
                if thorough { 512 } else { (size / 6).max(1) }
            } else if size < 8192 {
                if thorough { 1 } else if size < 1024 { 16 } else { 512 }
            } else if thorough {
                64
            } else {
                512
            };
            let mut ks: Vec<u64> = (0..=size / step + 1).map(|j| j * step).collect();
            for b in [1u64, 511, 512, 513, 4095, 4096, 4097, 8191, 8192, 8193, size.saturating_sub(1), size, size + 1] {
                if !slow || b + 1 >= size {
                    ks.push(b);
                }
            }
            ks.sort();
            ks.dedup();
            for k in ks {
                v.push(format!("c13 path {} {} {} {} limit:{}", kind, wb, size, 37, k));
            }
        }
    }

    // ---- (c) SIGKILL exploration
    v.push(format!("c13 kill {} {}", if thorough { 200 } else { 50 }, _seed));
    // ---- (d) an observer thread polling the destination during saves (fresh and existing destination)
    for kind in ["xlsx", "light", "csv"] {
        for mode in ["fresh", "existing"] {
            v.push(format!("c13 watch {} {} {}", kind, if thorough { 40 } else { 8 }, mode));
        }
    }
    v
}

fn parse_opt(s: &str) -> Option<u64> {
    s.parse().ok()
}

pub fn exec(out: &mut Out, line: &str) -> (String, bool) {
    let t: Vec<&str> = line.split(' ').collect();
    if t.len() < 2 || t[0] != "c13" {
        return ("bad-op".into(), false);
    }
    match t[1] {
        "sink" if t.len() == 9 => exec_sink(out, line, &t),
        "path" if t.len() == 7 => exec_path(out, line, &t),
        "kill" if t.len() == 4 => exec_kill(out, line, &t),
        "watch" if t.len() == 5 => exec_watch(out, line, &t),
        _ => ("bad-op".into(), false),
    }
}

fn exec_sink(out: &mut Out, line: &str, t: &[&str]) -> (String, bool) {
    let (kind, wb) = (t[2], t[3]);
    let chunk: usize = t[5].parse().unwrap_or(0);
    let fail_at = parse_opt(t[6]);
    let zero = t[7] == "zero";
    let (res, calls, accepted, bytes) = run_sink(kind, wb, chunk, fail_at, zero);
    out.count(&format!("sink.{}.{}", kind, res));
    out.count(&format!("sink.mode.{}{}", t[7], if chunk == 0 { "" } else { ".chunked" }));
    // oracle: never a panic; ok => the sink holds the complete output; err => a proper prefix of it
    if res == "panic" {
        out.oracle_fail(Fail::new("sink-panic").with("op", line).with("kind", kind));
    } else if kind == "pw" {
        let plain = reference_bytes("xlsx", wb).len() as u64;
        match (res.as_str(), cfb_complete(&bytes, plain)) {
            ("ok", Err(e)) => out.oracle_fail(Fail::new("sink-ok-incomplete").with("op", line).with("kind", kind).with("why", e)),
            _ => out.oracle_ok(),
        }
    } else {
        let reference = reference_bytes(kind, wb);
        if res == "ok" && bytes != reference {
            out.oracle_fail(Fail::new("sink-ok-incomplete").with("op", line).with("kind", kind).with("got", bytes.len().to_string()).with("want", reference.len().to_string()));
        } else if res == "err" && !(bytes.len() < reference.len() && reference.starts_with(&bytes)) {
            out.oracle_fail(Fail::new("sink-err-not-prefix").with("op", line).with("kind", kind));
        } else {
            out.oracle_ok();
        }
    }
    let reply = if kind == "pw" {
        format!("{} ## calls={} accepted={}", res, calls, accepted)
    } else {
        format!("{} calls={} accepted={}", res, calls, accepted)
    };
    (reply, res != "ok" || fail_at.is_none())
}

fn exec_path(out: &mut Out, line: &str, t: &[&str]) -> (String, bool) {
    let (kind, wb, fault) = (t[2], t[3], t[6]);
    let size: u64 = t[4].parse().unwrap_or(0);
    let fresh = t[5] == "absent"; // the destination does not exist before the call
    let oldn: usize = t[5].parse().unwrap_or(0);
    let scratch = scratch_dir(out);
    let dir = scratch.join("case");
    scrub(&dir);
    fs::create_dir_all(&dir).unwrap();
    let childdir = scratch.join("child");
    let dest = dir.join(format!("out.{}", ext_of(kind)));
    let tmp = dir.join(format!("out.{}tmp", ext_of(kind)));
    let from = dir.join("from.xlsx");
    let old = old_bytes(oldn);
    let plain = reference_bytes(if kind == "pwlight" { "light" } else if kind == "csv" { "csv" } else if kind == "light" { "light" } else { "xlsx" }, wb);
    if kind == "setpw" {
        fs::write(&from, &plain).unwrap();
    }
    // initial state
    let mut limit = "-".to_string();
    let mut dest_is_dir = false;
    match fault {
        "renamefail" => {
            fs::create_dir_all(dest.join("keep")).unwrap();
            fs::write(dest.join("keep").join("old"), &old).unwrap();
            dest_is_dir = true;
        }
        _ if fresh => {}
        _ => fs::write(&dest, &old).unwrap(),
    }
    match fault {
        "devfull" => std::os::unix::fs::symlink("/dev/full", &tmp).unwrap(),
        "createfail" => fs::create_dir_all(tmp.join("keep")).unwrap(),
        f if f.starts_with("stale:") => fs::write(&tmp, vec![0xEEu8; f[6..].parse::<usize>().unwrap_or(0)]).unwrap(),
        f if f.starts_with("limit:") => limit = f[6..].to_string(),
        _ => {}
    }
    let args: Vec<String> = vec!["save".into(), kind.into(), wb.into(), dest.to_string_lossy().into(), limit, from.to_string_lossy().into()];
    let res_line = run_child(&childdir, &args);
    let res = res_line.split(' ').next().unwrap_or("?").to_string();
    // observe (symlink_metadata first, bounded O_NOFOLLOW read of regular files only)
    let (dest_class, dest_detail) = if dest_is_dir {
        match observe(&dest.join("keep").join("old")) {
            Seen::File(b) if b == old => ("old", String::new()),
            _ => ("other", "directory content changed".to_string()),
        }
    } else {
        match observe(&dest) {
            Seen::Absent if fresh => ("old", String::new()),
            Seen::File(b) if b == old && !fresh => ("old", String::new()),
            Seen::File(b) => {
                let complete = match kind {
                    "pw" | "pwlight" | "setpw" => {
                        if b.len() as u64 != size {
                            Err(format!("file size {} != fault-free size {}", b.len(), size))
                        } else {
                            cfb_complete(&b, plain.len() as u64)
                        }
                    }
                    _ => {
                        if b == plain {
                            Ok(())
                        } else {
                            Err(format!("{} bytes, common prefix with the complete file {} of {}", b.len(), b.iter().zip(plain.iter()).take_while(|(x, y)| x == y).count(), plain.len()))
                        }
                    }
                };
                match complete {
                    Ok(()) => ("new", String::new()),
                    Err(e) => ("other", e),
                }
            }
            Seen::Absent => ("other", "absent".into()),
            Seen::Symlink => ("other", "symlink".into()),
            Seen::Dir => ("other", "dir".into()),
            Seen::Other(s) => ("other", s),
        }
    };
    let tmp_class = match observe(&tmp) {
        Seen::Absent => "absent",
        _ => "left",
    };
    scrub(&dest);
    scrub(&tmp);
    scrub(&dir);
    let fclass = fault.split(':').next().unwrap_or("?");
    out.count(&format!("path.{}.{}.{}", kind, fclass, res));
    if fresh {
        out.count(&format!("path.fresh-destination.{}", fclass));
    }
    out.count(&format!("path.dest.{}", dest_class));
    out.count(&format!("path.tmp.{}", tmp_class));
    if plain.len() < 8192 {
        out.count("path.data.below-8192");
    } else {
        out.count("path.data.above-8192");
    }
    // the property's own oracle
    let fail = |class: &str| Fail::new(class).with("op", line).with("kind", kind).with("fault", fclass).with("result", &res_line).with("dest", dest_class).with("detail", &dest_detail).with("tmp", tmp_class);
    match (res.as_str(), dest_class) {
        ("ok", "new") | ("err", "old") => {
            if res == "err" && tmp_class == "left" && fault != "createfail" {
                out.oracle_fail(fail("path-tmp-left-behind"));
            } else {
                out.oracle_ok();
            }
        }
        ("ok", _) => out.oracle_fail(fail("path-ok-but-dest-not-new")),
        ("err", _) => out.oracle_fail(fail("path-err-but-dest-changed")),
        ("panic", "old") => out.oracle_fail(fail("path-panic")),
        ("panic", _) => out.oracle_fail(fail("path-panic-dest-changed")),
        _ => out.oracle_fail(fail("path-child-abnormal")),
    }
    let detail = if dest_detail.is_empty() { String::new() } else { format!(" ## {}", dest_detail) };
    (format!("{} dest={} tmp={}{}", res, dest_class, tmp_class, detail), fault != "none")
}

fn exec_kill(out: &mut Out, line: &str, t: &[&str]) -> (String, bool) {
    let n: u64 = t[2].parse().unwrap_or(0);
    let seed: u64 = t[3].parse().unwrap_or(0);
    let mut rng = Rng::new(seed ^ 0xC13);
    let scratch = scratch_dir(out);
    let dir = scratch.join("kill");
    let childdir = scratch.join("child");
    let (mut n_old, mut n_a, mut n_b, mut n_tmp, mut n_bad, mut n_absent) = (0u64, 0u64, 0u64, 0u64, 0u64, 0u64);
    for j in 0..n {
        let kind = ["xlsx", "light", "csv"][(j % 3) as usize];
        scrub(&dir);
        fs::create_dir_all(&dir).unwrap();
        let dest = dir.join(format!("out.{}", ext_of(kind)));
        let tmp = dir.join(format!("out.{}tmp", ext_of(kind)));
        let old = old_bytes(37);
        // every other round: the destination does not exist, and the child removes it again before each save
        let fresh = (j / 3) % 2 == 1;
        if !fresh {
            fs::write(&dest, &old).unwrap();
        }
        let a = reference_bytes(kind, "big");
        let b = reference_bytes(kind, "big2");
        let args: Vec<String> = vec![if fresh { "loopfresh" } else { "loop" }.into(), kind.into(), "big".into(), "big2".into(), dest.to_string_lossy().into()];
        let mut child = match child_cmd(&childdir, &args).spawn() {
            Ok(c) => c,
            Err(_) => continue,
        };
        // wait for "ready", then kill after a random delay
        let mut so = child.stdout.take().unwrap();
        let mut buf = [0u8; 6];
        let _ = so.read_exact(&mut buf);
        let delay = rng.below(20_000);
        std::thread::sleep(Duration::from_micros(delay));
        unsafe {
            libc::kill(child.id() as i32, libc::SIGKILL);
        }
        let _ = child.wait();
        match observe(&dest) {
            Seen::Absent if fresh => n_absent += 1,
            Seen::File(x) if x == old && !fresh => n_old += 1,
            Seen::File(x) if x == a => n_a += 1,
            Seen::File(x) if x == b => n_b += 1,
            _ => {
                n_bad += 1;
                out.oracle_fail(Fail::new("kill-dest-neither-old-nor-new").with("op", line).with("kind", kind).with("delay_us", delay.to_string()).with("fresh", fresh.to_string()));
            }
        }
        if !matches!(observe(&tmp), Seen::Absent) {
            n_tmp += 1;
        }
        scrub(&dir);
    }
    if n_bad == 0 {
        out.oracle_ok();
    }
    out.count_n("kill.dest.old", n_old);
    out.count_n("kill.dest.absent(fresh)", n_absent);
    out.count_n("kill.dest.newA", n_a);
    out.count_n("kill.dest.newB", n_b);
    out.count_n("kill.tmp.left", n_tmp);
    out.notes.push(format!("SIGKILL exploration (not proof): {} kills, dest old {} / new {} / neither {}, temp left behind {}", n, n_old, n_a + n_b, n_bad, n_tmp));
    (format!("ok ## old={} absent={} new={} bad={} tmpleft={}", n_old, n_absent, n_a + n_b, n_bad, n_tmp), true)
}

/// `c13 watch <kind> <n> <fresh|existing>`: an observer thread reads the destination as fast as it can
/// while this thread saves `big` / `big2` alternately `n` times (fresh: the destination is removed before
/// every save).  Every observation must be: no file (fresh only), the old file (existing only), or one of
/// the two complete outputs.  Exploration of the observer clause on the real file system (the theorem is
/// C13_observer / C13_observer_fresh on the step-level model).
fn exec_watch(out: &mut Out, line: &str, t: &[&str]) -> (String, bool) {
    use std::sync::atomic::{AtomicBool, Ordering};
    use std::sync::Arc;
    let kind = t[2].to_string();
    let n: usize = t[3].parse().unwrap_or(0);
    let fresh = t[4] == "fresh";
    let scratch = scratch_dir(out);
    let dir = scratch.join("watch");
    scrub(&dir);
    fs::create_dir_all(&dir).unwrap();
    let dest = dir.join(format!("out.{}", ext_of(&kind)));
    let old = old_bytes(37);
    if !fresh {
        fs::write(&dest, &old).unwrap();
    }
    let a = reference_bytes(&kind, "big");
    let b = reference_bytes(&kind, "big2");
    let stop = Arc::new(AtomicBool::new(false));
    let (stop2, dest2, old2, a2, b2) = (stop.clone(), dest.clone(), old.clone(), a.clone(), b.clone());
    let watcher = std::thread::spawn(move || {
        // (observations, absent, old, new, bad, first bad description)
        let mut c = (0u64, 0u64, 0u64, 0u64, 0u64, String::new());
        while !stop2.load(Ordering::Relaxed) {
            c.0 += 1;
            match observe(&dest2) {
                Seen::Absent => c.1 += 1,
                Seen::File(x) if x == old2 => c.2 += 1,
                Seen::File(x) if x == a2 || x == b2 => c.3 += 1,
                // the file vanished between lstat and open (it was being replaced / removed): an absent observation
                Seen::Other(e) if e.starts_with("open:") && e.contains("No such file") => c.1 += 1,
                Seen::File(x) => {
                    c.4 += 1;
                    if c.5.is_empty() {
                        c.5 = format!("{} bytes, common prefix with a complete output {}", x.len(),
                            x.iter().zip(a2.iter()).take_while(|(p, q)| p == q).count().max(x.iter().zip(b2.iter()).take_while(|(p, q)| p == q).count()));
                    }
                }
                other => {
                    c.4 += 1;
                    if c.5.is_empty() {
                        c.5 = match other { Seen::Symlink => "symlink".into(), Seen::Dir => "dir".into(), Seen::Other(s) => s, _ => "?".into() };
                    }
                }
            }
        }
        c
    });
    let mut errs = 0u64;
    for i in 0..n {
        if fresh {
            let _ = fs::remove_file(&dest);
        }
        let book = workbook(if i % 2 == 0 { "big" } else { "big2" });
        if !matches!(guard(|| save_call(&kind, &book, &dest, Path::new("-"))), Ok(Ok(()))) {
            errs += 1;
        }
    }
    stop.store(true, Ordering::Relaxed);
    let c = watcher.join().unwrap_or((0, 0, 0, 0, 1, "watcher panicked".into()));
    scrub(&dir);
    out.count_n(&format!("watch.{}.observations", t[4]), c.0);
    out.count_n(&format!("watch.{}.absent", t[4]), c.1);
    out.count_n(&format!("watch.{}.old", t[4]), c.2);
    out.count_n(&format!("watch.{}.new", t[4]), c.3);
    if c.4 > 0 || errs > 0 || (!fresh && c.1 > 0) {
        let what = if c.4 > 0 { c.5.clone() } else if errs > 0 { format!("{} saves failed", errs) } else { "an existing destination was seen absent".to_string() };
        out.oracle_fail(Fail::new("watch-dest-neither-old-nor-new").with("op", line).with("kind", &kind).with("mode", t[4]).with("bad", c.4.to_string()).with("detail", &what));
    } else {
        out.oracle_ok();
    }
    (format!("ok ## observations={} absent={} old={} new={} bad={}", c.0, c.1, c.2, c.3, c.4), true)
}

pub fn run(out: &mut Out, tier: Tier, seed: u64, replay: Option<Vec<String>>) {
    // child mode: `umya_harness c13 child 0 <dir> <args…>` (the harness re-executes itself)
    let args: Vec<String> = std::env::args().collect();
    if args.len() > 5 && args[2] == "child" {
        child_main(&args[5..]);
    }
    out.flush_each = true;
    let ops = match replay {
        Some(r) => r,
        None => gen(out, tier, seed),
    };
    for op in ops {
        let kind = op.split(' ').nth(1).unwrap_or("?").to_string();
        out.begin(&op);
        let (reply, nt) = exec(out, &op);
        out.count(&format!("op.{}", kind));
        out.end(&op, &reply, nt);
    }
    let _ = fs::remove_dir_all(scratch_dir(out));
}
